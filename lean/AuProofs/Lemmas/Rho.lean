/-
  More about AuModel.Factoring: the rho step returns a divisor > 1 (gcd invariant), trial division
  returns the SMALLEST prime factor, find_prime_factor is unconditional below 541^2, and the
  factors collected by PrimeFactorization<N> multiply back to N.
-/
import AuProofs.Lemmas.Factoring
import AuProofs.Lemmas.NatMag
import Mathlib.Data.Nat.Prime.Basic
namespace Au
namespace U64

/-! ### Pollard's rho: the gcd invariant -/

theorem rhoInner_ne_one (n t : Nat) (fuel : Nat) : ∀ tort hare mcl cl factor : Nat,
    (rhoInner n t fuel tort hare mcl cl factor).stuck = false →
    (rhoInner n t fuel tort hare mcl cl factor).val ≠ 1 := by
  induction fuel with
  | zero =>
    intro tort hare mcl cl factor hs
    unfold rhoInner at hs ⊢
    split
    · rename_i h1
      rw [if_pos h1] at hs
      simp [W.outOfFuel] at hs
    · rename_i h1
      exact h1
  | succ f ih =>
    intro tort hare mcl cl factor hs
    unfold rhoInner at hs ⊢
    split
    · rename_i h1
      rw [if_pos h1] at hs
      simp only [] at hs ⊢
      split
      · rename_i hr
        rw [if_pos hr] at hs
        simp only [bind_stuck', bind_val', Bool.or_eq_false_iff] at hs ⊢
        have hs' := hs.2.2.2.2.2
        simp only [hr, ↓reduceIte] at hs' ⊢
        exact ih _ _ _ _ _ hs'
      · rename_i hr
        rw [if_neg hr] at hs
        simp only [bind_stuck', bind_val', Bool.or_eq_false_iff] at hs ⊢
        have hs' := hs.2.2.2.2.2
        simp only [hr] at hs' ⊢
        exact ih _ _ _ _ _ hs'
    · rename_i h1
      exact h1

/-- Every value the rho step returns within its fuel is a divisor `d` of `n` with `1 < d ≤ n`; it is
`< n` exactly when the step reports success (otherwise it is the "failure case" `n` itself). -/
theorem rhoOuter_spec (fu : Fuel) (n : Nat) (hn : 1 < n) (fuel : Nat) : ∀ t : Nat,
    (rhoOuter fu n fuel t).stuck = false →
    (rhoOuter fu n fuel t).val ∣ n ∧ 1 < (rhoOuter fu n fuel t).val ∧ (rhoOuter fu n fuel t).val ≤ n := by
  intro t hs
  have hd := rhoOuter_dvd fu n fuel t
  refine ⟨hd, ?_, Nat.le_of_dvd (by omega) hd⟩
  have hpos : 0 < (rhoOuter fu n fuel t).val := Nat.pos_of_dvd_of_pos hd (by omega)
  suffices h : (rhoOuter fu n fuel t).val ≠ 1 by omega
  clear hd hpos
  induction fuel generalizing t with
  | zero =>
    unfold rhoOuter at hs ⊢
    split
    · rename_i h1
      rw [if_pos h1] at hs
      simp [W.outOfFuel] at hs
    · show n ≠ 1
      omega
  | succ f ih =>
    unfold rhoOuter at hs ⊢
    split
    · rename_i h1
      rw [if_pos h1] at hs
      simp only [bind_stuck', bind_val', Bool.or_eq_false_iff] at hs ⊢
      split
      · exact rhoInner_ne_one _ _ _ _ _ _ _ _ hs.2.2.2.1
      · rename_i h2
        rw [if_neg h2] at hs
        simp only [bind_stuck', Bool.or_eq_false_iff] at hs
        exact ih _ hs.2.2.2.2.2
    · show n ≠ 1
      omega

theorem findPollardRhoFactor_spec (fu : Fuel) (n : Nat) (hn : 1 < n) (hs : (findPollardRhoFactor fu n).stuck = false) :
    (findPollardRhoFactor fu n).val ∣ n ∧ 1 < (findPollardRhoFactor fu n).val ∧ (findPollardRhoFactor fu n).val ≤ n :=
  rhoOuter_spec fu n hn _ _ hs

/-! ### Trial division: the smallest prime factor, with clean flags -/

theorem trialDivision_clean (n : Nat) : ∀ ps : List Nat, (∀ p ∈ ps, 0 < p) →
    trialDivision n ps = W.ok (trialDivision n ps).val := by
  intro ps
  induction ps with
  | nil => intro _; rfl
  | cons p ps ih =>
    intro hp
    have hp0 : 0 < p := hp p (by simp)
    unfold trialDivision
    rw [mod_ok hp0, ok_bind]
    split
    · rfl
    · split
      · rfl
      · exact ih (fun q hq => hp q (by simp [hq]))

/-- Whatever trial division returns is the smallest prime factor of `n`. -/
theorem trialDivision_minFac (n : Nat) (hn : 1 < n) : ∀ (ps : List Nat) (lo : Nat), nextPrimesB lo ps = true →
    (∀ q, Nat.Prime q → q ∣ n → lo ≤ q) → ∀ r, (trialDivision n ps).val = some r → r = Nat.minFac n := by
  intro ps
  induction ps with
  | nil => intro lo _ _ r h; simp [trialDivision, pure_eq_ok] at h
  | cons p ps ih =>
    intro lo hB hlo r h
    unfold nextPrimesB at hB
    simp only [Bool.and_eq_true, decide_eq_true_eq, List.all_eq_true, List.mem_range, Bool.or_eq_true,
      Bool.not_eq_true'] at hB
    obtain ⟨⟨⟨hp, hlop⟩, hgap⟩, hrest⟩ := hB
    have hpp : Nat.Prime p := (isPrimeNaive_iff p).1 hp
    have hge : ∀ q, Nat.Prime q → q ∣ n → p ≤ q := by
      intro q hq hd
      by_contra hlt
      have hqp : q < p := by omega
      rcases hgap q hqp with h' | h'
      · have := hlo q hq hd; omega
      · have := (isPrimeNaive_iff q).2 hq
        rw [this] at h'
        exact Bool.noConfusion h'
    have hmf : Nat.Prime n.minFac := Nat.minFac_prime (by omega)
    unfold trialDivision at h
    simp only [bind_val'] at h
    split at h
    · rename_i hdiv
      simp [pure_eq_ok] at h
      subst h
      have hd : p ∣ n := Nat.dvd_of_mod_eq_zero (by simpa [mod] using hdiv)
      have h1 := hge _ hmf (Nat.minFac_dvd n)
      have h2 := Nat.minFac_le_of_dvd hpp.two_le hd
      omega
    · rename_i hnd
      split at h
      · rename_i hsq
        simp [pure_eq_ok] at h
        subst h
        have hprime : Nat.Prime n := by
          by_contra hnp
          have h1 := Nat.minFac_sq_le_self (by omega : 0 < n) hnp
          have h2 := hge _ hmf (Nat.minFac_dvd n)
          have h3 : p * p ≤ n.minFac * n.minFac := Nat.mul_le_mul h2 h2
          have h4 : n.minFac ^ 2 = n.minFac * n.minFac := by ring
          have hsq' : p * p > n := hsq
          omega
        exact (Nat.Prime.minFac_eq hprime).symm
      · apply ih (p + 1) hrest _ r h
        intro q hq hd
        have h1 := hge q hq hd
        have : q ≠ p := by
          rintro rfl
          exact hnd (by simpa [mod] using Nat.mod_eq_zero_of_dvd hd)
        omega

/-- Trial division does not fall through when `n` is below the square of the table's last entry. -/
theorem trialDivision_some (n : Nat) : ∀ ps : List Nat, (∃ p ∈ ps, n < p * p) → (trialDivision n ps).val ≠ none := by
  intro ps
  induction ps with
  | nil => rintro ⟨p, hp, _⟩; simp at hp
  | cons p ps ih =>
    rintro ⟨q, hq, hlt⟩
    unfold trialDivision
    simp only [bind_val']
    split
    · simp [pure_eq_ok]
    · split
      · simp [pure_eq_ok]
      · rename_i h1 h2
        apply ih
        rcases List.mem_cons.1 hq with rfl | hq'
        · exact absurd hlt h2
        · exact ⟨q, hq', hlt⟩

/-- `find_prime_factor` is exact — value AND flags, for any fuel — whenever trial division decides. -/
theorem findPrimeFactor_small (fu : Fuel) (table : List Nat) (n : Nat) (hn : 1 < n) (htab : nextPrimesB 0 table = true)
    (hpos : ∀ p ∈ table, 0 < p) (hlast : ∃ p ∈ table, n < p * p) :
    findPrimeFactor fu table n = W.ok (Nat.minFac n) := by
  unfold findPrimeFactor
  rw [trialDivision_clean n table hpos, ok_bind]
  have hne := trialDivision_some n table hlast
  cases h : (trialDivision n table).val with
  | none => exact absurd h hne
  | some r =>
    simp only []
    rw [trialDivision_minFac n hn table 0 htab (fun _ _ _ => Nat.zero_le _) r h]
    rfl

/-! ### PrimeFactorization<N>: the collected factors multiply back to N -/

theorem multiplicityLoop_dvd (f N : Nat) (hN : N < M) (fuel : Nat) : ∀ m n : Nat, m + fuel ≤ N → f ^ m * n = N →
    f ^ (multiplicityLoop f fuel m n).val ∣ N := by
  induction fuel with
  | zero =>
    intro m n _ h
    unfold multiplicityLoop
    split <;> exact ⟨n, h.symm⟩
  | succ k ih =>
    intro m n hm h
    unfold multiplicityLoop
    split
    · rename_i hdiv
      simp only []
      rw [add_ok (by omega), ok_bind]
      simp only [bind_val']
      apply ih (m + 1) _ (by omega)
      show f ^ (m + 1) * (n / f) = N
      have : f * (n / f) = n := Nat.mul_div_cancel' (Nat.dvd_of_mod_eq_zero hdiv)
      rw [Nat.pow_succ, Nat.mul_assoc, this, h]
    · exact ⟨n, h.symm⟩

theorem multiplicity_dvd (f N : Nat) (hN : N < M) : f ^ (multiplicity f N).val ∣ N :=
  multiplicityLoop_dvd f N hN N 0 N (by omega) (by simp)

theorem intPowF_spec (b : Nat) (hb : 0 < b) (fuel : Nat) : ∀ e : Nat, e ≤ fuel → b ^ e < M →
    intPowF b fuel e = W.ok (b ^ e) := by
  induction fuel with
  | zero =>
    intro e he _
    have : e = 0 := by omega
    subst this
    unfold intPowF
    simp [pure_eq_ok]
  | succ k ih =>
    intro e he hlt
    unfold intPowF
    by_cases h0 : e = 0
    · subst h0; simp [pure_eq_ok]
    · rw [if_neg h0]
      simp only []
      have hmono : ∀ a c : Nat, a ≤ c → b ^ a ≤ b ^ c := fun a c h => Nat.pow_le_pow_right hb h
      by_cases hodd : e % 2 = 1
      · rw [if_pos hodd, ih (e - 1) (by omega) (Nat.lt_of_le_of_lt (hmono _ _ (by omega)) hlt), ok_bind]
        have : b * b ^ (e - 1) = b ^ e := by
          have he' : e = (e - 1) + 1 := by omega
          conv_rhs => rw [he', Nat.pow_succ]
          ring
        rw [mul_ok (by rw [this]; exact hlt), this]
      · rw [if_neg hodd, ih (e / 2) (by omega) (Nat.lt_of_le_of_lt (hmono _ _ (by omega)) hlt), ok_bind]
        have : b ^ (e / 2) * b ^ (e / 2) = b ^ e := by
          rw [← Nat.pow_add]
          congr 1
          omega
        rw [mul_ok (by rw [this]; exact hlt), this]

theorem magInsert_bases (b p : Nat) (m : NatMag) (P : Nat → Prop) (hb : P b) (hm : ∀ be ∈ m, P be.1) :
    ∀ be ∈ magInsert b p m, P be.1 := by
  induction m with
  | nil => intro be h; simp [magInsert] at h; subst h; exact hb
  | cons h t ih =>
    obtain ⟨b', e'⟩ := h
    unfold magInsert
    split
    · intro be hbe
      rcases List.mem_cons.1 hbe with rfl | h'
      · exact hb
      · exact hm be h'
    · split
      · intro be hbe
        rcases List.mem_cons.1 hbe with rfl | h'
        · exact hm _ (by simp)
        · exact ih (fun x hx => hm x (by simp [hx])) be h'
      · intro be hbe
        rcases List.mem_cons.1 hbe with rfl | h'
        · exact hm (b', e') (by simp)
        · exact hm be (by simp [h'])

/-- Whenever `PrimeFactorization<N>` produces a magnitude, its factors multiply back to `N` and every
base passed `Prime<base>`'s `static_assert(is_prime(base))`. -/
theorem primeFactorization_value (fu : Fuel) (table : List Nat) (fuel : Nat) : ∀ (N : Nat) (m : NatMag), N < M →
    (primeFactorization fu table fuel N).val = .mag m →
    NatMag.value m = N ∧ ∀ be ∈ m, (isPrime fu be.1).val = true ∧ be.1 ∣ N := by
  induction fuel with
  | zero =>
    intro N m _ h
    unfold primeFactorization at h
    split at h
    · rename_i h1
      simp [pure_eq_ok] at h
      subst h; subst h1
      simp [NatMag.value]
    · split at h
      · simp [pure_eq_ok] at h
      · simp [W.outOfFuel] at h
  | succ k ih =>
    intro N m hN h
    unfold primeFactorization at h
    split at h
    · rename_i h1
      simp [pure_eq_ok] at h
      subst h; subst h1
      simp [NatMag.value]
    · split at h
      · simp [pure_eq_ok] at h
      · rename_i h1 h0
        simp only [bind_val'] at h
        split at h
        · simp [pure_eq_ok] at h
        · rename_i hok
          simp only [bind_val'] at h
          split at h
          · rename_i m' hm'
            simp [pure_eq_ok] at h
            subst h
            have hNpos : 0 < N := by omega
            have hbd := findPrimeFactor_dvd fu table N
            have hbpos : 0 < (findPrimeFactor fu table N).val := Nat.pos_of_dvd_of_pos hbd hNpos
            have hpd := multiplicity_dvd (findPrimeFactor fu table N).val N hN
            have hple : (findPrimeFactor fu table N).val ^ (multiplicity (findPrimeFactor fu table N).val N).val ≤ N :=
              Nat.le_of_dvd hNpos hpd
            have hip : (intPow (findPrimeFactor fu table N).val (multiplicity (findPrimeFactor fu table N).val N).val).val
                = (findPrimeFactor fu table N).val ^ (multiplicity (findPrimeFactor fu table N).val N).val := by
              unfold intPow
              rw [intPowF_spec _ hbpos _ _ (Nat.le_refl _) (by omega)]
            rw [hip] at hm'
            have hrem : (div N ((findPrimeFactor fu table N).val ^ (multiplicity (findPrimeFactor fu table N).val N).val)).val
                = N / ((findPrimeFactor fu table N).val ^ (multiplicity (findPrimeFactor fu table N).val N).val) := rfl
            rw [hrem] at hm'
            have hlt : N / ((findPrimeFactor fu table N).val ^ (multiplicity (findPrimeFactor fu table N).val N).val) < M :=
              Nat.lt_of_le_of_lt (Nat.div_le_self _ _) hN
            obtain ⟨hv, hb⟩ := ih _ m' hlt hm'
            refine ⟨?_, ?_⟩
            · rw [magInsert_value, hv]
              exact Nat.mul_div_cancel' hpd
            · apply magInsert_bases _ _ _ (fun b => (isPrime fu b).val = true ∧ b ∣ N)
              · exact ⟨by simpa using hok, hbd⟩
              · intro be hbe
                exact ⟨(hb be hbe).1, Nat.dvd_trans (hb be hbe).2 (Nat.div_dvd_of_dvd hpd)⟩
          · simp [pure_eq_ok] at h

end U64
end Au

/-
  Lemmas about the model of tools/bin/make-single-file (AuModel/SingleFile.lean), property C20.
  Core Lean only.  Sections: specification vocabulary (Edge, Reach, Reachable) · the stack
  discipline and termination of parse_files · what parse_files computes · the closed form of the
  dependency dictionary and one pass of sort_topologically · termination and result of
  sort_topologically · acyclicity (no cycle ⇒ well founded ⇒ sinks) · decidable checks ⇒ hypotheses
  · fuel monotonicity · divergence on a duplicated include line.
-/
import AuModel.SingleFile
set_option linter.unusedSimpArgs false
set_option linter.unusedVariables false
namespace Au
namespace SingleFile
open Relation

/-- `f` includes `h` (there is a line `#include "h"` in the existing file `f`). -/
def Edge (g : Graph) (f h : File) : Prop := ∃ l, g.lookup f = some l ∧ h ∈ l

/-- Reflexive-transitive closure of `Edge`. -/
inductive Reach (g : Graph) : File → File → Prop
  | refl (f : File) : Reach g f f
  | step {f h k : File} : Edge g f h → Reach g h k → Reach g f k

theorem Reach.trans {g : Graph} {a b c : File} (h1 : Reach g a b) (h2 : Reach g b c) : Reach g a c := by
  induction h1 with
  | refl => exact h2
  | step e _ ih => exact .step e (ih h2)

theorem Reach.tail {g : Graph} {a b c : File} (h1 : Reach g a b) (e : Edge g b c) : Reach g a c :=
  h1.trans (.step e (.refl c))

/-- The files the selection transitively needs. -/
def Reachable (g : Graph) (names : List File) (f : File) : Prop := ∃ s, s ∈ names ∧ Reach g s f

/-! ### dictSet -/

theorem mem_dictSet {files : List File} {f x : File} : x ∈ dictSet files f ↔ x ∈ files ∨ x = f := by
  unfold dictSet
  split
  · constructor
    · intro h; exact Or.inl h
    · rintro (h | h)
      · exact h
      · subst h; assumption
  · simp

theorem dictSet_nodup {files : List File} {f : File} (h : files.Nodup) : (dictSet files f).Nodup := by
  unfold dictSet
  split
  · exact h
  · rename_i hf
    exact List.nodup_append.2 ⟨h, by simp, by
      intro a ha b hb; simp at hb; subst hb; intro hab; subst hab; exact hf ha⟩

/-! ### `Above t f s`: `t` occurs in the stack `s` strictly above (before) every occurrence of `f`. -/

def Above (t f : File) : List File → Prop
  | [] => False
  | x :: s => x = t ∨ (x ≠ f ∧ Above t f s)

theorem Above.mem {t f : File} : ∀ {s : List File}, Above t f s → t ∈ s
  | [], h => h.elim
  | x :: s, h => by
    rcases h with h | ⟨_, h⟩
    · subst h; simp
    · exact List.mem_cons_of_mem _ (Above.mem h)

theorem above_append_of_mem {t f : File} : ∀ {A : List File} (B : List File), t ∈ A → f ∉ A → Above t f (A ++ B)
  | [], _, h, _ => by simp at h
  | x :: A, B, h, hf => by
    simp only [List.cons_append, Above]
    by_cases hx : x = t
    · exact Or.inl hx
    · right
      refine ⟨?_, above_append_of_mem B ?_ ?_⟩
      · intro e; apply hf; subst e; simp
      · rcases List.mem_cons.1 h with h | h
        · exact absurd h.symm hx
        · exact h
      · intro h'; exact hf (List.mem_cons_of_mem _ h')

theorem above_append_of_notMem {t f : File} : ∀ {A B : List File}, f ∉ A → Above t f B → Above t f (A ++ B)
  | [], _, _, h => h
  | x :: A, B, hf, h => by
    simp only [List.cons_append, Above]
    right
    refine ⟨?_, above_append_of_notMem ?_ h⟩
    · intro e; apply hf; subst e; simp
    · intro h'; exact hf (List.mem_cons_of_mem _ h')

/-- The stack discipline of `parse_files`: every include of an already parsed file is parsed
too, or is waiting on the stack above every pending copy of the includer. -/
def PInv (g : Graph) (files stack : List File) : Prop :=
  ∀ f, f ∈ files → ∀ t, Edge g f t → t ∈ files ∨ Above t f stack

theorem lookup_unique {g : Graph} {f : File} {l l' : List File} (h : g.lookup f = some l)
    (h' : g.lookup f = some l') : l = l' := by rw [h] at h'; exact Option.some.inj h'

theorem mem_pushed {files' incs : List File} {t : File} :
    t ∈ incs.filter (fun t => !(files'.contains t)) ↔ t ∈ incs ∧ t ∉ files' := by
  simp [List.mem_filter]

/-- One iteration of the `while` loop preserves the stack discipline. -/
theorem PInv_step {g : Graph} {files rest incs : List File} {x : File}
    (hl : g.lookup x = some incs) (inv : PInv g files (x :: rest)) :
    PInv g (dictSet files x)
      ((incs.filter (fun t => !((dictSet files x).contains t))).reverse ++ rest) := by
  intro f hf t het
  by_cases ht : t ∈ dictSet files x
  · exact Or.inl ht
  right
  by_cases hfx : f = x
  · subst hfx
    obtain ⟨l, hl', htl⟩ := het
    have := lookup_unique hl hl'; subst this
    apply above_append_of_mem
    · exact List.mem_reverse.2 (mem_pushed.2 ⟨htl, ht⟩)
    · intro h; have := (mem_pushed.1 (List.mem_reverse.1 h)).2; exact this hf
  · have hf' : f ∈ files := by
      rcases mem_dictSet.1 hf with h | h
      · exact h
      · exact absurd h hfx
    rcases inv f hf' t het with h | h
    · exact absurd (mem_dictSet.2 (Or.inl h)) ht
    · simp only [Above] at h
      rcases h with h | ⟨_, h⟩
      · exact absurd (mem_dictSet.2 (Or.inr h.symm)) ht
      · apply above_append_of_notMem _ h
        intro h'; have := (mem_pushed.1 (List.mem_reverse.1 h')).2; exact this hf

/-- When an already parsed file is popped again, nothing is pushed. -/
theorem pushed_nil_of_mem {g : Graph} {files rest incs : List File} {x : File}
    (hl : g.lookup x = some incs) (inv : PInv g files (x :: rest)) (hx : x ∈ files) :
    incs.filter (fun t => !((dictSet files x).contains t)) = [] := by
  apply List.filter_eq_nil_iff.2
  intro t ht
  have : t ∈ dictSet files x := by
    rcases inv x hx t ⟨incs, hl, ht⟩ with h | h
    · exact mem_dictSet.2 (Or.inl h)
    · simp only [Above] at h
      rcases h with h | ⟨h, _⟩
      · exact mem_dictSet.2 (Or.inr h.symm)
      · exact absurd rfl h
  simp [this]

/-- Every include target is an existing file. -/
def TargetsExist (g : Graph) : Prop := ∀ f h, Edge g f h → (g.lookup h).isSome = true

/-- Pending work of `parse_files`: the include lines of the files not parsed yet. -/
def W (g : Graph) (files : List File) : Nat :=
  ((g.filter (fun kl => !(files.contains kl.1))).map (fun kl => kl.2.length)).sum

theorem W_nil (g : Graph) : W g [] = edgeCount g := by
  unfold W edgeCount
  have : g.filter (fun kl => !(([] : List File).contains kl.1)) = g := List.filter_eq_self.2 (by simp)
  rw [this]

theorem W_mono (g : Graph) (files : List File) (x : File) : W g (files ++ [x]) ≤ W g files := by
  induction g with
  | nil => simp [W]
  | cons kl g ih =>
    unfold W at *
    simp only [List.filter_cons]
    by_cases h1 : kl.1 ∈ files
    · have h2 : kl.1 ∈ files ++ [x] := List.mem_append_left _ h1
      simp [h1, h2]; simpa using ih
    · by_cases h2 : kl.1 ∈ files ++ [x]
      · simp [h1, h2]
        have := ih; simp at this; omega
      · simp [h1, h2]
        have := ih; simp at this; omega

theorem W_step {g : Graph} {files l : List File} {x : File} (hl : g.lookup x = some l)
    (hx : x ∉ files) : W g (files ++ [x]) + l.length ≤ W g files := by
  induction g with
  | nil => simp [List.lookup] at hl
  | cons kl g ih =>
    obtain ⟨k, l0⟩ := kl
    by_cases hk : x = k
    · subst hk
      have : l0 = l := by simpa [List.lookup] using hl
      subst this
      have hm := W_mono g files x
      unfold W at *
      simp only [List.filter_cons]
      simp [hx]
      simp at hm; omega
    · have hl' : g.lookup x = some l := by
        have : (x == k) = false := by simpa using hk
        simpa [List.lookup, this] using hl
      have ih' := ih hl'
      unfold W at *
      simp only [List.filter_cons]
      by_cases h1 : k ∈ files
      · have h2 : k ∈ files ++ [x] := List.mem_append_left _ h1
        simp [h1, h2]; simpa using ih'
      · have h2 : k ∉ files ++ [x] := by
          simp; exact ⟨h1, fun e => hk e.symm⟩
        have hk' : ¬ k = x := fun e => hk e.symm
        simp [h1, hk']
        simp at ih'; omega

theorem parse_total_aux {g : Graph} (hT : TargetsExist g) :
    ∀ (fuel : Nat) (stack files : List File), PInv g files stack →
      (∀ s, s ∈ stack → (g.lookup s).isSome = true) → stack.length + W g files ≤ fuel →
      ∃ out, parseLoop g fuel stack files = .done out := by
  intro fuel
  induction fuel with
  | zero =>
    intro stack files _ _ hm
    cases stack with
    | nil => exact ⟨files, by simp [parseLoop]⟩
    | cons x rest => simp at hm
  | succ fuel ih =>
    intro stack files inv hex hm
    cases stack with
    | nil => exact ⟨files, by simp [parseLoop]⟩
    | cons x rest =>
      have hx := hex x (by simp)
      obtain ⟨incs, hl⟩ := Option.isSome_iff_exists.1 hx
      simp only [parseLoop, hl]
      apply ih
      · exact PInv_step hl inv
      · intro s hs
        rcases List.mem_append.1 hs with h | h
        · have := (mem_pushed.1 (List.mem_reverse.1 h)).1
          exact hT x s ⟨incs, hl, this⟩
        · exact hex s (List.mem_cons_of_mem _ h)
      · by_cases hxf : x ∈ files
        · rw [pushed_nil_of_mem hl inv hxf]
          have : dictSet files x = files := by simp [dictSet, hxf]
          rw [this]; simp at hm ⊢; omega
        · have hd : dictSet files x = files ++ [x] := by simp [dictSet, hxf]
          rw [hd]
          have h1 := W_step hl hxf
          have h2 : (incs.filter (fun t => !((files ++ [x]).contains t))).length ≤ incs.length :=
            List.length_filter_le _ _
          simp only [List.length_append, List.length_reverse, List.length_cons] at hm ⊢
          omega

theorem PInv_nil (g : Graph) (stack : List File) : PInv g [] stack := by
  intro f hf; simp at hf

/-- **Termination of `parse_files`**: on a graph whose include targets all exist, for every list
of existing names, `names.length + edgeCount g` iterations suffice. -/
theorem parse_total {g : Graph} (hT : TargetsExist g) (names : List File)
    (hN : ∀ s, s ∈ names → (g.lookup s).isSome = true) :
    ∃ out, parseFiles g names = .done out := by
  unfold parseFiles
  apply parse_total_aux hT _ _ _ (PInv_nil g _)
  · intro s hs; exact hN s (List.mem_reverse.1 hs)
  · simp [W_nil]

theorem parse_sound {g : Graph} : ∀ (fuel : Nat) (stack files out : List File),
    parseLoop g fuel stack files = .done out →
    ∀ f, f ∈ out → f ∈ files ∨ ∃ s, s ∈ stack ∧ Reach g s f := by
  intro fuel
  induction fuel with
  | zero =>
    intro stack files out h f hf
    cases stack with
    | nil => simp [parseLoop] at h; subst h; exact Or.inl hf
    | cons x rest => simp [parseLoop] at h
  | succ fuel ih =>
    intro stack files out h f hf
    cases stack with
    | nil => simp [parseLoop] at h; subst h; exact Or.inl hf
    | cons x rest =>
      simp only [parseLoop] at h
      cases hl : g.lookup x with
      | none => rw [hl] at h; simp at h
      | some incs =>
        rw [hl] at h
        rcases ih _ _ _ h f hf with h1 | ⟨s, hs, hr⟩
        · rcases mem_dictSet.1 h1 with h2 | h2
          · exact Or.inl h2
          · subst h2; exact Or.inr ⟨f, by simp, .refl f⟩
        · right
          rcases List.mem_append.1 hs with h2 | h2
          · have := (mem_pushed.1 (List.mem_reverse.1 h2)).1
            exact ⟨x, by simp, .step ⟨incs, hl, this⟩ hr⟩
          · exact ⟨s, List.mem_cons_of_mem _ h2, hr⟩

theorem parse_complete {g : Graph} : ∀ (fuel : Nat) (stack files out : List File),
    parseLoop g fuel stack files = .done out → PInv g files stack →
    (∀ f, f ∈ files → f ∈ out) ∧ (∀ s, s ∈ stack → s ∈ out) ∧
    (∀ f, f ∈ out → ∀ t, Edge g f t → t ∈ out) := by
  intro fuel
  induction fuel with
  | zero =>
    intro stack files out h inv
    cases stack with
    | nil =>
      simp [parseLoop] at h; subst h
      refine ⟨fun _ h => h, by simp, ?_⟩
      intro f hf t e
      rcases inv f hf t e with h | h
      · exact h
      · exact h.elim
    | cons x rest => simp [parseLoop] at h
  | succ fuel ih =>
    intro stack files out h inv
    cases stack with
    | nil =>
      simp [parseLoop] at h; subst h
      refine ⟨fun _ h => h, by simp, ?_⟩
      intro f hf t e
      rcases inv f hf t e with h | h
      · exact h
      · exact h.elim
    | cons x rest =>
      simp only [parseLoop] at h
      cases hl : g.lookup x with
      | none => rw [hl] at h; simp at h
      | some incs =>
        rw [hl] at h
        obtain ⟨h1, h2, h3⟩ := ih _ _ _ h (PInv_step hl inv)
        refine ⟨fun f hf => h1 f (mem_dictSet.2 (Or.inl hf)), ?_, h3⟩
        intro s hs
        rcases List.mem_cons.1 hs with e | hs
        · subst e; exact h1 s (mem_dictSet.2 (Or.inr rfl))
        · exact h2 s (List.mem_append_right _ hs)

theorem parse_nodup {g : Graph} : ∀ (fuel : Nat) (stack files out : List File),
    parseLoop g fuel stack files = .done out → files.Nodup → out.Nodup := by
  intro fuel
  induction fuel with
  | zero =>
    intro stack files out h hn
    cases stack with
    | nil => simp [parseLoop] at h; subst h; exact hn
    | cons x rest => simp [parseLoop] at h
  | succ fuel ih =>
    intro stack files out h hn
    cases stack with
    | nil => simp [parseLoop] at h; subst h; exact hn
    | cons x rest =>
      simp only [parseLoop] at h
      cases hl : g.lookup x with
      | none => rw [hl] at h; simp at h
      | some incs =>
        rw [hl] at h
        exact ih _ _ _ h (dictSet_nodup hn)

/-- **What `parse_files` computes** (any fuel): a duplicate-free list whose members are exactly the
files reachable from the given names through project includes. -/
theorem parse_spec {g : Graph} {fuel : Nat} {names out : List File}
    (h : parseLoop g fuel names.reverse [] = .done out) :
    out.Nodup ∧ ∀ f, f ∈ out ↔ Reachable g names f := by
  refine ⟨parse_nodup _ _ _ _ h List.nodup_nil, fun f => ⟨?_, ?_⟩⟩
  · intro hf
    rcases parse_sound _ _ _ _ h f hf with h1 | ⟨s, hs, hr⟩
    · simp at h1
    · exact ⟨s, List.mem_reverse.1 hs, hr⟩
  · rintro ⟨s, hs, hr⟩
    obtain ⟨_, h2, h3⟩ := parse_complete _ _ _ _ h (PInv_nil g _)
    have hs' : s ∈ out := h2 s (List.mem_reverse.2 hs)
    clear hs
    induction hr with
    | refl => exact hs'
    | step e _ ih => exact ih (h3 _ hs' _ e)

/-- `files[f].graph_includes` (empty for a file that does not exist; never used for those). -/
def incOf (g : Graph) (f : File) : List File := (g.lookup f).getD []

theorem edge_iff {g : Graph} {f h : File} : Edge g f h ↔ h ∈ incOf g f := by
  unfold Edge incOf
  cases hl : g.lookup f with
  | none => simp
  | some l => simp

/-- No file contains the same project include twice. -/
def IncNodup (g : Graph) : Prop := ∀ f l, g.lookup f = some l → l.Nodup

theorem incOf_nodup {g : Graph} (hN : IncNodup g) (f : File) : (incOf g f).Nodup := by
  unfold incOf
  cases hl : g.lookup f with
  | none => simp
  | some l => simpa using hN f l hl

/-- Acyclicity, witnessed by a rank that strictly decreases along every include. -/
def RankAcyclic (g : Graph) : Prop := ∃ rank : File → Nat, ∀ f h, Edge g f h → rank h < rank f

/-- Closed form of the dictionary `unvisited_deps`: keys `K`, and for each key its include list
with the files already emitted (`done`) removed. -/
def mkDeps (g : Graph) (K done : List File) : Deps :=
  K.map (fun k => (k, (incOf g k).filter (fun h => !(done.contains h))))

theorem initDeps_eq (g : Graph) (files : List File) : initDeps g files = mkDeps g files [] := by
  unfold initDeps mkDeps incOf
  apply List.map_congr_left
  intro k _
  congr 1
  exact (List.filter_eq_self.2 (by simp)).symm

theorem keys_mkDeps (g : Graph) (K done : List File) : (mkDeps g K done).map (·.1) = K := by
  unfold mkDeps; simp [List.map_map, Function.comp_def]

theorem lookup_mkDeps_mem (g : Graph) {K : List File} (done : List File) {k : File} (hk : k ∈ K) :
    (mkDeps g K done).lookup k = some ((incOf g k).filter (fun h => !(done.contains h))) := by
  induction K with
  | nil => simp at hk
  | cons a K ih =>
    unfold mkDeps
    simp only [List.map_cons, List.lookup]
    by_cases e : k = a
    · subst e; simp
    · have : (k == a) = false := by simpa using e
      simp only [this]
      rcases List.mem_cons.1 hk with h | h
      · exact absurd h e
      · exact ih h

theorem lookup_mkDeps_notMem (g : Graph) {K : List File} (done : List File) {k : File} (hk : k ∉ K) :
    (mkDeps g K done).lookup k = none := by
  induction K with
  | nil => simp [mkDeps]
  | cons a K ih =>
    unfold mkDeps
    simp only [List.map_cons, List.lookup]
    have e : ¬ k = a := fun e => hk (by simp [e])
    have : (k == a) = false := by simpa using e
    simp only [this]
    exact ih (fun h => hk (List.mem_cons_of_mem _ h))

theorem cleanAll_mkDeps {g : Graph} (hN : IncNodup g) (K done : List File) (f : File) :
    cleanAll (mkDeps g K done) f = mkDeps g K (done ++ [f]) := by
  unfold cleanAll mkDeps
  rw [List.map_map]
  apply List.map_congr_left
  intro k _
  simp only [Function.comp]
  congr 1
  have hn : ((incOf g k).filter (fun h => !(done.contains h))).Nodup := (incOf_nodup hN k).filter _
  rw [hn.erase_eq_filter, List.filter_filter]
  apply List.filter_congr
  intro x _
  by_cases h1 : x = f <;> by_cases h2 : x ∈ done <;> simp [h1, h2]
  
theorem popAll_mkDeps (g : Graph) (K done ext : List File) :
    popAll (mkDeps g K done) ext = mkDeps g (K.filter (fun k => !(ext.contains k))) done := by
  unfold popAll mkDeps
  rw [List.filter_map]
  rfl

/-- The emitted list so far is topologically sorted (built by appending a file only after all its
includes). -/
inductive Topo (g : Graph) : List File → Prop
  | nil : Topo g []
  | snoc {l : List File} {f : File} : Topo g l → (∀ h, h ∈ incOf g f → h ∈ l) → Topo g (l ++ [f])

theorem topo_split {g : Graph} {order : List File} (hT : Topo g order) :
    ∀ a f b, order = a ++ f :: b → ∀ h, h ∈ incOf g f → h ∈ a := by
  induction hT with
  | nil => intro a f b h; simp at h
  | @snoc l f0 _ hinc ih =>
    intro a f b h
    rcases List.eq_nil_or_concat b with hb | ⟨b', y, hb⟩
    · subst hb
      have := List.append_inj' (h : l ++ [f0] = a ++ [f]) rfl
      obtain ⟨h1, h2⟩ := this
      have h2 : f0 = f := by simpa using h2
      subst h1; subst h2
      exact hinc
    · subst hb
      have h' : l ++ [f0] = (a ++ f :: b') ++ [y] := by simpa using h
      obtain ⟨h1, _⟩ := List.append_inj' h' rfl
      exact ih a f b' h1

/-- One pass over the keys: which files are appended (`ext`), what the dictionary looks like
afterwards, and that every key whose includes were all emitted before the pass is appended. -/
theorem round_mkDeps {g : Graph} (hN : IncNodup g) (K : List File) :
    ∀ (ks done added : List File), Topo g done →
    ∃ ext, roundLoop ks (mkDeps g K done) added = (mkDeps g K (done ++ ext), added ++ ext) ∧
      ext.Sublist ks ∧ (∀ x, x ∈ ext → x ∈ K) ∧ Topo g (done ++ ext) ∧
      (∀ k, k ∈ ks → k ∈ K → (∀ h, h ∈ incOf g k → h ∈ done) → k ∈ ext) := by
  intro ks
  induction ks with
  | nil =>
    intro done added hT
    exact ⟨[], by simp [roundLoop], List.Sublist.refl _, by simp, by simpa using hT, by simp⟩
  | cons f ks ih =>
    intro done added hT
    by_cases hfK : f ∈ K
    · have hl := lookup_mkDeps_mem g done hfK
      cases hflt : (incOf g f).filter (fun h => !(done.contains h)) with
      | nil =>
        have hall : ∀ h, h ∈ incOf g f → h ∈ done := by
          intro h hh
          have := List.filter_eq_nil_iff.1 hflt h hh
          simpa using this
        have hT' : Topo g (done ++ [f]) := Topo.snoc hT hall
        obtain ⟨ext, h1, h2, h3, h4, h5⟩ := ih (done ++ [f]) (added ++ [f]) hT'
        refine ⟨f :: ext, ?_, ?_, ?_, ?_, ?_⟩
        · simp only [roundLoop, hl, hflt, cleanAll_mkDeps hN]
          rw [h1]; simp
        · exact h2.cons_cons f
        · intro x hx
          rcases List.mem_cons.1 hx with e | hx
          · subst e; exact hfK
          · exact h3 x hx
        · simpa using h4
        · intro k hk hkK hinc
          rcases List.mem_cons.1 hk with e | hk
          · subst e; simp
          · exact List.mem_cons_of_mem _ (h5 k hk hkK (fun h hh => List.mem_append_left _ (hinc h hh)))
      | cons y ys =>
        obtain ⟨ext, h1, h2, h3, h4, h5⟩ := ih done added hT
        refine ⟨ext, ?_, h2.cons f, h3, h4, ?_⟩
        · simp only [roundLoop, hl, hflt]
          exact h1
        · intro k hk hkK hinc
          rcases List.mem_cons.1 hk with e | hk
          · subst e
            have : y ∈ (incOf g k).filter (fun h => !(done.contains h)) := by rw [hflt]; simp
            have hy := List.mem_filter.1 this
            have := hinc y hy.1
            simp [this] at hy
          · exact h5 k hk hkK hinc
    · have hl := lookup_mkDeps_notMem g done hfK
      obtain ⟨ext, h1, h2, h3, h4, h5⟩ := ih done added hT
      refine ⟨ext, ?_, h2.cons f, h3, h4, ?_⟩
      · simp only [roundLoop, hl]
        exact h1
      · intro k hk hkK hinc
        rcases List.mem_cons.1 hk with e | hk
        · subst e; exact absurd hkK hfK
        · exact h5 k hk hkK hinc

theorem sortLoop_nil (fuel : Nat) (ready : List File) : sortLoop fuel [] ready = .done ready := by
  cases fuel <;> simp [sortLoop]

theorem sortLoop_succ (fuel : Nat) {d : Deps} (hd : d ≠ []) (ready : List File) :
    sortLoop (fuel + 1) d ready =
      sortLoop fuel (popAll (roundLoop (d.map (·.1)) d []).1 (roundLoop (d.map (·.1)) d []).2)
        (ready ++ (roundLoop (d.map (·.1)) d []).2) := by
  cases d with
  | nil => exact absurd rfl hd
  | cons kl rest => simp [sortLoop]

theorem exists_min_rank (rank : File → Nat) : ∀ (K : List File), K ≠ [] →
    ∃ k, k ∈ K ∧ ∀ k', k' ∈ K → rank k ≤ rank k' := by
  intro K
  induction K with
  | nil => intro h; exact absurd rfl h
  | cons a K ih =>
    intro _
    by_cases hK : K = []
    · subst hK; exact ⟨a, by simp, by simp⟩
    · obtain ⟨k, hk, hmin⟩ := ih hK
      by_cases hak : rank a ≤ rank k
      · refine ⟨a, by simp, ?_⟩
        intro k' hk'
        rcases List.mem_cons.1 hk' with e | hk'
        · subst e; exact Nat.le_refl _
        · exact Nat.le_trans hak (hmin k' hk')
      · refine ⟨k, List.mem_cons_of_mem _ hk, ?_⟩
        intro k' hk'
        rcases List.mem_cons.1 hk' with e | hk'
        · subst e; omega
        · exact hmin k' hk'

/-- Every non-empty set of files has a member none of whose includes lies in the set. -/
def HasSinks (g : Graph) : Prop :=
  ∀ K : List File, K ≠ [] → ∃ k, k ∈ K ∧ ∀ h, Edge g k h → h ∉ K

theorem hasSinks_of_rank {g : Graph} (hA : RankAcyclic g) : HasSinks g := by
  obtain ⟨rank, hrank⟩ := hA
  intro K hK
  obtain ⟨k, hk, hmin⟩ := exists_min_rank rank K hK
  refine ⟨k, hk, ?_⟩
  intro h e hh
  have := hmin h hh
  have := hrank k h e
  omega

theorem sort_aux {g : Graph} (hN : IncNodup g) (hA : HasSinks g) (files : List File)
    (hclosed : ∀ f, f ∈ files → ∀ h, h ∈ incOf g f → h ∈ files) :
    ∀ (fuel : Nat) (K ready : List File), K.Nodup → ready.Nodup → (∀ x, x ∈ ready → x ∉ K) →
      (∀ f, f ∈ files ↔ f ∈ ready ∨ f ∈ K) → Topo g ready → K.length ≤ fuel →
      ∃ order, sortLoop fuel (mkDeps g K ready) ready = .done order ∧ Topo g order ∧ order.Nodup ∧
        ∀ f, f ∈ order ↔ f ∈ files := by
  intro fuel
  induction fuel with
  | zero =>
    intro K ready _ hr _ hmem hT hlen
    have : K = [] := List.eq_nil_of_length_eq_zero (by omega)
    subst this
    exact ⟨ready, by simp [mkDeps, sortLoop], hT, hr, by intro f; simp [hmem f]⟩
  | succ fuel ih =>
    intro K ready hK hr hdisj hmem hT hlen
    by_cases hKn : K = []
    · subst hKn
      exact ⟨ready, by simp [mkDeps, sortLoop_nil], hT, hr, by intro f; simp [hmem f]⟩
    · have hd : mkDeps g K ready ≠ [] := by
        intro h; apply hKn
        have := congrArg (List.map (·.1)) h
        simpa [keys_mkDeps] using this
      rw [sortLoop_succ fuel hd, keys_mkDeps]
      obtain ⟨ext, h1, h2, h3, h4, h5⟩ := round_mkDeps hN K K ready [] hT
      rw [h1]
      simp only [List.nil_append]
      rw [popAll_mkDeps]
      have hextN : ext.Nodup := h2.nodup hK
      apply ih
      · exact hK.filter _
      · refine List.nodup_append.2 ⟨hr, hextN, ?_⟩
        intro a ha b hb e
        subst e
        exact hdisj a ha (h3 a hb)
      · intro x hx hxK
        have hxK' := List.mem_filter.1 hxK
        rcases List.mem_append.1 hx with h | h
        · exact hdisj x h hxK'.1
        · simp [h] at hxK'
      · intro f
        rw [hmem f]
        constructor
        · rintro (h | h)
          · exact Or.inl (List.mem_append_left _ h)
          · by_cases he : f ∈ ext
            · exact Or.inl (List.mem_append_right _ he)
            · exact Or.inr (List.mem_filter.2 ⟨h, by simp [he]⟩)
        · rintro (h | h)
          · rcases List.mem_append.1 h with h | h
            · exact Or.inl h
            · exact Or.inr (h3 f h)
          · exact Or.inr (List.mem_filter.1 h).1
      · exact h4
      · -- progress: the key of least rank has all its includes emitted already
        obtain ⟨k, hk, hsink⟩ := hA K hKn
        have hkext : k ∈ ext := by
          apply h5 k hk hk
          intro h hh
          have hf : k ∈ files := (hmem k).2 (Or.inr hk)
          rcases (hmem h).1 (hclosed k hf h hh) with h' | h'
          · exact h'
          · exact absurd h' (hsink h (edge_iff.2 hh))
        have : (K.filter (fun k => !(ext.contains k))).length < K.length :=
          List.length_filter_lt_length_iff_exists.2 ⟨k, hk, by simp [hkext]⟩
        omega

/-- **`sort_topologically` on a well-formed graph**: `files.length` rounds suffice, and the result
is a duplicate-free rearrangement of `files` in which every file comes after all its includes. -/
theorem sort_spec {g : Graph} (hN : IncNodup g) (hA : HasSinks g) {files : List File}
    (hF : files.Nodup) (hclosed : ∀ f, f ∈ files → ∀ h, h ∈ incOf g f → h ∈ files) :
    ∃ order, sortTopologically g files = .done order ∧ Topo g order ∧ order.Nodup ∧
      ∀ f, f ∈ order ↔ f ∈ files := by
  unfold sortTopologically
  rw [initDeps_eq]
  exact sort_aux hN hA files hclosed files.length files [] hF List.nodup_nil (by simp) (by simp)
    Topo.nil (Nat.le_refl _)

/-! ### Divergence -/

theorem round_ext : ∀ (ks : List File) (d : Deps) (added : List File),
    ∃ ext, (roundLoop ks d added).2 = added ++ ext ∧ (ext = [] → (roundLoop ks d added).1 = d) := by
  intro ks
  induction ks with
  | nil => intro d added; exact ⟨[], by simp [roundLoop], by simp [roundLoop]⟩
  | cons f ks ih =>
    intro d added
    cases hl : d.lookup f with
    | none =>
      obtain ⟨ext, h1, h2⟩ := ih d added
      exact ⟨ext, by simp only [roundLoop, hl]; exact h1, by simp only [roundLoop, hl]; exact h2⟩
    | some l =>
      cases l with
      | nil =>
        obtain ⟨ext, h1, _⟩ := ih (cleanAll d f) (added ++ [f])
        refine ⟨f :: ext, by simp only [roundLoop, hl]; rw [h1]; simp, by simp⟩
      | cons y ys =>
        obtain ⟨ext, h1, h2⟩ := ih d added
        exact ⟨ext, by simp only [roundLoop, hl]; exact h1, by simp only [roundLoop, hl]; exact h2⟩

/-- A round that appends nothing leaves the state unchanged: the `while` loop never exits. -/
theorem sort_stuck {d : Deps} (hd : d ≠ []) (hs : (roundLoop (d.map (·.1)) d []).2 = []) :
    ∀ (fuel : Nat) (ready : List File), sortLoop fuel d ready = .outOfFuel := by
  obtain ⟨ext, h1, h2⟩ := round_ext (d.map (·.1)) d []
  have hext : ext = [] := by rw [hs] at h1; simpa using h1.symm
  have hd' := h2 hext
  intro fuel
  induction fuel with
  | zero =>
    intro ready
    cases d with
    | nil => exact absurd rfl hd
    | cons kl rest => simp [sortLoop]
  | succ fuel ih =>
    intro ready
    rw [sortLoop_succ fuel hd, hs, hd']
    have : popAll d [] = d := by
      unfold popAll; exact List.filter_eq_self.2 (by simp)
    rw [this]; simpa using ih ready

/-- The include graph has no cycle (the usual definition: no file reaches itself through one or
more includes). -/
def NoCycle (g : Graph) : Prop := ∀ f, ¬ TransGen (Edge g) f f

theorem noCycle_of_rank {g : Graph} (hA : RankAcyclic g) : NoCycle g := by
  obtain ⟨rank, hrank⟩ := hA
  have key : ∀ a b, TransGen (Edge g) a b → rank b < rank a := by
    intro a b h
    induction h with
    | single e => exact hrank _ _ e
    | tail _ e ih => exact Nat.lt_trans (hrank _ _ e) ih
  intro f h
  exact Nat.lt_irrefl _ (key f f h)

theorem mem_keys_of_lookup {g : Graph} {f : File} {l : List File} (h : g.lookup f = some l) :
    f ∈ g.map (·.1) := by
  induction g with
  | nil => simp [List.lookup] at h
  | cons kl g ih =>
    obtain ⟨k, l0⟩ := kl
    by_cases e : f = k
    · subst e; simp
    · have : (f == k) = false := by simpa using e
      simp only [List.lookup, this] at h
      exact List.mem_cons_of_mem _ (ih h)

theorem mem_of_lookup {g : Graph} {f : File} {l : List File} (h : g.lookup f = some l) :
    (f, l) ∈ g := by
  induction g with
  | nil => simp [List.lookup] at h
  | cons kl g ih =>
    obtain ⟨k, l0⟩ := kl
    by_cases e : f = k
    · subst e
      have : l0 = l := by simpa [List.lookup] using h
      subst this; simp
    · have : (f == k) = false := by simpa using e
      simp only [List.lookup, this] at h
      exact List.mem_cons_of_mem _ (ih h)

/-- In a finite graph without cycles, "is included by" is well founded.  `P` is the path walked so
far; it cannot grow beyond the number of files. -/
theorem acc_of_noCycle {g : Graph} (hC : NoCycle g) :
    ∀ (n : Nat) (P : List File) (f : File), P.Nodup → (∀ p, p ∈ P → TransGen (Edge g) p f) →
      (∀ p, p ∈ P → p ∈ g.map (·.1)) → (g.map (·.1)).length ≤ P.length + n →
      Acc (fun h f => Edge g f h) f := by
  intro n
  induction n with
  | zero =>
    intro P f hP hanc hsub hlen
    refine Acc.intro f (fun h e => ?_)
    exfalso
    have hfP : f ∉ P := fun hf => hC f (hanc f hf)
    have hnd : (f :: P).Nodup := List.nodup_cons.2 ⟨hfP, hP⟩
    have hsub' : (f :: P) ⊆ g.map (·.1) := by
      intro p hp
      rcases List.mem_cons.1 hp with e' | hp
      · subst e'; obtain ⟨l, hl, _⟩ := e; exact mem_keys_of_lookup hl
      · exact hsub p hp
    have := hnd.length_le_of_subset hsub'
    simp only [List.length_cons] at this; omega
  | succ n ih =>
    intro P f hP hanc hsub hlen
    refine Acc.intro f (fun h e => ?_)
    have hfP : f ∉ P := fun hf => hC f (hanc f hf)
    apply ih (f :: P) h (List.nodup_cons.2 ⟨hfP, hP⟩)
    · intro p hp
      rcases List.mem_cons.1 hp with e' | hp
      · subst e'; exact .single e
      · exact .tail (hanc p hp) e
    · intro p hp
      rcases List.mem_cons.1 hp with e' | hp
      · subst e'; obtain ⟨l, hl, _⟩ := e; exact mem_keys_of_lookup hl
      · exact hsub p hp
    · simp only [List.length_cons]; omega

theorem wf_of_noCycle {g : Graph} (hC : NoCycle g) : WellFounded (fun h f => Edge g f h) :=
  ⟨fun f => acc_of_noCycle hC _ [] f List.nodup_nil (by simp) (by simp) (Nat.le_add_left _ _)⟩

/-- **Every finite graph without cycles has sinks in every non-empty set** — so the theorems below
hold for every finite acyclic include graph, not only for graphs given with a rank function. -/
theorem hasSinks_of_noCycle {g : Graph} (hC : NoCycle g) : HasSinks g := by
  intro K hK
  obtain ⟨k0, hk0⟩ := List.exists_mem_of_ne_nil K hK
  have : ∀ k, Acc (fun h f => Edge g f h) k → k ∈ K → ∃ s, s ∈ K ∧ ∀ h, Edge g s h → h ∉ K := by
    intro k hacc
    induction hacc with
    | intro k _ ih =>
      intro hk
      by_cases hex : ∃ h, Edge g k h ∧ h ∈ K
      · obtain ⟨h, e, hh⟩ := hex
        exact ih h e hh
      · exact ⟨k, hk, fun h e hh => hex ⟨h, e, hh⟩⟩
  exact this k0 ((wf_of_noCycle hC).apply k0) hk0

/-! ### From the decidable checks on a concrete graph to the hypotheses of the theorems -/

theorem targetsExist_of_check {g : Graph} (h : targetsExist g = true) : TargetsExist g := by
  intro f t ⟨l, hl, ht⟩
  unfold targetsExist at h
  have := List.all_eq_true.1 h _ (mem_of_lookup hl)
  exact List.all_eq_true.1 this t ht

theorem incNodup_of_check {g : Graph} (h : dupFree g = true) : IncNodup g := by
  intro f l hl
  unfold dupFree at h
  have := List.all_eq_true.1 h _ (mem_of_lookup hl)
  simpa using this

theorem rankAcyclic_of_check {g : Graph} (h : rankedById g = true) : RankAcyclic g := by
  refine ⟨id, ?_⟩
  intro f t ⟨l, hl, ht⟩
  unfold rankedById at h
  have := List.all_eq_true.1 h _ (mem_of_lookup hl)
  have := List.all_eq_true.1 this t ht
  simpa using this

/-! ### Fuel is only a proof device: more fuel never changes a finished run -/

theorem parseLoop_mono {g : Graph} : ∀ (fuel : Nat) (stack files out : List File),
    parseLoop g fuel stack files = .done out → ∀ fuel', fuel ≤ fuel' →
    parseLoop g fuel' stack files = .done out := by
  intro fuel
  induction fuel with
  | zero =>
    intro stack files out h fuel' _
    cases stack with
    | nil => cases fuel' <;> simpa [parseLoop] using h
    | cons x rest => simp [parseLoop] at h
  | succ fuel ih =>
    intro stack files out h fuel' hle
    cases stack with
    | nil => cases fuel' <;> simpa [parseLoop] using h
    | cons x rest =>
      obtain ⟨n, rfl⟩ : ∃ n, fuel' = n + 1 := ⟨fuel' - 1, by omega⟩
      simp only [parseLoop] at h ⊢
      cases hl : g.lookup x with
      | none => rw [hl] at h; simp at h
      | some incs =>
        rw [hl] at h
        simp only []
        exact ih _ _ _ h n (by omega)

theorem sortLoop_mono : ∀ (fuel : Nat) (d : Deps) (ready out : List File),
    sortLoop fuel d ready = .done out → ∀ fuel', fuel ≤ fuel' → sortLoop fuel' d ready = .done out := by
  intro fuel
  induction fuel with
  | zero =>
    intro d ready out h fuel' _
    cases d with
    | nil => rw [sortLoop_nil] at h ⊢; exact h
    | cons kl rest => simp [sortLoop] at h
  | succ fuel ih =>
    intro d ready out h fuel' hle
    cases d with
    | nil => rw [sortLoop_nil] at h ⊢; exact h
    | cons kl rest =>
      obtain ⟨n, rfl⟩ : ∃ n, fuel' = n + 1 := ⟨fuel' - 1, by omega⟩
      rw [sortLoop_succ _ (by simp)] at h ⊢
      exact ih _ _ _ h n (by omega)

/-! ### The script on a file that contains the same project include twice -/

/-- `1` contains `#include "0"` twice. -/
def dupGraph : Graph := [(0, []), (1, [0, 0])]

theorem dupGraph_parse : ∀ fuel, parseLoop dupGraph fuel [1] [] = .outOfFuel ∨
    parseLoop dupGraph fuel [1] [] = .done [1, 0] := by
  intro fuel
  rcases fuel with _ | _ | _ | fuel
  · left; decide
  · left; decide
  · left; decide
  · right
    simp [parseLoop, dupGraph, List.lookup, dictSet]

theorem dupGraph_sort : ∀ fuel, sortLoop fuel (initDeps dupGraph [1, 0]) [] = .outOfFuel := by
  intro fuel
  cases fuel with
  | zero => decide
  | succ fuel =>
    have h1 : initDeps dupGraph [1, 0] = [(1, [0, 0]), (0, [])] := by decide
    rw [h1, sortLoop_succ _ (by simp)]
    have h2 : roundLoop ([(1, [0, 0]), (0, [])].map (·.1)) [(1, [0, 0]), (0, [])] [] = ([(1, [0]), (0, [])], [0]) := by
      decide
    rw [h2]
    have h3 : popAll [(1, [0]), ((0 : File), ([] : List File))] [0] = [(1, [0])] := by decide
    rw [h3]
    exact sort_stuck (by simp) (by decide) fuel _

theorem dupGraph_diverges : ∀ f1 f2, ∀ order, orderWithFuel dupGraph [1] f1 f2 ≠ .done order := by
  intro f1 f2 order
  unfold orderWithFuel
  rcases dupGraph_parse f1 with h | h
  · simp [h]
  · simp only [List.reverse_cons, List.reverse_nil, List.nil_append, h, dupGraph_sort]
    simp

end SingleFile
end Au

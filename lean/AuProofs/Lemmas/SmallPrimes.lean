/-
  `is_prime n ↔ Nat.Prime n`, unconditionally, for every n below 2^16 — by kernel evaluation of the
  model of Baillie–PSW on every prime and every base-2 strong probable prime below the bound, and of
  the (proved exact) Miller–Rabin characterisation on every other odd number.
-/
import AuModel.Factoring
import AuProofs.Lemmas.Primes
import Mathlib.Data.Nat.Prime.Basic
import Mathlib.Data.Nat.Sqrt
namespace Au
namespace U64

/-- Trial division up to the square root — executable reference for `Nat.Prime`. -/
def sqrtLoop (n : Nat) : Nat → Nat → Bool
  | 0, _ => true
  | fuel + 1, d => if d * d > n then true else if n % d = 0 then false else sqrtLoop n fuel (d + 1)

def isPrimeSqrt (n : Nat) : Bool := decide (2 ≤ n) && sqrtLoop n n 2

theorem sqrtLoop_sound (n : Nat) (fuel : Nat) : ∀ d : Nat, sqrtLoop n fuel d = true →
    (∀ m, 2 ≤ m → m < d → ¬ m ∣ n) → n < (d + fuel) * (d + fuel) → ∀ m, 2 ≤ m → m * m ≤ n → ¬ m ∣ n := by
  induction fuel with
  | zero =>
    intro d _ hinv hlt m hm hmm
    apply hinv m hm
    by_contra hge
    have : d * d ≤ m * m := Nat.mul_le_mul (by omega) (by omega)
    simp at hlt
    omega
  | succ f ih =>
    intro d h hinv hlt m hm hmm
    unfold sqrtLoop at h
    split at h
    · rename_i hd
      apply hinv m hm
      by_contra hge
      have : d * d ≤ m * m := Nat.mul_le_mul (by omega) (by omega)
      omega
    · split at h
      · exact absurd h (by simp)
      · rename_i hnd
        apply ih (d + 1) h _ (by rw [show d + 1 + f = d + (f + 1) by omega]; exact hlt) m hm hmm
        intro m' hm' hlt'
        by_cases he : m' = d
        · subst he
          intro hdvd
          exact hnd (Nat.mod_eq_zero_of_dvd hdvd)
        · exact hinv m' hm' (by omega)

theorem sqrtLoop_complete (n : Nat) (hp : Nat.Prime n) (fuel : Nat) : ∀ d : Nat, 2 ≤ d → sqrtLoop n fuel d = true := by
  induction fuel with
  | zero => intro d _; rfl
  | succ f ih =>
    intro d hd
    unfold sqrtLoop
    split
    · rfl
    · rename_i hsq
      split
      · rename_i hdiv
        exfalso
        have hdvd : d ∣ n := Nat.dvd_of_mod_eq_zero hdiv
        rcases (Nat.dvd_prime hp).1 hdvd with h | h
        · omega
        · subst h
          have : d * 2 ≤ d * d := Nat.mul_le_mul_left d hd
          omega
      · exact ih (d + 1) (by omega)

theorem isPrimeSqrt_iff (n : Nat) : isPrimeSqrt n = true ↔ Nat.Prime n := by
  unfold isPrimeSqrt
  rw [Bool.and_eq_true, decide_eq_true_eq]
  constructor
  · rintro ⟨h2, h⟩
    rw [Nat.prime_def_le_sqrt]
    refine ⟨h2, fun m hm hle => ?_⟩
    have hmm : m * m ≤ n := Nat.le_sqrt.1 hle
    refine sqrtLoop_sound n n 2 h (fun m' h1 h2 => by omega) ?_ m hm hmm
    have : n < (2 + n) * (2 + n) := by nlinarith
    exact this
  · intro hp
    exact ⟨hp.two_le, sqrtLoop_complete n hp n 2 (by omega)⟩

/-- Base-2 strong probable primality, computed with `Nat.pow` on the model's `decompose (n - 1)`. -/
def sprp2B (n : Nat) : Bool :=
  let w := (decompose (n - 1)).val
  (2 ^ w.oddRemainder % n == 1) ||
    (List.range w.powerOfTwo).any (fun r => 2 ^ (2 ^ r * w.oddRemainder) % n == n - 1)

theorem not_sprp_of_sprp2B_false (n : Nat) (h5 : 5 ≤ n) (hn : n < M) (h : sprp2B n = false) :
    ¬ StrongProbablePrime 2 n := by
  obtain ⟨s, d, hdec, hsd, hodd, _⟩ := decompose_spec' (n := n - 1) (by omega) (by omega)
  rintro ⟨s', d', e1, e2, e3⟩
  obtain ⟨es, ed⟩ := two_pow_odd_unique (hsd.symm.trans e1) hodd e2
  subst es; subst ed
  unfold sprp2B at h
  rw [hdec] at h
  simp only [Bool.or_eq_false_iff, beq_eq_false_iff_ne, ne_eq, List.any_eq_false, List.mem_range, beq_iff_eq] at h
  rcases e3 with e3 | ⟨r, hr, he⟩
  · exact h.1 e3
  · exact h.2 r hr he

theorem isPrime_false_of_not_sprp (fu : Fuel) (n : Nat) (h5 : 5 ≤ n) (hodd : n % 2 = 1) (hn : n < M)
    (h : ¬ StrongProbablePrime 2 n) : isPrime fu n = W.ok false := by
  classical
  unfold isPrime bailliePSW
  rw [if_neg (by omega), if_neg (by omega), if_neg (by omega), millerRabin_spec' (by omega) (by omega) hodd hn, if_neg h,
    ok_bind, if_pos rfl]
  rfl

/-- One number: the model of `is_prime` (default fuel) agrees, flags included, with trial division. -/
def checkOne (n : Nat) : Bool :=
  if n < 5 ∨ n % 2 = 0 then isPrime {} n == W.ok (isPrimeSqrt n)
  else if sprp2B n then isPrime {} n == W.ok (isPrimeSqrt n)
  else !isPrimeSqrt n

theorem checkOne_spec (n : Nat) (hn : n < M) (h : checkOne n = true) : isPrime {} n = W.ok (isPrimeSqrt n) := by
  unfold checkOne at h
  split at h
  · exact eq_of_beq h
  · rename_i hc
    split at h
    · exact eq_of_beq h
    · rename_i hs
      have hs' : sprp2B n = false := by simpa using hs
      have hf : isPrimeSqrt n = false := by simpa using h
      rw [hf]
      exact isPrime_false_of_not_sprp {} n (by omega) (by omega) hn (not_sprp_of_sprp2B_false n (by omega) hn hs')

def checkRange : Nat → Nat → Bool
  | _, 0 => true
  | lo, len + 1 => checkOne lo && checkRange (lo + 1) len

theorem checkRange_spec (len : Nat) : ∀ lo : Nat, checkRange lo len = true → ∀ n, lo ≤ n → n < lo + len → checkOne n = true := by
  induction len with
  | zero => intro lo _ n h1 h2; omega
  | succ k ih =>
    intro lo h n h1 h2
    unfold checkRange at h
    rw [Bool.and_eq_true] at h
    by_cases he : n = lo
    · subst he; exact h.1
    · exact ih (lo + 1) h.2 n (by omega) (by omega)

end U64
end Au

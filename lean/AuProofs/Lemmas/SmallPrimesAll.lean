/- Assembly of the sixteen kernel-evaluated chunks: the model of `is_prime` is exact below 2^16. -/
import AuProofs.Lemmas.SmallPrimesCert0
import AuProofs.Lemmas.SmallPrimesCert1
import AuProofs.Lemmas.SmallPrimesCert2
import AuProofs.Lemmas.SmallPrimesCert3
namespace Au.U64

theorem checkOne_below_65536 (n : Nat) (h : n < 65536) : checkOne n = true := by
  by_cases h0 : n < 4096
  · exact checkRange_spec 4096 0 checkRange_0 n (by omega) (by omega)
  by_cases h1 : n < 8192
  · exact checkRange_spec 4096 4096 checkRange_4096 n (by omega) (by omega)
  by_cases h2 : n < 12288
  · exact checkRange_spec 4096 8192 checkRange_8192 n (by omega) (by omega)
  by_cases h3 : n < 16384
  · exact checkRange_spec 4096 12288 checkRange_12288 n (by omega) (by omega)
  by_cases h4 : n < 20480
  · exact checkRange_spec 4096 16384 checkRange_16384 n (by omega) (by omega)
  by_cases h5 : n < 24576
  · exact checkRange_spec 4096 20480 checkRange_20480 n (by omega) (by omega)
  by_cases h6 : n < 28672
  · exact checkRange_spec 4096 24576 checkRange_24576 n (by omega) (by omega)
  by_cases h7 : n < 32768
  · exact checkRange_spec 4096 28672 checkRange_28672 n (by omega) (by omega)
  by_cases h8 : n < 36864
  · exact checkRange_spec 4096 32768 checkRange_32768 n (by omega) (by omega)
  by_cases h9 : n < 40960
  · exact checkRange_spec 4096 36864 checkRange_36864 n (by omega) (by omega)
  by_cases h10 : n < 45056
  · exact checkRange_spec 4096 40960 checkRange_40960 n (by omega) (by omega)
  by_cases h11 : n < 49152
  · exact checkRange_spec 4096 45056 checkRange_45056 n (by omega) (by omega)
  by_cases h12 : n < 53248
  · exact checkRange_spec 4096 49152 checkRange_49152 n (by omega) (by omega)
  by_cases h13 : n < 57344
  · exact checkRange_spec 4096 53248 checkRange_53248 n (by omega) (by omega)
  by_cases h14 : n < 61440
  · exact checkRange_spec 4096 57344 checkRange_57344 n (by omega) (by omega)
  by_cases h15 : n < 65536
  · exact checkRange_spec 4096 61440 checkRange_61440 n (by omega) (by omega)
  omega

theorem isPrime_exact_below_65536 (n : Nat) (h : n < 65536) : isPrime {} n = W.ok (isPrimeSqrt n) :=
  checkOne_spec n (by have : (65536 : Nat) < M := by decide
                      omega) (checkOne_below_65536 n h)

end Au.U64

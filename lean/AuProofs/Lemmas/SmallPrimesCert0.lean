/- Kernel-evaluated certificate: checkRange on [0, 16384) in four chunks (decide +kernel). -/
import AuProofs.Lemmas.SmallPrimes
namespace Au.U64
set_option maxRecDepth 100000 in
theorem checkRange_0 : checkRange 0 4096 = true := by decide +kernel
set_option maxRecDepth 100000 in
theorem checkRange_4096 : checkRange 4096 4096 = true := by decide +kernel
set_option maxRecDepth 100000 in
theorem checkRange_8192 : checkRange 8192 4096 = true := by decide +kernel
set_option maxRecDepth 100000 in
theorem checkRange_12288 : checkRange 12288 4096 = true := by decide +kernel
end Au.U64

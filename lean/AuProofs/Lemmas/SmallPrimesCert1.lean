/- Kernel-evaluated certificate: checkRange on [16384, 32768) in four chunks (decide +kernel). -/
import AuProofs.Lemmas.SmallPrimes
namespace Au.U64
set_option maxRecDepth 100000 in
theorem checkRange_16384 : checkRange 16384 4096 = true := by decide +kernel
set_option maxRecDepth 100000 in
theorem checkRange_20480 : checkRange 20480 4096 = true := by decide +kernel
set_option maxRecDepth 100000 in
theorem checkRange_24576 : checkRange 24576 4096 = true := by decide +kernel
set_option maxRecDepth 100000 in
theorem checkRange_28672 : checkRange 28672 4096 = true := by decide +kernel
end Au.U64

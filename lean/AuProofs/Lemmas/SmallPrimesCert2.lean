/- Kernel-evaluated certificate: checkRange on [32768, 49152) in four chunks (decide +kernel). -/
import AuProofs.Lemmas.SmallPrimes
namespace Au.U64
set_option maxRecDepth 100000 in
theorem checkRange_32768 : checkRange 32768 4096 = true := by decide +kernel
set_option maxRecDepth 100000 in
theorem checkRange_36864 : checkRange 36864 4096 = true := by decide +kernel
set_option maxRecDepth 100000 in
theorem checkRange_40960 : checkRange 40960 4096 = true := by decide +kernel
set_option maxRecDepth 100000 in
theorem checkRange_45056 : checkRange 45056 4096 = true := by decide +kernel
end Au.U64

/- Kernel-evaluated certificate: checkRange on [49152, 65536) in four chunks (decide +kernel). -/
import AuProofs.Lemmas.SmallPrimes
namespace Au.U64
set_option maxRecDepth 100000 in
theorem checkRange_49152 : checkRange 49152 4096 = true := by decide +kernel
set_option maxRecDepth 100000 in
theorem checkRange_53248 : checkRange 53248 4096 = true := by decide +kernel
set_option maxRecDepth 100000 in
theorem checkRange_57344 : checkRange 57344 4096 = true := by decide +kernel
set_option maxRecDepth 100000 in
theorem checkRange_61440 : checkRange 61440 4096 = true := by decide +kernel
end Au.U64

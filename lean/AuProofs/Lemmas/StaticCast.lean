/-
  Helper lemmas for C05 (integral part): the static_cast overflow checker between integer types,
  the common type, and `apply_magnitude` on values the overflow checker lets through.
-/
import AuModel.StaticCast
import AuProofs.C03
namespace Au
open IntTy

/-- `will_static_cast_overflow<Dest>(x)` between integer types is exactly "x is outside the range of
`Dest`" — for all 64 ordered pairs, including those in which the limit of `Dest` does not fit the
source type and `static_cast<Source>(max)` wraps. -/
theorem castOverflowII_iff (s d : IntTy) (hs : s ∈ IntTy.all) (hd : d ∈ IntTy.all) (x : Int)
    (hx : s.inRange x) : castOverflowII s d x = true ↔ ¬ d.inRange x := by
  rcases all_cases s hs with rfl|rfl|rfl|rfl|rfl|rfl|rfl|rfl <;>
  rcases all_cases d hd with rfl|rfl|rfl|rfl|rfl|rfl|rfl|rfl <;>
    (simp only [IntTy.inRange, IntTy.lo, IntTy.hi, i8, u8, i16, u16, i32, u32, i64, u64] at hx
     simp [castOverflowII, categorizeOverflow, IntTy.wrap, IntTy.inRange, IntTy.lo, IntTy.hi,
       i8, u8, i16, u16, i32, u32, i64, u64] at hx ⊢
     try omega)

theorem castOverflowII_false (s d : IntTy) (hs : s ∈ IntTy.all) (hd : d ∈ IntTy.all) (x : Int)
    (hx : s.inRange x) : castOverflowII s d x = false ↔ d.inRange x := by
  have := castOverflowII_iff s d hs hd x hx
  cases h : castOverflowII s d x with
  | true => simp [h] at this; simp [this]
  | false => simp [h] at this; simp [this]

theorem common_mem (s t : IntTy) (hs : s ∈ IntTy.all) (ht : t ∈ IntTy.all) :
    IntTy.common s t ∈ IntTy.all := by
  rcases all_cases s hs with rfl|rfl|rfl|rfl|rfl|rfl|rfl|rfl <;>
  rcases all_cases t ht with rfl|rfl|rfl|rfl|rfl|rfl|rfl|rfl <;> decide

/-- The truncated quotient of a value within `[lo·D, hi·D]` lies within `[lo, hi]`. -/
theorem tdiv_inRange (t : IntTy) (ht : t ∈ IntTy.all) (D : Nat) (hD : 0 < D) (y : Int)
    (h : t.lo * D ≤ y ∧ y ≤ t.hi * D) : t.inRange (Int.tdiv y D) := by
  have hlo := lo_nonpos t ht
  have hhi := hi_nonneg t ht
  have hD' : (0 : Int) < D := by omega
  unfold IntTy.inRange
  by_cases hy : 0 ≤ y
  · rw [Int.tdiv_eq_ediv_of_nonneg hy]
    constructor
    · have : 0 ≤ y / (D : Int) := Int.ediv_nonneg hy (by omega)
      omega
    · have := Int.ediv_le_ediv hD' h.2
      rw [Int.mul_ediv_cancel _ (by omega)] at this
      exact this
  · have hy' : 0 ≤ -y := by omega
    have e : Int.tdiv y D = -(Int.tdiv (-y) D) := by rw [Int.neg_tdiv, Int.neg_neg]
    rw [e, Int.tdiv_eq_ediv_of_nonneg hy']
    constructor
    · have h1 : -y ≤ (-t.lo) * D := by rw [Int.neg_mul]; omega
      have := Int.ediv_le_ediv hD' h1
      rw [Int.mul_ediv_cancel _ (by omega)] at this
      omega
    · have : 0 ≤ (-y) / (D : Int) := Int.ediv_nonneg hy' (by omega)
      omega

/-- Without reported overflow, `apply_magnitude` evaluates without UB, wrap or narrowing and
returns the truncated quotient. -/
theorem applyMag_of_fits (t : IntTy) (ht : t ∈ IntTy.all) (N D : Nat) (hD : 0 < D)
    (x : Int) (hfit : ExactFits t N D x) :
    applyMag t N D x = ⟨.ok (Int.tdiv (x * N) D), false, false⟩ ∧ t.inRange (Int.tdiv (x * N) D) := by
  have hq := tdiv_inRange t ht D hD (x * N) hfit.1
  have hp := promote_mem t ht
  refine ⟨?_, hq⟩
  unfold applyMag
  cases hcat : categorize N D with
  | intMul =>
    have h1 := cat_intMul hcat
    subst h1
    simp only []
    rw [mulIn_ok _ hp _ _ hfit.2]
    have e : Int.tdiv (x * N) ((1 : Nat) : Int) = x * N := by simp
    rw [e] at hq ⊢
    exact finish_ok t ht _ false hq
  | intDiv =>
    have h1 := (cat_intDiv hcat).1
    subst h1
    simp only []
    rw [divIn_ok _ _ _ (by omega : (0:Int) < D)]
    have e : x * ((1 : Nat) : Int) = x := by simp
    rw [e] at hq ⊢
    exact finish_ok t ht _ false hq
  | rational =>
    simp only []
    rw [mulIn_ok _ hp _ _ hfit.2]
    simp only []
    rw [divIn_ok _ _ _ (by omega : (0:Int) < D)]
    exact finish_ok t ht _ _ hq

theorem wouldOverflow_false_iff (t : IntTy) (ht : t ∈ IntTy.all) (N D : Nat) (hN : 0 < N) (hD : 0 < D)
    (hc : compiles t N D = true) (x : Int) (hx : t.inRange x) :
    wouldOverflow t N D x = false ↔ ExactFits t N D x := by
  have := C04_overflow_iff t ht N D hN hD hc x hx
  cases h : wouldOverflow t N D x with
  | true => simp [h] at this; simp [this]
  | false =>
    simp [h] at this
    simp [this]

end Au

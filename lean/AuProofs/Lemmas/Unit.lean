import AuModel.Unit
import AuProofs.Lemmas.Pack
import AuProofs.Lemmas.Mag
set_option linter.unusedSectionVars false
namespace Au
open Pack

theorem UL.ofList_toList : (ps : UL) → UL.ofList ps.toList = ps
  | .nil => rfl
  | .cons u q t => by simp [UL.toList, UL.ofList, UL.ofList_toList t]

theorem UL.dimOf_eq (env : Env) : (ps : UL) → UL.dimOf env ps = interp dimLt (U.dimOf env) ps.toList
  | .nil => by simp [UL.dimOf, UL.toList, interp]
  | .cons u q t => by simp [UL.dimOf, UL.toList, interp, Dim.mul, UL.dimOf_eq env t]

theorem UL.magOf_eq (env : Env) : (ps : UL) → UL.magOf env ps = interp MagBase.lt (U.magOf env) ps.toList
  | .nil => by simp [UL.magOf, UL.toList, interp]
  | .cons u q t => by simp [UL.magOf, UL.toList, interp, Mag.mul, UL.magOf_eq env t]

theorem Pack.pow_one {β : Type} (p : Pack β) : p.pow 1 = p := by
  unfold Pack.pow
  have : ¬ ((1 : Rat) = 0) := by decide
  simp only [if_neg this]
  induction p with
  | nil => rfl
  | cons a t ih => obtain ⟨b, e⟩ := a; simp only [List.map_cons, ih]; congr 2; grind

/-- `GoodPack`: a valid pack of well-formed, non-product bases. -/
structure GoodPack (lt : U → U → Bool) (p : Pack U) : Prop where
  valid : Valid lt p
  noProd : ∀ y ∈ p, y.1.isProd = false
  good : ∀ y ∈ p, HGood lt y.1

theorem HGood.asPack {lt : U → U → Bool} {u : U} (h : HGood lt u) : GoodPack lt u.asPack := by
  cases h with
  | named n =>
    exact ⟨⟨List.pairwise_singleton .., by intro y hy; simp [U.asPack] at hy; subst hy; show (1 : Rat) ≠ 0; decide⟩,
      by intro y hy; simp [U.asPack] at hy; subst hy; rfl,
      by intro y hy; simp [U.asPack] at hy; subst hy; exact .named n⟩
  | scaled v m hv hm =>
    exact ⟨⟨List.pairwise_singleton .., by intro y hy; simp [U.asPack] at hy; subst hy; show (1 : Rat) ≠ 0; decide⟩,
      by intro y hy; simp [U.asPack] at hy; subst hy; rfl,
      by intro y hy; simp [U.asPack] at hy; subst hy; exact .scaled v m hv hm⟩
  | common us hu =>
    exact ⟨⟨List.pairwise_singleton .., by intro y hy; simp [U.asPack] at hy; subst hy; show (1 : Rat) ≠ 0; decide⟩,
      by intro y hy; simp [U.asPack] at hy; subst hy; rfl,
      by intro y hy; simp [U.asPack] at hy; subst hy; exact .common us hu⟩
  | commonPoint us hu =>
    exact ⟨⟨List.pairwise_singleton .., by intro y hy; simp [U.asPack] at hy; subst hy; show (1 : Rat) ≠ 0; decide⟩,
      by intro y hy; simp [U.asPack] at hy; subst hy; rfl,
      by intro y hy; simp [U.asPack] at hy; subst hy; exact .commonPoint us hu⟩
  | prod ps hv hn hg => exact ⟨hv, hn, hg⟩

theorem GoodPack.ofPack {lt : U → U → Bool} {p : Pack U} (h : GoodPack lt p) : HGood lt (U.ofPack p) := by
  have hprod : HGood lt (.prod (UL.ofList p)) := by
    refine .prod _ ?_ ?_ ?_ <;> rw [UL.toList_ofList]
    · exact h.valid
    · exact h.noProd
    · exact h.good
  unfold U.ofPack
  split
  · rename_i u q
    split
    · exact h.good (u, q) (List.mem_cons_self ..)
    · exact hprod
  · exact hprod

/-- `asPack (ofPack p) = p` on good packs (the bases are not products, so nothing is flattened). -/
theorem GoodPack.asPack_ofPack {lt : U → U → Bool} {p : Pack U} (h : GoodPack lt p) :
    (U.ofPack p).asPack = p := by
  unfold U.ofPack
  split
  · rename_i u q
    split
    · rename_i hq
      subst hq
      have := h.noProd (u, 1) (List.mem_cons_self ..)
      cases u <;> simp [U.isProd] at this <;> simp [U.asPack]
    · simp [U.asPack, UL.toList_ofList]
  · simp [U.asPack, UL.toList_ofList]

theorem GoodPack.mul {lt : U → U → Bool} (hlt : StrictTotal lt) {a b : Pack U}
    (ha : GoodPack lt a) (hb : GoodPack lt b) : GoodPack lt (Pack.mul lt a b) := by
  refine ⟨mul_valid hlt a b ha.valid hb.valid, ?_, ?_⟩
  · intro y hy
    rcases mem_mul_base a b y hy with ⟨z, hz, e⟩ | ⟨z, hz, e⟩
    · rw [← e]; exact ha.noProd z hz
    · rw [← e]; exact hb.noProd z hz
  · intro y hy
    rcases mem_mul_base a b y hy with ⟨z, hz, e⟩ | ⟨z, hz, e⟩
    · rw [← e]; exact ha.good z hz
    · rw [← e]; exact hb.good z hz

theorem GoodPack.pow {lt : U → U → Bool} {a : Pack U} (ha : GoodPack lt a) (q : Rat) :
    GoodPack lt (a.pow q) := by
  refine ⟨pow_valid a q ha.valid, ?_, ?_⟩
  · intro y hy
    unfold Pack.pow at hy
    split at hy
    · cases hy
    · rcases List.mem_map.1 hy with ⟨z, hz, rfl⟩; exact ha.noProd z hz
  · intro y hy
    unfold Pack.pow at hy
    split at hy
    · cases hy
    · rcases List.mem_map.1 hy with ⟨z, hz, rfl⟩; exact ha.good z hz

theorem HGood.scale {lt : U → U → Bool} {u : U} (h : HGood lt u) (m : Mag)
    (hm : Valid MagBase.lt m) : HGood lt (u.scale m) := by
  unfold U.scale
  split
  · rename_i v old
    cases h with
    | scaled _ _ hv ho =>
      simp only []
      split
      · exact hv
      · exact .scaled v _ hv (mul_valid MagBase.lt_strictTotal _ _ ho hm)
  · split
    · exact h
    · exact .scaled u m h hm

theorem HGood.eval {lt : U → U → Bool} (hlt : StrictTotal lt) :
    (e : UExpr) → (∀ u ∈ e.atoms, HGood lt u) → (∀ m ∈ e.scales, Valid MagBase.lt m) → HGood lt (e.eval lt)
  | .atom u, h, _ => h u (by simp [UExpr.atoms])
  | .mul a b, h, hs => by
    have ha := HGood.eval hlt a (fun u hu => h u (by simp [UExpr.atoms, hu])) (fun m hm => hs m (by simp [UExpr.scales, hm]))
    have hb := HGood.eval hlt b (fun u hu => h u (by simp [UExpr.atoms, hu])) (fun m hm => hs m (by simp [UExpr.scales, hm]))
    exact (GoodPack.mul hlt ha.asPack hb.asPack).ofPack
  | .div a b, h, hs => by
    have ha := HGood.eval hlt a (fun u hu => h u (by simp [UExpr.atoms, hu])) (fun m hm => hs m (by simp [UExpr.scales, hm]))
    have hb := HGood.eval hlt b (fun u hu => h u (by simp [UExpr.atoms, hu])) (fun m hm => hs m (by simp [UExpr.scales, hm]))
    exact (GoodPack.mul hlt ha.asPack ((hb.asPack.pow (-1)).ofPack).asPack).ofPack
  | .pow a q, h, hs => by
    have ha := HGood.eval hlt a (fun u hu => h u (by simp [UExpr.atoms, hu])) (fun m hm => hs m (by simp [UExpr.scales, hm]))
    exact (ha.asPack.pow q).ofPack
  | .scale a m, h, hs => by
    have ha := HGood.eval hlt a (fun u hu => h u (by simp [UExpr.atoms, hu])) (fun m hm => hs m (by simp [UExpr.scales, hm]))
    exact ha.scale m (hs m (by simp [UExpr.scales]))
theorem UL.mags_valid (env : Env) : (us : UL) → (∀ y ∈ us.toList, Valid MagBase.lt (y.1.magOf env)) →
    ∀ m ∈ UL.mags env us, Valid MagBase.lt m
  | .nil, _ => by intro m hm; simp [UL.mags] at hm
  | .cons u q t, h => by
    intro m hm
    simp only [UL.mags, List.mem_cons] at hm
    rcases hm with rfl | hm
    · exact h (u, q) (by simp [UL.toList])
    · exact UL.mags_valid env t (fun y hy => h y (by simp [UL.toList, hy])) m hm

theorem Mag.commonAll_valid : (ms : List Mag) → (∀ m ∈ ms, Valid MagBase.lt m) → Valid MagBase.lt (Mag.commonAll ms)
  | [], _ => ⟨List.Pairwise.nil, fun _ h => by cases h⟩
  | [m], h => h m (List.mem_cons_self ..)
  | m :: m2 :: rest, h => by
    show Valid MagBase.lt (Mag.common2 m (Mag.commonAll (m2 :: rest)))
    exact Mag.common2_valid _ _ (h m (List.mem_cons_self ..))
      (Mag.commonAll_valid (m2 :: rest) (fun x hx => h x (List.mem_cons_of_mem _ hx)))

theorem HGood.dim_mag_valid {lt : U → U → Bool} (env : Env) (hw : env.WF) {u : U} (h : HGood lt u) :
    Valid dimLt (u.dimOf env) ∧ Valid MagBase.lt (u.magOf env) := by
  induction h with
  | named n => exact ⟨hw.dim n, hw.mag n⟩
  | scaled v m hv hm ih =>
    exact ⟨ih.1, mul_valid MagBase.lt_strictTotal _ _ ih.2 hm⟩
  | common us hu ih =>
    refine ⟨?_, ?_⟩
    · cases us with
      | nil => exact ⟨List.Pairwise.nil, fun _ h => by cases h⟩
      | cons u q t => exact (ih (u, q) (by simp [UL.toList])).1
    · exact Mag.commonAll_valid _ (UL.mags_valid env us (fun y hy => (ih y hy).2))
  | commonPoint us hu ih =>
    refine ⟨?_, ?_⟩
    · cases us with
      | nil => exact ⟨List.Pairwise.nil, fun _ h => by cases h⟩
      | cons u q t => exact (ih (u, q) (by simp [UL.toList])).1
    · exact Mag.commonAll_valid _ (UL.mags_valid env us (fun y hy => (ih y hy).2))
  | prod ps hv hn hg ih =>
    refine ⟨?_, ?_⟩
    · show Valid dimLt (UL.dimOf env ps)
      rw [UL.dimOf_eq]
      exact interp_valid dimLt_strictTotal _ _ (fun y hy => (ih y hy).1)
    · show Valid MagBase.lt (UL.magOf env ps)
      rw [UL.magOf_eq]
      exact interp_valid MagBase.lt_strictTotal _ _ (fun y hy => (ih y hy).2)

/-- `DimT` of a unit is the interpretation of its pack form. -/
theorem HGood.dimOf_asPack {lt : U → U → Bool} (env : Env) {u : U} (h : HGood lt u) :
    interp dimLt (U.dimOf env) u.asPack = u.dimOf env := by
  cases h <;> simp [U.asPack, interp, Pack.pow_one, mul_nil_right, U.dimOf, UL.dimOf_eq]

theorem HGood.magOf_asPack {lt : U → U → Bool} (env : Env) {u : U} (h : HGood lt u) :
    interp MagBase.lt (U.magOf env) u.asPack = u.magOf env := by
  cases h <;> simp [U.asPack, interp, Pack.pow_one, mul_nil_right, U.magOf, UL.magOf_eq]

theorem GoodPack.dimOf_ofPack {lt : U → U → Bool} (env : Env) {p : Pack U} (h : GoodPack lt p) :
    (U.ofPack p).dimOf env = interp dimLt (U.dimOf env) p := by
  rw [← (h.ofPack).dimOf_asPack env, h.asPack_ofPack]

theorem GoodPack.magOf_ofPack {lt : U → U → Bool} (env : Env) {p : Pack U} (h : GoodPack lt p) :
    (U.ofPack p).magOf env = interp MagBase.lt (U.magOf env) p := by
  rw [← (h.ofPack).magOf_asPack env, h.asPack_ofPack]
end Au

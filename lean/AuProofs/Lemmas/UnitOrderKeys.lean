import AuProofs.Lemmas.LexOrder
import AuProofs.Lemmas.PackOrder
import AuModel.Unit

/-! # The keys of `InOrderFor<UnitProduct, A, B>` (unit_of_measure.hh:1046-1053)

`OrderByUnitAvoidance`, `OrderByDim` and `OrderByMag` — the first three keys of the unit ordering — are
strict weak orders for every assignment of avoidance classes and every environment of named units, so
by `lexLt_strictTotal` the library's ordering is a strict total order on any collection of units on
which the remaining tiebreakers (scale factor, origin, product structure) are strict weak orders and
no two distinct units tie on every key. -/
namespace Au
open Pack

theorem natLt_strictTotal : StrictTotal (fun a b : Nat => decide (a < b)) :=
  ⟨fun a => by simp, fun a b c h1 h2 => by simp at *; omega, fun a b h1 h2 => by simp at *; omega⟩

theorem unitOrderKeys_strictWeak (env : Env) (avoidance : U → Nat) :
    ∀ k ∈ [ (fun a b : U => decide (avoidance a < avoidance b)),
            (fun a b : U => packLt dimLt (a.dimOf env) (b.dimOf env)),
            (fun a b : U => packLt MagBase.lt (a.magOf env) (b.magOf env)) ], StrictWeak k := by
  intro k hk
  simp only [List.mem_cons, List.not_mem_nil, or_false] at hk
  rcases hk with rfl | rfl | rfl
  · exact (natLt_strictTotal.strictWeak).comap avoidance
  · exact (orderByDim_strictTotal.strictWeak).comap (fun u : U => u.dimOf env)
  · exact (orderByMag_strictTotal.strictWeak).comap (fun u : U => u.magOf env)

/-- The library's unit ordering, with any strict-weak tiebreakers after the first three keys, is a
strict total order as soon as no two distinct units tie on every key. -/
theorem unitOrder_strictTotal_of_tieFree (env : Env) (avoidance : U → Nat) (more : List (U → U → Bool))
    (hmore : ∀ k ∈ more, StrictWeak k)
    (tieFree : ∀ a b : U, (∀ k ∈ [ (fun a b : U => decide (avoidance a < avoidance b)),
            (fun a b : U => packLt dimLt (a.dimOf env) (b.dimOf env)),
            (fun a b : U => packLt MagBase.lt (a.magOf env) (b.magOf env)) ] ++ more, k a b = false ∧ k b a = false) → a = b) :
    StrictTotal (lexLt ([ (fun a b : U => decide (avoidance a < avoidance b)),
            (fun a b : U => packLt dimLt (a.dimOf env) (b.dimOf env)),
            (fun a b : U => packLt MagBase.lt (a.magOf env) (b.magOf env)) ] ++ more)) := by
  apply lexLt_strictTotal _ _ tieFree
  intro k hk
  rcases List.mem_append.1 hk with h | h
  · exact unitOrderKeys_strictWeak env avoidance k h
  · exact hmore k h

end Au

import AuProofs.Lemmas.LexOrderOn
import AuProofs.Lemmas.UnitOrderKeys
import AuModel.UnitOrder

/-! # The library's unit order (`AuModel.UnitOrder`, the function compared with the headers on every run) is a strict weak order

`U.libLt` — the six keys of `InOrderFor<UnitProduct, A, B>`, with the recursive `OrderAsUnitProduct` key — is
irreflexive, transitive, and its "neither before the other" relation is transitive, for EVERY environment of named
units (any dimensions, magnitudes, origins) whose named units have avoidance class 0 or 2.  Nothing about
tie-freeness is needed for that; tie-freeness (two distinct units never tie on all six keys — the condition the library's
"Broken strict total ordering" `static_assert` checks per instantiated pair) is exactly what upgrades it to a strict
total order (`libLt_strictTotal_of_tieFree`). -/
namespace Au
open Pack

/-! ### Sizes for the induction -/
mutual
def U.sz : U → Nat
  | .named _ => 1
  | .scaled u _ => 1 + U.sz u
  | .prod ps => 1 + UL.sz ps
  | .common us => 1 + UL.sz us
  | .commonPoint us => 1 + UL.sz us
def UL.sz : UL → Nat
  | .nil => 0
  | .cons u _ t => 1 + U.sz u + UL.sz t
end

theorem U.sz_pos (u : U) : 0 < u.sz := by cases u <;> simp [U.sz] <;> omega

/-! ### The keys -/
def kAvoid (oe : OrdEnv) (a b : U) : Bool := decide (a.avoidance oe < b.avoidance oe)
def kDim (oe : OrdEnv) (a b : U) : Bool := packLt dimLt (a.dimOf oe.toEnv) (b.dimOf oe.toEnv)
def kMag (oe : OrdEnv) (a b : U) : Bool := packLt MagBase.lt (a.magOf oe.toEnv) (b.magOf oe.toEnv)
def kOrigin (oe : OrdEnv) (a b : U) : Bool := decide (b.originOf oe < a.originOf oe)
/-- `OrderAsUnitProduct<A, B>`. -/
def kProd (oe : OrdEnv) (a b : U) : Bool :=
  match a, b with
  | .prod p1, .prod p2 => if (U.prod p1).isUnitProduct && (U.prod p2).isUnitProduct then UL.libLt oe p1 p2 else false
  | _, _ => false

/-- The scale factor of a `ScaledUnit`, the null magnitude otherwise. -/
def scaleKey : U → Mag
  | .scaled _ m => m
  | _ => []
/-- The pack of a genuine `UnitProduct`, the null pack otherwise. -/
def prodKey : U → UL
  | .prod ps => if ps.isSingle then .nil else ps
  | _ => .nil
def kScale' (a b : U) : Bool := packLt MagBase.lt (scaleKey a) (scaleKey b)
def kProd' (oe : OrdEnv) (a b : U) : Bool := UL.libLt oe (prodKey a) (prodKey b)

theorem bool_lex_last (x y : Bool) : (if x = true then true else if y = true then false else false) = x := by
  cases x <;> cases y <;> rfl

/-- `U.libLt` is literally `LexicographicTotalOrdering` over the six keys. -/
theorem libLt_eq_lexLt (oe : OrdEnv) (a b : U) :
    U.libLt oe a b = lexLt [kAvoid oe, kDim oe, kMag oe, U.scaleFactorLt, kOrigin oe, kProd oe] a b := by
  rw [U.libLt.eq_def]
  simp only [lexLt, kAvoid, kDim, kMag, kOrigin, decide_eq_true_eq, bool_lex_last]
  rfl

/-! ### Equations of the pack order on unit products -/
theorem UL.libLt_nil_nil (oe : OrdEnv) : UL.libLt oe .nil .nil = false := by rw [UL.libLt]
theorem UL.libLt_nil_cons (oe : OrdEnv) (u : U) (q : Rat) (t : UL) : UL.libLt oe .nil (.cons u q t) = true := by rw [UL.libLt]
theorem UL.libLt_cons_nil (oe : OrdEnv) (u : U) (q : Rat) (t : UL) : UL.libLt oe (.cons u q t) .nil = false := by rw [UL.libLt]
theorem UL.libLt_any_nil (oe : OrdEnv) (p : UL) : UL.libLt oe p .nil = false := by
  cases p
  · exact UL.libLt_nil_nil oe
  · exact UL.libLt_cons_nil oe _ _ _

def kHead (oe : OrdEnv) (x y : U × Rat × UL) : Bool := U.libLt oe x.1 y.1
def kExp (x y : U × Rat × UL) : Bool := decide (x.2.1 - y.2.1 < 0)
def kTail (oe : OrdEnv) (x y : U × Rat × UL) : Bool := UL.libLt oe x.2.2 y.2.2

theorem UL.libLt_cons_cons (oe : OrdEnv) (u1 : U) (q1 : Rat) (t1 : UL) (u2 : U) (q2 : Rat) (t2 : UL) :
    UL.libLt oe (.cons u1 q1 t1) (.cons u2 q2 t2) = lexLt [kHead oe, kExp, kTail oe] (u1, q1, t1) (u2, q2, t2) := by
  rw [UL.libLt]
  cases h1 : U.libLt oe u1 u2 <;> cases h2 : U.libLt oe u2 u1 <;> by_cases h3 : q1 - q2 < 0 <;> by_cases h4 : q2 - q1 < 0 <;>
    cases h5 : UL.libLt oe t1 t2 <;> cases h6 : UL.libLt oe t2 t1 <;> simp [lexLt, kHead, kExp, kTail, *]

/-! ### Strict orders on the rationals -/
theorem ratLt_strictTotal : StrictTotal (fun a b : Rat => decide (a < b)) :=
  ⟨fun a => by simp, fun a b c h1 h2 => by simp at *; grind, fun a b h1 h2 => by simp at *; grind⟩

theorem ratGt_strictTotal : StrictTotal (fun a b : Rat => decide (b < a)) :=
  ⟨fun a => by simp, fun a b c h1 h2 => by simp at *; grind, fun a b h1 h2 => by simp at *; grind⟩

theorem kExp_strictWeak : StrictWeak kExp := by
  have h := (ratLt_strictTotal.strictWeak).comap (fun x : U × Rat × UL => x.2.1)
  have e : kExp = (fun (a b : U × Rat × UL) => decide (a.2.1 < b.2.1)) := by
    funext a b
    simp only [kExp]
    congr 1
    apply propext
    constructor <;> intro h <;> grind
  rw [e]; exact h

/-! ### The tiebreakers that are only defined on one avoidance class, totalised -/
variable (oe : OrdEnv)

/-- Named units are named structs (class 0) or bare `UnitImpl`s (class 2). -/
def OrdEnv.NamedClasses (oe : OrdEnv) : Prop := ∀ n, oe.avoid n = 0 ∨ oe.avoid n = 2

def U.isScaled : U → Bool
  | .scaled _ _ => true
  | _ => false

theorem avoidance_three_iff (hav : oe.NamedClasses) (a : U) : a.avoidance oe = 3 ↔ a.isScaled = true := by
  cases a with
  | named n => simp only [U.avoidance, U.isScaled]; rcases hav n with h | h <;> simp [h]
  | scaled u m => simp [U.avoidance, U.isScaled]
  | prod ps => simp only [U.avoidance, U.isScaled]; split <;> (try split) <;> simp
  | common us => simp [U.avoidance, U.isScaled]
  | commonPoint us => simp [U.avoidance, U.isScaled]

theorem avoidance_one_iff (hav : oe.NamedClasses) (a : U) : a.avoidance oe = 1 ↔ a.isUnitProduct = true := by
  cases a with
  | named n => simp only [U.avoidance, U.isUnitProduct]; rcases hav n with h | h <;> simp [h]
  | scaled u m => simp [U.avoidance, U.isUnitProduct]
  | prod ps => simp only [U.avoidance, U.isUnitProduct]; split <;> (try split) <;> simp [*]
  | common us => simp [U.avoidance, U.isUnitProduct]
  | commonPoint us => simp [U.avoidance, U.isUnitProduct]

theorem packLt_any_nil {β : Type} (lt : β → β → Bool) (p : Pack β) : packLt lt p [] = false := by
  cases p <;> simp [packLt]

theorem scaleKey_of_not_scaled (a : U) (h : a.isScaled = false) : scaleKey a = [] := by
  cases a <;> simp_all [U.isScaled, scaleKey]

theorem scaleFactorLt_of_not_scaled_left (a b : U) (h : a.isScaled = false) : U.scaleFactorLt a b = false := by
  cases a <;> simp_all [U.isScaled, U.scaleFactorLt]

theorem scaleFactorLt_of_not_scaled_right (a b : U) (h : b.isScaled = false) : U.scaleFactorLt a b = false := by
  cases a <;> cases b <;> simp_all [U.isScaled, U.scaleFactorLt]

/-- `OrderByScaleFactor` agrees with its totalised form whenever the avoidance classes are equal. -/
theorem scale_agree (hav : oe.NamedClasses) (a b : U) (h : a.avoidance oe = b.avoidance oe) :
    U.scaleFactorLt a b = kScale' a b := by
  cases ha : a.isScaled with
  | true =>
    have hb : b.isScaled = true := (avoidance_three_iff oe hav b).1 (h ▸ (avoidance_three_iff oe hav a).2 ha)
    cases a <;> cases b <;> simp_all [U.isScaled, U.scaleFactorLt, kScale', scaleKey]
  | false =>
    have hb : b.isScaled = false := by
      cases hb : b.isScaled with
      | false => rfl
      | true =>
        have := (avoidance_three_iff oe hav a).1 (h ▸ (avoidance_three_iff oe hav b).2 hb)
        rw [ha] at this; cases this
    rw [scaleFactorLt_of_not_scaled_left a b ha, kScale', scaleKey_of_not_scaled a ha, scaleKey_of_not_scaled b hb]
    rfl

theorem prodKey_of_not_up (a : U) (h : a.isUnitProduct = false) : prodKey a = .nil := by
  cases a <;> simp_all [U.isUnitProduct, prodKey]

theorem prodKey_of_up (ps : UL) (h : (U.prod ps).isUnitProduct = true) : prodKey (.prod ps) = ps := by
  simp_all [U.isUnitProduct, prodKey]

theorem kProd_of_not_up_left (a b : U) (h : a.isUnitProduct = false) : kProd oe a b = false := by
  cases a <;> cases b <;> simp_all [kProd]

/-- `OrderAsUnitProduct` agrees with its totalised form whenever the avoidance classes are equal. -/
theorem prod_agree (hav : oe.NamedClasses) (a b : U) (h : a.avoidance oe = b.avoidance oe) :
    kProd oe a b = kProd' oe a b := by
  cases ha : a.isUnitProduct with
  | true =>
    have hb : b.isUnitProduct = true := (avoidance_one_iff oe hav b).1 (h ▸ (avoidance_one_iff oe hav a).2 ha)
    cases a with
    | prod p1 =>
      cases b with
      | prod p2 => simp only [kProd, kProd', ha, hb, Bool.and_self, if_true, prodKey_of_up p1 ha, prodKey_of_up p2 hb]
      | _ => simp [U.isUnitProduct] at hb
    | _ => simp [U.isUnitProduct] at ha
  | false =>
    have hb : b.isUnitProduct = false := by
      cases hb : b.isUnitProduct with
      | false => rfl
      | true =>
        have := (avoidance_one_iff oe hav a).1 (h ▸ (avoidance_one_iff oe hav b).2 hb)
        rw [ha] at this; cases this
    rw [kProd_of_not_up_left oe a b ha, kProd', prodKey_of_not_up a ha, prodKey_of_not_up b hb, UL.libLt_nil_nil]

theorem prodKey_sz (a : U) : (prodKey a).sz + 1 ≤ a.sz := by
  cases a with
  | prod ps =>
    simp only [prodKey, U.sz]
    split
    · simp only [UL.sz]; omega
    · omega
  | named n => simp only [prodKey, U.sz, UL.sz]; omega
  | scaled u m => simp only [prodKey, U.sz, UL.sz]; omega
  | common us => simp only [prodKey, U.sz, UL.sz]; omega
  | commonPoint us => simp only [prodKey, U.sz, UL.sz]; omega

/-! ### The keys that are strict weak orders outright -/
theorem kAvoid_sw : StrictWeak (kAvoid oe) := (natLt_strictTotal.strictWeak).comap (U.avoidance oe)
theorem kDim_sw : StrictWeak (kDim oe) := (orderByDim_strictTotal.strictWeak).comap (fun u : U => u.dimOf oe.toEnv)
theorem kMag_sw : StrictWeak (kMag oe) := (orderByMag_strictTotal.strictWeak).comap (fun u : U => u.magOf oe.toEnv)
theorem kScale'_sw : StrictWeak kScale' := (orderByMag_strictTotal.strictWeak).comap scaleKey
theorem kOrigin_sw : StrictWeak (kOrigin oe) := (ratGt_strictTotal.strictWeak).comap (U.originOf oe)

/-- With the two class-local tiebreakers replaced by their totalised forms the verdict is the same. -/
theorem libLt_eq_lexLt' (hav : oe.NamedClasses) (a b : U) :
    U.libLt oe a b = lexLt [kAvoid oe, kDim oe, kMag oe, kScale', kOrigin oe, kProd' oe] a b := by
  have tieAvoid : ∀ (l : List (U → U → Bool)), kAvoid oe ∈ l → (∀ p ∈ l, p a b = false ∧ p b a = false) →
      a.avoidance oe = b.avoidance oe := by
    intro l hl h
    obtain ⟨h1, h2⟩ := h _ hl
    simp only [kAvoid, decide_eq_false_iff_not] at h1 h2
    omega
  rw [libLt_eq_lexLt]
  have s1 := lexLt_congr_after [kAvoid oe, kDim oe, kMag oe] U.scaleFactorLt kScale' [kOrigin oe, kProd oe] a b (by
    intro h
    have e := tieAvoid _ (by simp) h
    exact ⟨scale_agree oe hav a b e, scale_agree oe hav b a e.symm⟩)
  have s2 := lexLt_congr_after [kAvoid oe, kDim oe, kMag oe, kScale', kOrigin oe] (kProd oe) (kProd' oe) [] a b (by
    intro h
    have e := tieAvoid _ (by simp) h
    exact ⟨prod_agree oe hav a b e, prod_agree oe hav b a e.symm⟩)
  simp only [List.cons_append, List.nil_append] at s1 s2
  rw [s1, s2]

/-! ### The induction over unit size -/
theorem stepU (hav : oe.NamedClasses) (n : Nat) (ihL : SWOn (fun p : UL => p.sz ≤ n) (UL.libLt oe)) :
    SWOn (fun u : U => u.sz ≤ n + 1) (U.libLt oe) := by
  have e : U.libLt oe = lexLt [kAvoid oe, kDim oe, kMag oe, kScale', kOrigin oe, kProd' oe] := by
    funext a b; exact libLt_eq_lexLt' oe hav a b
  rw [e]
  apply lexLt_SWOn
  intro k hk
  simp only [List.mem_cons, List.not_mem_nil, or_false] at hk
  rcases hk with rfl | rfl | rfl | rfl | rfl | rfl
  · exact (kAvoid_sw oe).on _
  · exact (kDim_sw oe).on _
  · exact (kMag_sw oe).on _
  · exact kScale'_sw.on _
  · exact (kOrigin_sw oe).on _
  · exact ihL.comap prodKey (fun b hb => by have := prodKey_sz b; omega)

theorem stepL (n : Nat) (ihU : SWOn (fun u : U => u.sz ≤ n) (U.libLt oe)) (ihL : SWOn (fun p : UL => p.sz ≤ n) (UL.libLt oe)) :
    SWOn (fun p : UL => p.sz ≤ n + 1) (UL.libLt oe) := by
  let T : U × Rat × UL → Prop := fun x => x.1.sz ≤ n ∧ x.2.2.sz ≤ n
  have hT : SWOn T (lexLt [kHead oe, kExp, kTail oe]) := by
    apply lexLt_SWOn
    intro k hk
    simp only [List.mem_cons, List.not_mem_nil, or_false] at hk
    rcases hk with rfl | rfl | rfl
    · exact ihU.comap (fun x : U × Rat × UL => x.1) (fun b hb => hb.1)
    · exact kExp_strictWeak.on _
    · exact ihL.comap (fun x : U × Rat × UL => x.2.2) (fun b hb => hb.2)
  have tOf : ∀ u q t, (UL.cons u q t).sz ≤ n + 1 → T (u, q, t) := by
    intro u q t h
    simp only [UL.sz] at h
    exact ⟨by show u.sz ≤ n; omega, by show t.sz ≤ n; omega⟩
  refine ⟨?_, ?_, ?_⟩
  · intro a ha
    cases a with
    | nil => exact UL.libLt_nil_nil oe
    | cons u q t => rw [UL.libLt_cons_cons]; exact hT.irrefl _ (tOf u q t ha)
  · intro a b c ha hb hc h1 h2
    cases a with
    | nil =>
      cases b with
      | nil => rw [UL.libLt_nil_nil] at h1; cases h1
      | cons u2 q2 t2 =>
        cases c with
        | nil => rw [UL.libLt_cons_nil] at h2; cases h2
        | cons u3 q3 t3 => exact UL.libLt_nil_cons oe _ _ _
    | cons u1 q1 t1 =>
      cases b with
      | nil => rw [UL.libLt_cons_nil] at h1; cases h1
      | cons u2 q2 t2 =>
        cases c with
        | nil => rw [UL.libLt_cons_nil] at h2; cases h2
        | cons u3 q3 t3 =>
          rw [UL.libLt_cons_cons] at h1 h2 ⊢
          exact hT.trans _ _ _ (tOf _ _ _ ha) (tOf _ _ _ hb) (tOf _ _ _ hc) h1 h2
  · intro a b c ha hb hc h1 h2 h3 h4
    cases a with
    | nil =>
      cases b with
      | cons u2 q2 t2 => rw [UL.libLt_nil_cons] at h1; cases h1
      | nil =>
        cases c with
        | cons u3 q3 t3 => rw [UL.libLt_nil_cons] at h3; cases h3
        | nil => exact ⟨UL.libLt_nil_nil oe, UL.libLt_nil_nil oe⟩
    | cons u1 q1 t1 =>
      cases b with
      | nil => rw [UL.libLt_nil_cons] at h2; cases h2
      | cons u2 q2 t2 =>
        cases c with
        | nil => rw [UL.libLt_nil_cons] at h4; cases h4
        | cons u3 q3 t3 =>
          rw [UL.libLt_cons_cons] at h1 h2 h3 h4 ⊢
          rw [UL.libLt_cons_cons]
          exact hT.tieTrans _ _ _ (tOf _ _ _ ha) (tOf _ _ _ hb) (tOf _ _ _ hc) h1 h2 h3 h4

theorem libLt_SWOn_all (hav : oe.NamedClasses) : ∀ n : Nat,
    SWOn (fun u : U => u.sz ≤ n) (U.libLt oe) ∧ SWOn (fun p : UL => p.sz ≤ n) (UL.libLt oe)
  | 0 => by
    have nilOf : ∀ p : UL, p.sz ≤ 0 → p = .nil := by
      intro p hp; cases p with
      | nil => rfl
      | cons u q t => simp only [UL.sz] at hp; omega
    refine ⟨⟨fun a ha => ?_, fun a _ _ ha => ?_, fun a _ _ ha => ?_⟩, ⟨fun a ha => ?_, fun a b c ha hb hc h1 _ => ?_, fun a b c ha hb hc _ _ _ _ => ?_⟩⟩
    · have := U.sz_pos a; omega
    · have := U.sz_pos a; omega
    · have := U.sz_pos a; omega
    · rw [nilOf a ha]; exact UL.libLt_nil_nil oe
    · rw [nilOf a ha, nilOf b hb, UL.libLt_nil_nil] at h1; cases h1
    · rw [nilOf a ha, nilOf c hc]; exact ⟨UL.libLt_nil_nil oe, UL.libLt_nil_nil oe⟩
  | n + 1 => by
    obtain ⟨ihU, ihL⟩ := libLt_SWOn_all hav n
    exact ⟨stepU oe hav n ihL, stepL oe n ihU ihL⟩

/-- **The library's unit order is a strict weak order**, for every environment of named units. -/
theorem libLt_strictWeak (hav : oe.NamedClasses) : StrictWeak (U.libLt oe) := by
  refine ⟨fun a => ?_, fun a b c => ?_, fun a b c => ?_⟩
  · exact (libLt_SWOn_all oe hav a.sz).1.irrefl a (Nat.le_refl _)
  · have h := (libLt_SWOn_all oe hav (a.sz + b.sz + c.sz)).1
    exact h.trans a b c (by show a.sz ≤ _; omega) (by show b.sz ≤ _; omega) (by show c.sz ≤ _; omega)
  · have h := (libLt_SWOn_all oe hav (a.sz + b.sz + c.sz)).1
    exact h.tieTrans a b c (by show a.sz ≤ _; omega) (by show b.sz ≤ _; omega) (by show c.sz ≤ _; omega)

/-- ... and the same for `InStandardPackOrder` on the packs of unit products. -/
theorem ulLibLt_strictWeak (hav : oe.NamedClasses) : StrictWeak (UL.libLt oe) := by
  refine ⟨fun a => ?_, fun a b c => ?_, fun a b c => ?_⟩
  · exact (libLt_SWOn_all oe hav a.sz).2.irrefl a (Nat.le_refl _)
  · have h := (libLt_SWOn_all oe hav (a.sz + b.sz + c.sz)).2
    exact h.trans a b c (by show a.sz ≤ _; omega) (by show b.sz ≤ _; omega) (by show c.sz ≤ _; omega)
  · have h := (libLt_SWOn_all oe hav (a.sz + b.sz + c.sz)).2
    exact h.tieTrans a b c (by show a.sz ≤ _; omega) (by show b.sz ≤ _; omega) (by show c.sz ≤ _; omega)

/-- **It is a strict total order exactly on tie-free collections**: on any set of units in which two units that the
order does not separate are the same unit (what the library's `static_assert` demands of every pair it instantiates),
`U.libLt` is irreflexive, transitive and total. -/
theorem libLt_strictTotal_of_tieFree (hav : oe.NamedClasses) (S : U → Prop)
    (tieFree : ∀ a b, S a → S b → U.libLt oe a b = false → U.libLt oe b a = false → a = b) :
    StrictTotal (fun (x y : {u // S u}) => U.libLt oe x.1 y.1) :=
  ⟨fun a => (libLt_strictWeak oe hav).irrefl a.1, fun a b c => (libLt_strictWeak oe hav).trans a.1 b.1 c.1,
   fun a b h1 h2 => Subtype.ext (tieFree a.1 b.1 a.2 b.2 h1 h2)⟩

end Au

namespace Au
/-- Non-vacuity: an environment of named structs satisfies the hypothesis, and the order separates a scaled unit
from its base and a product from its factor. -/
def demoOrdEnv : OrdEnv := { dim := fun n => [((n : Int), 1)], mag := fun _ => [], origin := fun _ => 0, avoid := fun _ => 0 }
example : demoOrdEnv.NamedClasses := fun _ => Or.inl rfl
example : U.libLt demoOrdEnv (.named 1) (.scaled (.named 1) [(.prime 2, 1)]) = true := by rw [libLt_eq_lexLt]; decide
example : U.libLt demoOrdEnv (.named 1) (.named 2) = true ∧ U.libLt demoOrdEnv (.named 2) (.named 1) = false := by rw [libLt_eq_lexLt, libLt_eq_lexLt]; decide
end Au

/-
  AuProofs.Lemmas.Zero — helper lemmas for property C19 (about `AuModel.Zero`).  Core Lean only.
-/
import AuModel.Zero
set_option linter.unusedSimpArgs false
namespace Au.Zero
open Au Au.IntTy

/-! ### Integers -/

theorem intTy_cases (t : IntTy) (ht : t ∈ IntTy.all) :
    t = i8 ∨ t = u8 ∨ t = i16 ∨ t = u16 ∨ t = i32 ∨ t = u32 ∨ t = i64 ∨ t = u64 := by
  simpa [IntTy.all] using ht

/-- Adding or subtracting 0 in the promoted type: no UB, no wrap, value unchanged. -/
theorem addIn_zero (t : IntTy) (ht : t ∈ IntTy.all) (x : Int) (hx : t.inRange x) :
    addIn t.promote x 0 = ⟨.ok x, false⟩ ∧ subIn t.promote x 0 = ⟨.ok x, false⟩ ∧
    addIn t.promote 0 x = ⟨.ok x, false⟩ := by
  rcases intTy_cases t ht with rfl|rfl|rfl|rfl|rfl|rfl|rfl|rfl <;>
    (simp only [IntTy.inRange, IntTy.lo, IntTy.hi, i8, u8, i16, u16, i32, u32, i64, u64] at hx
     simp only [addIn, subIn, IntTy.promote, IntTy.inRange, IntTy.lo, IntTy.hi, IntTy.wrap,
       i8, u8, i16, u16, i32, u32, i64, u64, Int.add_zero, Int.sub_zero, Int.zero_add]
     simp at hx ⊢
     omega)

/-! ### Floats: comparison with zero -/

theorem scaled_zero (s : Bool) (e e0 : Int) : scaled s 0 e e0 = 0 := by
  simp [scaled]

theorem scaled_pos (m : Nat) (e e0 : Int) (hm : m ≠ 0) : 0 < scaled false m e e0 := by
  unfold scaled
  have h2 : 0 < 2 ^ (e - e0).toNat := Nat.two_pow_pos _
  have : 0 < m * 2 ^ (e - e0).toNat := Nat.mul_pos (Nat.pos_of_ne_zero hm) h2
  simp only [Bool.false_eq_true, if_false, Int.one_mul]
  omega

theorem scaled_neg (m : Nat) (e e0 : Int) (hm : m ≠ 0) : scaled true m e e0 < 0 := by
  unfold scaled
  have h2 : 0 < 2 ^ (e - e0).toNat := Nat.two_pow_pos _
  have : 0 < m * 2 ^ (e - e0).toNat := Nat.mul_pos (Nat.pos_of_ne_zero hm) h2
  simp only [if_true]
  omega

/-- Every IEEE comparison of `x` with `+0.0` depends only on the sign class of `x`, and is the
exact comparison of that sign with 0. -/
theorem fCmp_zero_right (op : CmpOp) (x : FVal) :
    fCmp op x (.fin false 0 0) = x.signClass.cmp0 op := by
  cases x with
  | nan => cases op <;> rfl
  | inf s => cases s <;> cases op <;> rfl
  | fin s m e =>
    by_cases hm : m = 0
    · subst hm
      cases op <;> simp [fCmp, fLt, fEq, scaled_zero, FVal.signClass, SignClass.cmp0, intCmp]
    · cases s
      · have h := scaled_pos m e (min e 0) hm
        have h' := scaled_pos m e (min 0 e) hm
        cases op <;>
          simp [fCmp, fLt, fEq, scaled_zero, FVal.signClass, SignClass.cmp0, intCmp, hm] <;> omega
      · have h := scaled_neg m e (min e 0) hm
        have h' := scaled_neg m e (min 0 e) hm
        cases op <;>
          simp [fCmp, fLt, fEq, scaled_zero, FVal.signClass, SignClass.cmp0, intCmp, hm] <;> omega

theorem fCmp_zero_left (op : CmpOp) (x : FVal) :
    fCmp op (.fin false 0 0) x = x.signClass.cmp0' op := by
  cases x with
  | nan => cases op <;> rfl
  | inf s => cases s <;> cases op <;> rfl
  | fin s m e =>
    by_cases hm : m = 0
    · subst hm
      cases op <;> simp [fCmp, fLt, fEq, scaled_zero, FVal.signClass, SignClass.cmp0', intCmp]
    · cases s
      · have h := scaled_pos m e (min 0 e) hm
        have h' := scaled_pos m e (min e 0) hm
        cases op <;>
          simp [fCmp, fLt, fEq, scaled_zero, FVal.signClass, SignClass.cmp0', intCmp, hm] <;> omega
      · have h := scaled_neg m e (min 0 e) hm
        have h' := scaled_neg m e (min e 0) hm
        cases op <;>
          simp [fCmp, fLt, fEq, scaled_zero, FVal.signClass, SignClass.cmp0', intCmp, hm] <;> omega

theorem intCmp_zero_right (op : CmpOp) (v : Int) :
    intCmp op v 0 = (Val.int t v).signClass.cmp0 op := by
  unfold Val.signClass
  by_cases h1 : v < 0
  · cases op <;> simp [intCmp, SignClass.cmp0, h1] <;> omega
  · by_cases h2 : v = 0
    · subst h2; cases op <;> simp [intCmp, SignClass.cmp0]
    · cases op <;> simp [intCmp, SignClass.cmp0, h1, h2] <;> omega

theorem intCmp_zero_left (op : CmpOp) (v : Int) :
    intCmp op 0 v = (Val.int t v).signClass.cmp0' op := by
  unfold Val.signClass
  by_cases h1 : v < 0
  · cases op <;> simp [intCmp, SignClass.cmp0', h1] <;> omega
  · by_cases h2 : v = 0
    · subst h2; cases op <;> simp [intCmp, SignClass.cmp0']
    · cases op <;> simp [intCmp, SignClass.cmp0', h1, h2] <;> omega

/-! ### Floats: adding zero -/

/-- Rounding a value the format already holds returns it unchanged. -/
theorem rne_of_wf (f : FltTy) (s : Bool) (m : Nat) (e : Int) (hm : m ≠ 0)
    (h : (FVal.fin s m e).wf f) : rne f s m e = .fin s m e := by
  simp only [FVal.wf, if_neg hm] at h
  obtain ⟨h1, h2, h3⟩ := h
  have hlog : Nat.log2 m < f.prec := (Nat.log2_lt hm).2 h1
  unfold rne
  rw [if_neg hm]
  have he : max (e + ((Nat.log2 m + 1 : Nat) : Int) - (f.prec : Int)) f.qmin ≤ e := by
    apply Int.max_le.2
    constructor
    · omega
    · exact h2
  simp only [he, if_true]
  have : ¬ ((Nat.log2 m : Int) + e > f.emax) := by omega
  rw [if_neg this]

/-- `x + (+0.0)`: `x` itself, except that `(-0.0) + (+0.0) = +0.0`. -/
theorem fAdd_zero_right (f : FltTy) (x : FVal) (h : x.wf f) :
    fAdd f x (.fin false 0 0) = if x = .fin true 0 0 then .fin false 0 0 else x := by
  cases x with
  | nan => rfl
  | inf s => rfl
  | fin s m e =>
    by_cases hm : m = 0
    · subst hm
      have he : e = 0 := by simpa [FVal.wf] using h
      subst he
      cases s <;> simp [fAdd]
    · have := rne_of_wf f s m e hm h
      simp [fAdd, hm, this]

theorem fAdd_zero_left (f : FltTy) (x : FVal) (h : x.wf f) :
    fAdd f (.fin false 0 0) x = if x = .fin true 0 0 then .fin false 0 0 else x := by
  cases x with
  | nan => rfl
  | inf s => rfl
  | fin s m e =>
    by_cases hm : m = 0
    · subst hm
      have he : e = 0 := by simpa [FVal.wf] using h
      subst he
      cases s <;> simp [fAdd]
    · have := rne_of_wf f s m e hm h
      simp [fAdd, hm, this]

/-- `x - (+0.0) = x`, bit for bit (also for `-0.0`). -/
theorem fSub_zero_right (f : FltTy) (x : FVal) (h : x.wf f) :
    fSub f x (.fin false 0 0) = x := by
  cases x with
  | nan => rfl
  | inf s => rfl
  | fin s m e =>
    by_cases hm : m = 0
    · subst hm
      have he : e = 0 := by simpa [FVal.wf] using h
      subst he
      cases s <;> simp [fSub, fNeg, fAdd]
    · have := rne_of_wf f s m e hm h
      simp [fSub, fNeg, fAdd, hm, this]

/-! ### Proof-extension round: casts back to the rep, `0 - x` -/

theorem wrap_id (t : IntTy) (ht : t ∈ IntTy.all) (x : Int) (hx : t.inRange x) : t.wrap x = x := by
  rcases intTy_cases t ht with rfl|rfl|rfl|rfl|rfl|rfl|rfl|rfl <;>
    (simp only [IntTy.inRange, IntTy.lo, IntTy.hi, i8, u8, i16, u16, i32, u32, i64, u64] at hx
     simp only [IntTy.wrap, i8, u8, i16, u16, i32, u32, i64, u64]
     simp at hx ⊢
     try split
     all_goals omega)

/-- `0 - x` in the promoted type when that type is signed: defined exactly when `x` is not its
minimum, and then it is `-x`. -/
theorem subIn_zero_left (t : IntTy) (ht : t ∈ IntTy.all) (x : Int) (hx : t.inRange x)
    (hs : t.promote.signed = true) (hm : x ≠ t.promote.lo) :
    subIn t.promote 0 x = ⟨.ok (-x), false⟩ := by
  rcases intTy_cases t ht with rfl|rfl|rfl|rfl|rfl|rfl|rfl|rfl <;>
    (simp only [IntTy.inRange, IntTy.lo, IntTy.hi, IntTy.promote, i8, u8, i16, u16, i32, u32, i64, u64] at hx hm hs
     simp only [subIn, IntTy.promote, IntTy.inRange, IntTy.lo, IntTy.hi, IntTy.wrap,
       i8, u8, i16, u16, i32, u32, i64, u64, Int.zero_sub]
     simp at hx hm hs ⊢
     try omega)

theorem fNeg_wf (f : FltTy) (x : FVal) (h : x.wf f) : (fNeg x).wf f := by
  cases x with
  | nan => trivial
  | inf s => trivial
  | fin s m e => simpa [fNeg, FVal.wf] using h

/-- `(+0.0) - x`: `-x` bit for bit, except that `(+0.0) - (+0.0) = +0.0`. -/
theorem fSub_zero_left (f : FltTy) (x : FVal) (h : x.wf f) :
    fSub f (.fin false 0 0) x = if x = .fin false 0 0 then .fin false 0 0 else fNeg x := by
  unfold fSub
  rw [fAdd_zero_left f (fNeg x) (fNeg_wf f x h)]
  cases x with
  | nan => rfl
  | inf s => rfl
  | fin s m e => cases s <;> simp [fNeg]

end Au.Zero

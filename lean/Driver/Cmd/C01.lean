import Driver.Util
open Au

def dispatchC01 : List String → Option String
  | _ => none

/-! Driver commands for C01. -/

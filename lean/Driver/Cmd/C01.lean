import AuModel.Outcome
import Driver.Util

/-! Driver commands for C01.

  outcome <op> <samedim 0|1> <policy 0|1> <opok 0|1>   →  ok | soft | hard
  ops                                                   →  space-separated list of operation names
-/
open Au

def opName (op : Op) : String := (reprStr op).replace "Au.Op." ""

def opOfName? (s : String) : Option Op := Op.all.find? (fun o => opName o == s)

def cmdOutcome (args : List String) : String :=
  match args with
  | [o, sd, p, k] =>
    match opOfName? o with
    | none => "bad-op"
    | some op =>
      if !(["0", "1"].contains sd && ["0", "1"].contains p && ["0", "1"].contains k) then "bad-op" else
      match outcome op (sd == "1") (p == "1") (k == "1") with
      | .ok => "ok" | .softNo => "soft" | .hard => "hard"
  | _ => "bad-op"

def dispatchC01 : List String → Option String
  | "outcome" :: args => some (cmdOutcome args)
  | ["ops"] => some (" ".intercalate (Op.all.map opName))
  | _ => none

import AuModel.Unit
import AuModel.UnitKey
import AuModel.UnitOrder
import Driver.Util

/-! Driver commands for C02 (and the unit-expression parser shared with C07/C10/C14/C18).

  unit <sexpr>      →  dim=<pack> mag=<pack>
  unitorder <sexpr> ; <sexpr> ; ...   →  one row of 0/1 per unit: `InOrderFor<UnitProduct, S_i, S_j>` by the model of
                                          the library's own order (AuModel.UnitOrder), then `av=` the avoidance classes
  sexpr ::= ( n <id> <dimpack> <magpack> ) | ( no <id> <dimpack> <magpack> <origin> <avoidance> ) | ( mul e e ) | ( div e e ) | ( pow e <num>/<den> )
          | ( scale e <magpack> )
  pack  ::= - | base^num/den{,base^num/den}     base ::= d<int> | p<nat> | pi
-/
open Au

def parseRat? (s : String) : Option Rat :=
  match s.splitOn "/" with
  | [n, d] => match n.toInt?, d.toNat? with
    | some n, some d => if d = 0 then none else some (mkRat n d)
    | _, _ => none
  | [n] => n.toInt?.map (fun n => (n : Rat))
  | _ => none

def parseMagBase? (s : String) : Option MagBase :=
  if s == "pi" then some .pi
  else if s.startsWith "p" then (s.drop 1).toString.toNat?.map MagBase.prime
  else none

def parseDimBase? (s : String) : Option Int :=
  if s.startsWith "d" then (s.drop 1).toString.toInt? else none

def parsePackWith {β : Type} (pb : String → Option β) (s : String) : Option (Pack β) :=
  if s == "-" then some [] else
  (s.splitOn ",").mapM (fun tok =>
    match tok.splitOn "^" with
    | [b, e] => do
      let b ← pb b
      let e ← parseRat? e
      pure (b, e)
    | _ => none)

def parseMag? : String → Option Mag := parsePackWith parseMagBase?
def parseDim? : String → Option Dim := parsePackWith parseDimBase?

/-- A parsed expression together with the (id ↦ dim, mag) facts of its atoms. -/
structure Parsed where
  expr : UExpr
  atoms : List (Nat × Dim × Mag)
  extra : List (Nat × Rat × Nat) := []     -- (id, origin position, UnitAvoidance) of `no` atoms

partial def parseExpr : List String → Option (Parsed × List String)
  | "(" :: "n" :: id :: d :: m :: ")" :: rest => do
    let id ← id.toNat?
    let d ← parseDim? d
    let m ← parseMag? m
    pure ({ expr := .atom (.named id), atoms := [(id, d, m)] }, rest)
  | "(" :: "no" :: id :: d :: m :: o :: av :: ")" :: rest => do
    let id ← id.toNat?
    let d ← parseDim? d
    let m ← parseMag? m
    let o ← parseRat? o
    let av ← av.toNat?
    pure ({ expr := .atom (.named id), atoms := [(id, d, m)], extra := [(id, o, av)] }, rest)
  | "(" :: "mul" :: rest => do
    let (a, rest) ← parseExpr rest
    let (b, rest) ← parseExpr rest
    match rest with
    | ")" :: rest => pure ({ expr := .mul a.expr b.expr, atoms := a.atoms ++ b.atoms, extra := a.extra ++ b.extra }, rest)
    | _ => none
  | "(" :: "div" :: rest => do
    let (a, rest) ← parseExpr rest
    let (b, rest) ← parseExpr rest
    match rest with
    | ")" :: rest => pure ({ expr := .div a.expr b.expr, atoms := a.atoms ++ b.atoms, extra := a.extra ++ b.extra }, rest)
    | _ => none
  | "(" :: "pow" :: rest => do
    let (a, rest) ← parseExpr rest
    match rest with
    | q :: ")" :: rest => do
      let q ← parseRat? q
      pure ({ a with expr := .pow a.expr q }, rest)
    | _ => none
  | "(" :: "scale" :: rest => do
    let (a, rest) ← parseExpr rest
    match rest with
    | m :: ")" :: rest => do
      let m ← parseMag? m
      pure ({ a with expr := .scale a.expr m }, rest)
    | _ => none
  | _ => none

def envOf (atoms : List (Nat × Dim × Mag)) : Env where
  dim n := match atoms.find? (fun a => a.1 == n) with
    | some a => a.2.1
    | none => []
  mag n := match atoms.find? (fun a => a.1 == n) with
    | some a => a.2.2
    | none => []

def cmdUnit (toks : List String) : String :=
  match parseExpr toks with
  | some (p, []) =>
    let env := envOf p.atoms
    let u := p.expr.eval U.keyLt
    s!"dim={dimKey (u.dimOf env)} mag={magKey (u.magOf env)}"
  | _ => "bad-op"

/-- `packlt dim|mag <pack> <pack>` → `InStandardPackOrder` of the two packs (1 / 0). -/
def cmdPackLt (args : List String) : String :=
  match args with
  | ["dim", a, b] =>
    match parseDim? a, parseDim? b with
    | some x, some y => if Pack.packLt dimLt x y then "1" else "0"
    | _, _ => "bad-op"
  | ["mag", a, b] =>
    match parseMag? a, parseMag? b with
    | some x, some y => if Pack.packLt MagBase.lt x y then "1" else "0"
    | _, _ => "bad-op"
  | _ => "bad-op"

def ordEnvOf (atoms : List (Nat × Dim × Mag)) (extra : List (Nat × Rat × Nat)) : OrdEnv where
  toEnv := envOf atoms
  origin n := match extra.find? (fun a => a.1 == n) with
    | some a => a.2.1
    | none => 0
  avoid n := match extra.find? (fun a => a.1 == n) with
    | some a => a.2.2
    | none => 0

/-- Split a token list at the separator `;`. -/
def splitSemi (toks : List String) : List (List String) :=
  let (acc, cur) := toks.foldl (fun (st : List (List String) × List String) t =>
    if t == ";" then (st.2.reverse :: st.1, []) else (st.1, t :: st.2)) ([], [])
  (cur.reverse :: acc).reverse

/-- `unitorder e1 ; e2 ; ...`: every expression is evaluated to a unit type WITH the library's order (so that the
products are assembled as the library assembles them), then all ordered pairs are compared. -/
def cmdUnitOrder (toks : List String) : String :=
  match (splitSemi toks).mapM (fun g => match parseExpr g with
      | some (p, []) => some p
      | _ => none) with
  | some ps =>
    let oe := ordEnvOf (ps.flatMap (·.atoms)) (ps.flatMap (·.extra))
    let us := ps.map (fun p => p.expr.eval (U.libLt oe))
    let rows := us.map (fun a => String.ofList (us.map (fun b => if U.libLt oe a b then '1' else '0')))
    " ".intercalate rows ++ " av=" ++ ",".intercalate (us.map (fun u => toString (u.avoidance oe)))
  | none => "bad-op"

def dispatchC02 : List String → Option String
  | "unit" :: args => some (cmdUnit args)
  | "unitorder" :: args => some (cmdUnitOrder args)
  | "packlt" :: args => some (cmdPackLt args)
  | _ => none

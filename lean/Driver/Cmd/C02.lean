import AuModel.Unit
import AuModel.UnitKey
import Driver.Util

/-! Driver commands for C02 (and the unit-expression parser shared with C07/C10/C14/C18).

  unit <sexpr>      →  dim=<pack> mag=<pack>
  sexpr ::= ( n <id> <dimpack> <magpack> ) | ( mul e e ) | ( div e e ) | ( pow e <num>/<den> )
          | ( scale e <magpack> )
  pack  ::= - | base^num/den{,base^num/den}     base ::= d<int> | p<nat> | pi
-/
open Au

def parseRat? (s : String) : Option Rat :=
  match s.splitOn "/" with
  | [n, d] => match n.toInt?, d.toNat? with
    | some n, some d => if d = 0 then none else some (mkRat n d)
    | _, _ => none
  | [n] => n.toInt?.map (fun n => (n : Rat))
  | _ => none

def parseMagBase? (s : String) : Option MagBase :=
  if s == "pi" then some .pi
  else if s.startsWith "p" then (s.drop 1).toString.toNat?.map MagBase.prime
  else none

def parseDimBase? (s : String) : Option Int :=
  if s.startsWith "d" then (s.drop 1).toString.toInt? else none

def parsePackWith {β : Type} (pb : String → Option β) (s : String) : Option (Pack β) :=
  if s == "-" then some [] else
  (s.splitOn ",").mapM (fun tok =>
    match tok.splitOn "^" with
    | [b, e] => do
      let b ← pb b
      let e ← parseRat? e
      pure (b, e)
    | _ => none)

def parseMag? : String → Option Mag := parsePackWith parseMagBase?
def parseDim? : String → Option Dim := parsePackWith parseDimBase?

/-- A parsed expression together with the (id ↦ dim, mag) facts of its atoms. -/
structure Parsed where
  expr : UExpr
  atoms : List (Nat × Dim × Mag)

partial def parseExpr : List String → Option (Parsed × List String)
  | "(" :: "n" :: id :: d :: m :: ")" :: rest => do
    let id ← id.toNat?
    let d ← parseDim? d
    let m ← parseMag? m
    pure (⟨.atom (.named id), [(id, d, m)]⟩, rest)
  | "(" :: "mul" :: rest => do
    let (a, rest) ← parseExpr rest
    let (b, rest) ← parseExpr rest
    match rest with
    | ")" :: rest => pure (⟨.mul a.expr b.expr, a.atoms ++ b.atoms⟩, rest)
    | _ => none
  | "(" :: "div" :: rest => do
    let (a, rest) ← parseExpr rest
    let (b, rest) ← parseExpr rest
    match rest with
    | ")" :: rest => pure (⟨.div a.expr b.expr, a.atoms ++ b.atoms⟩, rest)
    | _ => none
  | "(" :: "pow" :: rest => do
    let (a, rest) ← parseExpr rest
    match rest with
    | q :: ")" :: rest => do
      let q ← parseRat? q
      pure (⟨.pow a.expr q, a.atoms⟩, rest)
    | _ => none
  | "(" :: "scale" :: rest => do
    let (a, rest) ← parseExpr rest
    match rest with
    | m :: ")" :: rest => do
      let m ← parseMag? m
      pure (⟨.scale a.expr m, a.atoms⟩, rest)
    | _ => none
  | _ => none

def envOf (atoms : List (Nat × Dim × Mag)) : Env where
  dim n := match atoms.find? (fun a => a.1 == n) with
    | some a => a.2.1
    | none => []
  mag n := match atoms.find? (fun a => a.1 == n) with
    | some a => a.2.2
    | none => []

def cmdUnit (toks : List String) : String :=
  match parseExpr toks with
  | some (p, []) =>
    let env := envOf p.atoms
    let u := p.expr.eval U.keyLt
    s!"dim={dimKey (u.dimOf env)} mag={magKey (u.magOf env)}"
  | _ => "bad-op"

/-- `packlt dim|mag <pack> <pack>` → `InStandardPackOrder` of the two packs (1 / 0). -/
def cmdPackLt (args : List String) : String :=
  match args with
  | ["dim", a, b] =>
    match parseDim? a, parseDim? b with
    | some x, some y => if Pack.packLt dimLt x y then "1" else "0"
    | _, _ => "bad-op"
  | ["mag", a, b] =>
    match parseMag? a, parseMag? b with
    | some x, some y => if Pack.packLt MagBase.lt x y then "1" else "0"
    | _, _ => "bad-op"
  | _ => "bad-op"

def dispatchC02 : List String → Option String
  | "unit" :: args => some (cmdUnit args)
  | "packlt" :: args => some (cmdPackLt args)
  | _ => none

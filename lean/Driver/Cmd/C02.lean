import Driver.Util
open Au

def dispatchC02 : List String → Option String
  | _ => none

/-! Driver commands for C02. -/

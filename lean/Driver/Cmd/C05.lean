import Driver.Util
open Au

def dispatchC05 : List String → Option String
  | _ => none

/-! Driver commands for C05. -/

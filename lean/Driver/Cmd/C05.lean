import AuModel.StaticCast
import Driver.Util
open Au

/-! Driver commands for C05 (AuModel.Flt, AuModel.StaticCast).

    c05 conv  S T N D pf x   → the three `<T>` checkers, the value in the common type, the result
    c05 cast  S T x          → detail::will_static_cast_overflow/truncate<T>(x) and static_cast<T>(x)
    c05 gv    F pf           → get_value_result<F>(magnitude)
    c05 sweep S T N D        → digest of `conv` over every value of an 8/16-bit integral S

  Integers are decimal.  Floats are `nan`, `inf`, `-inf` or `m:e` (= m·2^e, m an integer; output is
  normalised to odd m, zero is `0:0`).  `pf` is `-` or `b^e,b^e,…` (ascending primes). -/

namespace C05

def stripTwos : Nat → Int → Int → Int × Int
  | 0, m, e => (m, e)
  | fuel + 1, m, e => if m % 2 = 0 && m ≠ 0 then stripTwos fuel (m / 2) (e + 1) else (m, e)

def fltStr : Flt → String
  | .nan => "nan"
  | .inf false => "inf"
  | .inf true => "-inf"
  | .fin q =>
    if q = 0 then "0:0"
    else if 2 ^ q.den.log2 = q.den then
      let (m, e) := stripTwos (q.num.natAbs.log2 + 1) q.num (-(q.den.log2 : Int))
      s!"{m}:{e}"
    else s!"q:{q.num}/{q.den}"

def parseFlt? (s : String) : Option Flt :=
  if s = "nan" then some .nan
  else if s = "inf" then some (.inf false)
  else if s = "-inf" then some (.inf true)
  else match s.splitOn ":" with
    | [ms, es] => match ms.toInt?, es.toInt? with
      | some m, some e => some (.fin ((m : Rat) * pow2 e))
      | _, _ => none
    | _ => none

def parsePf? (s : String) : Option (List (Nat × Int)) :=
  if s = "-" then some []
  else (s.splitOn ",").mapM (fun tok =>
    match tok.splitOn "^" with
    | [bs, es] => match bs.toNat?, es.toInt? with
      | some b, some e => some (b, e)
      | _, _ => none
    | _ => none)

/-- A value of type `S` from its text form; floats must be representable in the format. -/
def parseNum? (S : ArithTy) (s : String) : Option Num :=
  match S with
  | .int t => match s.toInt? with
    | some x => if t.inRange x then some (.i x) else none
    | none => none
  | .flt f => match parseFlt? s with
    | some (.fin q) => if rne f q = .fin q then some (.f (.fin q)) else none
    | some v => some (.f v)
    | none => none

def numStr : Num → String
  | .i x => toString x
  | .f x => fltStr x

def evalNumStr : Eval Num → String
  | .ok v => numStr v
  | .ub _ => "ub"

def evalBoolStr : Eval Bool → String
  | .ok b => b01 b
  | .ub _ => "ub"

def cmdConv (args : List String) : String :=
  match args with
  | [ss, ts, ns, ds, pfs, xs] =>
    match ArithTy.ofName? ss, ArithTy.ofName? ts, ns.toNat?, ds.toNat?, parsePf? pfs with
    | some S, some T, some N, some D, some pf =>
      let k : Factor := ⟨N, D, pf⟩
      if !k.wf then "bad-op" else
      match parseNum? S xs with
      | none => "bad-op"
      | some x =>
        let comp := compilesT S T k
        let o := ovfT S T k x
        let t := truncT S T k x
        let l := lossyT S T k x
        let mid := match ArithTy.common S T with
          | .flt f => (match midF f k x with | some v => fltStr v | none => "-")
          | .int _ => "-"
        let chk := match S, T, x with
          | .int s, .int t, .i v => truncCheckerEvent s t N D v
          | _, _, _ => false
        if comp then
          let r := coerceT S T k x
          s!"compiles=1 ovf={evalBoolStr o} trunc={evalBoolStr t} lossy={evalBoolStr l} mid={mid} val={evalNumStr r.val} n1={b01 r.narrowed1} wr={b01 r.wrapped} n2={b01 r.narrowed2} n3={b01 r.narrowed3} chk={b01 chk}"
        else
          s!"compiles=0 ovf={evalBoolStr o} trunc={evalBoolStr t} lossy={evalBoolStr l} mid=- val=- n1=0 wr=0 n2=0 n3=0 chk={b01 chk}"
    | _, _, _, _, _ => "bad-op"
  | _ => "bad-op"

def cmdCast (args : List String) : String :=
  match args with
  | [ss, ts, xs] =>
    match ArithTy.ofName? ss, ArithTy.ofName? ts with
    | some S, some T =>
      match parseNum? S xs with
      | none => "bad-op"
      | some x =>
        if !castCheckable S T then "nocompile" else
        let c := castNum T x
        s!"ovf={b01 (willCastOverflow S T x)} trunc={b01 (willCastTruncate S T x)} val={evalNumStr c.val} narrowed={b01 c.narrowed}"
    | _, _ => "bad-op"
  | _ => "bad-op"

def cmdGv (args : List String) : String :=
  match args with
  | [fs, pfs] =>
    match FltTy.ofName? fs, parsePf? pfs with
    | some f, some pf =>
      if !pfAscending pf then "bad-op" else
      match gvFlt f pf with
      | some v => s!"ok {fltStr v}"
      | none => "err"
    | _, _ => "bad-op"
  | _ => "bad-op"

def fnvByte (h : UInt64) (b : UInt64) : UInt64 := (h ^^^ (b &&& 0xff)) * 1099511628211

def fnvU64 (h : UInt64) (v : UInt64) : UInt64 :=
  (List.range 8).foldl (fun h i => fnvByte h (v >>> (UInt64.ofNat (8 * i)))) h

structure SweepAcc where
  h : UInt64 := 14695981039346656037
  n : Nat := 0
  novf : Nat := 0
  ntrunc : Nat := 0
  nlossy : Nat := 0
  nub : Nat := 0
  firstub : Option Int := none
  nevt : Nat := 0
  firstevt : Option Int := none
  ncleared : Nat := 0

/-- One value of the sweep.  Where the truncation pipeline is undefined (signed overflow inside the
checker) the digest uses what every non-trapping evaluation returns for integral reps: the last stage
(`will_static_cast_truncate` between integral types) is the constant `false`. -/
def sweepStep (S T : IntTy) (N D : Nat) (comp : Bool) (a : SweepAcc) (x : Int) : SweepAcc :=
  let o := ovfTII S T N D x
  let t := truncTII S T N D x
  let ob : Nat := match o with | .ok true => 1 | .ok false => 0 | .ub _ => 16
  let tb : Bool := match t with | .ok b => b | .ub _ => false
  let isub : Bool := match t with | .ok _ => false | .ub _ => true
  let lb : Bool := tb || ob != 0
  let ev : Bool := truncCheckerEvent S T N D x
  let flags : Nat := ob + (if tb then 2 else 0) + (if lb then 4 else 0)
  let h1 := fnvByte a.h (UInt64.ofNat flags)
  let a1 := { a with n := a.n + 1, novf := a.novf + (if ob = 1 then 1 else 0),
                     ntrunc := a.ntrunc + (if tb then 1 else 0), nlossy := a.nlossy + (if lb then 1 else 0),
                     nub := a.nub + (if isub then 1 else 0),
                     firstub := if isub && a.firstub.isNone then some x else a.firstub,
                     nevt := a.nevt + (if ev then 1 else 0),
                     firstevt := if ev && a.firstevt.isNone then some x else a.firstevt }
  if !lb then
    if !comp then { a1 with h := fnvByte h1 0xcc, ncleared := a1.ncleared + 1 } else
    match (coerceII S T N D x).val with
    | .ok (.i v) => { a1 with h := fnvU64 h1 (UInt64.ofNat (v % (2 ^ 64 : Int)).toNat), ncleared := a1.ncleared + 1 }
    | _ => { a1 with h := fnvByte h1 0xee, ncleared := a1.ncleared + 1 }
  else { a1 with h := h1 }

def cmdSweep (args : List String) : String :=
  match args with
  | [ss, ts, ns, ds] =>
    match IntTy.ofName? ss, IntTy.ofName? ts, ns.toNat?, ds.toNat? with
    | some S, some T, some N, some D =>
      if N = 0 || D = 0 || S.bits > 16 then "bad-op" else
      let cnt := (S.hi - S.lo + 1).toNat
      let comp := compiles (IntTy.common S T) N D
      let a := (List.range cnt).foldl (fun (a : SweepAcc) (i : Nat) => sweepStep S T N D comp a (S.lo + (i : Int))) {}
      let fu := match a.firstub with | some x => toString x | none => "-"
      let fe := match a.firstevt with | some x => toString x | none => "-"
      s!"n={a.n} hash={a.h.toNat} novf={a.novf} ntrunc={a.ntrunc} nlossy={a.nlossy} ubseen={if a.nub > 0 then 1 else 0} firstub={fu} ncleared={a.ncleared} nub={a.nub} nevt={a.nevt} firstevt={fe} compiles={b01 comp}"
    | _, _, _, _ => "bad-op"
  | _ => "bad-op"

end C05

def dispatchC05 : List String → Option String
  | "c05" :: "conv" :: args => some (C05.cmdConv args)
  | "c05" :: "cast" :: args => some (C05.cmdCast args)
  | "c05" :: "gv" :: args => some (C05.cmdGv args)
  | "c05" :: "sweep" :: args => some (C05.cmdSweep args)
  | _ => none

import Driver.Util
open Au

def dispatchC06 : List String → Option String
  | _ => none

/-! Driver commands for C06. -/

import AuModel.Policy
import Driver.Util
import Driver.Cmd.C02

/-! Driver commands for C06.

  policy <R2> <R1> <samedim 0|1> <sf magpack>   →  permit=<0|1> core=<0|1> carve=<0|1> asperm=<0|1>
      R2 = target rep, R1 = source rep, sf = Mag(source unit) / Mag(target unit);
      asperm = ImplicitRepPermitted<R1, sf> (unit-only `.as(u)` on the source)
-/
open Au

def parseRep? (s : String) : Option Rep :=
  match IntTy.ofName? s, FltTy.ofName? s with
  | some t, _ => some (.int t)
  | none, some f => some (.flt f)
  | none, none => none

def cmdPolicy (args : List String) : String :=
  match args with
  | [r2, r1, sd, ms] =>
    match parseRep? r2, parseRep? r1, parseMag? ms with
    | some rep, some src, some sf =>
      if sd != "0" && sd != "1" then "bad-op" else
      let sameDim := sd == "1"
      s!"permit={b01 (permitImplicitFrom sameDim rep sf src)} core={b01 (corePolicy rep sf src)} carve={b01 (carveOut rep sf src)} asperm={b01 (implicitRepPermitted src sf)}"
    | _, _, _ => "bad-op"
  | _ => "bad-op"

def dispatchC06 : List String → Option String
  | "policy" :: args => some (cmdPolicy args)
  | _ => none

import AuModel.CommonUnit
import AuModel.UnitKey
import Driver.Util
import Driver.Cmd.C02

/-! Driver commands for C07.

  common <sexpr> ; <sexpr> ; …   →  dim=<pack> mag=<pack> input=<0|1> members=<k>
     input   = the result is (identical to) one of the input units
     members = number of units left after flatten/dedupe/eliminate-redundant
-/
open Au

def splitOnTok (sep : String) : List String → List (List String)
  | [] => [[]]
  | t :: rest =>
    match splitOnTok sep rest with
    | [] => [[t]]
    | g :: gs => if t == sep then [] :: g :: gs else (t :: g) :: gs

def cmdCommon (toks : List String) : String :=
  let groups := splitOnTok ";" toks
  match groups.mapM (fun g => match parseExpr g with
      | some (p, []) => some p
      | _ => none) with
  | some ps =>
    if ps.isEmpty then "bad-op" else
    let env := envOf (ps.flatMap (·.atoms))
    let us := ps.map (fun p => p.expr.eval U.keyLt)
    let l := eliminateRedundant env U.keyLt (flatDedup U.keyLt (us.map U.commonParts))
    let r := commonUnit env U.keyLt us
    s!"dim={dimKey (r.dimOf env)} mag={magKey (r.magOf env)} input={b01 (us.contains r)} members={l.length}"
  | none => "bad-op"

def dispatchC07 : List String → Option String
  | "common" :: args => some (cmdCommon args)
  | _ => none

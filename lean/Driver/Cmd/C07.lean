import Driver.Util
open Au

def dispatchC07 : List String → Option String
  | _ => none

/-! Driver commands for C07. -/

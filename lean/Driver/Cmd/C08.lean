import Driver.Util
open Au

def dispatchC08 : List String → Option String
  | _ => none

/-! Driver commands for C08. -/

import AuModel.Mixed
import Driver.Util
open Au Au.Mixed

namespace C08Cmd

def opOfName? : String → Option CmpOp
  | "eq" => some .eq | "ne" => some .ne | "lt" => some .lt
  | "le" => some .le | "gt" => some .gt | "ge" => some .ge
  | _ => none

def ordStr : Ordering → String
  | .lt => "less" | .eq => "equal" | .gt => "greater"

def evalS {α : Type} (f : α → String) : Eval α → String
  | .ok v => f v
  | .ub _ => "ub"

structure Inst where
  r1 : IntTy
  r2 : IntTy
  u1 : URat
  u2 : URat

def parseInst? : List String → Option Inst
  | [r1s, r2s, n1s, d1s, n2s, d2s] =>
    match IntTy.ofName? r1s, IntTy.ofName? r2s, parseNat? n1s, parseNat? d1s, parseNat? n2s, parseNat? d2s with
    | some r1, some r2, some n1, some d1, some n2, some d2 =>
      if n1 = 0 || d1 = 0 || n2 = 0 || d2 = 0 then none else some ⟨r1, r2, ⟨n1, d1⟩, ⟨n2, d2⟩⟩
    | _, _, _, _, _, _ => none
  | _ => none

def Inst.k1 (i : Inst) : Nat := URat.ratioL i.u1 i.u2
def Inst.k2 (i : Inst) : Nat := URat.ratioR i.u1 i.u2

/-- One operation on one pair of values: canonical answer line. -/
def opLine (i : Inst) (op : String) (v1 v2 : Int) : Option String :=
  let k1 := i.k1; let k2 := i.k2
  let pre := s!"k1={k1} k2={k2}"
  let fc := decide (FitsCommon i.r1 i.r2 k1 k2 v1 v2)
  let fo := fc   -- since the fix of F11/F17 `%` and `<=>` have the same scope as the other operators
  match op with
  | "add" =>
    let r := add i.r1 i.r2 k1 k2 v1 v2
    some s!"{pre} compiles={b01 (commonCompiles i.r1 i.r2 k1 k2)} rep={(sumRep i.r1 i.r2).name} val={evalS toString r.val} wrapped={b01 r.wrapped} narrowed={b01 r.narrowed} scope={b01 (fc && decide (SumFits i.r1 i.r2 k1 k2 v1 v2))}"
  | "sub" =>
    let r := sub i.r1 i.r2 k1 k2 v1 v2
    some s!"{pre} compiles={b01 (commonCompiles i.r1 i.r2 k1 k2)} rep={(sumRep i.r1 i.r2).name} val={evalS toString r.val} wrapped={b01 r.wrapped} narrowed={b01 r.narrowed} scope={b01 (fc && decide (DiffFits i.r1 i.r2 k1 k2 v1 v2))}"
  | "mod" =>
    let r := mod i.r1 i.r2 k1 k2 v1 v2
    some s!"{pre} compiles={b01 (modCompiles i.r1 i.r2 k1 k2)} rep={(modRep i.r1 i.r2).name} val={evalS toString r.val} wrapped={b01 r.wrapped} narrowed={b01 r.narrowed} scope={b01 (fo && decide (ModDefined i.r1 i.r2 k1 k2 v1 v2))}"
  | "cmp3" =>
    let r := spaceship i.r1 i.r2 k1 k2 v1 v2
    some s!"{pre} compiles={b01 (modCompiles i.r1 i.r2 k1 k2)} rep=ord val={evalS ordStr r.val} wrapped={b01 r.wrapped} narrowed={b01 r.narrowed} scope={b01 fo}"
  | _ =>
    match opOfName? op with
    | some o =>
      let r := cmp o i.r1 i.r2 k1 k2 v1 v2
      some s!"{pre} compiles={b01 (commonCompiles i.r1 i.r2 k1 k2)} rep=bool val={evalS b01 r.val} wrapped={b01 r.wrapped} narrowed={b01 r.narrowed} scope={b01 fc}"
    | none => none

/-! Exhaustive windows: a digest over every `(v1, v2)` of a rectangle, restricted to the cases in the
scope of the statement.  The harness computes the same digest from the real operators. -/

def M64 : Nat := 18446744073709551616

def weight (v1 v2 : Int) : Nat :=
  let a := (v1 % (M64 : Int)).toNat
  let b := (v2 % (M64 : Int)).toNat
  ((a * 6364136223846793005 + b * 1442695040888963407) % M64) ||| 1

def codeInt (x : Int) : Nat := (x % (M64 : Int)).toNat

structure Acc where
  n : Nat := 0
  h : Nat := 0

def Acc.push (a : Acc) (w code : Nat) : Acc := ⟨a.n + 1, (a.h + (code + 1) % M64 * w) % M64⟩
def Acc.str (a : Acc) : String := s!"{a.n}:{a.h}"

def opNames : List String := ["eq", "ne", "lt", "le", "gt", "ge", "add", "sub", "mod", "cmp3"]

/-- Codes of the model's answers for the ten operations at `(v1, v2)`, `none` when the case is out of the
scope of the corresponding theorem.  The operands are evaluated once per cell through
`commonPair` / `repCastPair`; `AuProofs.C08` (`cmp_val`, `add_val`, `sub_val`, `mod_val`, `spaceship_val`) proves
that the operations are exactly these functions of the pairs.  A model answer of `ub` inside the scope is
coded as `2^64 - 2` (never produced by the harness). -/
def cellCodes (i : Inst) (k1 k2 : Nat) (v1 v2 : Int) : List (Option Nat) :=
  let fc := decide (FitsCommon i.r1 i.r2 k1 k2 v1 v2)
  let fo := fc   -- since the fix of F11/F17 `%` and `<=>` have the same scope as the other operators
  let ub := M64 - 2
  let c := IntTy.common i.r1 i.r2
  let cp := (commonPair i.r1 i.r2 k1 k2 v1 v2).val
  let cmpc (o : CmpOp) : Option Nat :=
    if fc then some (match cp with | .ok (x, y) => (if o.eval x y then 1 else 0) | .ub _ => ub) else none
  let stepc (s : Int → Int → Step) (inScope : Bool) : Option Nat :=
    if fc && inScope then
      some (match cp with
        | .ok (x, y) => (match (s x y).val with | .ok z => codeInt z | .ub _ => ub)
        | .ub _ => ub)
    else none
  let op := if fo then some (repCastPair i.r1 i.r2 k1 k2 v1 v2).val else none
  let modc : Option Nat :=
    if fo && decide (ModDefined i.r1 i.r2 k1 k2 v1 v2) then
      some (match op with
        | some (.ok (x, y)) => (match (modIn (modRep i.r1 i.r2) x y).val with | .ok z => codeInt z | .ub _ => ub)
        | _ => ub)
    else none
  let c3 : Option Nat :=
    if fo then
      some (match op with
        | some (.ok (x, y)) => (match compare x y with | .lt => 0 | .eq => 1 | .gt => 2)
        | _ => ub)
    else none
  [cmpc .eq, cmpc .ne, cmpc .lt, cmpc .le, cmpc .gt, cmpc .ge,
   stepc (addIn c.promote) (decide (SumFits i.r1 i.r2 k1 k2 v1 v2)),
   stepc (subIn c.promote) (decide (DiffFits i.r1 i.r2 k1 k2 v1 v2)), modc, c3]

def sweepAll (i : Inst) (lo1 hi1 lo2 hi2 : Int) : Array Acc := Id.run do
  let k1 := i.k1; let k2 := i.k2
  let n1 := (hi1 - lo1 + 1).toNat
  let n2 := (hi2 - lo2 + 1).toNat
  let mut accs : Array Acc := Array.replicate 10 {}
  for a in [0:n1] do
    for b in [0:n2] do
      let v1 := lo1 + a
      let v2 := lo2 + b
      let w := weight v1 v2
      let codes := cellCodes i k1 k2 v1 v2
      let mut j := 0
      for c in codes do
        match c with
        | some code => accs := accs.modify j (fun x => x.push w code)
        | none => pure ()
        j := j + 1
  return accs

def cmdSweep (args : List String) : String :=
  match args with
  | [r1s, r2s, n1s, d1s, n2s, d2s, lo1s, hi1s, lo2s, hi2s] =>
    match parseInst? [r1s, r2s, n1s, d1s, n2s, d2s], parseInt? lo1s, parseInt? hi1s, parseInt? lo2s, parseInt? hi2s with
    | some i, some lo1, some hi1, some lo2, some hi2 =>
      if !(decide (i.r1.inRange lo1) && decide (i.r1.inRange hi1) && decide (i.r2.inRange lo2) && decide (i.r2.inRange hi2))
          || hi1 < lo1 || hi2 < lo2 || (hi1 - lo1 + 1) * (hi2 - lo2 + 1) > 1000000 then "bad-op"
      else
        let accs := sweepAll i lo1 hi1 lo2 hi2
        " ".intercalate ((opNames.zip accs.toList).map fun (op, a) => s!"{op}={a.str}")
    | _, _, _, _, _ => "bad-op"
  | _ => "bad-op"

def cmdOp (args : List String) : String :=
  match args with
  | [op, r1s, r2s, n1s, d1s, n2s, d2s, v1s, v2s] =>
    match parseInst? [r1s, r2s, n1s, d1s, n2s, d2s], parseInt? v1s, parseInt? v2s with
    | some i, some v1, some v2 =>
      if !(decide (i.r1.inRange v1) && decide (i.r2.inRange v2)) then "bad-op"
      else match opLine i op v1 v2 with
        | some s => s
        | none => "bad-op"
    | _, _, _ => "bad-op"
  | _ => "bad-op"

def cmdUnit (args : List String) : String :=
  match args with
  | [n1s, d1s, n2s, d2s] =>
    match parseNat? n1s, parseNat? d1s, parseNat? n2s, parseNat? d2s with
    | some n1, some d1, some n2, some d2 =>
      if n1 = 0 || d1 = 0 || n2 = 0 || d2 = 0 then "bad-op" else
      let u1 : URat := ⟨n1, d1⟩; let u2 : URat := ⟨n2, d2⟩
      let c := (URat.common u1 u2).reduced
      s!"k1={URat.ratioL u1 u2} k2={URat.ratioR u1 u2} cnum={c.num} cden={c.den}"
    | _, _, _, _ => "bad-op"
  | _ => "bad-op"

/-- `c08gate r k` → whether the implicit-conversion policy admits the integer ratio `k` in rep `r`. -/
def cmdGate (args : List String) : String :=
  match args with
  | [rs, ks] =>
    match IntTy.ofName? rs, parseNat? ks with
    | some r, some k => if k = 0 then "bad-op" else s!"ok={b01 (implicitOk r k)}"
    | _, _ => "bad-op"
  | _ => "bad-op"

/-- `c08gates r1 r2 n1 d1 n2 d2` → the model's compile gates for the two groups of operations. -/
def cmdGates (args : List String) : String :=
  match parseInst? args with
  | some i => s!"common={b01 (commonCompiles i.r1 i.r2 i.k1 i.k2)} own={b01 (modCompiles i.r1 i.r2 i.k1 i.k2)} lookup={b01 (lookupOk i.r1 i.r2 i.k1 i.k2)}"
  | none => "bad-op"

end C08Cmd

def dispatchC08 : List String → Option String
  | "c08op" :: args => some (C08Cmd.cmdOp args)
  | "c08sweep" :: args => some (C08Cmd.cmdSweep args)
  | "c08unit" :: args => some (C08Cmd.cmdUnit args)
  | "c08gate" :: args => some (C08Cmd.cmdGate args)
  | "c08gates" :: args => some (C08Cmd.cmdGates args)
  | _ => none

/-! Driver commands for C08 (AuModel.Mixed, AuModel.CommonRat). -/

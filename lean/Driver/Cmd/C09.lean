import AuModel.Point
import Driver.Util
open Au Au.Mixed Au.Point

namespace C09Cmd

def parseUnit? : List String → Option PtUnit
  | [sn, sd, oc, on, od] =>
    match parseNat? sn, parseNat? sd, parseInt? oc, parseNat? on, parseNat? od with
    | some a, some b, some c, some d, some e =>
      if a = 0 || b = 0 || d = 0 || e = 0 || !(decide (originRep.inRange c)) then none else some ⟨⟨a, b⟩, c, ⟨d, e⟩⟩
    | _, _, _, _, _ => none
  | _ => none

def evalS {α : Type} (f : α → String) : Eval α → String
  | .ok v => f v
  | .ub _ => "ub"

def opOfName? : String → Option CmpOp
  | "eq" => some .eq | "ne" => some .ne | "lt" => some .lt
  | "le" => some .le | "gt" => some .gt | "ge" => some .ge
  | _ => none

/-- `c09in r n <u: sn sd oc on od> <u'> v` → explicit-rep conversion. -/
def cmdIn (args : List String) : String :=
  match args with
  | [rs, ns, a1, a2, a3, a4, a5, b1, b2, b3, b4, b5, vs] =>
    match IntTy.ofName? rs, IntTy.ofName? ns, parseUnit? [a1, a2, a3, a4, a5], parseUnit? [b1, b2, b3, b4, b5], parseInt? vs with
    | some r, some n, some u, some u', some v =>
      if !(decide (r.inRange v)) then "bad-op" else
      let x := inExplicit r n u u' v
      s!"compiles={b01 (explicitCompiles r n u u')} calc={(intermediateRep r n).name} val={evalStr x.val} wrapped={b01 x.wrapped} narrowed={b01 x.narrowed}"
    | _, _, _, _, _ => "bad-op"
  | _ => "bad-op"

/-- `c09imp r <u> <u'> v` → implicit-rep conversion. -/
def cmdImp (args : List String) : String :=
  match args with
  | [rs, a1, a2, a3, a4, a5, b1, b2, b3, b4, b5, vs] =>
    match IntTy.ofName? rs, parseUnit? [a1, a2, a3, a4, a5], parseUnit? [b1, b2, b3, b4, b5], parseInt? vs with
    | some r, some u, some u', some v =>
      if !(decide (r.inRange v)) then "bad-op" else
      let x := inImplicit r u u' v
      s!"compiles={b01 (implicitCompiles r u u')} val={evalStr x.val} wrapped={b01 x.wrapped} narrowed={b01 x.narrowed}"
    | _, _, _, _ => "bad-op"
  | _ => "bad-op"

/-- `c09cpu <u1> <u2>` → the common point unit: ratios of the two scales to it, and which origin it has. -/
def cmdCpu (args : List String) : String :=
  match args with
  | [a1, a2, a3, a4, a5, b1, b2, b3, b4, b5] =>
    match parseUnit? [a1, a2, a3, a4, a5], parseUnit? [b1, b2, b3, b4, b5] with
    | some u1, some u2 =>
      let cu := commonPointUnit u1 u2
      let (n1, d1) := ratio u1.scale cu.scale
      let (n2, d2) := ratio u2.scale cu.scale
      s!"k1={n1}/{d1} k2={n2}/{d2} scale={cu.scale.reduced.num}/{cu.scale.reduced.den} first={b01 (commonOriginIsFirst u1 u2)} compiles_hint={b01 (pointOpsCompile IntTy.i64 IntTy.i64 u1 u2)}"
    | _, _ => "bad-op"
  | _ => "bad-op"

/-- `c09op <op> r1 r2 <u1> <u2> v1 v2`, op ∈ eq ne lt le gt ge sub. -/
def cmdOp (args : List String) : String :=
  match args with
  | [op, r1s, r2s, a1, a2, a3, a4, a5, b1, b2, b3, b4, b5, v1s, v2s] =>
    match IntTy.ofName? r1s, IntTy.ofName? r2s, parseUnit? [a1, a2, a3, a4, a5], parseUnit? [b1, b2, b3, b4, b5], parseInt? v1s, parseInt? v2s with
    | some r1, some r2, some u1, some u2, some v1, some v2 =>
      if !(decide (r1.inRange v1) && decide (r2.inRange v2)) then "bad-op" else
      let comp := b01 (pointOpsCompile r1 r2 u1 u2)
      if op == "cmp3" then
        let x := spaceshipPoints r1 r2 u1 u2 v1 v2
        let os := match x.val with | .ok .lt => "0" | .ok .eq => "1" | .ok .gt => "2" | .ub _ => "ub"
        s!"compiles={b01 (spaceshipCompiles r1 r2 u1 u2)} rep=ord val={os} wrapped={b01 x.wrapped} narrowed={b01 x.narrowed}"
      else if op == "sub" then
        let x := subPoints r1 r2 u1 u2 v1 v2
        s!"compiles={comp} rep={(IntTy.common r1 r2).name} val={evalStr x.val} wrapped={b01 x.wrapped} narrowed={b01 x.narrowed}"
      else match opOfName? op with
        | some o =>
          let x := cmpPoints o r1 r2 u1 u2 v1 v2
          s!"compiles={comp} rep=bool val={evalS b01 x.val} wrapped={b01 x.wrapped} narrowed={b01 x.narrowed}"
        | none => "bad-op"
    | _, _, _, _, _, _ => "bad-op"
  | _ => "bad-op"

/-- `c09shift <pq|qp|pmq> rp rq <uP: sn sd oc on od> sqn sqd vp vq` → point ± quantity, value in the result unit. -/
def cmdShift (args : List String) : String :=
  match args with
  | [ops, rps, rqs, a1, a2, a3, a4, a5, qn, qd, vps, vqs] =>
    let op? : Option ShiftOp := match ops with
      | "pq" => some .pPlusQ | "qp" => some .qPlusP | "pmq" => some .pMinusQ | _ => none
    match op?, IntTy.ofName? rps, IntTy.ofName? rqs, parseUnit? [a1, a2, a3, a4, a5], parseNat? qn, parseNat? qd, parseInt? vps, parseInt? vqs with
    | some op, some rp, some rq, some uP, some n, some d, some vp, some vq =>
      if n = 0 || d = 0 || !(decide (rp.inRange vp) && decide (rq.inRange vq)) then "bad-op" else
      let x := pointShift op rp rq uP ⟨n, d⟩ vp vq
      let cu := shiftResultUnit uP ⟨n, d⟩
      s!"rep={(IntTy.common rp rq).name} scale={cu.scale.reduced.num}/{cu.scale.reduced.den} val={evalStr x.val} wrapped={b01 x.wrapped} narrowed={b01 x.narrowed}"
    | _, _, _, _, _, _, _, _ => "bad-op"
  | _ => "bad-op"

end C09Cmd

def dispatchC09 : List String → Option String
  | "c09in" :: args => some (C09Cmd.cmdIn args)
  | "c09imp" :: args => some (C09Cmd.cmdImp args)
  | "c09cpu" :: args => some (C09Cmd.cmdCpu args)
  | "c09op" :: args => some (C09Cmd.cmdOp args)
  | "c09shift" :: args => some (C09Cmd.cmdShift args)
  | _ => none

/-! Driver commands for C09 (AuModel.Point). -/

import Driver.Util
open Au

def dispatchC09 : List String → Option String
  | _ => none

/-! Driver commands for C09. -/

import AuModel.CommonPoint
import AuModel.UnitKey
import Driver.Util
import Driver.Cmd.C02

/-! Driver commands for C10.

  commonpoint <unitmag>|<count>|<originunitmag> ; …     (count 0 and originunitmag `none` = ZERO origin)
     →  mag=<pack> opos=<num/den> onative=<int>
-/
open Au

def parsePointUnit (s : String) : Option (Mag × OriginDecl) :=
  match s.splitOn "|" with
  | [um, c, om] => do
    let um ← parseMag? um
    if om == "none" then pure (um, none)
    else do
      let c ← c.toInt?
      let om ← parseMag? om
      pure (um, some (c, om))
  | _ => none

def cmdCommonPoint (toks : List String) : String :=
  let items := toks.filter (· ≠ ";")
  match items.mapM parsePointUnit with
  | none => "bad-op"
  | some us =>
    if us.isEmpty then "bad-op" else
    match us.mapM (fun u => u.2.toOrigin?) with
    | none => "irrational-origin"
    | some origins0 =>
      let origins := (origins0.zip (List.range origins0.length)).map fun p => { p.1 with id := p.2 }
      let c := commonOrigin origins
      -- the declaration that produced the chosen origin
      let oc : OriginDecl := match us[c.id]? with
        | some u => u.2
        | none => none
      let disp := (us.zip origins).filterMap fun p => dispUnitMag oc p.1.2 c p.2
      let m := commonPointMag (us.map (·.1)) disp
      s!"mag={magKey m} opos={c.pos.num}/{c.pos.den} onative={c.native}"

def dispatchC10 : List String → Option String
  | "commonpoint" :: args => some (cmdCommonPoint args)
  | _ => none

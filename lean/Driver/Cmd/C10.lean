import AuModel.CommonPoint
import AuModel.UnitKey
import Driver.Util
import Driver.Cmd.C02

/-! Driver commands for C10.

  commonpoint <unitmag>|<count>|<originunitmag> ; …     (count 0 and originunitmag `none` = ZERO origin)
     →  mag=<pack> opos=<num/den> onative=<int>
-/
open Au

def parsePointUnit (s : String) : Option (Mag × OriginDecl) :=
  match s.splitOn "|" with
  | [um, c, om] => do
    let um ← parseMag? um
    if om == "none" then pure (um, none)
    else do
      let c ← c.toInt?
      let om ← parseMag? om
      pure (um, some (c, om))
  | _ => none

def cmdCommonPoint (toks : List String) : String :=
  let items := toks.filter (· ≠ ";")
  match items.mapM parsePointUnit with
  | none => "bad-op"
  | some us =>
    if us.isEmpty then "bad-op" else
    match commonPointAssembly us with
    | none => "irrational-origin"
    | some (m, c, _) => s!"mag={magKey m} opos={c.pos.num}/{c.pos.den} onative={c.native}"

def dispatchC10 : List String → Option String
  | "commonpoint" :: args => some (cmdCommonPoint args)
  | _ => none

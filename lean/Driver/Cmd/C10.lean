import Driver.Util
open Au

def dispatchC10 : List String → Option String
  | _ => none

/-! Driver commands for C10. -/

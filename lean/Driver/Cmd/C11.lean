import Driver.Util
open Au

def dispatchC11 : List String → Option String
  | _ => none

/-! Driver commands for C11. -/

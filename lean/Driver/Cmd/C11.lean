import AuModel.GetValue
import AuModel.UnitKey
import Driver.Util
import Driver.Cmd.C02

/-! Driver commands for C11.

  getvalue <T> <magpack>   →  outcome=<ok|nonint|root|nofit> val=<integer | num/den | inf | nan | ->
                               T ∈ i8 … u64, f32, f64, f80
  classify <magpack>       →  isint=<0|1> israt=<0|1> num=<pack> den=<pack> ipart=<pack>
-/
open Au

def outcomeStr : MagOutcome → String
  | .ok => "ok" | .errNonInteger => "nonint" | .errInvalidRoot => "root" | .errCannotFit => "nofit"

def fltStr : Flt → String
  | .nan => "nan"
  | .inf s => if s then "-inf" else "inf"
  | .fin q => s!"{q.num}/{q.den}"

def cmdGetValue (args : List String) : String :=
  match args with
  | [ts, ms] =>
    match parseMag? ms with
    | none => "bad-op"
    | some m =>
      match IntTy.ofName? ts, FltTy.ofName? ts with
      | some t, _ =>
        let (o, v) := getValueResultInt t m
        s!"outcome={outcomeStr o} val={if o == .ok then toString v else "-"}"
      | none, some f =>
        let (o, v) := getValueResultFlt f m
        s!"outcome={outcomeStr o} val={if o == .ok then fltStr v else "-"}"
      | none, none => "bad-op"
  | _ => "bad-op"

def cmdClassify (args : List String) : String :=
  match args with
  | [ms] =>
    match parseMag? ms with
    | none => "bad-op"
    | some m =>
      s!"isint={b01 (Mag.isIntegerMag m)} israt={b01 (Mag.isRationalMag m)} num={magKey (Mag.numerator m)} den={magKey (Mag.denominator m)} ipart={magKey (Mag.integerPart m)}"
  | _ => "bad-op"

def dispatchC11 : List String → Option String
  | "getvalue" :: args => some (cmdGetValue args)
  | "classify" :: args => some (cmdClassify args)
  | _ => none

import AuModel.Factoring
import Generated.FirstPrimes
import Driver.Util
open Au Au.U64

namespace C12Cmd

def flags {α : Type} (w : W α) : String :=
  s!"wrapped={b01 w.wrapped} divz={b01 w.divz} stuck={b01 w.stuck}"

def natW (w : W Nat) : String := s!"val={w.val} {flags w}"

/-- A `uint64_t` operand. -/
def u64? (s : String) : Option Nat :=
  match s.toNat? with
  | some v => if v < M then some v else none
  | none => none

/-- An `int64_t` operand. -/
def i64? (s : String) : Option Int :=
  match s.toInt? with
  | some v => if -9223372036854775808 ≤ v ∧ v ≤ 9223372036854775807 then some v else none
  | none => none

def fuel : Fuel := {}
def table : List Nat := Au.Generated.firstPrimes

def magStr : MagOutcome → String
  | .mag [] => "mag=1"
  | .mag m => "mag=" ++ "*".intercalate (m.map fun be => s!"{be.1}^{be.2}")
  | .rejected why => "rejected=" ++ why.replace " " "_"

def run3 (f : Nat → Nat → Nat → W Nat) : List String → String
  | [a, b, c] =>
    match u64? a, u64? b, u64? c with
    | some a, some b, some c => natW (f a b c)
    | _, _, _ => "bad-op"
  | _ => "bad-op"

def run2 (f : Nat → Nat → W Nat) : List String → String
  | [a, b] =>
    match u64? a, u64? b with
    | some a, some b => natW (f a b)
    | _, _ => "bad-op"
  | _ => "bad-op"

def run1 (f : Nat → String) : List String → String
  | [a] =>
    match u64? a with
    | some a => f a
    | none => "bad-op"
  | _ => "bad-op"

def prStr (w : W PrimeResult) : String := s!"val={w.val.name} {flags w}"

/-- Everything the harness prints for one `n` (the `P` line). -/
def cmdP (withFactor : Bool) (n : Nat) : String :=
  let ip := isPrime fuel n
  let sq := isPerfectSquare n
  let mr := millerRabin 2 n
  -- strong_lucas(2^64 - 1) does not terminate (n + 1 wraps to 0); the harness skips it too
  let lucas := if n = maxU then "skipped" else (strongLucas fuel.dSearch n).val.name
  let lstuck := if n = maxU then false else ((strongLucas fuel.dSearch n).stuck || (strongLucas fuel.dSearch n).wrapped)
  let fac := if n > 1 && withFactor then findPrimeFactor fuel table n else W.ok 0
  let bad := ip.divz || ip.stuck || ip.wrapped || sq.divz || sq.stuck || sq.wrapped || mr.divz || mr.stuck || mr.wrapped ||
             lstuck || fac.divz || fac.stuck
  s!"prime={b01 ip.val} sq={b01 sq.val} mr2={mr.val.name} lucas={lucas} factor={fac.val} modelbad={b01 bad}"

end C12Cmd

open C12Cmd in
def dispatchC12 : List String → Option String
  | "c12" :: "addmod" :: args => some (run3 addMod args)
  | "c12" :: "submod" :: args => some (run3 subMod args)
  | "c12" :: "mulmod" :: args => some (run3 mulMod args)
  | "c12" :: "powmod" :: args => some (run3 powMod args)
  | "c12" :: "halfmod" :: args => some (run2 halfModOdd args)
  | "c12" :: "gcd" :: args => some (run2 gcd args)
  | "c12" :: "decompose" :: args =>
    some (run1 (fun n => let w := decompose n
                         s!"s={w.val.powerOfTwo} d={w.val.oddRemainder} {flags w}") args)
  | "c12" :: "mr" :: args =>
    some (match args with
      | [a, n] => match u64? a, u64? n with
        | some a, some n => prStr (millerRabin a n)
        | _, _ => "bad-op"
      | _ => "bad-op")
  | "c12" :: "sq" :: args =>
    some (run1 (fun n => let w := isPerfectSquare n; s!"val={b01 w.val} {flags w}") args)
  | "c12" :: "jacobi" :: args =>
    some (match args with
      | [a, n] => match i64? a, u64? n with
        | some a, some n => let w := jacobiSymbol a n; s!"val={w.val} {flags w}"
        | _, _ => "bad-op"
      | _ => "bad-op")
  | "c12" :: "lucas" :: args => some (run1 (fun n => prStr (strongLucas fuel.dSearch n)) args)
  | "c12" :: "bpsw" :: args => some (run1 (fun n => prStr (bailliePSW fuel.dSearch n)) args)
  | "c12" :: "rho" :: args => some (run1 (fun n => natW (findPollardRhoFactor fuel n)) args)
  | "c12" :: "factor" :: args => some (run1 (fun n => natW (findPrimeFactor fuel table n)) args)
  | "c12" :: "P" :: args => some (run1 (cmdP true) args)
  -- the same without find_prime_factor (which does not terminate on a prime that is_prime rejects)
  | "c12" :: "PQ" :: args => some (run1 (cmdP false) args)
  | "c12" :: "mag" :: args =>
    some (run1 (fun n => let w := magOfNat fuel table n; s!"{magStr w.val} {flags w}") args)
  | "c12" :: "magmul" :: args =>
    -- mag<a>() * mag<b>() and mag<a*b>() side by side
    some (match args with
      | [a, b] => match u64? a, u64? b with
        | some a, some b =>
          if a * b < M then
            let wa := magOfNat fuel table a
            let wb := magOfNat fuel table b
            let wp := magOfNat fuel table (a * b)
            match wa.val, wb.val, wp.val with
            | .mag ma, .mag mb, .mag mp =>
              s!"{magStr (.mag (magMul ma mb))} prod{magStr (.mag mp)} same={b01 (decide (magMul ma mb = mp))} stuck={b01 (wa.stuck || wb.stuck || wp.stuck)}"
            | _, _, _ => "rejected"
          else "bad-op"
        | _, _ => "bad-op"
      | _ => "bad-op")
  | _ => none

/-! Driver commands for C12 (AuModel.Mod / Primes / Factoring). -/

import Driver.Util
open Au

def dispatchC12 : List String → Option String
  | _ => none

/-! Driver commands for C12. -/

import Driver.Util
open Au

def dispatchC13 : List String → Option String
  | _ => none

/-! Driver commands for C13. -/

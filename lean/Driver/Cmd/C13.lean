import AuModel.QuantityOps
import Generated.Classes
import Driver.Util
open Au Au.C13

/-! Driver commands for C13 (AuModel.Layout over Generated.Classes, AuModel.QuantityOps).

  c13 repsize <R>                         → size=<n> align=<n>
  c13 layout <Quantity|QuantityPoint> <R> → size= align= tc= td= sl= dflt=
  c13 op <op> <R> <T> <a> <b> <unitless>  → gcc= clang= ty= val= rawok= rawty= rawval=
  c13 sweep8 <op> <R> <T>                 → n= defined= hash= rawhash=
  c13 rt <R> <x>                          → q=<bits> pt=<bits|nan|ub|->

  Values: integers in decimal; floating-point values as `0x…` bit patterns (`nan` for a NaN result:
  payload propagation is not modelled); `-` where the value is not modelled (`long double`). -/

namespace C13Cmd

/-- IEEE semantics of `float` / `double` through Lean's `Float32` / `Float` (x86-64 SSE, the same
instructions the C++ compilers emit).  `long double` is not modelled: the commands never evaluate a
value that involves `f80`. -/
def f32 (x : Nat) : Float32 := Float32.ofBits x.toUInt32
def f64 (x : Nat) : Float := Float.ofBits x.toUInt64

def fbin (k : FltK) (op : ArOp) (x y : Nat) : Nat :=
  match k with
  | .f32 =>
    let a := f32 x; let b := f32 y
    (match op with | .add => a + b | .sub => a - b | .mul => a * b | .div => a / b | .mod => a).toBits.toNat
  | .f64 =>
    let a := f64 x; let b := f64 y
    (match op with | .add => a + b | .sub => a - b | .mul => a * b | .div => a / b | .mod => a).toBits.toNat
  | .f80 => 0

def fcmp (k : FltK) (op : CmpOp) (x y : Nat) : Bool :=
  match k with
  | .f32 =>
    let a := f32 x; let b := f32 y
    (match op with | .eq => a == b | .ne => !(a == b) | .lt => decide (a < b) | .le => decide (a ≤ b)
                   | .gt => decide (b < a) | .ge => decide (b ≤ a))
  | .f64 =>
    let a := f64 x; let b := f64 y
    (match op with | .eq => a == b | .ne => !(a == b) | .lt => decide (a < b) | .le => decide (a ≤ b)
                   | .gt => decide (b < a) | .ge => decide (b ≤ a))
  | .f80 => false

def fneg (k : FltK) (x : Nat) : Nat :=
  match k with
  | .f32 => (-(f32 x)).toBits.toNat
  | .f64 => (-(f64 x)).toBits.toNat
  | .f80 => 0

def fofInt (k : FltK) (_ : IntTy) (v : Int) : Nat :=
  match k with
  | .f32 => (Float32.ofInt v).toBits.toNat
  | .f64 => (Float.ofInt v).toBits.toNat
  | .f80 => 0

def fcvt (a b : FltK) (x : Nat) : Nat :=
  match a, b with
  | .f32, .f64 => (f32 x).toFloat.toBits.toNat
  | .f64, .f32 => (f64 x).toFloat32.toBits.toNat
  | _, _ => x

def ieee : FOps := ⟨fbin, fcmp, fneg, fofInt, fcvt⟩

def hexDigits (n : Nat) : String := String.ofList (Nat.toDigits 16 n)

def isNaNBits (k : FltK) (x : Nat) : Bool :=
  match k with
  | .f32 => (x / 2 ^ 23) % 256 == 255 && x % 2 ^ 23 != 0
  | .f64 => (x / 2 ^ 52) % 2048 == 2047 && x % 2 ^ 52 != 0
  | .f80 => false

def parseVal? (t : RepTy) (s : String) : Option Val :=
  match t with
  | .int ty =>
    match parseInt? s with
    | some v => if decide (ty.inRange v) then some (.int v) else none
    | none => none
  | .flt k =>
    if s.startsWith "0x" then
      let ds := (s.drop 2).toString.toList
      if ds.isEmpty || !ds.all (fun c => c.isDigit || ('a' ≤ c && c ≤ 'f')) then none
      else
        let n := ds.foldl (fun acc c => acc * 16 + (if c.isDigit then c.toNat - '0'.toNat else c.toNat - 'a'.toNat + 10)) 0
        if n < 2 ^ (8 * (if k == .f80 then 10 else k.size)) then some (.flt n) else none
    else none

def resTyStr : Option ResTy → String
  | none => "-"
  | some (.val r) => r.name
  | some .bool => "bool"
  | some (.ref r) => "ref:" ++ r.name

def resKind : Option ResTy → Option FltK
  | some (.val (.flt k)) => some k
  | some (.ref (.flt k)) => some k
  | _ => none

def valStr (ty : Option ResTy) (v : Eval Val) : String :=
  match v with
  | .ub _ => "ub"
  | .ok (.int x) => toString x
  | .ok (.bool b) => b01 b
  | .ok (.flt x) =>
    match resKind ty with
    | some k => if isNaNBits k x then "nan" else "0x" ++ hexDigits x
    | none => "0x" ++ hexDigits x

def opOfName? : String → Option OpName
  | "eq" => some (.cmp .eq) | "ne" => some (.cmp .ne) | "lt" => some (.cmp .lt)
  | "le" => some (.cmp .le) | "gt" => some (.cmp .gt) | "ge" => some (.cmp .ge)
  | "add" => some (.addsub .add) | "sub" => some (.addsub .sub) | "mod" => some .mod
  | "pos" => some (.un .pos) | "neg" => some (.un .neg)
  | "addas" => some (.addsubAs .add) | "subas" => some (.addsubAs .sub)
  | "mulas" => some (.scaleAs .mul) | "divas" => some (.scaleAs .div)
  | "mulr" => some (.scalarR .mul) | "divr" => some (.scalarR .div)
  | "mull" => some .mulL | "divl" => some .divL
  | _ => none

def evalOp (F : FOps) (o : OpName) (R T : RepTy) (a b : Val) (unitless : Bool) : OpResult × OpResult :=
  (qOp F o R T a b unitless, rawOp F o R T a b)

def involvesF80 (R T : RepTy) : Bool := R == .flt .f80 || T == .flt .f80

def cmdOp (args : List String) : String :=
  match args with
  | [os, rs, ts, as, bs, us] =>
    match opOfName? os, RepTy.ofName? rs, RepTy.ofName? ts with
    | some o, some R, some T =>
      if o.sameType && R != T then "bad-op" else
      if us != "0" && us != "1" then "bad-op" else
      match parseVal? R as, parseVal? T bs with
      | some a, some b =>
        let (q, r) := evalOp ieee o R T a b (us == "1")
        let nv := involvesF80 R T
        let qv := if q.ty.isNone then "-" else if nv then "-" else valStr q.ty q.val
        let rv := if r.ty.isNone then "-" else if nv then "-" else valStr r.ty r.val
        s!"gcc={b01 q.verdict.gcc} clang={b01 q.verdict.clang} ty={resTyStr q.ty} val={qv} rawok={b01 r.verdict.gcc} rawty={resTyStr r.ty} rawval={rv}"
      | _, _ => "bad-op"
    | _, _, _ => "bad-op"
  | _ => "bad-op"

def word (v : Eval Val) : UInt64 :=
  match v with
  | .ub _ => 0xDEADBEEFDEADBEEF
  | .ok (.int x) => UInt64.ofNat (x % (2 ^ 64 : Int)).toNat
  | .ok (.bool b) => if b then 1 else 0
  | .ok (.flt x) => UInt64.ofNat x

def mix (h w : UInt64) : UInt64 := (h ^^^ w) * 0x100000001b3

def range (t : IntTy) : List Int := (List.range (t.hi - t.lo + 1).toNat).map (fun (i : Nat) => t.lo + Int.ofNat i)

def cmdSweep8 (args : List String) : String :=
  match args with
  | [os, rs, ts] =>
    match opOfName? os, RepTy.ofName? rs, RepTy.ofName? ts with
    | some o, some (.int tr), some (.int tt) =>
      if tr.bits != 8 || tt.bits != 8 then "bad-op" else
      if o.sameType && tr != tt then "bad-op" else
      let R := RepTy.int tr; let T := RepTy.int tt
      let unary := match o with | .un _ => true | _ => false
      let bsl := if unary then [0] else range tt
      let init : UInt64 × UInt64 × Nat × Nat := (0xcbf29ce484222325, 0xcbf29ce484222325, 0, 0)
      let (h, rh, n, d) := (range tr).foldl (fun acc a =>
        bsl.foldl (fun (acc : UInt64 × UInt64 × Nat × Nat) b =>
          let (h, rh, n, d) := acc
          let (q, r) := evalOp ieee o R T (.int a) (.int b) true
          let def_ := match q.val with | .ok _ => 1 | .ub _ => 0
          (mix h (word q.val), mix rh (word r.val), n + 1, d + def_)) acc) init
      s!"n={n} defined={d} hash={h} rawhash={rh}"
    | _, _, _ => "bad-op"
  | _ => "bad-op"

def cmdRepsize (args : List String) : String :=
  match args with
  | [rs] =>
    match RepTy.ofName? rs with
    | some R => s!"size={R.size} align={R.align}"
    | none => "bad-op"
  | _ => "bad-op"

def cmdLayout (args : List String) : String :=
  match args with
  | [cs, rs] =>
    match Generated.Classes.env.find cs, RepTy.ofName? rs with
    | some d, some R =>
      let f := classFacts Generated.Classes.env d R
      let (sz, al) := match f.layout with
        | some l => (toString l.size, toString l.align)
        | none => ("-", "-")
      let dv := match f.dflt with | .zero => "zero" | .indeterminate => "indeterminate" | .unknown => "unknown"
      s!"size={sz} align={al} tc={b01 f.trivCopy} td={b01 f.trivDtor} sl={b01 f.stdLayout} dflt={dv}"
    | _, _ => "bad-op"
  | _ => "bad-op"

def cmdRt (args : List String) : String :=
  match args with
  | [rs, xs] =>
    match RepTy.ofName? rs with
    | some R =>
      match parseVal? R xs with
      | some x =>
        let q := qRoundTrip R x
        let p := if R == .flt .f80 then "-" else valStr (some (.val R)) (ptRoundTrip ieee R x)
        s!"q={valStr none (.ok q)} pt={p}"
      | none => "bad-op"
    | none => "bad-op"
  | _ => "bad-op"

end C13Cmd

def dispatchC13 : List String → Option String
  | "c13" :: "op" :: args => some (C13Cmd.cmdOp args)
  | "c13" :: "sweep8" :: args => some (C13Cmd.cmdSweep8 args)
  | "c13" :: "repsize" :: args => some (C13Cmd.cmdRepsize args)
  | "c13" :: "layout" :: args => some (C13Cmd.cmdLayout args)
  | "c13" :: "rt" :: args => some (C13Cmd.cmdRt args)
  | _ => none

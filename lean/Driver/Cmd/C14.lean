import Driver.Util
open Au

def dispatchC14 : List String → Option String
  | _ => none

/-! Driver commands for C14. -/

import AuModel.Products
import AuModel.UnitKey
import Driver.Util
import Driver.Cmd.C02
import Driver.Cmd.C06

/-! Driver commands for C14.

  prod <mul|div> <R1> <R2> <unblocked 0|1> <sexpr1> ; <sexpr2>
       →  dim=<pack> mag=<pack> raw=<0|1> allowed=<0|1>
  sdiv <RT> <RQ> <unblocked 0|1> <sexpr>       (scalar / quantity)
       →  dim=<pack> mag=<pack> allowed=<0|1>
  qpow <R> <num>/<den> <sexpr>                 (int_pow<N>, sqrt, cbrt)
       →  dim=<pack> mag=<pack> allowed=<0|1>
  asraw <R> <sexpr>                            →  allowed=<0|1>
-/
open Au

def parseTwo (toks : List String) : Option (Parsed × Parsed) :=
  match splitOnTok ";" toks with
  | [a, b] => do
    let (pa, ra) ← parseExpr a
    let (pb, rb) ← parseExpr b
    if ra.isEmpty && rb.isEmpty then pure (pa, pb) else none
  | _ => none
where splitOnTok (sep : String) : List String → List (List String)
  | [] => [[]]
  | t :: rest =>
    match splitOnTok sep rest with
    | [] => [[t]]
    | g :: gs => if t == sep then [] :: g :: gs else (t :: g) :: gs

def cmdProd (args : List String) : String :=
  match args with
  | op :: r1 :: r2 :: ub :: rest =>
    match parseRep? r1, parseRep? r2, parseTwo rest with
    | some r1, some r2, some (pa, pb) =>
      let env := envOf (pa.atoms ++ pb.atoms)
      let a := pa.expr.eval U.keyLt
      let b := pb.expr.eval U.keyLt
      let unblocked := ub == "1"
      if op == "mul" then
        let u := U.mul U.keyLt a b
        s!"dim={dimKey (u.dimOf env)} mag={magKey (u.magOf env)} raw={b01 (productIsRaw env U.keyLt a b)} allowed=1"
      else if op == "div" then
        let u := U.div U.keyLt a b
        s!"dim={dimKey (u.dimOf env)} mag={magKey (u.magOf env)} raw={b01 (quotientIsRaw env U.keyLt a b)} allowed={b01 (quantityDivAllowed r1 r2 (U.qEquiv env a b) unblocked)}"
      else "bad-op"
    | _, _, _ => "bad-op"
  | _ => "bad-op"

def cmdSdiv (args : List String) : String :=
  match args with
  | rt :: rq :: ub :: rest =>
    match parseRep? rt, parseRep? rq, parseExpr rest with
    | some rt, some rq, some (p, []) =>
      let env := envOf p.atoms
      let a := p.expr.eval U.keyLt
      let u := a.pow (-1)
      s!"dim={dimKey (u.dimOf env)} mag={magKey (u.magOf env)} allowed={b01 (scalarOverQuantityAllowed rt rq (a.isUnitless env) (ub == "1"))}"
    | _, _, _ => "bad-op"
  | _ => "bad-op"

def cmdQpow (args : List String) : String :=
  match args with
  | r :: q :: rest =>
    match parseRep? r, parseRat? q, parseExpr rest with
    | some r, some q, some (p, []) =>
      let env := envOf p.atoms
      let u := (p.expr.eval U.keyLt).pow q
      let allowed := if q.den = 1 then intPowAllowed r q.num else true
      s!"dim={dimKey (u.dimOf env)} mag={magKey (u.magOf env)} allowed={b01 allowed}"
    | _, _, _ => "bad-op"
  | _ => "bad-op"

def cmdAsRaw (args : List String) : String :=
  match args with
  | r :: rest =>
    match parseRep? r, parseExpr rest with
    | some r, some (p, []) =>
      let env := envOf p.atoms
      s!"allowed={b01 (asRawNumberAllowed env (p.expr.eval U.keyLt) r)}"
    | _, _ => "bad-op"
  | _ => "bad-op"

def dispatchC14 : List String → Option String
  | "prod" :: args => some (cmdProd args)
  | "sdiv" :: args => some (cmdSdiv args)
  | "qpow" :: args => some (cmdQpow args)
  | "asraw" :: args => some (cmdAsRaw args)
  | _ => none

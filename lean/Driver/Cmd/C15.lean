import AuModel.MathFn
import Driver.Util
open Au Au.C15

namespace C15Drv

def parseBase? (s : String) : Option MBase :=
  if s = "pi" then some .pi else (parseNat? s).map .prime

def parseFactor? (s : String) : Option (MBase × Int) :=
  match s.splitOn "^" with
  | [b, e] => match parseBase? b, parseInt? e with
    | some b, some e => some (b, e)
    | _, _ => none
  | _ => none

def parseMag? (s : String) : Option Mag :=
  if s = "1" then some []
  else
    let parts := (s.splitOn ",").map parseFactor?
    match allSome parts with
    | some m => if Mag.wf m && List.all m (fun be => match be.1 with | .prime p => decide (p < 2 ^ 63) | .pi => true) then some m else none
    | none => none

def parseFVal? (s : String) : Option FVal :=
  if s = "nan" then some .nan
  else if s = "inf" then some (.inf false)
  else if s = "-inf" then some (.inf true)
  else match s.splitOn "@" with
    | [m, e] => match parseInt? m, parseInt? e with
      | some m, some e => some (.fin ((m : Rat) * pow2 e))
      | _, _ => none
    | _ => none

/-- A value of type `ty`; floats must be representable in their format, integers in range. -/
def parseVal? (ty : ArithTy) (s : String) : Option Val :=
  match ty with
  | .int t => match parseInt? s with
    | some n => if t.inRange n then some (.i n) else none
    | none => none
  | .flt f => match parseFVal? s with
    | some (.fin q) => if rne f q = .fin q then some (.f (.fin q)) else none
    | some v => some (.f v)
    | none => none

/-- Exponent of the power of two `d`, if it is one. -/
def log2Exact? (d : Nat) : Option Nat :=
  let k := Nat.log2 d
  if 2 ^ k = d then some k else none

def fvalStr : FVal → String
  | .nan => "nan"
  | .inf false => "inf"
  | .inf true => "-inf"
  | .fin q => match log2Exact? q.den with
    | some k => s!"{q.num}@-{k}"
    | none => s!"rat:{q.num}/{q.den}"

def valStr : Val → String
  | .i n => toString n
  | .f v => fvalStr v

def resStr {α : Type} (g : α → String) : Res α → String
  | .ok a => g a
  | .ub _ => "ub"
  | .nocompile _ => "nocompile"

def parseBool? (s : String) : Option Bool :=
  if s = "1" then some true else if s = "0" then some false else none

def parseFn? (s : String) : Option RFn :=
  if s = "round" then some .round else if s = "floor" then some .floor else if s = "ceil" then some .ceil else none

def catStr : MCat → String
  | .intMul => "intMul" | .intDiv => "intDiv" | .rational => "rational" | .irrational => "irrational"

def cmdGv : List String → String
  | [ts, ms] =>
    match ArithTy.ofName? ts, parseMag? ms with
    | some (.flt f), some m => match getValueF f m with
      | some v => "ok " ++ fvalStr v
      | none => "none"
    | some (.int t), some m => match getValueI t m with
      | some v => s!"ok {v}"
      | none => "none"
    | _, _ => "bad-op"
  | _ => "bad-op"

def cmdConv : List String → String
  | [rs, ns, ms, xs] =>
    match ArithTy.ofName? rs, ArithTy.ofName? ns, parseMag? ms with
    | some R, some N, some m =>
      match parseVal? R xs with
      | some x => resStr valStr (convert R N m x)
      | none => "bad-op"
    | _, _, _ => "bad-op"
  | _ => "bad-op"

def cmdRound : List String → String
  | [fs, rs, os, ms, xs] =>
    match parseFn? fs, ArithTy.ofName? rs, parseMag? ms with
    | some fn, some R, some m =>
      match parseVal? R xs with
      | some x =>
        let out : Option String :=
          if os = "-" then some "-"
          else (ArithTy.ofName? os).map (fun O => resStr valStr (roundInAs fn R O m x))
        match out with
        | some o =>
          s!"rr={(roundingRep R).name} cat={catStr (categorizeMag m)} arg={resStr fvalStr (roundArg R m x)} res={resStr fvalStr (roundIn fn R m x)} out={o}"
        | none => "bad-op"
      | none => "bad-op"
    | _, _, _ => "bad-op"
  | _ => "bad-op"

def cmdInv : List String → String
  | [ts, rs, ks, xs] =>
    match ArithTy.ofName? rs, parseMag? ks with
    | some R, some K =>
      match parseVal? R xs with
      | some x =>
        if ts = "-" then
          s!"compiles={b01 (inverseImplicitCompiles R K)} val={resStr valStr (inverseInImplicit R K x)}"
        else match ArithTy.ofName? ts with
          | some T =>
            let r := inverseIn T R K x
            let c := match r with | .nocompile _ => false | _ => true
            s!"compiles={b01 c} val={resStr valStr r}"
          | none => "bad-op"
      | none => "bad-op"
    | _, _ => "bad-op"
  | _ => "bad-op"

def cmdInvGate : List String → String
  | [rs, ks] =>
    match ArithTy.ofName? rs, parseMag? ks with
    | some R, some K =>
      let thr := match thresholdOf R with | some v => valStr v | none => "narrowing"
      s!"compiles={b01 (inverseImplicitCompiles R K)} thr={thr} unity={resStr valStr (unityIn R K)}"
    | _, _ => "bad-op"
  | _ => "bad-op"

def cmdMinMax : List String → String
  | [which, sames, r1, r2, m1, m2, x1, x2] =>
    match parseBool? sames, ArithTy.ofName? r1, ArithTy.ofName? r2, parseMag? m1, parseMag? m2 with
    | some same, some R1, some R2, some M1, some M2 =>
      match parseVal? R1 x1, parseVal? R2 x2 with
      | some a, some b =>
        if same && !(R1 = R2 && M1.isEmpty && M2.isEmpty) then "bad-op"
        else if which = "max" then resStr valStr (maxQ same R1 R2 M1 M2 a b)
        else if which = "min" then resStr valStr (minQ same R1 R2 M1 M2 a b)
        else "bad-op"
      | _, _ => "bad-op"
    | _, _, _, _, _ => "bad-op"
  | _ => "bad-op"

def cmdClamp : List String → String
  | [s1, s2, rv, rlo, rhi, a1, a2, a3, a4, a5, a6, a7, xv, xlo, xhi] =>
    match parseBool? s1, parseBool? s2, ArithTy.ofName? rv, ArithTy.ofName? rlo, ArithTy.ofName? rhi with
    | some sameVLo, some sameHiV, some RV, some RLo, some RHi =>
      match allSome ([a1, a2, a3, a4, a5, a6, a7].map parseMag?) with
      | some [m1, m2, m3, m4, m5, m6, m7] =>
        match parseVal? RV xv, parseVal? RLo xlo, parseVal? RHi xhi with
        | some v, some lo, some hi =>
          resStr valStr (clampQ sameVLo sameHiV RV RLo RHi ⟨m1, m2, m3, m4, m5, m6, m7⟩ v lo hi)
        | _, _, _ => "bad-op"
      | _ => "bad-op"
    | _, _, _, _, _ => "bad-op"
  | _ => "bad-op"

def cmdAbs : List String → String
  | [rs, xs] =>
    match ArithTy.ofName? rs with
    | some R => match parseVal? R xs with
      | some x => resStr (fun p => s!"{p.1.name} {valStr p.2}") (absQ R x)
      | none => "bad-op"
    | none => "bad-op"
  | _ => "bad-op"

def cmdTwoRep : List String → String
  | [r1, r2] =>
    match ArithTy.ofName? r1, ArithTy.ofName? r2 with
    | some R1, some R2 => (twoArgRep R1 R2).name
    | _, _ => "bad-op"
  | _ => "bad-op"

def resUnitStr : ResUnit → String
  | .raw => "raw" | .target => "target" | .first => "first" | .common => "common" | .radians => "radians"

def cmdResUnit : List String → String
  | [fn] => match resultUnit fn with
    | some u => resUnitStr u
    | none => "bad-op"
  | _ => "bad-op"

def cmdCat : List String → String
  | [ms] => match parseMag? ms with
    | some m => catStr (categorizeMag m)
    | none => "bad-op"
  | _ => "bad-op"

/-! Batch commands: one evaluation of the compile-time part (`planConvert`), many values. -/

def roundWithPlan (fn : RFn) (p : ConvPlan) (x : Val) : Res FVal :=
  (p.run x).bind fun v => match v with
    | .f y => .ok (fn.apply y)
    | .i _ => .nocompile "ill-typed"

def cmdRoundPts : List String → String
  | rs :: os :: ms :: xs =>
    match ArithTy.ofName? rs, parseMag? ms with
    | some R, some m =>
      let outTy : Option (Option ArithTy) := if os = "-" then some none else (ArithTy.ofName? os).map some
      match outTy, allSome (xs.map (parseVal? R)) with
      | some O, some vals =>
        let p := planConvert R (.flt (roundingRep R)) m
        let one (x : Val) : String :=
          let arg : Res FVal := (p.run x).bind fun v => match v with
            | .f y => .ok y
            | .i _ => .nocompile "ill-typed"
          let base := [resStr fvalStr arg] ++ [RFn.round, RFn.floor, RFn.ceil].map (fun fn => resStr fvalStr (roundWithPlan fn p x))
          let outs := match O with
            | none => []
            | some o => [RFn.round, RFn.floor, RFn.ceil].map (fun fn =>
                resStr valStr ((roundWithPlan fn p x).bind fun r => staticCast (.f r) o))
          ",".intercalate (base ++ outs)
        s!"rr={(roundingRep R).name} cat={catStr (categorizeMag m)} " ++ " ".intercalate (vals.map one)
      | _, _ => "bad-op"
    | _, _ => "bad-op"
  | _ => "bad-op"

def cmdConvPts : List String → String
  | rs :: ns :: ms :: xs =>
    match ArithTy.ofName? rs, ArithTy.ofName? ns, parseMag? ms with
    | some R, some N, some m =>
      match allSome (xs.map (parseVal? R)) with
      | some vals =>
        let p := planConvert R N m
        " ".intercalate (vals.map fun x => resStr valStr (p.run x))
      | none => "bad-op"
    | _, _, _ => "bad-op"
  | _ => "bad-op"

def hashP : Nat := 2305843009213693951

def codeOf : Res FVal → Nat
  | .ok (.fin q) => if q.den = 1 then (q.num % (hashP : Int)).toNat else 5555555
  | .ok .nan => 1111111
  | .ok (.inf false) => 2222222
  | .ok (.inf true) => 3333333
  | _ => 4444444

/-- Weighted checksum of `fn` over all integers of `[lo, hi]`. -/
def sweepHash (fn : RFn) (p : ConvPlan) (lo : Int) (n : Nat) : Nat := Id.run do
  let mut h : Nat := 0
  for k in [0:n] do
    let x : Int := lo + k
    h := (h + codeOf (roundWithPlan fn p (.i x)) * ((k + 1) % hashP)) % hashP
  return h

def cmdRoundSweep : List String → String
  | [rs, ms, los, his] =>
    match ArithTy.ofName? rs, parseMag? ms, parseInt? los, parseInt? his with
    | some (.int t), some m, some lo, some hi =>
      if !(decide (t.inRange lo) && decide (t.inRange hi) && decide (lo ≤ hi)) then "bad-op" else
      let p := planConvert (.int t) (.flt (roundingRep (.int t))) m
      let n := (hi - lo + 1).toNat
      s!"n={n} hr={sweepHash .round p lo n} hf={sweepHash .floor p lo n} hc={sweepHash .ceil p lo n}"
    | _, _, _, _ => "bad-op"
  | _ => "bad-op"

def cmdInvPts : List String → String
  | ts :: rs :: ks :: xs =>
    match ArithTy.ofName? rs, parseMag? ks with
    | some R, some K =>
      match allSome (xs.map (parseVal? R)) with
      | some vals =>
        if ts = "-" then
          s!"compiles={b01 (inverseImplicitCompiles R K)} " ++
            " ".intercalate (vals.map fun x => resStr valStr (inverseInImplicit R K x))
        else match ArithTy.ofName? ts with
          | some T =>
            let c := match unityIn (T.common R) K with | .ok _ => true | _ => false
            s!"compiles={b01 c} " ++ " ".intercalate (vals.map fun x => resStr valStr (inverseIn T R K x))
          | none => "bad-op"
      | none => "bad-op"
    | _, _ => "bad-op"
  | _ => "bad-op"

end C15Drv

def dispatchC15 : List String → Option String
  | "c15.gv" :: args => some (C15Drv.cmdGv args)
  | "c15.conv" :: args => some (C15Drv.cmdConv args)
  | "c15.round" :: args => some (C15Drv.cmdRound args)
  | "c15.inv" :: args => some (C15Drv.cmdInv args)
  | "c15.invgate" :: args => some (C15Drv.cmdInvGate args)
  | "c15.minmax" :: args => some (C15Drv.cmdMinMax args)
  | "c15.clamp" :: args => some (C15Drv.cmdClamp args)
  | "c15.abs" :: args => some (C15Drv.cmdAbs args)
  | "c15.tworep" :: args => some (C15Drv.cmdTwoRep args)
  | "c15.resunit" :: args => some (C15Drv.cmdResUnit args)
  | "c15.cat" :: args => some (C15Drv.cmdCat args)
  | "c15.roundpts" :: args => some (C15Drv.cmdRoundPts args)
  | "c15.convpts" :: args => some (C15Drv.cmdConvPts args)
  | "c15.roundsweep" :: args => some (C15Drv.cmdRoundSweep args)
  | "c15.invpts" :: args => some (C15Drv.cmdInvPts args)
  | _ => none

/-! Driver commands for C15 (AuModel.MathFn). -/

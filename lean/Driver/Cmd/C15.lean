import Driver.Util
open Au

def dispatchC15 : List String → Option String
  | _ => none

/-! Driver commands for C15. -/

import Driver.Util
open Au

def dispatchC16 : List String → Option String
  | _ => none

/-! Driver commands for C16. -/

import AuModel.Constant
import Driver.Util
import Driver.Cmd.C02
import Driver.Cmd.C11

/-! Driver commands for C16.

  constin <T> <ratio magpack>  →  can=<0|1> conv=<0|1> val=<integer | num/den | inf | nan | ->
-/
open Au

def cmdConstIn (args : List String) : String :=
  match args with
  | [ts, ms] =>
    match parseMag? ms with
    | none => "bad-op"
    | some m =>
      match IntTy.ofName? ts, FltTy.ofName? ts with
      | some t, _ =>
        match constantInInt t m with
        | some r => s!"can=1 conv=1 val={evalStr r.val}"
        | none => s!"can={b01 (canStoreInt t m)} conv=0 val=-"
      | none, some f =>
        match constantInFlt f m with
        | some v => s!"can=1 conv=1 val={fltStr v}"
        | none => s!"can={b01 (canStoreFlt f m)} conv=0 val=-"
      | none, none => "bad-op"
  | _ => "bad-op"

def dispatchC16 : List String → Option String
  | "constin" :: args => some (cmdConstIn args)
  | _ => none

import Driver.Util
open Au

def dispatchC17 : List String → Option String
  | _ => none

/-! Driver commands for C17. -/

import AuModel.Chrono
import Driver.Util
open Au Au.Chrono

/-! Driver commands for C17 (AuModel.Chrono).

  c17corr   <rep> <n> <d>                          CorrespondingQuantity unit of duration<rep, ratio<n,d>>
  c17rt     <rep> <n> <d> <val>                    as_quantity → as_chrono_duration / implicit conversion
  c17accept <trep> <tn> <td> <srep> <sn> <sd>      is_convertible<duration<srep, sn/sd>, Quantity<s·tn/td, trep>>
  c17ops    <qd|dq|cd|dc> <rep1> <n1> <d1> <v1> <rep2> <n2> <d2> <v2>
                                                   all eight mixed operations, Au and chrono side by side
  values: integers in decimal, floats as exact rationals `p/q` (or `p`).
-/

def c17Rat? (s : String) : Option Rat :=
  match s.splitOn "/" with
  | [a] => a.toInt?.map (fun n => (n : Rat))
  | [a, b] => match a.toInt?, b.toNat? with
    | some n, some d => if d = 0 then none else some (mkRat n d)
    | _, _ => none
  | _ => none

def c17Val? (r : Rep) (s : String) : Option Val :=
  if r.isIntegral then
    match s.toInt?, r.intTy? with
    | some v, some t => if t.inRange v then some (.i v) else none
    | _, _ => none
  else
    match c17Rat? s, r.fmt? with
    | some q, some F => if rne F q = some q then some (.f q) else none
    | _, _ => none

def c17RatStr (q : Rat) : String := if q.den = 1 then toString q.num else s!"{q.num}/{q.den}"

def c17ValStr : Val → String
  | .i v => toString v
  | .f q => c17RatStr q

def c17MagStr (m : Mag) : String :=
  if m.isEmpty then "1" else ",".intercalate (m.map (fun a => s!"{a.1}^{a.2}"))

def c17OutB (b : Bool) : String := if b then "true" else "false"

def c17ResStr : Res OpVal → String
  | .ok (.b v) => s!"b:{b01 v}"
  | .ok (.v x) => s!"v:{c17ValStr x}"
  | .ub _ => "ub"
  | .nonfinite => "nonfinite"
  | .illTyped => "illtyped"

def c17Period? (ns ds : String) : Option Period :=
  match ns.toNat?, ds.toNat? with
  | some n, some d => if n = 0 || d = 0 then none else some ⟨n, d⟩
  | _, _ => none

def c17Corr (args : List String) : String :=
  match args with
  | [rs, ns, ds] =>
    match Rep.ofName? rs, c17Period? ns ds with
    | some r, some p =>
      let u := corrUnit r p
      let ratio := Mag.div u.2 []
      s!"named={u.1.getD "-"} mag={c17MagStr u.2} num={(Mag.numerator ratio).natValue} den={(Mag.denominator ratio).natValue}"
    | _, _ => "bad-op"
  | _ => "bad-op"

def c17DurStr : Outcome (Option Duration) → String
  | .ok (some d) => s!"ok:{d.rep.name}:{d.period.num}/{d.period.den}:{c17ValStr d.count}"
  | .ok none => "ok:other"
  | .hard _ => "hard"

def c17Rt (args : List String) : String :=
  match args with
  | [rs, ns, ds, vs] =>
    match Rep.ofName? rs, c17Period? ns ds with
    | some r, some p =>
      match c17Val? r vs with
      | some v =>
        let d : Duration := ⟨r, p, v⟩
        let q := asQuantity d
        s!"qrep={q.rep.name} qval={c17ValStr q.value} back={c17DurStr (asChronoDuration q)} implicit={c17DurStr (toDuration q r p)}"
      | none => "bad-op"
    | _, _ => "bad-op"
  | _ => "bad-op"

def c17Accept (args : List String) : String :=
  match args with
  | [trs, tns, tds, srs, sns, sds] =>
    match Rep.ofName? trs, c17Period? tns tds, Rep.ofName? srs, c17Period? sns sds with
    | some tr, some tp, some sr, some sp =>
      let tm := ratioMag tp
      let d : Duration := ⟨sr, sp, if sr.isIntegral then .i 0 else .f 0⟩
      let sf := Mag.div (asQuantity d).mag tm
      s!"dur={c17OutB (durationAccepted tm tr d)} qty={c17OutB (quantityConvertible tm tr (asQuantity d))} chrono={b01 (chronoConvertible tr tp sr sp)} sf={c17MagStr sf} sfint={b01 sf.isInteger}"
    | _, _, _, _ => "bad-op"
  | _ => "bad-op"

def c17Ops (args : List String) : String :=
  match args with
  | [side, r1s, n1s, d1s, v1s, r2s, n2s, d2s, v2s] =>
    -- side: q = generic-unit Quantity (Seconds * mag<n>/mag<d>), c = the corresponding quantity
    -- (as_quantity of the duration type), d = duration; first letter = left operand.
    if !(["qd", "dq", "cd", "dc"].contains side) then "bad-op" else
    match Rep.ofName? r1s, c17Period? n1s d1s, Rep.ofName? r2s, c17Period? n2s d2s with
    | some r1, some p1, some r2, some p2 =>
      match c17Val? r1 v1s, c17Val? r2 v2s with
      | some v1, some v2 =>
        let d1 : Duration := ⟨r1, p1, v1⟩
        let d2 : Duration := ⟨r2, p2, v2⟩
        let leftIsQ := side = "qd" || side = "cd"
        let q1 : Quantity := if side = "qd" then ⟨r1, ratioMag p1, none, v1⟩ else asQuantity d1
        let q2 : Quantity := if side = "dq" then ⟨r2, ratioMag p2, none, v2⟩ else asQuantity d2
        let (cm, cr) := commonQuantity q1 q2
        let comp := match (if leftIsQ then mixedCompilesQD q1 d2 else mixedCompilesQD q2 d1) with
          | .ok () => "ok" | .hard _ => "hard"
        let k1 := Mag.div q1.mag cm
        let k2 := Mag.div q2.mag cm
        let cp := chronoCommonPeriod p1 p2
        let au := fun (op : Op) => if leftIsQ then mixedOpQD rne op q1 d2 else mixedOpDQ rne op d1 q2
        let ch := fun (op : Op) => chronoOp rne op d1 d2
        let opsStr := " ".intercalate (Op.all.map (fun op =>
          s!"au_{op.name}={c17ResStr (au op)} ch_{op.name}={c17ResStr (ch op).val}"))
        s!"compiles={comp} crep={cr.name} cnum={(Mag.numerator cm).natValue} cden={(Mag.denominator cm).natValue} " ++
        s!"k1={if k1.isInteger then toString k1.natValue else "-"} k2={if k2.isInteger then toString k2.natValue else "-"} " ++
        s!"cpn={cp.num} cpd={cp.den} narrowed={b01 (ch Op.eq).narrowed} " ++ opsStr
      | _, _ => "bad-op"
    | _, _, _, _ => "bad-op"
  | _ => "bad-op"

def dispatchC17 : List String → Option String
  | "c17corr" :: args => some (c17Corr args)
  | "c17rt" :: args => some (c17Rt args)
  | "c17accept" :: args => some (c17Accept args)
  | "c17ops" :: args => some (c17Ops args)
  | _ => none

import AuModel.Label
import AuModel.UnitKey
import Driver.Util
import Driver.Cmd.C02

/-! Driver commands for C18.

  label <k> (<id> own <hexlabel> | <id> none - | <id> inh <baseid>|<magpack>)×k <sexpr>
        →  label=<hex of the label's characters> size=<declared length + 1>
  uitoa <n>  →  <digits> size=<string_size_unsigned + 1>
  itoa <n>   →  <digits> size=…
-/
open Au

def hexVal? (c : Char) : Option Nat :=
  if '0' ≤ c && c ≤ '9' then some (c.toNat - 48)
  else if 'a' ≤ c && c ≤ 'f' then some (c.toNat - 87) else none

def unhex? : List Char → Option (List Char)
  | [] => some []
  | a :: b :: rest => do
    let x ← hexVal? a
    let y ← hexVal? b
    let t ← unhex? rest
    pure (Char.ofNat (16 * x + y) :: t)
  | _ => none

def hexOf (cs : List Char) : String :=
  let hd (n : Nat) : Char := if n < 10 then Char.ofNat (48 + n) else Char.ofNat (87 + n)
  String.ofList (cs.flatMap fun c => [hd (c.toNat / 16), hd (c.toNat % 16)])

def parseLabelEntries : Nat → List String → Option (List (Nat × LabelSrc) × List String)
  | 0, rest => some ([], rest)
  | k + 1, id :: kind :: arg :: rest => do
    let id ← id.toNat?
    let src ← (match kind with
      | "own" => (unhex? arg.toList).map (fun cs => LabelSrc.own (String.ofList cs))
      | "none" => some LabelSrc.none
      | "inh" => match arg.splitOn "|" with
        | [b, m] => do
          let b ← b.toNat?
          if m == "-" then pure (LabelSrc.inheritedFrom (.named b))
          else do
            let m ← parseMag? m
            pure (LabelSrc.inheritedFrom (.scaled (.named b) m))
        | _ => none
      | _ => none)
    let (tl, rest) ← parseLabelEntries k rest
    pure ((id, src) :: tl, rest)
  | _, _ => none

def cmdLabel (args : List String) : String :=
  match args with
  | k :: rest =>
    match k.toNat? with
    | none => "bad-op"
    | some k =>
      match parseLabelEntries k rest with
      | none => "bad-op"
      | some (entries, toks) =>
        match parseExpr toks with
        | some (p, []) =>
          let lenv : LabelEnv := ⟨fun n => match entries.find? (fun e => e.1 == n) with
            | some e => e.2
            | none => LabelSrc.none⟩
          let u := p.expr.eval U.keyLt
          let l := U.label lenv 8 u
          s!"label={hexOf l.chars} size={l.declared + 1}"
        | _ => "bad-op"
  | _ => "bad-op"

def dispatchC18 : List String → Option String
  | "label" :: args => some (cmdLabel args)
  | ["uitoa", n] => match n.toNat? with
    | some n => some s!"{String.ofList (uitoa n)} size={(uitoaSC n).declared + 1}"
    | none => some "bad-op"
  | ["itoa", n] => match n.toInt? with
    | some n => some s!"{String.ofList (itoa n)} size={(itoaSC n).declared + 1}"
    | none => some "bad-op"
  | _ => none

import Driver.Util
open Au

def dispatchC18 : List String → Option String
  | _ => none

/-! Driver commands for C18. -/

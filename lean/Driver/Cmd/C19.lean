import Driver.Util
open Au

def dispatchC19 : List String → Option String
  | _ => none

/-! Driver commands for C19. -/

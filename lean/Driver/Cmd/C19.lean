import AuModel.Zero
import Driver.Util
open Au

/-! Driver commands for C19 (AuModel.Zero).  All requests start with the token `c19`.

Value syntax: integers in decimal; floats `nan`, `inf`, `-inf`, or `<sign>,<m>,<e>` with sign `+`/`-`
meaning `±m·2^e`.  Values that an object of the rep cannot hold are rejected with `bad-op`. -/

namespace C19Cmd
open Au.Zero

def fvalStr : FVal → String
  | .nan => "nan"
  | .inf s => if s then "-inf" else "inf"
  | .fin s m e => s!"{if s then "-" else "+"},{m},{e}"

def valStr : Val → String
  | .int _ v => toString v
  | .flt _ x => fvalStr x

def typedValStr (v : Val) : String := s!"{v.rep.name}:{valStr v}"

def parseFVal? (s : String) : Option FVal :=
  if s == "nan" then some .nan
  else if s == "inf" then some (.inf false)
  else if s == "-inf" then some (.inf true)
  else
    match s.splitOn "," with
    | [sg, ms, es] =>
      match (if sg == "+" then some false else if sg == "-" then some true else none),
            ms.toNat?, es.toInt? with
      | some neg, some m, some e => some (.fin neg m e)
      | _, _, _ => none
    | _ => none

/-- Parse a value of rep `r`; only values an object of that rep can hold. -/
def parseVal? (r : Rep) (s : String) : Option Val :=
  match r with
  | .int t =>
    match s.toInt? with
    | some v => if decide (Val.int t v).wf then some (.int t v) else none
    | none => none
  | .flt f =>
    match parseFVal? s with
    | some x => if decide (Val.flt f x).wf then some (.flt f x) else none
    | none => none

def rejectStr : Reject → String
  | .deleted => "deleted" | .noMatch => "nomatch" | .ambiguous => "ambiguous"

def valueStr : Value → String
  | .zero => "zero"
  | .bool b => s!"bool {b01 b}"
  | .arith v => s!"arith {typedValStr v}"
  | .duration n d c => s!"dur {n}/{d} {typedValStr c}"
  | .qty q => s!"qty u={q.unit} {typedValStr q.val}"
  | .point p => s!"pt u={p.unit} {typedValStr p.val}"

def outcomeStr : Outcome → String
  | .ok v => "ok " ++ valueStr v
  | .ub _ => "ub"
  | .hard r => "hard " ++ rejectStr r

/-- compact form used inside `eval` / `pair` answers (no spaces) -/
def outcomeTok : Outcome → String
  | .ok (.qty q) => s!"u{q.unit}:{typedValStr q.val}"
  | .ok (.bool b) => b01 b
  | .ok v => (valueStr v).replace " " ":"
  | .ub _ => "ub"
  | .hard r => "hard:" ++ rejectStr r

def parseTy? : List String → Option Ty
  | ["zero"] => some .zero
  | ["arith", r] => (Rep.ofName? r).map .arith
  | ["dur", r, n, d] =>
    match Rep.ofName? r, n.toNat?, d.toNat? with
    | some r, some n, some d => if n = 0 || d = 0 then none else some (.duration r n d)
    | _, _, _ => none
  | ["qty", u, r] =>
    match u.toNat?, Rep.ofName? r with
    | some u, some r => some (.qty u r)
    | _, _ => none
  | ["point", u, r] =>
    match u.toNat?, Rep.ofName? r with
    | some u, some r => some (.point u r)
    | _, _ => none
  | _ => none

/-- operand syntax: `zero`, `qty:<u>:<rep>:<val>`, `pt:<u>:<rep>:<val>` -/
def parseOperand? (s : String) : Option Value :=
  if s == "zero" then some .zero else
  match s.splitOn ":" with
  | [k, u, r, v] =>
    match u.toNat?, Rep.ofName? r with
    | some u, some r =>
      match parseVal? r v with
      | some v =>
        if k == "qty" then some (.qty ⟨u, v⟩)
        else if k == "pt" then some (.point ⟨u, v⟩)
        else none
      | none => none
    | _, _ => none
  | _ => none

def parseBinOp? (s : String) : Option BinOp :=
  if s == "add" then some (.ar .add)
  else if s == "sub" then some (.ar .sub)
  else (CmpOp.ofName? s).map .cmp

def bits (f : CmpOp → Outcome) : String :=
  String.join (CmpOp.all.map (fun op => outcomeTok (f op)))

def cmdConv (args : List String) : String :=
  match parseTy? args with
  | some t => outcomeStr (convertZero t)
  | none => "bad-op"

def cmdSite (args : List String) : String :=
  match args with
  | s :: rest =>
    match Site.ofName? s, parseTy? rest with
    | some s, some t => outcomeStr (atSite s t)
    | _, _ => "bad-op"
  | _ => "bad-op"

def cmdBin (args : List String) : String :=
  match args with
  | [o, a, b] =>
    match parseBinOp? o, parseOperand? a, parseOperand? b with
    | some o, some a, some b => outcomeStr (binop o a b)
    | _, _, _ => "bad-op"
  | _ => "bad-op"

/-- Everything C19 observes about one quantity `q = Quantity<u, rep>(val)`. -/
def cmdEval (args : List String) : String :=
  match args with
  | [u, r, v] =>
    match u.toNat?, Rep.ofName? r with
    | some u, some r =>
      match parseVal? r v with
      | some v =>
        let q : Value := .qty ⟨u, v⟩
        let init := match convertZero (.qty u r) with
          | .ok (.qty z) => typedValStr z.inOwnUnit
          | o => outcomeTok o
        s!"qz={bits (fun op => binop (.cmp op) q .zero)} zq={bits (fun op => binop (.cmp op) .zero q)} " ++
        s!"add={outcomeTok (binop (.ar .add) q .zero)} sub={outcomeTok (binop (.ar .sub) q .zero)} " ++
        s!"zadd={outcomeTok (binop (.ar .add) .zero q)} init={init}"
      | none => "bad-op"
    | _, _ => "bad-op"
  | _ => "bad-op"

/-- The same-type friends on two arbitrary quantities of one type (validates the model of the
friends beyond the ZERO column). -/
def cmdPair (args : List String) : String :=
  match args with
  | [u, r, a, b] =>
    match u.toNat?, Rep.ofName? r with
    | some u, some r =>
      match parseVal? r a, parseVal? r b with
      | some a, some b =>
        let qa : Value := .qty ⟨u, a⟩
        let qb : Value := .qty ⟨u, b⟩
        s!"cmp={bits (fun op => binop (.cmp op) qa qb)} add={outcomeTok (binop (.ar .add) qa qb)} " ++
        s!"sub={outcomeTok (binop (.ar .sub) qa qb)}"
      | _, _ => "bad-op"
    | _, _ => "bad-op"
  | _ => "bad-op"

def classBits (c : SignClass) : String :=
  String.join (CmpOp.all.map (fun op => b01 (c.cmp0 op))) ++ "/" ++
  String.join (CmpOp.all.map (fun op => b01 (c.cmp0' op)))

/-- Certificate for the exhaustive sweeps: the twelve comparisons as a function of the sign class
(proved to describe `binop` pointwise: `Au.C19_compare`, `Au.C19_compare_symm`), and the rep of
`q ± ZERO` (`Au.C19_add_sub`). -/
def cmdCert (args : List String) : String :=
  match args with
  | [r] =>
    match Rep.ofName? r with
    | some r =>
      let sum := match r with
        | .int t => (Rep.int t.promote).name
        | .flt f => (Rep.flt f).name
      s!"neg={classBits .neg} zero={classBits .zero} pos={classBits .pos} nan={classBits .nan} " ++
      s!"sumrep={sum} zero_val={valStr (lit0 r)}"
    | none => "bad-op"
  | _ => "bad-op"

/-- The additive entry points (proof-extension round): compound assignment with ZERO, the four read-back
spellings, point ± ZERO with the conversion back to Rep, and `ZERO - q`. -/
def cmdExtra (args : List String) : String :=
  match args with
  | [u, r, v] =>
    match u.toNat?, Rep.ofName? r with
    | some u, some r =>
      match parseVal? r v with
      | some v =>
        let q : Qty := ⟨u, v⟩
        let optStr : Option Val → String := fun o => match o with
          | some w => typedValStr w
          | none => "none"
        let ptTok : Outcome → String := fun o => match o with
          | .ok (.point p) => s!"u{p.unit}:{typedValStr p.val}"
          | o => outcomeTok o
        s!"pe={outcomeTok (compoundWithZero .add q)} me={outcomeTok (compoundWithZero .sub q)} " ++
        s!"inm={typedValStr q.inViaMaker} inr={optStr q.inRepExplicit} ind={typedValStr q.dataIn} " ++
        s!"padd={ptTok (pointPlusZero false ⟨u, v⟩)} zpadd={ptTok (pointPlusZero true ⟨u, v⟩)} " ++
        s!"zsub={outcomeTok (binop (.ar .sub) .zero (.qty q))}"
      | none => "bad-op"
    | _, _ => "bad-op"
  | _ => "bad-op"

end C19Cmd

def dispatchC19 : List String → Option String
  | "c19" :: "conv" :: args => some (C19Cmd.cmdConv args)
  | "c19" :: "site" :: args => some (C19Cmd.cmdSite args)
  | "c19" :: "bin" :: args => some (C19Cmd.cmdBin args)
  | "c19" :: "eval" :: args => some (C19Cmd.cmdEval args)
  | "c19" :: "pair" :: args => some (C19Cmd.cmdPair args)
  | "c19" :: "cert" :: args => some (C19Cmd.cmdCert args)
  | "c19" :: "extra" :: args => some (C19Cmd.cmdExtra args)
  | _ => none

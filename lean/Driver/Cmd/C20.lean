import Driver.Util
open Au

def dispatchC20 : List String → Option String
  | _ => none

/-! Driver commands for C20. -/

import AuModel.SingleFile
import Driver.Util
open Au Au.SingleFile

/-! Driver commands for C20 (AuModel.SingleFile).

  c20.order <graph> <names>   → `done order=<ids> files=<ids>` | `missing <id>` | `diverges`
  c20.check <graph>           → `targets=<0|1> dupfree=<0|1> ranked=<0|1> keys=<0|1>`
  c20.names <au> <units> <constants> <mains> <io>   → `<ids>`          (model of `filenames()`)

  <graph> = `k:i,i,…;k:;…` (entries separated by `;`, an entry is key `:` comma-separated includes),
  <ids>, <names>, <units>… = comma-separated ids, `-` for the empty list; <io> = id or `-`. -/

namespace C20Drv

def parseIds (s : String) : Option (List Nat) :=
  if s = "-" then some [] else (s.splitOn ",").mapM (fun t => t.toNat?)

def parseEntry (s : String) : Option (Nat × List Nat) :=
  match s.splitOn ":" with
  | [k, l] => do
    let k ← k.toNat?
    let l ← if l = "" then some [] else (l.splitOn ",").mapM (fun t => t.toNat?)
    pure (k, l)
  | _ => none

def parseGraph (s : String) : Option Graph :=
  if s = "-" then some [] else (s.splitOn ";").mapM parseEntry

def showIds (l : List Nat) : String :=
  if l.isEmpty then "-" else ",".intercalate (l.map toString)

def cmdOrder : List String → String
  | [gs, ns] =>
    match parseGraph gs, parseIds ns with
    | some g, some names =>
      match parseFiles g names with
      | .missing f => s!"missing {f}"
      | .outOfFuel => "diverges"
      | .done files =>
        match emitOrder g names with
        | .done order => s!"done order={showIds order} files={showIds files}"
        | .missing f => s!"missing {f}"
        | .outOfFuel => "diverges"
    | _, _ => "bad-op"
  | _ => "bad-op"

def cmdCheck : List String → String
  | [gs] =>
    match parseGraph gs with
    | some g => s!"targets={b01 (targetsExist g)} dupfree={b01 (dupFree g)} ranked={b01 (rankedById g)} keys={b01 (keysDistinct g)}"
    | none => "bad-op"
  | _ => "bad-op"

def cmdNames : List String → String
  | [au, us, cs, ms, io] =>
    match au.toNat?, parseIds us, parseIds cs, parseIds ms with
    | some au, some us, some cs, some ms =>
      if io = "-" then showIds (filenames au us cs ms none)
      else match io.toNat? with
        | some i => showIds (filenames au us cs ms (some i))
        | none => "bad-op"
    | _, _, _, _ => "bad-op"
  | _ => "bad-op"

end C20Drv

def dispatchC20 : List String → Option String
  | "c20.order" :: args => some (C20Drv.cmdOrder args)
  | "c20.check" :: args => some (C20Drv.cmdCheck args)
  | "c20.names" :: args => some (C20Drv.cmdNames args)
  | _ => none

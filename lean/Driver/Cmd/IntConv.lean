import AuModel.ApplyMag
import Driver.Util
open Au

def cmdCert (args : List String) : String :=
  match args with
  | [ts, ns, ds] =>
    match IntTy.ofName? ts, parseNat? ns, parseNat? ds with
    | some t, some N, some D =>
      if N = 0 || D = 0 then "bad-op" else
      let (lo, hi) := okInterval t N D
      let tk := match truncKind t N D with
        | .never => "never"
        | .modulus d => s!"mod:{d}"
        | .nonzero => "nonzero"
      let cat := match categorize N D with
        | .intMul => "intMul" | .intDiv => "intDiv" | .rational => "rational"
      s!"compiles={b01 (compiles t N D)} cat={cat} lo={lo} hi={hi} trunc={tk}"
    | _, _, _ => "bad-op"
  | _ => "bad-op"

def cmdApplyMag (args : List String) : String :=
  match args with
  | [ts, ns, ds, xs] =>
    match IntTy.ofName? ts, parseNat? ns, parseNat? ds, parseInt? xs with
    | some t, some N, some D, some x =>
      if N = 0 || D = 0 || !(decide (t.inRange x)) then "bad-op" else
      let o := wouldOverflow t N D x
      let tr := wouldTruncate t N D x
      let l := isLossy t N D x
      if compiles t N D then
        let r := applyMag t N D x
        s!"ovf={b01 o} trunc={b01 tr} lossy={b01 l} val={evalStr r.val} wrapped={b01 r.wrapped} narrowed={b01 r.narrowed}"
      else
        s!"ovf={b01 o} trunc={b01 tr} lossy={b01 l} val=- wrapped=0 narrowed=0"
    | _, _, _, _ => "bad-op"
  | _ => "bad-op"


def dispatchIntConv : List String → Option String
  | "cert" :: args => some (cmdCert args)
  | "applymag" :: args => some (cmdApplyMag args)
  | _ => none

/-! Driver commands for C03 / C04 (AuModel.ApplyMag). -/

import AuModel
def main : IO Unit := IO.println "audriver"

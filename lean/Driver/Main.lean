/-
  audriver — line protocol: one request per line on stdin → one canonical answer per line on stdout.
  Runs the very definitions of `AuModel` that the theorems in `AuProofs` are about.
  Each property's commands live in Driver/Cmd/<ID>.lean (`dispatch<ID> : List String → Option String`).
-/
import Driver.Util
import Driver.Cmd.IntConv
import Driver.Cmd.C01
import Driver.Cmd.C02
import Driver.Cmd.C05
import Driver.Cmd.C06
import Driver.Cmd.C07
import Driver.Cmd.C08
import Driver.Cmd.C09
import Driver.Cmd.C10
import Driver.Cmd.C11
import Driver.Cmd.C12
import Driver.Cmd.C13
import Driver.Cmd.C14
import Driver.Cmd.C15
import Driver.Cmd.C16
import Driver.Cmd.C17
import Driver.Cmd.C18
import Driver.Cmd.C19
import Driver.Cmd.C20

def dispatchers : List (List String → Option String) :=
  [dispatchIntConv, dispatchC01, dispatchC02, dispatchC05, dispatchC06, dispatchC07, dispatchC08, dispatchC09, dispatchC10, dispatchC11, dispatchC12, dispatchC13, dispatchC14, dispatchC15, dispatchC16, dispatchC17, dispatchC18, dispatchC19, dispatchC20]

def dispatch (line : String) : String :=
  let toks := (line.trimAscii.toString.splitOn " ").filter (· ≠ "")
  match dispatchers.findSome? (fun d => d toks) with
  | some r => r
  | none => "bad-op"

partial def loop (h : IO.FS.Stream) (out : IO.FS.Stream) : IO Unit := do
  let line ← h.getLine
  if line.isEmpty then return ()
  out.putStrLn (dispatch line)
  loop h out

def main : IO Unit := do
  let stdin ← IO.getStdin
  let stdout ← IO.getStdout
  loop stdin stdout

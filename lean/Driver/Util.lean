import AuModel.Arith
open Au

def b01 (b : Bool) : String := if b then "1" else "0"

def evalStr : Eval Int → String
  | .ok v => toString v
  | .ub _ => "ub"

def parseNat? (s : String) : Option Nat := s.toNat?
def parseInt? (s : String) : Option Int := s.toInt?

/-! Shared helpers of the driver's command modules. -/

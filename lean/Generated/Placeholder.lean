/-! Regenerated data modules live in this directory (see tools/extract_*.py). -/

"""Knowledge about the library extracted from /repo's headers on every run: unit structs, their
headers, makers/symbols/singular names, prefixes; a dumper TU gives Dim/Mag/label/origin of each."""
import os
import re
from fractions import Fraction

from vlib import AU_INC, VERIF, cxx, run

UNITS_DIR = os.path.join(AU_INC, "au", "units")
HARNESS_INC = os.path.join(VERIF, "harness")


def unit_headers():
    return sorted(f for f in os.listdir(UNITS_DIR) if f.endswith(".hh") and not f.endswith("_fwd.hh"))


def scan_units():
    """List of dicts: name, header, maker, point_maker, singular, symbol, definition text."""
    units = []
    for h in unit_headers():
        txt = open(os.path.join(UNITS_DIR, h)).read()
        for m in re.finditer(r"^struct (\w+) : (.*?)\s*\{(?:[ \t]*\n|\};)", txt, re.M | re.S):
            name, base = m.group(1), " ".join(m.group(2).split())
            if name.endswith("Label"):
                continue
            body = txt[m.end():txt.index("};", m.end() - 2) if "};" in txt[m.end() - 2:] else m.end()]
            u = {"name": name, "header": "au/units/" + h, "definition": base.strip(),
                 "declares_label": bool(re.search(r"\blabel\b", body))}
            mm = re.search(r"constexpr auto (\w+) = QuantityMaker<" + name + r">", txt)
            u["maker"] = mm.group(1) if mm else None
            mm = re.search(r"constexpr auto (\w+) = QuantityPointMaker<" + name + r">", txt)
            u["point_maker"] = mm.group(1) if mm else None
            mm = re.search(r"constexpr auto (\w+) = SingularNameFor<" + name + r">", txt)
            u["singular"] = mm.group(1) if mm else None
            mm = re.search(r"constexpr auto (\w+) = SymbolFor<" + name + r">", txt)
            u["symbol"] = mm.group(1) if mm else None
            units.append(u)
    return units


def scan_prefixes():
    txt = open(os.path.join(AU_INC, "au", "prefix.hh")).read()
    res = []
    for m in re.finditer(r"struct (\w+) : decltype\(U\{\} ([*/]) pow<(-?\d+)>\(mag<(\d+)>\(\)\)\)", txt):
        sign = 1 if m.group(2) == "*" else -1
        res.append({"name": m.group(1), "exp": sign * int(m.group(3)), "base": int(m.group(4))})
    for p in res:
        mm = re.search(r"constexpr auto (\w+) = PrefixApplier<" + p["name"] + r">", txt)
        p["applier"] = mm.group(1) if mm else None
        mm = re.search(r'struct ' + p["name"] + r' : .*?concatenate\("([^"]+)"', txt, re.S)
        p["symbol"] = mm.group(1) if mm else None
    return res


def parse_pack(s):
    """'d-99^1/1,d-97^-2/1' → {base: Fraction}. base is 'd-99', 'p2', 'pi'."""
    if s == "-" or s == "":
        return {}
    out = {}
    for tok in s.split(","):
        b, e = tok.split("^")
        n, d = e.split("/")
        out[b] = Fraction(int(n), int(d))
    return out


def pack_str(p, kind):
    """Canonical text (sorted by the library's base order) for the driver protocol."""
    if not p:
        return "-"

    def key(b):
        if kind == "dim":
            return int(b[1:])
        return 3.14159 if b == "pi" else int(b[1:])
    return ",".join(f"{b}^{p[b].numerator}/{p[b].denominator}" for b in sorted(p, key=key))


def dump_units(wd, units, extra_types=()):
    """Compile and run a dumper: returns {name: {dim, mag, label, has_origin}}.
    extra_types: list of (key, C++ type expression) dumped as well (dim, mag only)."""
    src = os.path.join(wd, "dump_units.cc")
    with open(src, "w") as f:
        f.write('#include <cstdio>\n#include <string>\n#include "au/au.hh"\n#include "au/prefix.hh"\n')
        for h in sorted({u["header"] for u in units}):
            f.write(f'#include "{h}"\n')
        f.write(f'#include "{os.path.join(HARNESS_INC, "serialize.hh")}"\n')
        f.write("template <typename U> using OriginMemberT = decltype(U::origin());\n")
        f.write("template <typename U> void dump(const char* name) {\n"
                "  printf(\"%s|%s|%s|%d|%s\\n\", name, vser::dim_str<U>().c_str(), vser::mag_str<U>().c_str(),\n"
                "         int(au::stdx::experimental::is_detected<OriginMemberT, U>::value), au::unit_label(U{}));\n}\n")
        f.write("int main() {\n")
        for u in units:
            f.write(f'  dump<au::{u["name"]}>("{u["name"]}");\n')
        for key, ty in extra_types:
            f.write(f'  dump<{ty}>("{key}");\n')
        f.write("  return 0;\n}\n")
    exe = os.path.join(wd, "dump_units")
    rc, out = cxx(src, exe, san=False, opt="-O0")
    if rc != 0:
        raise RuntimeError("unit dumper does not compile (extraction broken):\n" + out[-3000:])
    rc, o, e = run([exe])
    res = {}
    for line in o.split("\n"):
        if not line:
            continue
        name, dim, mag, org, label = line.split("|", 4)
        res[name] = {"dim": parse_pack(dim), "mag": parse_pack(mag), "has_origin": org == "1", "label": label}
    return res


def _is_prime(n):
    if n < 2:
        return False
    for p in (2, 3, 5, 7, 11, 13, 17, 19, 23, 29, 31, 37):
        if n % p == 0:
            return n == p
    d, s = n - 1, 0
    while d % 2 == 0:
        d //= 2
        s += 1
    for a in (2, 3, 5, 7, 11, 13, 17, 19, 23, 29, 31, 37):
        x = pow(a, d, n)
        if x in (1, n - 1):
            continue
        for _ in range(s - 1):
            x = x * x % n
            if x == n - 1:
                break
        else:
            return False
    return True


def factor(n):
    """Full prime factorisation {p: e} (trial division + Pollard rho), n < 2^64 or so."""
    import math
    out = {}

    def rec(m):
        if m == 1:
            return
        if _is_prime(m):
            out[m] = out.get(m, 0) + 1
            return
        for p in (2, 3, 5, 7, 11, 13, 17, 19, 23, 29, 31, 37):
            if m % p == 0:
                out[p] = out.get(p, 0) + 1
                rec(m // p)
                return
        c = 1
        while True:
            x = y = 2
            d = 1
            while d == 1:
                x = (x * x + c) % m
                y = (y * y + c) % m
                y = (y * y + c) % m
                d = math.gcd(abs(x - y), m)
            if d != m:
                rec(d)
                rec(m // d)
                return
            c += 1
    rec(n)
    return out

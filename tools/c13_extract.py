"""C13: regenerate lean/Generated/Classes.lean — the class descriptors of au::Quantity and
au::QuantityPoint — from the clang AST of the headers in vlib.REPO.

What is extracted is exactly what [class.prop] / [dcl.init] / the Itanium layout rule look at:
non-static data members (declared type, access, default member initialiser), base classes, virtual
functions, user-declared special member functions, and the non-template constructors with their
mem-initialiser lists.  The primary class templates are read (not one instantiation), so the
descriptor speaks about every (Unit, Rep).
"""
import json
import os
import re

from vlib import AU_INC, LEAN, run

CLASSES = ["Quantity", "QuantityPoint"]
OUT = os.path.join(LEAN, "Generated", "Classes.lean")


def _objects(txt):
    dec = json.JSONDecoder()
    i, n, out = 0, len(txt), []
    while i < n:
        while i < n and txt[i] in " \n\r\t":
            i += 1
        if i >= n:
            break
        if txt[i] != "{":
            j = txt.find("\n", i)
            i = n if j < 0 else j + 1
            continue
        o, j = dec.raw_decode(txt, i)
        out.append(o)
        i = j
    return out


def dump_ast(wd):
    src = os.path.join(wd, "classes_ast.cc")
    with open(src, "w") as f:
        f.write('#include "au/quantity.hh"\n#include "au/quantity_point.hh"\n')
    cmd = ["clang++-14", "-std=c++14", "-I", AU_INC, "-fsyntax-only", "-Xclang", "-ast-dump=json",
           "-Xclang", "-ast-dump-filter=Quantity", src]
    rc, out, err = run(cmd, timeout=600)
    if rc != 0:
        raise RuntimeError("clang AST dump failed:\n" + err[-3000:])
    return _objects(out)


def _ty(node):
    t = node.get("type", {})
    return t.get("desugaredQualType") or t.get("qualType") or ""


def _strip(s):
    s = s.strip()
    s = re.sub(r"^(const|volatile)\s+", "", s)
    s = re.sub(r"\s*(const)?\s*&&?$", "", s)
    return s.strip()


class _Cls:
    def __init__(self, tmpl, rec):
        self.name = tmpl["name"]
        self.rec = rec
        self.tparams = [c.get("name", "") for c in tmpl["inner"] if c["kind"] == "TemplateTypeParmDecl"]
        self.rep_param = self.tparams[1] if len(self.tparams) == 2 else None
        self.aliases = {}
        for m in rec.get("inner", []):
            if m["kind"] in ("TypeAliasDecl", "TypedefDecl") and "name" in m:
                self.aliases[m["name"]] = m.get("type", {}).get("qualType", "")

    def resolve(self, s, depth=0):
        """Type spelling → ('rep',) | ('cls', name) | ('other', spelling)."""
        s0 = _strip(s)
        s1 = re.sub(r"^(typename\s+)?(::)?(au::)?" + re.escape(self.name) + r"(<[^<>]*>)?::", "", s0)
        if depth > 8:
            return ("other", s0)
        if self.rep_param and s1 == self.rep_param:
            return ("rep",)
        if s1 in self.aliases and self.aliases[s1] != s1:
            return self.resolve(self.aliases[s1], depth + 1)
        m = re.match(r"^(?:::)?(?:au::)?(\w+)<(.*)>$", s1)
        if m and m.group(1) in CLASSES:
            args = _split_args(m.group(2))
            if len(args) == 2 and self.resolve(args[1], depth + 1) == ("rep",):
                return ("cls", m.group(1))
        return ("other", s0)

    def is_self(self, s):
        s1 = _strip(s)
        return re.match(r"^(?:::)?(?:au::)?" + re.escape(self.name) + r"(<.*>)?$", s1) is not None


def _split_args(s):
    out, depth, cur = [], 0, ""
    for ch in s:
        if ch in "<(":
            depth += 1
        elif ch in ">)":
            depth -= 1
        if ch == "," and depth == 0:
            out.append(cur.strip())
            cur = ""
        else:
            cur += ch
    if cur.strip():
        out.append(cur.strip())
    return out


def _init_expr(nodes):
    """The initialiser expression list of a FieldDecl / CXXCtorInitializer → InitE tuple."""
    nodes = [n for n in (nodes or []) if n.get("kind") not in ("FullComment",)]
    if not nodes:
        return ("absent",)
    e = nodes[0]
    if e["kind"] in ("InitListExpr", "ParenListExpr"):
        inner = e.get("inner", [])
        braces = e["kind"] == "InitListExpr"
        if not inner:
            return ("emptyBraces",) if braces else ("other", "()")
        if len(inner) == 1:
            x = inner[0]
            while x["kind"] in ("ImplicitCastExpr", "ParenExpr", "ExprWithCleanups") and x.get("inner"):
                x = x["inner"][0]
            if x["kind"] == "IntegerLiteral" and braces:
                return ("intLit", int(x.get("value", "-1")))
            if x["kind"] == "DeclRefExpr" and braces:
                rd = x.get("referencedDecl", {})
                if rd.get("kind") == "ParmVarDecl":
                    return ("param",)
                if rd.get("name") == "ZERO" and "Zero" in rd.get("type", {}).get("qualType", ""):
                    return ("zeroConst",)
                return ("other", "ref:" + rd.get("name", "?"))
            return ("other", x["kind"])
        return ("other", f"{len(inner)} initialisers")
    return ("other", e["kind"])


def describe(objs, cname):
    tm = None
    for o in objs:
        if o.get("kind") == "ClassTemplateDecl" and o.get("name") == cname:
            recs = [c for c in o.get("inner", []) if c["kind"] == "CXXRecordDecl" and c.get("completeDefinition")]
            if recs:
                tm = (o, recs[0])
    if tm is None:
        raise RuntimeError(f"class template au::{cname} with a definition not found in the AST")
    cls = _Cls(*tm)
    rec = tm[1]
    access = "priv" if rec.get("tagUsed") == "class" else "pub"
    d = {"name": cname, "fields": [], "bases": [], "nVirtualBases": 0, "nVirtualFns": 0,
         "userCopyCtor": False, "userMoveCtor": False, "userCopyAssign": False, "userMoveAssign": False,
         "userDtor": False, "ctors": []}
    for b in rec.get("bases", []) or []:
        d["bases"].append(b.get("type", {}).get("qualType", "?"))
        if b.get("isVirtual"):
            d["nVirtualBases"] += 1

    def walk_virtual(m):
        if m.get("kind") in ("CXXMethodDecl", "CXXDestructorDecl", "CXXConversionDecl") and m.get("virtual"):
            d["nVirtualFns"] += 1

    for m in rec.get("inner", []):
        k = m["kind"]
        if k == "AccessSpecDecl":
            access = {"public": "pub", "protected": "prot", "private": "priv"}[m["access"]]
            continue
        if m.get("isImplicit"):
            continue
        walk_virtual(m)
        if k == "FieldDecl":
            d["fields"].append({"name": m.get("name", ""), "ty": cls.resolve(_ty(m)), "access": access,
                                "init": _init_expr(m.get("inner")) if m.get("hasInClassInitializer") else ("absent",)})
        elif k == "CXXConstructorDecl":
            params = [x for x in m.get("inner", []) if x["kind"] == "ParmVarDecl"]
            ptys = [x.get("type", {}).get("qualType", "") for x in params]
            defaulted = m.get("explicitlyDefaulted") == "default"
            if len(ptys) == 1 and cls.is_self(ptys[0]) and "&" in ptys[0]:
                if ptys[0].rstrip().endswith("&&"):
                    d["userMoveCtor"] = d["userMoveCtor"] or not defaulted
                else:
                    d["userCopyCtor"] = d["userCopyCtor"] or not defaulted
                continue
            pl = []
            for x in params:
                q = _ty(x)
                if re.match(r"^(const\s+)?(au::)?Zero(\s*&)?$", q.strip()):
                    pl.append(("zero",))
                else:
                    r = cls.resolve(q)
                    pl.append(r if r[0] in ("rep", "cls") else ("other", r[1]))
            kind = "defaulted" if defaulted else ("deleted" if m.get("explicitlyDeleted") else "userProvided")
            inits = []
            for x in m.get("inner", []):
                if x["kind"] == "CXXCtorInitializer":
                    tgt = x.get("anyInit", {}).get("name")
                    inits.append((tgt if tgt else "<delegating-or-base>", _init_expr(x.get("inner"))))
            d["ctors"].append({"params": pl, "kind": kind, "inits": inits})
        elif k == "CXXDestructorDecl":
            if m.get("explicitlyDefaulted") != "default":
                d["userDtor"] = True
        elif k == "CXXMethodDecl" and m.get("name") == "operator=":
            params = [x for x in m.get("inner", []) if x["kind"] == "ParmVarDecl"]
            ptys = [x.get("type", {}).get("qualType", "") for x in params]
            defaulted = m.get("explicitlyDefaulted") == "default"
            if len(ptys) == 1 and cls.is_self(ptys[0]):
                if ptys[0].rstrip().endswith("&&"):
                    d["userMoveAssign"] = d["userMoveAssign"] or not defaulted
                else:
                    d["userCopyAssign"] = d["userCopyAssign"] or not defaulted
    return d


# ---------------------------------------------------------------------------------------------
# Lean rendering
# ---------------------------------------------------------------------------------------------

def _s(x):
    return json.dumps(x, ensure_ascii=True)


def _field_ty(t):
    if t[0] == "rep":
        return ".rep"
    if t[0] == "cls":
        return f"(.cls {_s(t[1])})"
    return f"(.other {_s(t[1])})"


def _param_ty(t):
    if t[0] == "zero":
        return ".zero"
    if t[0] == "rep":
        return ".rep"
    if t[0] == "cls":
        return f"(.cls {_s(t[1])})"
    return f"(.other {_s(t[1])})"


def _init(e):
    if e[0] in ("absent", "emptyBraces", "zeroConst", "param"):
        return "." + e[0]
    if e[0] == "intLit":
        return f"(.intLit {max(0, int(e[1]))})" if int(e[1]) >= 0 else '(.other "negative literal")'
    return f"(.other {_s(e[1])})"


def _b(x):
    return "true" if x else "false"


def render(descs):
    out = ["/- GENERATED by tools/c13_extract.py from the clang AST of au/quantity.hh and",
           "   au/quantity_point.hh — do not edit.  Regenerated on every run of ./check C13. -/",
           "import AuModel.Layout", "namespace Au.Generated.Classes", "open Au Au.C13", ""]
    names = []
    for d in descs:
        ident = d["name"][0].lower() + d["name"][1:]
        names.append(ident)
        out.append(f"def {ident} : ClassD :=")
        out.append(f"  {{ name := {_s(d['name'])}")
        fl = ", ".join(f"{{ name := {_s(f['name'])}, ty := {_field_ty(f['ty'])}, access := .{f['access']}, "
                       f"init := {_init(f['init'])} }}" for f in d["fields"])
        out.append(f"    fields := [{fl}]")
        out.append(f"    bases := [{', '.join(_s(b) for b in d['bases'])}]")
        out.append(f"    nVirtualBases := {d['nVirtualBases']}")
        out.append(f"    nVirtualFns := {d['nVirtualFns']}")
        for k in ("userCopyCtor", "userMoveCtor", "userCopyAssign", "userMoveAssign", "userDtor"):
            out.append(f"    {k} := {_b(d[k])}")
        cl = []
        for c in d["ctors"]:
            ps = ", ".join(_param_ty(p) for p in c["params"])
            ins = ", ".join(f"({_s(n)}, {_init(e)})" for n, e in c["inits"])
            cl.append(f"{{ params := [{ps}], kind := .{c['kind']}, inits := [{ins}] }}")
        out.append("    ctors := [" + (",\n      ".join(cl)) + "] }")
        out.append("")
    out.append(f"def env : ClassEnv := [{', '.join(names)}]")
    out.append("")
    out.append("end Au.Generated.Classes")
    return "\n".join(out) + "\n"


def regenerate(wd, out_path=OUT):
    """Returns (descriptors, changed)."""
    objs = dump_ast(wd)
    descs = [describe(objs, c) for c in CLASSES]
    txt = render(descs)
    old = open(out_path).read() if os.path.exists(out_path) else None
    if old != txt:
        tmp = out_path + ".tmp"
        with open(tmp, "w") as f:
            f.write(txt)
        os.replace(tmp, out_path)
    return descs, old != txt

"""C13: C++ sources of the harnesses (templates filled in by p_c13.py).

Three programs, all built against the real headers in vlib.AU_INC:

  layout  — for every (unit, rep): sizeof/alignof/is_trivially_copyable/is_trivially_destructible/
            is_standard_layout of Quantity<U,R> and QuantityPoint<U,R>, and the object bytes after
            default-initialisation and value-initialisation over a poisoned buffer;
  ops     — a table of (operator, R, T) kernels: the *same* operator expression applied to Quantity
            operands (public API) and to the raw values; types via decltype; values bit-exact;
            exhaustive 8-bit sweeps with an FNV hash that the Lean driver reproduces;
  rt      — unit(x).in(unit) / unit_pt(x).in(unit_pt) round trips, memcmp, single values, random
            pattern sweeps, and all 2^32 float patterns.
"""

COMMON = r'''
#include <cstdint>
#include <cstdio>
#include <cstdlib>
#include <cstring>
#include <limits>
#include <new>
#include <string>
#include <type_traits>
#include "au/quantity.hh"
#include "au/quantity_point.hh"
#include "au/unit_of_measure.hh"
@UNIT_INCLUDES@
typedef __int128 i128;
typedef unsigned __int128 u128;

template <class T> struct TC { static const char* name() { return "?"; } };
#define TCDEF(T, S) template <> struct TC<T> { static const char* name() { return S; } };
TCDEF(signed char, "i8") TCDEF(unsigned char, "u8") TCDEF(short, "i16") TCDEF(unsigned short, "u16")
TCDEF(int, "i32") TCDEF(unsigned, "u32") TCDEF(long, "i64") TCDEF(unsigned long, "u64")
TCDEF(long long, "ll64") TCDEF(unsigned long long, "ull64") TCDEF(float, "f32") TCDEF(double, "f64")
TCDEF(long double, "f80") TCDEF(bool, "bool") TCDEF(char, "char")

// Number of value bytes of an arithmetic type (long double: 10 of the 16 are value bytes).
template <class T> struct VB { static const size_t n = sizeof(T); };
template <> struct VB<long double> { static const size_t n = 10; };

struct V { unsigned char b[16]; };

template <class T> static T load(const V& v) {
    T t; std::memset(&t, 0, sizeof t); std::memcpy(&t, v.b, VB<T>::n); return t;
}
template <class T> static V store(const T& t) {
    V v; std::memset(v.b, 0, sizeof v.b); std::memcpy(v.b, &t, VB<T>::n); return v;
}
static std::string hexbytes(const unsigned char* p, size_t n) {   // little endian bytes → minimal hex
    static const char* d = "0123456789abcdef";
    std::string s;
    for (size_t i = n; i-- > 0;) { s.push_back(d[p[i] >> 4]); s.push_back(d[p[i] & 15]); }
    size_t k = 0; while (k + 1 < s.size() && s[k] == '0') ++k;
    return "0x" + s.substr(k);
}
template <class T, bool Int = std::is_integral<T>::value, bool Sgn = std::is_signed<T>::value> struct Fmt;
template <class T> struct Fmt<T, true, true> { static std::string s(T x) { return std::to_string((long long)x); } };
template <class T> struct Fmt<T, true, false> { static std::string s(T x) { return std::to_string((unsigned long long)x); } };
template <class T, bool S> struct Fmt<T, false, S> {
    static std::string s(T x) { V v = store(x); return hexbytes(v.b, VB<T>::n); }
};
template <> struct Fmt<bool, true, false> { static std::string s(bool x) { return x ? "1" : "0"; } };

template <class T, bool Int = std::is_integral<T>::value> struct Parse;
template <class T> struct Parse<T, true> {
    static bool p(const char* s, V& v) {
        char* e = nullptr;
        if (std::is_signed<T>::value) {
            long long x = std::strtoll(s, &e, 10); if (*e) return false;
            if (x < (long long)std::numeric_limits<T>::lowest() || x > (long long)std::numeric_limits<T>::max()) return false;
            v = store((T)x);
        } else {
            if (*s == '-') return false;
            unsigned long long x = std::strtoull(s, &e, 10); if (*e) return false;
            if (x > (unsigned long long)std::numeric_limits<T>::max()) return false;
            v = store((T)x);
        }
        return true;
    }
};
template <class T> struct Parse<T, false> {
    static bool p(const char* s, V& v) {
        if (s[0] != '0' || s[1] != 'x') return false;
        u128 x = 0; int n = 0;
        for (s += 2; *s; ++s, ++n) {
            int d = (*s >= '0' && *s <= '9') ? *s - '0' : (*s >= 'a' && *s <= 'f') ? *s - 'a' + 10 : -1;
            if (d < 0) return false;
            x = (x << 4) | (unsigned)d;
        }
        if (n == 0 || n > 2 * (int)VB<T>::n) return false;
        std::memset(v.b, 0, sizeof v.b); std::memcpy(v.b, &x, VB<T>::n);
        return true;
    }
};

static volatile long g_ub = 0;

// ---- robustness: a trap (SIGFPE, SIGSEGV, ...) or the CPU-time watchdog (RLIMIT_CPU -> SIGXCPU) ends the current
// request, not the process; the answer names the request and, inside a sweep, the operand pair being evaluated.
#include <csetjmp>
#include <csignal>
#include <sys/resource.h>
static sigjmp_buf g_jb;
static volatile sig_atomic_t g_in_request = 0;
extern volatile long g_cur_a, g_cur_b;      // defined once per program (CUR_DEFS): the sweeps run in other translation units
extern volatile int g_cur_valid;
#define CUR_DEFS volatile long g_cur_a = 0, g_cur_b = 0; volatile int g_cur_valid = 0;
static void on_trap(int sig) { if (g_in_request) siglongjmp(g_jb, sig); _exit(100 + sig); }
static void install_traps(long cpu_seconds) {
    const int sigs[] = { SIGFPE, SIGSEGV, SIGBUS, SIGILL, SIGABRT, SIGXCPU };
    for (unsigned i = 0; i < sizeof sigs / sizeof sigs[0]; ++i) {
        struct sigaction sa; std::memset(&sa, 0, sizeof sa); sa.sa_handler = on_trap; sa.sa_flags = SA_NODEFER;
        sigaction(sigs[i], &sa, nullptr);
    }
    struct rlimit rl; rl.rlim_cur = (rlim_t)cpu_seconds; rl.rlim_max = (rlim_t)cpu_seconds + 30; setrlimit(RLIMIT_CPU, &rl);
}
static void bump_cpu_limit(long cpu_seconds) {     // after a watchdog hit: give the remaining requests a fresh budget
    struct rusage ru; getrusage(RUSAGE_SELF, &ru);
    struct rlimit rl; getrlimit(RLIMIT_CPU, &rl);
    rl.rlim_cur = (rlim_t)(ru.ru_utime.tv_sec + ru.ru_stime.tv_sec + cpu_seconds);
    if (rl.rlim_cur + 30 > rl.rlim_max) rl.rlim_cur = rl.rlim_max > 30 ? rl.rlim_max - 30 : rl.rlim_max;
    setrlimit(RLIMIT_CPU, &rl);
}
'''

# ------------------------------------------------------------------------------------------------
LAYOUT = COMMON + r'''
CUR_DEFS
extern "C" void __ubsan_on_report(void) { g_ub = g_ub + 1; }
struct Row { const char* u; const char* r; void (*f)(const char*, const char*); };

template <class X, class R> static unsigned facts() {
    unsigned m = 0;
    m |= (sizeof(X) == sizeof(R)) ? 1u : 0u;
    m |= (alignof(X) == alignof(R)) ? 2u : 0u;
    m |= std::is_trivially_copyable<X>::value ? 4u : 0u;
    m |= std::is_trivially_destructible<X>::value ? 8u : 0u;
    m |= std::is_standard_layout<X>::value ? 16u : 0u;
    // default-initialisation and value-initialisation over a poisoned buffer
    R z{};
    alignas(X) alignas(R) unsigned char buf[sizeof(X) + sizeof(R)];
    std::memset(buf, 0xAB, sizeof buf);
    X* p = new (buf) X;
    (void)p;
    m |= (sizeof(X) >= VB<R>::n && std::memcmp(buf, &z, VB<R>::n) == 0) ? 32u : 0u;
    std::memset(buf, 0xAB, sizeof buf);
    X* q = new (buf) X{};
    (void)q;
    m |= (sizeof(X) >= VB<R>::n && std::memcmp(buf, &z, VB<R>::n) == 0) ? 64u : 0u;
    std::memset(buf, 0xAB, sizeof buf);
    X* q2 = new (buf) X();
    (void)q2;
    m |= (sizeof(X) >= VB<R>::n && std::memcmp(buf, &z, VB<R>::n) == 0) ? 128u : 0u;
    constexpr X cx{};                       // default construction inside a constant expression
    m |= (sizeof(X) >= VB<R>::n && std::memcmp(&cx, &z, VB<R>::n) == 0) ? 256u : 0u;
    return m;
}
template <class U, class R> static void row(const char* un, const char* rn) {
    using Q = au::Quantity<U, R>;
    using P = au::QuantityPoint<U, R>;
    // compile-time part of the statement (the harness does not build if these are not constants)
    constexpr bool ce = (sizeof(Q) == sizeof(R)) && (alignof(P) == alignof(R));
    (void)ce;
    std::printf("L %s %s sr=%zu ar=%zu sq=%zu aq=%zu fq=%u sp=%zu ap=%zu fp=%u\n", un, rn, sizeof(R), alignof(R),
                sizeof(Q), alignof(Q), facts<Q, R>(), sizeof(P), alignof(P), facts<P, R>());
}
#define ROWS(UT, UN) \
    row<UT, signed char>(UN, "i8"); row<UT, unsigned char>(UN, "u8"); row<UT, short>(UN, "i16"); \
    row<UT, unsigned short>(UN, "u16"); row<UT, int>(UN, "i32"); row<UT, unsigned>(UN, "u32"); \
    row<UT, long>(UN, "i64"); row<UT, unsigned long>(UN, "u64"); row<UT, float>(UN, "f32"); \
    row<UT, double>(UN, "f64"); row<UT, long double>(UN, "f80");
using namespace au;
int main() {
@ROWS@
    std::printf("U ub=%ld\n", (long)g_ub);
    return 0;
}
'''

# ------------------------------------------------------------------------------------------------
OPS_COMMON = COMMON + r'''
using U = @UNIT@;
using U0 = au::UnitProductT<>;

struct Out { std::string qty, rty, qunit, qval, rval; int defined; uint64_t qw, rw; };
struct SweepOut { long n, defined, mism; uint64_t qh, rh; std::string first; };

// ---- description of a result -------------------------------------------------------------------
template <class UU> static const char* unit_code() {
    if (std::is_same<UU, U>::value) return "U";
    if (std::is_same<UU, U0>::value) return "U0";
    if (std::is_same<UU, decltype(au::pow<-1>(U{}))>::value) return "invU";
    return "?";
}
template <class X> struct Desc {
    static std::string ty() { return TC<X>::name(); }
    static const char* unit() { return "-"; }
    static std::string val(const X& x) { return Fmt<X>::s(x); }
    static uint64_t word(const X& x) { return word_(x, std::is_integral<X>()); }
    static uint64_t word_(const X& x, std::true_type) { return (uint64_t)(int64_t)x; }
    static uint64_t word_(const X& x, std::false_type) { V v = store(x); uint64_t w; std::memcpy(&w, v.b, 8); return w; }
};
template <> struct Desc<bool> {
    static std::string ty() { return "bool"; }
    static const char* unit() { return "-"; }
    static std::string val(const bool& x) { return x ? "1" : "0"; }
    static uint64_t word(const bool& x) { return x ? 1 : 0; }
};
template <class UU, class RR> struct Desc<au::Quantity<UU, RR>> {
    static std::string ty() { return TC<RR>::name(); }
    static const char* unit() { return unit_code<UU>(); }
    static std::string val(const au::Quantity<UU, RR>& x) { return Fmt<RR>::s(x.in(UU{})); }
    static uint64_t word(const au::Quantity<UU, RR>& x) { return Desc<RR>::word(x.in(UU{})); }
};
template <class X> struct Desc<X&> {
    static std::string ty() { return "ref:" + Desc<X>::ty(); }
    static const char* unit() { return Desc<X>::unit(); }
    static std::string val(const X& x) { return Desc<X>::val(x); }
    static uint64_t word(const X& x) { return Desc<X>::word(x); }
};

// ---- the operator expressions (one spelling, applied to Quantity operands and to raw operands) --
enum Kind { K_ADD, K_SUB, K_MUL, K_DIV, K_MOD, K_CMP, K_POS, K_NEG };
#define BINF(NAME, EXPR, KIND) struct NAME { static const int kind = KIND; \
    template <class A, class B> static auto f(A& a, B& b) -> decltype(EXPR) { return EXPR; } };
BINF(FAdd, a + b, K_ADD) BINF(FSub, a - b, K_SUB) BINF(FMul, a * b, K_MUL) BINF(FDiv, a / b, K_DIV) BINF(FMod, a % b, K_MOD)
BINF(FEq, a == b, K_CMP) BINF(FNe, a != b, K_CMP) BINF(FLt, a < b, K_CMP) BINF(FLe, a <= b, K_CMP)
BINF(FGt, a > b, K_CMP) BINF(FGe, a >= b, K_CMP)
BINF(FAddAs, a += b, K_ADD) BINF(FSubAs, a -= b, K_SUB) BINF(FMulAs, a *= b, K_MUL) BINF(FDivAs, a /= b, K_DIV)
struct FPos { static const int kind = K_POS; template <class A, class B> static auto f(A& a, B&) -> decltype(+a) { return +a; } };
struct FNeg { static const int kind = K_NEG; template <class A, class B> static auto f(A& a, B&) -> decltype(-a) { return -a; } };

// ---- is the built-in expression free of undefined behaviour? (exact, in __int128) ---------------
template <class C, bool Int = std::is_integral<C>::value, bool Sgn = std::is_signed<C>::value> struct DefIn;
template <class C, bool S> struct DefIn<C, false, S> { template <class A, class B> static bool ok(int, A, B) { return true; } };
template <class C> struct DefIn<C, true, false> {
    template <class A, class B> static bool ok(int k, A, B b) { return !((k == K_DIV || k == K_MOD) && (C)b == 0); }
};
template <class C> struct DefIn<C, true, true> {
    template <class A, class B> static bool ok(int k, A a, B b) {
        i128 x = (i128)(C)a, y = (i128)(C)b, lo = (i128)std::numeric_limits<C>::lowest(), hi = (i128)std::numeric_limits<C>::max();
        i128 r = 0;
        switch (k) {
            case K_ADD: r = x + y; break;
            case K_SUB: r = x - y; break;
            case K_MUL: r = x * y; break;
            case K_DIV: case K_MOD: return y != 0 && !(x == lo && y == -1);
            case K_NEG: r = -x; break;
            default: return true;
        }
        return lo <= r && r <= hi;
    }
};
template <class F, class A, class B> static bool defined_raw(A a, B b) {
    using C = typename std::conditional<(F::kind == K_POS || F::kind == K_NEG), decltype(+a), decltype(a * b)>::type;
    return DefIn<C>::ok(F::kind, a, b);
}

static inline uint64_t mix(uint64_t h, uint64_t w) { return (h ^ w) * 0x100000001b3ull; }

// ---- kernels -------------------------------------------------------------------------------------
// Mode 0: (Quantity<UQ,R>, Quantity<UQ,R>) vs (R, R);  Mode 1: (Quantity<UQ,R>, T) vs (R, T);
// Mode 2: (T, Quantity<UQ,R>) vs (T, R).
template <class F, class R, class T, int Mode, class UQ> struct Kernel {
    using Q = au::Quantity<UQ, R>;
    using QA = typename std::conditional<Mode == 2, T, Q>::type;
    using QB = typename std::conditional<Mode == 0, Q, typename std::conditional<Mode == 1, T, Q>::type>::type;
    using RA = typename std::conditional<Mode == 2, T, R>::type;
    using RB = typename std::conditional<Mode == 0, R, typename std::conditional<Mode == 1, T, R>::type>::type;
    using QRes = decltype(F::f(std::declval<QA&>(), std::declval<QB&>()));
    using RRes = decltype(F::f(std::declval<RA&>(), std::declval<RB&>()));

    static Q mk(R x) { return au::make_quantity<UQ>(x); }

    static void types(Out& o) {
        o.qty = Desc<QRes>::ty(); o.rty = Desc<RRes>::ty(); o.qunit = Desc<QRes>::unit();
    }
    // a: the quantity's stored value (type R); b: the other operand (R in mode 0, else T)
    static bool run(R a, typename std::conditional<Mode == 0, R, T>::type b, uint64_t& qw, uint64_t& rw,
                    std::string* qs, std::string* rs) {
        RA ra = pick_a(a, b, (RA*)nullptr); RB rb = pick_b(a, b, (RB*)nullptr);
        if (!defined_raw<F>(ra, rb)) return false;
        QA qa = lift_a(a, b); QB qb = lift_b(a, b);
        {
            QRes&& qr = F::f(qa, qb);
            // for compound assignment QRes is an lvalue reference to qa: read the object afterwards
            qw = Desc<QRes>::word(qr);
            if (qs) *qs = Desc<QRes>::val(qr);
        }
        {
            RRes&& rr = F::f(ra, rb);
            rw = Desc<RRes>::word(rr);
            if (rs) *rs = Desc<RRes>::val(rr);
        }
        return true;
    }
    using Bt = typename std::conditional<Mode == 0, R, T>::type;
    static RA pick_a(R a, Bt b, RA*) { return pa(a, b, std::integral_constant<int, Mode>()); }
    static RB pick_b(R a, Bt b, RB*) { return pb(a, b, std::integral_constant<int, Mode>()); }
    static R pa(R a, Bt, std::integral_constant<int, 0>) { return a; }
    static R pa(R a, Bt, std::integral_constant<int, 1>) { return a; }
    static T pa(R, Bt b, std::integral_constant<int, 2>) { return b; }
    static R pb(R, Bt b, std::integral_constant<int, 0>) { return b; }
    static T pb(R, Bt b, std::integral_constant<int, 1>) { return b; }
    static R pb(R a, Bt, std::integral_constant<int, 2>) { return a; }
    static QA lift_a(R a, Bt b) { return la(a, b, std::integral_constant<int, Mode>()); }
    static QB lift_b(R a, Bt b) { return lb(a, b, std::integral_constant<int, Mode>()); }
    static Q la(R a, Bt, std::integral_constant<int, 0>) { return mk(a); }
    static Q la(R a, Bt, std::integral_constant<int, 1>) { return mk(a); }
    static T la(R, Bt b, std::integral_constant<int, 2>) { return b; }
    static Q lb(R, Bt b, std::integral_constant<int, 0>) { return mk(b); }
    static T lb(R, Bt b, std::integral_constant<int, 1>) { return b; }
    static Q lb(R a, Bt, std::integral_constant<int, 2>) { return mk(a); }

    static void eval(const V& a, const V& b, Out& o) {
        types(o);
        R x = load<R>(a); Bt y = load<Bt>(b);
        o.defined = run(x, y, o.qw, o.rw, &o.qval, &o.rval) ? 1 : 0;
    }
    static void sweep(SweepOut& s) {
        s.n = s.defined = s.mism = 0; s.qh = s.rh = 0xcbf29ce484222325ull; s.first = "-";
        const bool unary = (F::kind == K_POS || F::kind == K_NEG);
        const long alo = (long)std::numeric_limits<R>::lowest(), ahi = (long)std::numeric_limits<R>::max();
        const long blo = unary ? 0 : (long)std::numeric_limits<Bt>::lowest(), bhi = unary ? 0 : (long)std::numeric_limits<Bt>::max();
        for (long a = alo; a <= ahi; ++a)
            for (long b = blo; b <= bhi; ++b) {
                uint64_t qw = 0, rw = 0;
                ++s.n;
                g_cur_a = a; g_cur_b = b; g_cur_valid = 1;
                if (run((R)a, (Bt)b, qw, rw, nullptr, nullptr)) {
                    ++s.defined;
                    if (qw != rw && !s.mism++) s.first = std::to_string(a) + "," + std::to_string(b);
                    else if (qw != rw) {}
                } else { qw = rw = 0xDEADBEEFDEADBEEFull; }
                s.qh = mix(s.qh, qw); s.rh = mix(s.rh, rw);
            }
    }
};
// types only (declared return type; the body is never instantiated)
template <class F, class R, class T, int Mode, class UQ> struct TypesOnly {
    using K = Kernel<F, R, T, Mode, UQ>;
    static void types(Out& o) { K::types(o); }
};

struct Entry {
    const char* op; const char* r; const char* t; int unitless; int compiled;   // 1 full, 2 types only, 0 nothing
    void (*types)(Out&); void (*eval)(const V&, const V&, Out&); void (*sweep)(SweepOut&);
    bool (*parse_a)(const char*, V&); bool (*parse_b)(const char*, V&);
};
#define E_FULL(OP, F, R, T, MODE, UQ, UL, RN, TN, BT) \
    { OP, RN, TN, UL, 1, &Kernel<F, R, T, MODE, UQ>::types, &Kernel<F, R, T, MODE, UQ>::eval, nullptr, &Parse<R>::p, &Parse<BT>::p }
#define E_SWEEP(OP, F, R, T, MODE, UQ, UL, RN, TN, BT) \
    { OP, RN, TN, UL, 1, &Kernel<F, R, T, MODE, UQ>::types, &Kernel<F, R, T, MODE, UQ>::eval, &Kernel<F, R, T, MODE, UQ>::sweep, &Parse<R>::p, &Parse<BT>::p }
#define E_TYPES(OP, F, R, T, MODE, UQ, UL, RN, TN, BT) \
    { OP, RN, TN, UL, 2, &TypesOnly<F, R, T, MODE, UQ>::types, nullptr, nullptr, &Parse<R>::p, &Parse<BT>::p }
#define E_NONE(OP, RN, TN, UL) { OP, RN, TN, UL, 0, nullptr, nullptr, nullptr, nullptr, nullptr }
'''

OPS_MAIN = r'''
CUR_DEFS
extern "C" void __ubsan_on_report(void) { g_ub = g_ub + 1; }
@EXTERNS@
static const Entry* const tables[] = { @TABLES@ };
static const int table_sizes[] = { @SIZES@ };
static const Entry* find(const char* op, const char* r, const char* t, int ul) {
    for (unsigned c = 0; c < sizeof(tables) / sizeof(tables[0]); ++c)
        for (int i = 0; i < table_sizes[c]; ++i) {
            const Entry& e = tables[c][i];
            if (!std::strcmp(e.op, op) && !std::strcmp(e.r, r) && !std::strcmp(e.t, t) && e.unitless == ul) return &e;
        }
    return nullptr;
}
// ---- the constant-evaluation path: the same operators inside constant expressions (values 7 and 3) -------------------
template <class Q> constexpr Q ce_as(Q x, Q y, int k) { if (k == 0) x += y; else x -= y; return x; }
template <class Q, class S> constexpr Q ce_sc(Q x, S s, int k) { if (k == 0) x *= s; else x /= s; return x; }
template <class R> constexpr R ce_ras(R x, R y, int k) { if (k == 0) x += y; else x -= y; return x; }
template <class R> constexpr R ce_rsc(R x, R s, int k) { if (k == 0) x *= s; else x /= s; return x; }
// operand pairs of the constant-expression checks: (7, 3); (max/2, 2): results at the upper limit of the rep; (lowest/2 + 1, 2):
// negative operands (signed reps), results at the lower limit; all defined for every rep
template <class R, int Sel> struct CEV {
    static constexpr R a() { return Sel == 0 ? R(7) : Sel == 1 ? R(std::numeric_limits<R>::max() / 2) : R(std::numeric_limits<R>::lowest() / 2 + 1); }
    static constexpr R b() { return Sel == 0 ? R(3) : R(2); }
};
template <class R, int Sel, bool Wide = (sizeof(R) >= 4)> struct CEUnary {     // F4: `%`, unary +/- are not usable for narrow reps
    static int bad() { return 0; }
};
template <class R, int Sel, bool Int = std::is_integral<R>::value> struct CEMod { static int bad() { return 0; } };
template <class R, int Sel> struct CEMod<R, Sel, true> {
    static int bad() {
        constexpr R a = CEV<R, Sel>::a(), b = CEV<R, Sel>::b();
        constexpr auto q = (au::make_quantity<U>(a) % au::make_quantity<U>(b)).in(U{});
        constexpr auto r = a % b;
        return (q == r && std::is_same<decltype(q), decltype(r)>::value) ? 0 : 1;
    }
};
template <class R, int Sel> struct CEUnary<R, Sel, true> {
    static int bad() {
        constexpr R a = CEV<R, Sel>::a();
        constexpr auto qa = au::make_quantity<U>(a);
        constexpr auto n = (-qa).in(U{}); constexpr auto p = (+qa).in(U{});
        constexpr auto rn = -a; constexpr auto rp = +a;
        return (n == rn ? 0 : 1) + (p == rp ? 0 : 1) + CEMod<R, Sel>::bad();
    }
};
template <class R, int Sel> static int ce_set(int& n) {
    constexpr R a = CEV<R, Sel>::a(), b = CEV<R, Sel>::b();
    constexpr auto qa = au::make_quantity<U>(a);
    constexpr auto qb = au::make_quantity<U>(b);
    int bad = 0;
#define CEQ(QE, RE) { constexpr auto q_ = (QE); constexpr auto r_ = (RE); ++n; if (!(q_ == r_) || !std::is_same<decltype(q_), decltype(r_)>::value) ++bad; }
    CEQ((qa + qb).in(U{}), a + b) CEQ((qa - qb).in(U{}), a - b) CEQ((qb - qa).in(U{}), b - a)
    CEQ((qa * b).in(U{}), a * b) CEQ((b * qa).in(U{}), b * a) CEQ((qa / b).in(U{}), a / b)
    CEQ(qa == qb, a == b) CEQ(qa != qb, a != b) CEQ(qa < qb, a < b) CEQ(qa <= qb, a <= b) CEQ(qa > qb, a > b) CEQ(qa >= qb, a >= b)
    CEQ(qa == qa, a == a) CEQ(qa <= qa, a <= a) CEQ(qa >= qa, a >= a) CEQ(qa < qa, a < a) CEQ(qb < qa, b < a) CEQ(qb >= qa, b >= a)
    CEQ(ce_as(qa, qb, 0).in(U{}), ce_ras(a, b, 0)) CEQ(ce_as(qa, qb, 1).in(U{}), ce_ras(a, b, 1))
    CEQ(ce_sc(qa, b, 0).in(U{}), ce_rsc(a, b, 0)) CEQ(ce_sc(qa, b, 1).in(U{}), ce_rsc(a, b, 1))
    using QR = au::Quantity<U, R>;
    CEQ(au::QuantityMaker<U>{}(a).in(au::QuantityMaker<U>{}), a) CEQ(QR{}.in(U{}), R{})
#undef CEQ
    n += 3;
    return bad + CEUnary<R, Sel>::bad();
}
template <class R> static void ce_line(const char* rn) {
    int n = 0;
    int b0 = ce_set<R, 0>(n), b1 = ce_set<R, 1>(n), b2 = ce_set<R, 2>(n);
    std::printf("C %s n=%d bad=%d bad0=%d bad1=%d bad2=%d\n", rn, n, b0 + b1 + b2, b0, b1, b2);
}
static void ce_dispatch(const char* r) {
    if (!std::strcmp(r, "i8")) ce_line<signed char>(r); else if (!std::strcmp(r, "u8")) ce_line<unsigned char>(r);
    else if (!std::strcmp(r, "i16")) ce_line<short>(r); else if (!std::strcmp(r, "u16")) ce_line<unsigned short>(r);
    else if (!std::strcmp(r, "i32")) ce_line<int>(r); else if (!std::strcmp(r, "u32")) ce_line<unsigned>(r);
    else if (!std::strcmp(r, "i64")) ce_line<long>(r); else if (!std::strcmp(r, "u64")) ce_line<unsigned long>(r);
    else if (!std::strcmp(r, "f32")) ce_line<float>(r); else if (!std::strcmp(r, "f64")) ce_line<double>(r);
    else if (!std::strcmp(r, "f80")) ce_line<long double>(r); else std::puts("bad");
}

int main() {
    char line[512];
    install_traps(@CPU_LIMIT@);
    while (std::fgets(line, sizeof line, stdin)) {
        char cmd[8], op[16], r[8], t[8], a[64], b[64]; int ul = 0;
        size_t len = std::strlen(line); if (len && line[len - 1] == '\n') line[len - 1] = 0;
        g_cur_valid = 0;
        int sig = sigsetjmp(g_jb, 1);
        if (sig) {
            g_in_request = 0;
            if (sig == SIGXCPU) bump_cpu_limit(@CPU_LIMIT@);
            if (g_cur_valid) std::printf("TRAP sig=%d a=%ld b=%ld\n", sig, (long)g_cur_a, (long)g_cur_b);
            else std::printf("TRAP sig=%d\n", sig);
            std::fflush(stdout);
            continue;
        }
        if (line[0] == 'C') {
            if (std::sscanf(line, "%7s %7s", cmd, r) != 2) { std::puts("bad"); std::fflush(stdout); continue; }
            ce_dispatch(r); std::fflush(stdout); continue;
        }
        int n = std::sscanf(line, "%7s %15s %7s %7s %d %63s %63s", cmd, op, r, t, &ul, a, b);
        if (n < 5) { std::puts("bad"); std::fflush(stdout); continue; }
        const Entry* e = find(op, r, t, ul);
        if (!e) { std::puts("bad-entry"); std::fflush(stdout); continue; }
        if (cmd[0] == 'T') {
            if (e->compiled == 0) { std::printf("T compiled=0\n"); }
            else { Out o; e->types(o); std::printf("T compiled=%d qty=%s rty=%s unit=%s\n", e->compiled, o.qty.c_str(), o.rty.c_str(), o.qunit.c_str()); }
        } else if (cmd[0] == 'P') {
            if (e->compiled != 1 || n < 7) { std::puts("P compiled=0"); std::fflush(stdout); continue; }
            V va, vb;
            if (!e->parse_a(a, va) || !e->parse_b(b, vb)) { std::puts("bad-value"); std::fflush(stdout); continue; }
            Out o; long ub0 = g_ub;
            g_in_request = 1;
            e->eval(va, vb, o);
            g_in_request = 0;
            if (o.defined) std::printf("P compiled=1 def=1 q=%s r=%s ub=%ld\n", o.qval.c_str(), o.rval.c_str(), g_ub - ub0);
            else std::printf("P compiled=1 def=0 q=- r=- ub=0\n");
        } else if (cmd[0] == 'S') {
            if (e->compiled != 1 || !e->sweep) { std::puts("S compiled=0"); std::fflush(stdout); continue; }
            SweepOut s; long ub0 = g_ub;
            g_in_request = 1;
            e->sweep(s);
            g_in_request = 0;
            std::printf("S compiled=1 n=%ld defined=%ld qhash=%llu rhash=%llu mism=%ld first=%s ub=%ld\n", s.n, s.defined,
                        (unsigned long long)s.qh, (unsigned long long)s.rh, s.mism, s.first.c_str(), g_ub - ub0);
        } else std::puts("bad");
        std::fflush(stdout);
    }
    return 0;
}
'''

# ------------------------------------------------------------------------------------------------
RT = COMMON + r'''
CUR_DEFS
extern "C" void __ubsan_on_report(void) { g_ub = g_ub + 1; }
using U = @UNIT@;
static const auto qmaker = au::QuantityMaker<U>{};
static const auto pmaker = au::QuantityPointMaker<U>{};

template <class T> static bool same_bits(const T& x, const T& y) { return std::memcmp(&x, &y, VB<T>::n) == 0; }
template <class T, bool Fl = std::is_floating_point<T>::value> struct IsNan { static bool f(T) { return false; } };
template <class T> struct IsNan<T, true> { static bool f(T x) { return x != x; } };

// what the point round trip computes on raw values according to the source: (x + 0) * 1 in the
// promoted type, converted back
template <class T> static T pt_raw(T x) { return static_cast<T>((x + T{0}) * T{1}); }

template <class T> __attribute__((noinline)) static T q_rt(T x) { return qmaker(x).in(qmaker); }
template <class T> __attribute__((noinline)) static T q_rt_unit(T x) { return au::make_quantity<U>(x).in(U{}); }
template <class T> __attribute__((noinline)) static T q_rt_data(T x) { auto q = qmaker(x); return q.data_in(U{}); }
template <class T> __attribute__((noinline)) static T p_rt(T x) { return pmaker(x).in(pmaker); }
template <class T> static T q_rt_inl(T x) { return qmaker(x).in(qmaker); }
// further spellings of the same round trip: rep-explicit in<T>(…), coerce_in, a unit symbol in the unit slot, and a
// quantity-equivalent but differently typed unit (kilo-milli-U has magnitude one)
using UEquiv = au::Kilo<au::Milli<U>>;
static_assert(!std::is_same<UEquiv, U>::value && au::AreUnitsQuantityEquivalent<UEquiv, U>::value, "equivalent, distinct unit type");
template <class T> __attribute__((noinline)) static T q_rt_rep(T x) { return qmaker(x).template in<T>(qmaker); }
template <class T> __attribute__((noinline)) static T q_rt_rep_unit(T x) { return au::make_quantity<U>(x).template in<T>(U{}); }
template <class T> __attribute__((noinline)) static T q_rt_coerce(T x) { return qmaker(x).coerce_in(U{}); }
template <class T> __attribute__((noinline)) static T q_rt_symbol(T x) { return qmaker(x).in(au::SymbolFor<U>{}); }
template <class T> __attribute__((noinline)) static T q_rt_equiv(T x) { return qmaker(x).in(UEquiv{}); }
template <class T> __attribute__((noinline)) static T q_rt_const(T x) { const au::Quantity<U, T> q = qmaker(x); const au::Quantity<U, T> c = q; return c.in(qmaker); }

struct Acc { long n, qbad, pdiff, pmodel; std::string qfirst, pfirst, pmfirst; long neg0, snan, qnan, other; };
template <class T> static void one(T x, Acc& a) {
    ++a.n;
    T y = q_rt(x), y2 = q_rt_unit(x), y3 = q_rt_inl(x), y4 = q_rt_data(x);
    T y5 = q_rt_rep(x), y6 = q_rt_rep_unit(x), y7 = q_rt_coerce(x), y8 = q_rt_symbol(x), y9 = q_rt_equiv(x), y10 = q_rt_const(x);
    g_cur_valid = 0;
    if (!same_bits(x, y) || !same_bits(x, y2) || !same_bits(x, y3) || !same_bits(x, y4) || !same_bits(x, y5) || !same_bits(x, y6) ||
        !same_bits(x, y7) || !same_bits(x, y8) || !same_bits(x, y9) || !same_bits(x, y10)) { if (!a.qbad++) a.qfirst = Fmt<T>::s(x); }
    T p = p_rt(x);
    if (!same_bits(x, p)) {
        if (!a.pdiff++) a.pfirst = Fmt<T>::s(x);
        if (IsNan<T>::f(x)) ++a.snan; else if (x == T{0}) ++a.neg0; else ++a.other;
    }
    T m = pt_raw(x);
    bool agree = same_bits(m, p) || (IsNan<T>::f(m) && IsNan<T>::f(p));
    if (!agree) { if (!a.pmodel++) a.pmfirst = Fmt<T>::s(x); }
}
static void report(const char* tag, const Acc& a) {
    std::printf("%s n=%ld qbad=%ld qfirst=%s pdiff=%ld pfirst=%s pneg0=%ld pnan=%ld pother=%ld pmodel=%ld pmfirst=%s ub=%ld\n", tag, a.n, a.qbad,
                a.qbad ? a.qfirst.c_str() : "-", a.pdiff, a.pdiff ? a.pfirst.c_str() : "-", a.neg0, a.snan, a.other, a.pmodel,
                a.pmodel ? a.pmfirst.c_str() : "-", (long)g_ub);
}
static uint64_t rng_state = 0;
static uint64_t next64() {   // splitmix64
    uint64_t z = (rng_state += 0x9e3779b97f4a7c15ull);
    z = (z ^ (z >> 30)) * 0xbf58476d1ce4e5b9ull; z = (z ^ (z >> 27)) * 0x94d049bb133111ebull; return z ^ (z >> 31);
}
template <class T> static T pattern() { V v; uint64_t a = next64(), b = next64(); std::memcpy(v.b, &a, 8); std::memcpy(v.b + 8, &b, 8); return load<T>(v); }
// long double: only valid x87 encodings are values of the type (explicit integer bit = (exponent != 0))
template <> long double pattern<long double>() {
    V v; uint64_t a = next64(), b = next64();
    unsigned ex = (unsigned)(b & 0x7fff);
    if ((next64() & 7) == 0) ex = (next64() & 1) ? 0x7fff : 0;     // specials and denormals more often
    b = (b & 0x8000) | ex;
    a = (a & 0x7fffffffffffffffull) | (ex != 0 ? 0x8000000000000000ull : 0);
    std::memcpy(v.b, &a, 8); std::memcpy(v.b + 8, &b, 8); return load<long double>(v);
}

template <class T> static void single(const char* s) {
    V v; if (!Parse<T>::p(s, v)) { std::puts("bad-value"); return; }
    T x = load<T>(v);
    g_in_request = 1;
    T y = q_rt(x), y2 = q_rt_unit(x), y4 = q_rt_data(x), p = p_rt(x), m = pt_raw(x);
    T y5 = q_rt_rep(x), y6 = q_rt_rep_unit(x), y7 = q_rt_coerce(x), y8 = q_rt_symbol(x), y9 = q_rt_equiv(x), y10 = q_rt_const(x);
    g_in_request = 0;
    std::printf("R q=%s q2=%s q3=%s q4=%s q5=%s q6=%s q7=%s q8=%s q9=%s pt=%s ptraw=%s ub=%ld\n", Fmt<T>::s(y).c_str(), Fmt<T>::s(y2).c_str(),
                Fmt<T>::s(y4).c_str(), Fmt<T>::s(y5).c_str(), Fmt<T>::s(y6).c_str(), Fmt<T>::s(y7).c_str(), Fmt<T>::s(y8).c_str(),
                Fmt<T>::s(y9).c_str(), Fmt<T>::s(y10).c_str(), Fmt<T>::s(p).c_str(), Fmt<T>::s(m).c_str(), (long)g_ub);
}
// the round trip inside constant expressions, for the special values of the floating reps
template <class T> struct FB;
template <> struct FB<float> { static constexpr float nan1() { return __builtin_nanf("0x12345"); } static constexpr float nan2() { return __builtin_nanf("0x2345"); } static constexpr float inf() { return __builtin_inff(); } };
template <> struct FB<double> { static constexpr double nan1() { return __builtin_nan("0x12345"); } static constexpr double nan2() { return __builtin_nan("0x2345"); } static constexpr double inf() { return __builtin_inf(); } };
template <> struct FB<long double> { static constexpr long double nan1() { return __builtin_nanl("0x12345"); } static constexpr long double nan2() { return __builtin_nanl("0x2345"); } static constexpr long double inf() { return __builtin_infl(); } };
template <class T> struct CK { static void f() {
    int bad = 0, n = 0;
    using M = au::QuantityMaker<U>;
    { constexpr T c = T(0); constexpr T y = M{}(c).in(M{}); ++n; if (!same_bits(c, y)) ++bad; }
    { constexpr T c = -T(0); constexpr T y = M{}(c).in(M{}); ++n; if (!same_bits(c, y)) ++bad; }
    { constexpr T c = FB<T>::inf(); constexpr T y = M{}(c).in(U{}); ++n; if (!same_bits(c, y)) ++bad; }
    { constexpr T c = -FB<T>::inf(); constexpr T y = M{}(c).in(U{}); ++n; if (!same_bits(c, y)) ++bad; }
    { constexpr T c = FB<T>::nan1(); constexpr T y = M{}(c).in(U{}); ++n; if (!same_bits(c, y)) ++bad; }
    { constexpr T c = -FB<T>::nan2(); constexpr T y = au::make_quantity<U>(c).template in<T>(U{}); ++n; if (!same_bits(c, y)) ++bad; }
    { constexpr T c = std::numeric_limits<T>::denorm_min(); constexpr T y = M{}(c).in(U{}); ++n; if (!same_bits(c, y)) ++bad; }
    { constexpr T c = std::numeric_limits<T>::max(); constexpr T y = M{}(c).in(U{}); ++n; if (!same_bits(c, y)) ++bad; }
    { constexpr T c = std::numeric_limits<T>::lowest(); constexpr T y = M{}(c).in(U{}); ++n; if (!same_bits(c, y)) ++bad; }
    { constexpr T c = std::numeric_limits<T>::min(); constexpr T y = M{}(c).template in<T>(U{}); ++n; if (!same_bits(c, y)) ++bad; }
    { constexpr T c = -std::numeric_limits<T>::denorm_min(); constexpr T y = M{}(c).in(M{}); ++n; if (!same_bits(c, y)) ++bad; }
    { constexpr T c = T(-1); constexpr T y = M{}(c).in(U{}); ++n; if (!same_bits(c, y)) ++bad; }
    std::printf("K n=%d bad=%d\n", n, bad); } };
template <class T, bool Fl = std::is_floating_point<T>::value> struct CKD { static void f() {
    constexpr T lo = std::numeric_limits<T>::lowest(), hi = std::numeric_limits<T>::max();
    constexpr T y1 = au::QuantityMaker<U>{}(lo).in(U{}); constexpr T y2 = au::make_quantity<U>(hi).template in<T>(U{});
    std::printf("K n=2 bad=%d\n", (y1 == lo ? 0 : 1) + (y2 == hi ? 0 : 1)); } };
template <class T> struct CKD<T, true> { static void f() { CK<T>::f(); } };
template <class T> static void ck() { CKD<T>::f(); }
template <class T> static void randoms(long count, uint64_t seed) {
    Acc a = Acc(); rng_state = seed;
    for (long i = 0; i < count; ++i) one(pattern<T>(), a);
    report("N", a);
}
template <class T> static void all_values() {   // every value of a 8/16-bit type
    Acc a = Acc();
    for (long x = (long)std::numeric_limits<T>::lowest(); x <= (long)std::numeric_limits<T>::max(); ++x) one((T)x, a);
    report("A", a);
}
static void all_floats(unsigned shard, unsigned nshards) {
    Acc a = Acc();
    uint64_t per = (1ull << 32) / nshards, lo = per * shard, hi = (shard + 1 == nshards) ? (1ull << 32) : lo + per;
    for (uint64_t b = lo; b < hi; ++b) { uint32_t w = (uint32_t)b; float x; std::memcpy(&x, &w, 4); one(x, a); }
    report("F", a);
}
#define DISPATCH(FN, ...) \
    if (!std::strcmp(r, "i8")) FN<signed char>(__VA_ARGS__); else if (!std::strcmp(r, "u8")) FN<unsigned char>(__VA_ARGS__); \
    else if (!std::strcmp(r, "i16")) FN<short>(__VA_ARGS__); else if (!std::strcmp(r, "u16")) FN<unsigned short>(__VA_ARGS__); \
    else if (!std::strcmp(r, "i32")) FN<int>(__VA_ARGS__); else if (!std::strcmp(r, "u32")) FN<unsigned>(__VA_ARGS__); \
    else if (!std::strcmp(r, "i64")) FN<long>(__VA_ARGS__); else if (!std::strcmp(r, "u64")) FN<unsigned long>(__VA_ARGS__); \
    else if (!std::strcmp(r, "f32")) FN<float>(__VA_ARGS__); else if (!std::strcmp(r, "f64")) FN<double>(__VA_ARGS__); \
    else if (!std::strcmp(r, "f80")) FN<long double>(__VA_ARGS__); else std::puts("bad");
template <class T, bool Small = (sizeof(T) <= 2)> struct AllV { static void f() { std::puts("bad"); } };
template <class T> struct AllV<T, true> { static void f() { all_values<T>(); } };
template <class T> static void allv() { AllV<T>::f(); }
int main() {
    char line[256];
    install_traps(@CPU_LIMIT@);
    while (std::fgets(line, sizeof line, stdin)) {
        char cmd[8], r[8], a[64]; unsigned long long c = 0, s = 0;
        int sig = sigsetjmp(g_jb, 1);
        if (sig) {
            g_in_request = 0;
            if (sig == SIGXCPU) bump_cpu_limit(@CPU_LIMIT@);
            std::printf("TRAP sig=%d\n", sig); std::fflush(stdout);
            continue;
        }
        if (std::sscanf(line, "%7s", cmd) != 1) { std::puts("bad"); continue; }
        if (cmd[0] == 'R') { if (std::sscanf(line, "%7s %7s %63s", cmd, r, a) != 3) { std::puts("bad"); continue; } DISPATCH(single, a) }
        else if (cmd[0] == 'N') { if (std::sscanf(line, "%7s %7s %llu %llu", cmd, r, &c, &s) != 4) { std::puts("bad"); continue; } g_in_request = 1; DISPATCH(randoms, (long)c, (uint64_t)s) g_in_request = 0; }
        else if (cmd[0] == 'A') { if (std::sscanf(line, "%7s %7s", cmd, r) != 2) { std::puts("bad"); continue; } g_in_request = 1; DISPATCH(allv) g_in_request = 0; }
        else if (cmd[0] == 'K') { if (std::sscanf(line, "%7s %7s", cmd, r) != 2) { std::puts("bad"); continue; } DISPATCH(ck) }
        else if (cmd[0] == 'F') { if (std::sscanf(line, "%7s %llu %llu", cmd, &c, &s) != 3) { std::puts("bad"); continue; } g_in_request = 1; all_floats((unsigned)c, (unsigned)s); g_in_request = 0; }
        else std::puts("bad");
        std::fflush(stdout);
    }
    return 0;
}
'''

"""C19: generation of the C++ harness (real Au headers, public API) — units, instances, sources.

Helper module of tools/p_c19.py.  Every path derives from vlib.REPO / vlib.AU_INC.
"""
import glob
import math
import os
import re

from vlib import AU_INC

REPS = ["i8", "u8", "i16", "u16", "i32", "u32", "i64", "u64", "f32", "f64", "f80"]
CTYPE = {"i8": "int8_t", "u8": "uint8_t", "i16": "int16_t", "u16": "uint16_t", "i32": "int32_t",
         "u32": "uint32_t", "i64": "int64_t", "u64": "uint64_t", "f32": "float", "f64": "double",
         "f80": "long double"}
OPS = ["==", "!=", "<", "<=", ">", ">="]          # order of the model's CmpOp.all: eq ne lt le gt ge

PREFIXES = ["Quetta", "Yotta", "Giga", "Mega", "Kilo", "Hecto", "Deka", "Deci", "Centi", "Milli", "Micro",
            "Nano", "Pico", "Yocto", "Quecto", "Kibi", "Mebi", "Yobi"]


def library_units():
    """[(struct name, header relative to the include root)] for every unit struct of au/units/*.hh."""
    out = []
    for p in sorted(glob.glob(os.path.join(AU_INC, "au", "units", "*.hh"))):
        if p.endswith("_fwd.hh"):
            continue
        txt = open(p).read()
        for m in re.finditer(r"^struct\s+([A-Z]\w*)\s*:", txt, re.M):
            name = m.group(1)
            if name.endswith("Label"):
                continue
            out.append((name, "au/units/" + os.path.basename(p)))
    return out


def unit_headers():
    return sorted("au/units/" + os.path.basename(p)
                  for p in glob.glob(os.path.join(AU_INC, "au", "units", "*.hh")) if not p.endswith("_fwd.hh"))


def gen_units(rng, lib, n):
    """Seed-generated unit *type expressions* over the library units: scaled (integer, rational, pi),
    prefixed, products, quotients, powers, roots, inverses, common units, user-defined structs."""
    names = [u for u, _ in lib]
    length = [u for u in ("Meters", "Feet", "Inches", "Miles", "Yards", "Fathoms", "Furlongs", "NauticalMiles")
              if u in names]
    timeu = [u for u in ("Seconds", "Minutes", "Hours", "Days") if u in names]
    out, seen = [], set()

    def au_(u):
        return "au::" + u

    def add(kind, expr, pre=""):
        if expr not in seen:
            seen.add(expr)
            out.append({"kind": kind, "expr": expr, "pre": pre, "_forced": forced[0] if forced else None})
    k = 0
    guard = 0
    # one unit of every kind first (directed), then random kinds
    forced = [0.07, 0.2, 0.3, 0.4, 0.55, 0.65, 0.75, 0.82, 0.87, 0.92, 0.97]
    while (len(out) < n or forced) and guard < 50 * n + 200:
        guard += 1
        before = len(out)
        if forced and guard > 1 and len(out) > 0 and out[-1].get("_forced") == forced[0]:
            forced.pop(0)
        r = forced[0] if forced else rng.random()
        u = rng.choice(names)
        if r < 0.14:
            add("scaled-int", f"decltype({au_(u)}{{}} * au::mag<{rng.choice([2, 3, 7, 12, 60, 1000, 5280, rng.randrange(2, 100000)])}>())")
        elif r < 0.28:
            a, b = rng.randrange(1, 2000), rng.randrange(2, 2000)
            g = math.gcd(a, b)
            add("scaled-rational", f"decltype({au_(u)}{{}} * (au::mag<{a // g}>() / au::mag<{b // g}>()))")
        elif r < 0.34:
            add("scaled-pi", f"decltype({au_(u)}{{}} * au::Magnitude<au::Pi>{{}} / au::mag<{rng.choice([2, 180, 7])}>())")
        elif r < 0.48:
            add("prefixed", f"au::{rng.choice(PREFIXES)}<{au_(u)}>")
        elif r < 0.60:
            v = rng.choice(names)
            add("product", f"decltype({au_(u)}{{}} * {au_(v)}{{}})")
        elif r < 0.72:
            v = rng.choice(names)
            if v != u:
                add("quotient", f"decltype({au_(u)}{{}} / {au_(v)}{{}})")
        elif r < 0.80:
            add("power", f"au::UnitPowerT<{au_(u)}, {rng.choice([2, 3, -1, -2])}>")
        elif r < 0.84:
            add("root", f"decltype(au::root<{rng.choice([2, 3])}>({au_(u)}{{}}))")
        elif r < 0.90:
            fam = rng.choice([length, timeu])
            if len(fam) >= 2:
                a, b = rng.sample(fam, 2)
                add("common", f"au::CommonUnitT<{au_(a)}, {au_(b)}>")
        elif r < 0.94:
            fam = rng.choice([length, timeu])
            if len(fam) >= 2:
                a, b = rng.sample(fam, 2)
                add("common-point", f"au::CommonPointUnitT<{au_(a)}, {au_(b)}>")
        else:
            k += 1
            nm = f"C19Gen{k}"
            base = f"decltype({au_(u)}{{}} * au::mag<{rng.randrange(2, 500)}>() / au::mag<{rng.choice([1, 3, 7, 11])}>())"
            add("user-struct", nm, pre=f"struct {nm} : {base} {{ static constexpr const char label[] = \"g{k}\"; }};\n")
    return out


def directed_units():
    """Shapes that must be judged in every run: unitless units (a Quantity of which converts implicitly to its rep, so
    built-in operators become candidates), quantity-equivalent but differently typed units, scaling by exactly ONE,
    units with a chrono counterpart, units with a non-trivial origin."""
    D = [("unitless", "au::UnitProductT<>"),
         ("unitless-quotient", "decltype(au::Meters{} / au::Meters{})"),
         ("unitless-equivalent", "decltype(au::Percent{} * au::mag<100>())"),
         ("equivalent-to-library", "decltype(au::Inches{} * au::mag<12>())"),
         ("equivalent-to-library", "au::UnitInverseT<au::Seconds>"),
         ("scaled-by-one", "decltype(au::Meters{} * au::mag<1>())"),
         ("chrono-counterpart", "au::Milli<au::Seconds>"),
         ("chrono-counterpart", "au::Nano<au::Seconds>"),
         ("chrono-counterpart", "decltype(au::Seconds{} * au::mag<60>())"),
         ("origin", "decltype(au::Celsius{} * au::mag<2>())")]
    return [{"kind": k, "expr": e, "pre": "", "directed": True} for k, e in D]


COMMON = r'''
#include <chrono>
#include <csetjmp>
#include <csignal>
#include <sys/resource.h>
#include <unistd.h>
#include <cstdint>
#include <cstdio>
#include <cstdlib>
#include <cstring>
#include <limits>
#include <ratio>
#include <string>
#include <type_traits>
#include <utility>
#include "au/au.hh"
@UNIT_INCLUDES@
typedef __int128 i128;
struct Raw { i128 i; long double f; };
struct Num { i128 i; long double f; int kind; };      // kind: 0 int, 1 f32, 2 f64, 3 f80
enum { K_ADD, K_SUB, K_ZADD, K_RADD, K_RSUB, K_RZADD, K_IN, K_PADD, K_ZPADD,
       K_PE, K_ME, K_INM, K_INR, K_IND, K_ZSUB,
       K_I0, K_I1, K_I2, K_I3, K_I4, K_I5, K_I6, K_I7, K_I8, K_I9, K_I10, K_I11, K_N };
#define K_ILAST K_I11
// qz/zq: `q op ZERO` / `ZERO op q` spelled with the constant; qt/tq: spelled with a temporary `Zero{}` and a named
// non-constexpr `Zero` object (other value categories of the same type)
struct Obs { bool qz[6], zq[6], qt[6], tq[6], rqz[6], rzq[6]; bool padd_eq, zpadd_eq; Num v[K_N]; };
struct PObs { bool c[6]; Num add, sub; };
struct Desc {
    const char *rep, *sumrep, *difrep, *zsumrep;
    int unit_same, ce, pc, pv, pa, qc, qv, qa, fkind, bits, is_signed;
};
struct Entry {
    int id; Desc d;
    void (*eval)(const Raw&, Obs&);
    void (*pair)(const Raw&, const Raw&, int, int, PObs&);
};
template <class T, bool F = std::is_floating_point<T>::value> struct Conv;
template <class T> struct Conv<T, false> {
    static T get(const Raw& r) { return static_cast<T>(r.i); }
    static void put(Num& n, T v) { n.i = v; n.f = 0; n.kind = 0; }
    static const char* name() {
        return std::is_signed<T>::value ? (sizeof(T) == 1 ? "i8" : sizeof(T) == 2 ? "i16" : sizeof(T) == 4 ? "i32" : "i64")
                                        : (sizeof(T) == 1 ? "u8" : sizeof(T) == 2 ? "u16" : sizeof(T) == 4 ? "u32" : "u64");
    }
    static int fkind() { return 0; }
};
template <class T> struct Conv<T, true> {
    static T get(const Raw& r) { return static_cast<T>(r.f); }
    static int fkind() { return std::numeric_limits<T>::digits == 24 ? 1 : std::numeric_limits<T>::digits == 53 ? 2 : 3; }
    static void put(Num& n, T v) { n.f = v; n.i = 0; n.kind = fkind(); }
    static const char* name() { return fkind() == 1 ? "f32" : fkind() == 2 ? "f64" : "f80"; }
};
template <class U, class R>
struct Inst {
    using Q = au::Quantity<U, R>;
    using P = au::QuantityPoint<U, R>;
    using SumQ = decltype(std::declval<Q>() + au::ZERO);
    using DifQ = decltype(std::declval<Q>() - au::ZERO);
    using ZSumQ = decltype(au::ZERO + std::declval<Q>());
    static Q takes(Q q) { return q; }
    static Q gives() { return au::ZERO; }
    static void eval(const Raw& in, Obs& o) {
        const R x = Conv<R>::get(in);
        const Q q = au::make_quantity<U>(x);
        o.qz[0] = (q == au::ZERO); o.qz[1] = (q != au::ZERO); o.qz[2] = (q < au::ZERO);
        o.qz[3] = (q <= au::ZERO); o.qz[4] = (q > au::ZERO); o.qz[5] = (q >= au::ZERO);
        o.zq[0] = (au::ZERO == q); o.zq[1] = (au::ZERO != q); o.zq[2] = (au::ZERO < q);
        o.zq[3] = (au::ZERO <= q); o.zq[4] = (au::ZERO > q); o.zq[5] = (au::ZERO >= q);
        au::Zero zv;   // a named lvalue of type Zero
        o.qt[0] = (q == au::Zero{}); o.qt[1] = (q != zv); o.qt[2] = (q < au::Zero{});
        o.qt[3] = (q <= zv); o.qt[4] = (q > au::Zero{}); o.qt[5] = (q >= zv);
        o.tq[0] = (zv == q); o.tq[1] = (au::Zero{} != q); o.tq[2] = (zv < q);
        o.tq[3] = (au::Zero{} <= q); o.tq[4] = (zv > q); o.tq[5] = (au::Zero{} >= q);
        // the right-hand sides of the statement, literally, by the compiler's built-in operators
        const R v = q.in(U{});
        o.rqz[0] = (v == 0); o.rqz[1] = (v != 0); o.rqz[2] = (v < 0); o.rqz[3] = (v <= 0); o.rqz[4] = (v > 0); o.rqz[5] = (v >= 0);
        o.rzq[0] = (0 == v); o.rzq[1] = (0 != v); o.rzq[2] = (0 < v); o.rzq[3] = (0 <= v); o.rzq[4] = (0 > v); o.rzq[5] = (0 >= v);
        Conv<R>::put(o.v[K_IN], v);
        Conv<typename SumQ::Rep>::put(o.v[K_ADD], (q + au::ZERO).in(typename SumQ::Unit{}));
        Conv<typename DifQ::Rep>::put(o.v[K_SUB], (q - au::ZERO).in(typename DifQ::Unit{}));
        Conv<typename ZSumQ::Rep>::put(o.v[K_ZADD], (au::ZERO + q).in(typename ZSumQ::Unit{}));
        Conv<decltype(v + 0)>::put(o.v[K_RADD], v + 0);
        Conv<decltype(v - 0)>::put(o.v[K_RSUB], v - 0);
        Conv<decltype(0 + v)>::put(o.v[K_RZADD], 0 + v);
        // ZERO initialises
        Q a = au::ZERO; Q b(au::ZERO); Q c{au::ZERO}; Q d = q; d = au::ZERO;
        Q e = takes(au::ZERO); Q f = gives(); Q g = static_cast<Q>(au::ZERO);
        Conv<R>::put(o.v[K_I0], a.in(U{})); Conv<R>::put(o.v[K_I1], b.in(U{})); Conv<R>::put(o.v[K_I2], c.in(U{}));
        Conv<R>::put(o.v[K_I3], d.in(U{})); Conv<R>::put(o.v[K_I4], e.in(U{})); Conv<R>::put(o.v[K_I5], f.in(U{}));
        Conv<R>::put(o.v[K_I6], g.in(U{}));
        // other entry points for reading the value back: maker as unit slot, rep-explicit form, data_in; the documented
        // default-member-initialiser idiom; array / aggregate initialisation
        struct Holder { Q m = au::ZERO; };
        Holder hd; Q arr[2] = {au::ZERO, q}; struct Agg { Q m; }; Agg ag{au::ZERO};
        Conv<R>::put(o.v[K_I7], a.in(au::QuantityMaker<U>{}));
        Conv<R>::put(o.v[K_I8], a.template in<R>(U{}));
        Conv<R>::put(o.v[K_I9], hd.m.in(U{}));
        Conv<R>::put(o.v[K_I10], arr[0].data_in(U{}));
        Conv<R>::put(o.v[K_I11], ag.m.in(U{}));
        Conv<R>::put(o.v[K_INM], q.in(au::QuantityMaker<U>{}));
        Conv<R>::put(o.v[K_INR], q.template in<R>(U{}));
        Conv<R>::put(o.v[K_IND], arr[1].data_in(U{}));
        // compound assignment: the operand slot is a Quantity
        Q pe = q; pe += au::ZERO; Q me = q; me -= au::ZERO;
        Conv<R>::put(o.v[K_PE], pe.in(U{})); Conv<R>::put(o.v[K_ME], me.in(U{}));
        // ZERO - q (not named by the statement; modelled and proved up to the inherent 0 - INT_MIN overflow): evaluated
        // only where the model says it neither overflows nor wraps, so that the UB counters stay meaningful
        o.v[K_ZSUB].kind = -1; o.v[K_ZSUB].i = 0; o.v[K_ZSUB].f = 0;
        {
            using ZDifQ = decltype(au::ZERO - std::declval<Q>());
            const bool safe = std::is_floating_point<R>::value || sizeof(R) < 4 ||
                              (std::is_signed<R>::value ? !(x == std::numeric_limits<R>::lowest()) : (x == 0));
            if (safe) Conv<typename ZDifQ::Rep>::put(o.v[K_ZSUB], (au::ZERO - q).in(typename ZDifQ::Unit{}));
        }
        // a point plus ZERO: the right operand is a *quantity* slot (Diff)
        const P p = au::make_quantity_point<U>(x);
        const auto ps = p + au::ZERO; const auto zps = au::ZERO + p;
        o.padd_eq = std::is_same<decltype(ps), const P>::value; o.zpadd_eq = std::is_same<decltype(zps), const P>::value;
        Conv<R>::put(o.v[K_PADD], (ps - au::make_quantity_point<U>(R{0})).in(U{}));
        Conv<R>::put(o.v[K_ZPADD], (zps - au::make_quantity_point<U>(R{0})).in(U{}));
    }
    static void pair(const Raw& ia, const Raw& ib, int do_add, int do_sub, PObs& o) {
        const Q a = au::make_quantity<U>(Conv<R>::get(ia)), b = au::make_quantity<U>(Conv<R>::get(ib));
        o.c[0] = (a == b); o.c[1] = (a != b); o.c[2] = (a < b); o.c[3] = (a <= b); o.c[4] = (a > b); o.c[5] = (a >= b);
        o.add.kind = -1; o.sub.kind = -1;
        if (do_add) Conv<typename SumQ::Rep>::put(o.add, (a + b).in(U{}));
        if (do_sub) Conv<typename DifQ::Rep>::put(o.sub, (a - b).in(U{}));
    }
    static constexpr bool ce() {
        return (Q{au::ZERO} == au::ZERO) && (au::ZERO == Q{au::ZERO}) && (Q{au::ZERO}.in(U{}) == 0) &&
               !(Q{au::ZERO} < au::ZERO) && !(Q{au::ZERO} > au::ZERO) && (Q{au::ZERO} + au::ZERO == au::ZERO);
    }
    static Desc desc() {
        constexpr bool CE = ce();
        return Desc{Conv<R>::name(), Conv<typename SumQ::Rep>::name(), Conv<typename DifQ::Rep>::name(),
                    Conv<typename ZSumQ::Rep>::name(),
                    std::is_same<typename SumQ::Unit, U>::value && std::is_same<typename DifQ::Unit, U>::value &&
                        std::is_same<typename ZSumQ::Unit, U>::value &&
                        std::is_same<typename SumQ::Rep, decltype(std::declval<R>() + std::declval<R>())>::value,
                    CE,
                    std::is_constructible<P, au::Zero>::value, std::is_convertible<au::Zero, P>::value,
                    std::is_assignable<P&, au::Zero>::value,
                    std::is_constructible<Q, au::Zero>::value, std::is_convertible<au::Zero, Q>::value,
                    std::is_assignable<Q&, au::Zero>::value,
                    Conv<R>::fkind(), int(sizeof(R) * 8), int(std::is_signed<R>::value)};
    }
};
#define ENTRY(ID, U, R) { ID, Inst<U, R>::desc(), &Inst<U, R>::eval, &Inst<U, R>::pair }
'''

MAIN = r'''
extern const int n_chunks; extern const Entry* const chunks[]; extern const int chunk_sizes[];
static volatile long g_ub = 0;
extern "C" void __ubsan_on_report(void) { g_ub = g_ub + 1; }
static std::string s128(i128 v) {
    if (v == 0) return "0";
    bool neg = v < 0; unsigned __int128 u = neg ? (unsigned __int128)(-(v + 1)) + 1u : (unsigned __int128)v;
    std::string s; while (u) { s.insert(s.begin(), char('0' + int(u % 10))); u /= 10; }
    return neg ? "-" + s : s;
}
static i128 p128(const char* s) {
    bool neg = false; if (*s == '-') { neg = true; ++s; }
    unsigned __int128 u = 0; while (*s >= '0' && *s <= '9') { u = u * 10 + unsigned(*s - '0'); ++s; }
    return neg ? -(i128)u : (i128)u;
}
static const Entry* find(int id) {
    for (int c = 0; c < n_chunks; ++c) for (int i = 0; i < chunk_sizes[c]; ++i) if (chunks[c][i].id == id) return &chunks[c][i];
    return nullptr;
}
// bit patterns <-> values (hex, most significant digit first)
static std::string fbits(long double f, int kind) {
    char buf[48];
    if (kind == 1) { float x = (float)f; uint32_t b; memcpy(&b, &x, 4); snprintf(buf, sizeof buf, "%08x", b); }
    else if (kind == 2) { double x = (double)f; uint64_t b; memcpy(&b, &x, 8); snprintf(buf, sizeof buf, "%016llx", (unsigned long long)b); }
    else { unsigned char c[16] = {0}; memcpy(c, &f, 10); uint64_t m; uint16_t se; memcpy(&m, c, 8); memcpy(&se, c + 8, 2);
           snprintf(buf, sizeof buf, "%04x%016llx", se, (unsigned long long)m); }
    return buf;
}
static long double fromhex(const char* s, int kind) {
    if (kind == 1) { uint32_t b = (uint32_t)strtoul(s, nullptr, 16); float x; memcpy(&x, &b, 4); return x; }
    if (kind == 2) { uint64_t b = strtoull(s, nullptr, 16); double x; memcpy(&x, &b, 8); return x; }
    char hi[5] = {s[0], s[1], s[2], s[3], 0}; uint16_t se = (uint16_t)strtoul(hi, nullptr, 16); uint64_t m = strtoull(s + 4, nullptr, 16);
    long double x = 0; unsigned char c[16] = {0}; memcpy(c, &m, 8); memcpy(c + 8, &se, 2); memcpy(&x, c, 10); return x;
}
static std::string fmt(const Num& n) { return n.kind < 0 ? std::string("-") : n.kind == 0 ? s128(n.i) : fbits(n.f, n.kind); }
static std::string bits6(const bool* b) { std::string s; for (int i = 0; i < 6; ++i) s += b[i] ? '1' : '0'; return s; }
static Raw parse_raw(const Entry& e, const char* s) {
    Raw r; r.i = 0; r.f = 0;
    if (e.d.fkind == 0) r.i = p128(s); else r.f = fromhex(s, e.d.fkind);
    return r;
}
// sign class of a value from its representation only: 0 neg, 1 zero, 2 pos, 3 nan
static int cls_int(i128 x) { return x < 0 ? 0 : x == 0 ? 1 : 2; }
static int cls_f32(uint32_t b) {
    uint32_t ex = (b >> 23) & 0xff, fr = b & 0x7fffff; bool neg = b >> 31;
    if (ex == 0xff && fr) return 3;
    if (ex == 0 && fr == 0) return 1;
    return neg ? 0 : 2;
}
// statement-level table, exact arithmetic: [class][op] for x op 0 and 0 op x; ops: == != < <= > >=
static const char* OR_QZ[4] = {"011100", "100101", "010011", "010000"};
static const char* OR_ZQ[4] = {"010011", "100101", "011100", "010000"};
@CONV_DECLS@
// traps: a signal while evaluating one request is reported as the answer to that request, naming the input
static sigjmp_buf g_jb; static volatile sig_atomic_t g_armed = 0; static volatile i128 g_curx = 0;
static void on_sig(int sg) { if (g_armed) siglongjmp(g_jb, sg); _exit(128 + sg); }
int main(int argc, char** argv) {
    if (argc > 1) { struct rlimit rl; rl.rlim_cur = (rlim_t)atol(argv[1]); rl.rlim_max = rl.rlim_cur + 10; setrlimit(RLIMIT_CPU, &rl); }
    { const int sgs[] = {SIGFPE, SIGSEGV, SIGBUS, SIGILL, SIGABRT, SIGTRAP, SIGXCPU};
      for (int sg : sgs) { struct sigaction sa; memset(&sa, 0, sizeof sa); sa.sa_handler = on_sig; sigemptyset(&sa.sa_mask); sigaction(sg, &sa, nullptr); } }
    static char line[4096];
    while (fgets(line, sizeof line, stdin)) {
        { size_t L = strlen(line); while (L && (line[L - 1] == '\n' || line[L - 1] == '\r')) line[--L] = 0; }
        g_curx = 0;
        int sg = sigsetjmp(g_jb, 1);
        if (sg) {
            g_armed = 0;
            printf("T signal=%d curx=%s request=%s\n", sg, s128(g_curx).c_str(), line);
            fflush(stdout);
            if (sg == SIGXCPU || sg == SIGABRT) _exit(3);       // not safe to go on (CPU budget spent / inside a sanitizer report)
            continue;
        }
        g_armed = 1;
        if (line[0] == 'D') {
            for (int c = 0; c < n_chunks; ++c) for (int i = 0; i < chunk_sizes[c]; ++i) {
                const Entry& e = chunks[c][i];
                printf("D %d rep=%s sumrep=%s difrep=%s zsumrep=%s unit_same=%d ce=%d pc=%d pv=%d pa=%d qc=%d qv=%d qa=%d\n", e.id, e.d.rep,
                       e.d.sumrep, e.d.difrep, e.d.zsumrep, e.d.unit_same, e.d.ce, e.d.pc, e.d.pv, e.d.pa, e.d.qc, e.d.qv, e.d.qa);
            }
            puts("END");
        } else if (line[0] == 'P') {
            int id; char a[64];
            if (sscanf(line, "P %d %63s", &id, a) != 2) { puts("bad"); continue; }
            const Entry* e = find(id); if (!e) { puts("bad"); continue; }
            Raw r = parse_raw(*e, a); Obs o; long ub0 = g_ub;
            e->eval(r, o);
            printf("P %d %s qz=%s zq=%s qt=%s tq=%s rqz=%s rzq=%s in=%s inm=%s inr=%s ind=%s pe=%s me=%s zsub=%s add=%s sub=%s zadd=%s radd=%s rsub=%s rzadd=%s padd=%s zpadd=%s ptype=%d%d init=",
                   id, a, bits6(o.qz).c_str(), bits6(o.zq).c_str(), bits6(o.qt).c_str(), bits6(o.tq).c_str(),
                   bits6(o.rqz).c_str(), bits6(o.rzq).c_str(),
                   fmt(o.v[K_IN]).c_str(), fmt(o.v[K_INM]).c_str(), fmt(o.v[K_INR]).c_str(), fmt(o.v[K_IND]).c_str(),
                   fmt(o.v[K_PE]).c_str(), fmt(o.v[K_ME]).c_str(), fmt(o.v[K_ZSUB]).c_str(), fmt(o.v[K_ADD]).c_str(), fmt(o.v[K_SUB]).c_str(), fmt(o.v[K_ZADD]).c_str(),
                   fmt(o.v[K_RADD]).c_str(), fmt(o.v[K_RSUB]).c_str(), fmt(o.v[K_RZADD]).c_str(),
                   fmt(o.v[K_PADD]).c_str(), fmt(o.v[K_ZPADD]).c_str(), int(o.padd_eq), int(o.zpadd_eq));
            for (int k = K_I0; k <= K_ILAST; ++k) printf("%s%s", k == K_I0 ? "" : ",", fmt(o.v[k]).c_str());
            printf(" ub=%ld\n", g_ub - ub0);
        } else if (line[0] == 'Q') {
            int id, da, ds; char a[64], b[64];
            if (sscanf(line, "Q %d %63s %63s %d %d", &id, a, b, &da, &ds) != 5) { puts("bad"); continue; }
            const Entry* e = find(id); if (!e) { puts("bad"); continue; }
            PObs o; long ub0 = g_ub;
            e->pair(parse_raw(*e, a), parse_raw(*e, b), da, ds, o);
            printf("Q %d %s %s cmp=%s add=%s sub=%s ub=%ld\n", id, a, b, bits6(o.c).c_str(), fmt(o.add).c_str(), fmt(o.sub).c_str(), g_ub - ub0);
        } else if (line[0] == 'S') {
            // S id lo hi certneg certzero certpos certnan   (cert: 12 chars qz+zq per class, from the Lean model)
            int id; char lo_s[64], hi_s[64], cert[4][16];
            if (sscanf(line, "S %d %63s %63s %15s %15s %15s %15s", &id, lo_s, hi_s, cert[0], cert[1], cert[2], cert[3]) != 7) { puts("bad"); continue; }
            const Entry* e = find(id); if (!e) { puts("bad"); continue; }
            i128 lo = p128(lo_s), hi = p128(hi_s);
            long n = 0, cm = 0, om = 0, rm = 0, vm = 0, im = 0, ub = 0, cls_n[4] = {0, 0, 0, 0};
            std::string fcm = "-", fom = "-", frm = "-", fvm = "-", fim = "-", fub = "-";
            for (i128 x = lo; x <= hi; ++x) {
                Raw r; r.i = 0; r.f = 0; int cl;
                std::string xs;
                if (e->d.fkind == 0) { r.i = x; cl = cls_int(x); }
                else { uint32_t b = (uint32_t)x; float f; memcpy(&f, &b, 4); r.f = f; cl = cls_f32(b); }
                ++n; ++cls_n[cl]; g_curx = x;
                Obs o; long ub0 = g_ub;
                e->eval(r, o);
                bool c_ok = true, o_ok = true, r_ok = true;
                for (int k = 0; k < 6; ++k) {
                    if (o.qz[k] != (cert[cl][k] == '1') || o.zq[k] != (cert[cl][6 + k] == '1')) c_ok = false;
                    if (o.qz[k] != (OR_QZ[cl][k] == '1') || o.zq[k] != (OR_ZQ[cl][k] == '1')) o_ok = false;
                    if (o.qt[k] != (OR_QZ[cl][k] == '1') || o.tq[k] != (OR_ZQ[cl][k] == '1')) o_ok = false;
                    if (o.qz[k] != o.rqz[k] || o.zq[k] != o.rzq[k]) r_ok = false;
                }
                // q + ZERO, q - ZERO, ZERO + q: the same number (exact); inits: the number 0
                bool v_ok = true, i_ok = true;
                if (e->d.fkind == 0) {
                    v_ok = o.v[K_ADD].i == x && o.v[K_SUB].i == x && o.v[K_ZADD].i == x && o.v[K_IN].i == x &&
                           o.v[K_PADD].i == x && o.v[K_ZPADD].i == x && o.v[K_PE].i == x && o.v[K_ME].i == x &&
                           o.v[K_INM].i == x && o.v[K_INR].i == x && o.v[K_IND].i == x &&
                           (o.v[K_ZSUB].kind < 0 || o.v[K_ZSUB].i == -x);
                    if (o.v[K_ADD].i != o.v[K_RADD].i || o.v[K_SUB].i != o.v[K_RSUB].i || o.v[K_ZADD].i != o.v[K_RZADD].i) r_ok = false;
                    for (int k = K_I0; k <= K_ILAST; ++k) if (o.v[k].i != 0 || o.v[k].kind != 0) i_ok = false;
                } else {
                    uint32_t b = (uint32_t)x;
                    const int ks[10] = {K_ADD, K_SUB, K_ZADD, K_PADD, K_ZPADD, K_PE, K_ME, K_INM, K_INR, K_IND};
                    for (int j = 0; j < 10; ++j) {
                        float y = (float)o.v[ks[j]].f; uint32_t yb; memcpy(&yb, &y, 4);
                        if (cl == 3) { if (cls_f32(yb) != 3) v_ok = false; }
                        else if (cl == 1) { if (cls_f32(yb) != 1) v_ok = false; if ((ks[j] == K_SUB || ks[j] == K_ME || ks[j] >= K_INM) && yb != b) v_ok = false; }
                        else if (yb != b) v_ok = false;
                    }
                    {   // ZERO - q: -x bit for bit, (+0) - (±0) = +0, NaN stays NaN
                        float y = (float)o.v[K_ZSUB].f; uint32_t yb; memcpy(&yb, &y, 4);
                        if (o.v[K_ZSUB].kind < 0) v_ok = false;
                        else if (cl == 3) { if (cls_f32(yb) != 3) v_ok = false; }
                        else if (cl == 1) { if (yb != 0) v_ok = false; }
                        else if (yb != (b ^ 0x80000000u)) v_ok = false;
                    }
                    const int rs[3] = {K_RADD, K_RSUB, K_RZADD};
                    for (int j = 0; j < 3; ++j) {
                        float y = (float)o.v[ks[j]].f, w = (float)o.v[rs[j]].f; uint32_t yb, wb; memcpy(&yb, &y, 4); memcpy(&wb, &w, 4);
                        if (!(yb == wb || (cls_f32(yb) == 3 && cls_f32(wb) == 3))) r_ok = false;
                    }
                    for (int k = K_I0; k <= K_ILAST; ++k) { float y = (float)o.v[k].f; uint32_t yb; memcpy(&yb, &y, 4); if (yb != 0) i_ok = false; }
                }
                if (!c_ok && !cm++) fcm = s128(x);
                if (!o_ok && !om++) fom = s128(x);
                if (!r_ok && !rm++) frm = s128(x);
                if (!v_ok && !vm++) fvm = s128(x);
                if (!i_ok && !im++) fim = s128(x);
                if (g_ub != ub0 && !ub++) fub = s128(x);
            }
            printf("S %d n=%ld cert_mismatch=%ld first_cm=%s oracle_mismatch=%ld first_om=%s raw_mismatch=%ld first_rm=%s "
                   "value_mismatch=%ld first_vm=%s init_mismatch=%ld first_im=%s ub=%ld first_ub=%s neg=%ld zero=%ld pos=%ld nan=%ld\n",
                   id, n, cm, fcm.c_str(), om, fom.c_str(), rm, frm.c_str(), vm, fvm.c_str(), im, fim.c_str(), ub, fub.c_str(),
                   cls_n[0], cls_n[1], cls_n[2], cls_n[3]);
        } else if (line[0] == 'A') {
            conv_lines();
            puts("END");
        } else { puts("bad"); }
        g_armed = 0;
        fflush(stdout);
    }
    return 0;
}
'''

# conversions of ZERO to arithmetic types and chrono durations (zero.hh:37-48)
ARITH_TYPES = ["bool", "char", "signed char", "unsigned char", "wchar_t", "char16_t", "char32_t", "short",
               "unsigned short", "int", "unsigned int", "long", "unsigned long", "long long", "unsigned long long",
               "float", "double", "long double", "int8_t", "uint8_t", "int16_t", "uint16_t", "int32_t", "uint32_t",
               "int64_t", "uint64_t", "size_t", "ptrdiff_t"]
DUR_REPS = ["int8_t", "uint8_t", "int16_t", "uint16_t", "int32_t", "uint32_t", "int64_t", "uint64_t", "float",
            "double", "long double", "long long", "unsigned long long", "int", "short", "unsigned int", "long", "unsigned long"]
STD_PERIODS = [(1, 10 ** 9), (1, 10 ** 6), (1, 1000), (1, 1), (60, 1), (3600, 1), (86400, 1), (604800, 1), (2629746, 1),
               (31556952, 1), (1, 3), (7, 5), (2, 4), (1, 10 ** 18), (10 ** 18, 1)]

CONV_TMPL = r'''
template <class T> static T c19_takes(T t) { return t; }
template <class T> static T c19_gives() { return au::ZERO; }
template <class T> static void c19_put(Num& n, T v) { Conv<T>::put(n, v); }
static void c19_put(Num& n, bool v) { n.i = v; n.f = 0; n.kind = 0; }
template <class T> struct C19Desc {
    static int bits() { return std::is_same<T, bool>::value ? 1 : int(sizeof(T) * 8); }
    static int sgn() { return std::is_signed<T>::value; }
    static int fk() { return std::is_floating_point<T>::value ? (std::numeric_limits<T>::digits == 24 ? 1 : std::numeric_limits<T>::digits == 53 ? 2 : 3) : 0; }
};
template <class T> static void arith_line(const char* name) {
    static_assert(std::is_arithmetic<T>::value, "");
    T a = au::ZERO; T b(au::ZERO); T c{au::ZERO}; T d = T(1); d = au::ZERO; T e = c19_takes<T>(au::ZERO);
    T f = c19_gives<T>(); T g = static_cast<T>(au::ZERO); constexpr T h = au::ZERO;
    Num n[8]; c19_put(n[0], a); c19_put(n[1], b); c19_put(n[2], c); c19_put(n[3], d); c19_put(n[4], e); c19_put(n[5], f);
    c19_put(n[6], g); c19_put(n[7], h);
    printf("A arith %s bits=%d signed=%d fkind=%d conv=%d vals=", name, C19Desc<T>::bits(), C19Desc<T>::sgn(), C19Desc<T>::fk(),
           int(std::is_convertible<au::Zero, T>::value));
    for (int k = 0; k < 8; ++k) printf("%s%s", k ? "," : "", fmt(n[k]).c_str());
    printf("\n");
}
template <class R, long long N, long long D> static void dur_line(const char* name) {
    using Dur = std::chrono::duration<R, std::ratio<N, D>>;
    Dur a = au::ZERO; Dur b(au::ZERO); Dur c{au::ZERO}; Dur d = Dur(R(1)); d = au::ZERO; Dur e = c19_takes<Dur>(au::ZERO);
    Dur f = c19_gives<Dur>(); Dur g = static_cast<Dur>(au::ZERO); constexpr Dur h = au::ZERO;
    Num n[8]; c19_put(n[0], a.count()); c19_put(n[1], b.count()); c19_put(n[2], c.count()); c19_put(n[3], d.count());
    c19_put(n[4], e.count()); c19_put(n[5], f.count()); c19_put(n[6], g.count()); c19_put(n[7], h.count());
    printf("A dur %s num=%lld den=%lld bits=%d signed=%d fkind=%d conv=%d iszero=%d vals=", name, (long long)Dur::period::num,
           (long long)Dur::period::den, C19Desc<R>::bits(), C19Desc<R>::sgn(), C19Desc<R>::fk(),
           int(std::is_convertible<au::Zero, Dur>::value), int(a == Dur::zero() && h == Dur::zero()));
    for (int k = 0; k < 8; ++k) printf("%s%s", k ? "," : "", fmt(n[k]).c_str());
    printf("\n");
}
static void conv_lines() {
    // the Zero-Zero operators (zero.hh:57-65)
    {
        constexpr au::Zero a{}, b{};
        constexpr bool ceq = (a == b), cge = (a >= b), cle = (a <= b), cne = (a != b), cgt = (a > b), clt = (a < b);
        printf("A zz cmp=%d%d%d%d%d%d ccmp=%d%d%d%d%d%d addzero=%d subzero=%d\n", int(au::ZERO == au::ZERO), int(au::ZERO != au::ZERO),
               int(au::ZERO < au::ZERO), int(au::ZERO <= au::ZERO), int(au::ZERO > au::ZERO), int(au::ZERO >= au::ZERO),
               int(ceq), int(cne), int(clt), int(cle), int(cgt), int(cge),
               int(std::is_same<decltype(au::ZERO + au::ZERO), au::Zero>::value), int(std::is_same<decltype(au::ZERO - au::ZERO), au::Zero>::value));
    }
@CONV_BODY@
}
'''


def gen_periods(rng, n):
    out = list(STD_PERIODS)
    while len(out) < len(STD_PERIODS) + n:
        a, b = rng.randrange(1, 10 ** rng.randrange(1, 10)), rng.randrange(1, 10 ** rng.randrange(1, 10))
        g = math.gcd(a, b)
        if (a // g, b // g) not in out:
            out.append((a // g, b // g))
    return out


def common_src(pre):
    inc = "\n".join(f'#include "{h}"' for h in unit_headers())
    return COMMON.replace("@UNIT_INCLUDES@", inc) + "\n" + pre + "\n"


MATRIX_CONTEXTS = ["copyInit", "directInit", "braceInit", "assign", "argument", "returnValue", "staticCast"]

MATRIX_TMPL = r'''
// Trait matrix: for every target type and every syntactic context, whether ZERO is accepted — by SFINAE only, so this TU
// compiles whatever the library accepts or rejects.  (zero.hh:37-48)
#include <chrono>
#include <cstdint>
#include <cstdio>
#include <limits>
#include <ratio>
#include <type_traits>
#include <utility>
#include "au/au.hh"
@UNIT_INCLUDES@
@UNIT_PRE@
template <class...> struct c19_make_void { using type = void; };
template <class... Ts> using c19_void_t = typename c19_make_void<Ts...>::type;
using ZRef = const au::Zero&;                     // the type of the expression `au::ZERO`
template <class T> void c19_sink(T);
template <class T, class = void> struct CanCast : std::false_type {};
template <class T> struct CanCast<T, c19_void_t<decltype(static_cast<T>(std::declval<ZRef>()))>> : std::true_type {};
template <class T, class = void> struct CanBrace : std::false_type {};
template <class T> struct CanBrace<T, c19_void_t<decltype(T{std::declval<ZRef>()})>> : std::true_type {};
template <class T, class = void> struct CanPass : std::false_type {};
template <class T> struct CanPass<T, c19_void_t<decltype(c19_sink<T>(std::declval<ZRef>()))>> : std::true_type {};
template <class T> static void flags() {
    printf(" copyInit=%d directInit=%d braceInit=%d assign=%d argument=%d returnValue=%d staticCast=%d\n",
           int(std::is_convertible<ZRef, T>::value), int(std::is_constructible<T, ZRef>::value), int(CanBrace<T>::value),
           int(std::is_assignable<T&, ZRef>::value), int(CanPass<T>::value), int(std::is_convertible<ZRef, T>::value),
           int(CanCast<T>::value));
}
template <class T> static void desc() {
    printf(" bits=%d signed=%d fkind=%d", std::is_same<T, bool>::value ? 1 : int(sizeof(T) * 8), int(std::is_signed<T>::value),
           std::is_floating_point<T>::value ? (std::numeric_limits<T>::digits == 24 ? 1 : std::numeric_limits<T>::digits == 53 ? 2 : 3) : 0);
}
template <class T> static void arith_row(const char* name) {
    printf("M arith %s arithmetic=%d", name, int(std::is_arithmetic<T>::value)); desc<T>(); flags<T>();
}
template <class R, long long N, long long D> static void dur_row(const char* name) {
    using Dur = std::chrono::duration<R, std::ratio<N, D>>;
    printf("M dur %s num=%lld den=%lld pnum=%lld pden=%lld", name, N, D, (long long)Dur::period::num, (long long)Dur::period::den);
    desc<R>(); flags<Dur>();
}
// Point grid: for a (unit, rep), whether ZERO is accepted at every kind of site that requires a QuantityPoint (all must be 0),
// at the two Diff slots of the point's operator+ (must be 1), and at the same site kinds for the Quantity (must be 1).
#define C19_DETECT(NAME, EXPR) \
    template <class PT, class = void> struct NAME : std::false_type {}; \
    template <class PT> struct NAME<PT, c19_void_t<decltype(EXPR)>> : std::true_type {};
#define C19_P std::declval<PT&>()
#define C19_Z std::declval<ZRef>()
C19_DETECT(PEq, C19_P == C19_Z) C19_DETECT(PNe, C19_P != C19_Z) C19_DETECT(PLt, C19_P < C19_Z)
C19_DETECT(PLe, C19_P <= C19_Z) C19_DETECT(PGt, C19_P > C19_Z) C19_DETECT(PGe, C19_P >= C19_Z)
C19_DETECT(ZEq, C19_Z == C19_P) C19_DETECT(ZNe, C19_Z != C19_P) C19_DETECT(ZLt, C19_Z < C19_P)
C19_DETECT(ZLe, C19_Z <= C19_P) C19_DETECT(ZGt, C19_Z > C19_P) C19_DETECT(ZGe, C19_Z >= C19_P)
C19_DETECT(ZSub, C19_Z - C19_P) C19_DETECT(PSub, C19_P - C19_Z) C19_DETECT(PAdd, C19_P + C19_Z) C19_DETECT(ZAdd, C19_Z + C19_P)
C19_DETECT(ListAssign, C19_P = {C19_Z})
template <class T> static void site_flags() {
    printf(" copyInit=%d directInit=%d braceInit=%d assign=%d argument=%d returnValue=%d staticCast=%d listAssign=%d",
           int(std::is_convertible<ZRef, T>::value), int(std::is_constructible<T, ZRef>::value), int(CanBrace<T>::value),
           int(std::is_assignable<T&, ZRef>::value), int(CanPass<T>::value), int(std::is_convertible<ZRef, T>::value),
           int(CanCast<T>::value), int(ListAssign<T>::value));
}
template <class T> static void op_flags() {
    printf(" eq=%d ne=%d lt=%d le=%d gt=%d ge=%d zeq=%d zne=%d zlt=%d zle=%d zgt=%d zge=%d zsub=%d psub=%d padd=%d zadd=%d",
           int(PEq<T>::value), int(PNe<T>::value), int(PLt<T>::value), int(PLe<T>::value), int(PGt<T>::value), int(PGe<T>::value),
           int(ZEq<T>::value), int(ZNe<T>::value), int(ZLt<T>::value), int(ZLe<T>::value), int(ZGt<T>::value), int(ZGe<T>::value),
           int(ZSub<T>::value), int(PSub<T>::value), int(PAdd<T>::value), int(ZAdd<T>::value));
}
template <class U, class R> static void point_row(int ui, const char* rep) {
    printf("M point %d %s", ui, rep); site_flags<au::QuantityPoint<U, R>>(); op_flags<au::QuantityPoint<U, R>>(); printf("\n");
    printf("M qty %d %s", ui, rep); site_flags<au::Quantity<U, R>>(); op_flags<au::Quantity<U, R>>(); printf("\n");
}
int main() {
@ROWS@
    return 0;
}
'''

# further arithmetic spellings that exist only under some standards: (type, feature-test macro)
OPTIONAL_ARITH = [("char8_t", "__cpp_char8_t")]


def tname(t):
    return t.replace(" ", "_")


def write_matrix(path, periods, punits=()):
    """punits: [(unit index, unit dict)] for the point grid (x all 11 reps)."""
    rows = [f'    arith_row<{t}>("{tname(t)}");' for t in ARITH_TYPES]
    for t, macro in OPTIONAL_ARITH:
        rows.append(f'#ifdef {macro}\n    arith_row<{t}>("{tname(t)}");\n#endif')
    rows += [f'    dur_row<{r}, {n}LL, {d}LL>("{tname(r)}");' for r in DUR_REPS for (n, d) in periods]
    for ui, u in punits:
        for r in REPS:
            rows.append(f'    point_row<{u["expr"]}, {CTYPE[r]}>({ui}, "{r}");')
    inc = "\n".join(f'#include "{h}"' for h in unit_headers()) if punits else ""
    pre = "".join(u.get("pre", "") for _, u in punits)
    open(path, "w").write(MATRIX_TMPL.replace("@ROWS@", "\n".join(rows)).replace("@UNIT_INCLUDES@", inc).replace("@UNIT_PRE@", pre))


def write_harness(wd, units, insts, periods, nchunks=16, arith_types=None, dur_targets=None):
    """units: list of {"expr","pre"}; insts: list of {"id","u"(index),"rep"}. Returns source paths.
    arith_types / dur_targets: the conversion targets the trait matrix found accepted in every context (default: all)."""
    pre = "".join(u.get("pre", "") for u in units)
    common = common_src(pre)
    chunks = [insts[i::nchunks] for i in range(nchunks)]
    chunks = [c for c in chunks if c]
    files = []
    for ci, ch in enumerate(chunks):
        p = os.path.join(wd, f"chunk{ci}.cc")
        with open(p, "w") as f:
            f.write(common)
            for ui in sorted({ins["u"] for ins in ch}):
                f.write(f"using C19U{ui} = {units[ui]['expr']};\n")
            f.write(f"extern const Entry table{ci}[] = {{\n")
            for ins in ch:
                f.write(f"  ENTRY({ins['id']}, C19U{ins['u']}, {CTYPE[ins['rep']]}),\n")
            f.write("};\n")
        files.append(p)
    body = []
    for t in (ARITH_TYPES if arith_types is None else arith_types):
        macro = dict(OPTIONAL_ARITH).get(t)
        body.append((f"#ifdef {macro}\n" if macro else "") + f'    arith_line<{t}>("{tname(t)}");' + ("\n#endif" if macro else ""))
    for (r, n, d) in ([(r, n, d) for r in DUR_REPS for (n, d) in periods] if dur_targets is None else dur_targets):
        body.append(f'    dur_line<{r}, {n}LL, {d}LL>("{tname(r)}");')
    p = os.path.join(wd, "main.cc")
    with open(p, "w") as f:
        f.write(common)
        for ci in range(len(chunks)):
            f.write(f"extern const Entry table{ci}[];\n")
        f.write("const Entry* const chunks[] = {" + ", ".join(f"table{ci}" for ci in range(len(chunks))) + "};\n")
        f.write("const int chunk_sizes[] = {" + ", ".join(str(len(ch)) for ch in chunks) + "};\n")
        f.write(f"const int n_chunks = {len(chunks)};\n")
        main = MAIN.replace("@CONV_DECLS@", "static std::string fmt(const Num& n);\nstatic void conv_lines();")
        f.write(main)
        f.write(CONV_TMPL.replace("@CONV_BODY@", "\n".join(body)))
    files.append(p)
    return files


"""C20 (C++ side): packaging- and configuration-independence of the Au headers.

Probes (see `explore`):
  P1  self-contained single-file header (double include, empty include path, two TUs linked and run)
  P2  generated API-surface program: SINGLE vs MULTI packaging x compiler/standard configurations, run under
      sanitizers, byte-identical stdout, plus an independent exact oracle (fractions.Fraction) on a subset of lines
  P3  every public header compiles on its own (and when included twice)
  P4  every *_fwd.hh agrees with its full header (both include orders, declared names become complete types)
  P5  observation of the known compiler disagreement F4 (narrowing in %, unary +/- on sub-int reps)

Every path into the library derives from vlib.REPO / vlib.AU_INC.
"""
import os
import re
import time
from fractions import Fraction

import c20_surface
import vlib
from vlib import CONFIGS, SAN_CLANG, SAN_GCC, UBSAN_ENV, pmap

# The machine is shared: a compiler or a sanitized program that is killed / cannot allocate is retried
# (a verdict must never depend on the load); a deterministic failure survives the retries and is reported.
_TRANSIENT = re.compile(r"Killed signal|Cannot allocate memory|out of memory|virtual memory exhausted|failed to allocate|"
                        r"ReserveShadowMemoryRange|Resource temporarily unavailable|posix_spawn|No space left on device|"
                        r"cannot fork|std::bad_alloc")


def run(cmd, **kw):
    rc, o, e = -1, "", "not run"
    for attempt in range(3):
        try:
            rc, o, e = vlib.run(cmd, **kw)
        except Exception as ex:      # timeout / spawn failure
            rc, o, e = -998, "", f"exception: {ex}"
        if rc < 0 or _TRANSIENT.search((o or "")[-4000:] + (e or "")[-4000:]):
            time.sleep(2 * (attempt + 1))
            continue
        break
    return rc, o, e

REF = ("g++", "c++14")
RUN_OPT = "-O0"          # one fixed level for every program that is run (see final report: ~2x faster than -O1)
TRUNC = 1500
SAN_MARKERS = ("runtime error", "AddressSanitizer", "LeakSanitizer", "UndefinedBehaviorSanitizer")


def cfgname(c):
    return f"{c[0]} {c[1]}"


def cfg_of(name):
    a, b = name.split()
    return (a, b.replace("-std=", ""))


def cfgtag(c):
    return ("g" if c[0] == "g++" else "c") + c[1][-2:]


def _san(compiler):
    return list(SAN_CLANG if compiler.startswith("clang") else SAN_GCC)


def _tr(s, n=TRUNC):
    s = s or ""
    return s if len(s) <= n else s[:n] + f"\n...[{len(s) - n} more chars]"


def first_error(diag):
    for l in (diag or "").split("\n"):
        if "multiple definition" in l or "duplicate symbol" in l or "undefined reference" in l:
            return l.strip()[:400]
    for l in (diag or "").split("\n"):
        if " error" in l or "error:" in l:
            return l.strip()[:400]
    return (diag or "").strip().split("\n")[0][:400]


def norm_err(e):
    """Diagnostic line without directories and line/column numbers (stable dedup key)."""
    e = re.sub(r"^rejected: ", "", e or "")
    e = re.sub(r"(?:/[^\s:'\"]+/)?([\w.+-]+):\d+(?::\d+)?:", lambda m: m.group(1) + ":", e)
    return e[:110]


def err_file(e):
    m = re.match(r"(?:rejected: )?(?:In file included from )?(\S+?):\d+", e or "")
    return os.path.basename(m.group(1)) if m else ""


def _write(path, text):
    os.makedirs(os.path.dirname(path), exist_ok=True)
    with open(path, "w") as f:
        f.write(text)
    return path


def syntax_only(src, cfg, incs):
    """-fsyntax-only with exactly the given include directories (no implicit -I AU_INC)."""
    cmd = [cfg[0], f"-std={cfg[1]}", "-fsyntax-only", "-w"]
    for i in incs:
        cmd += ["-I", i]
    cmd.append(src)
    rc, o, e = run(cmd, timeout=1800)
    return rc, o + e


def compile_san(srcs, out, cfg, incs, extra=()):
    cmd = [cfg[0], f"-std={cfg[1]}", RUN_OPT, "-ffp-contract=off", "-w"] + _san(cfg[0])
    for i in incs:
        cmd += ["-I", i]
    cmd += list(extra) + list(srcs) + ["-o", out]
    rc, o, e = run(cmd, timeout=3600)
    return rc, o + e


def run_san(exe):
    try:
        rc, o, e = run([exe], env=UBSAN_ENV, timeout=600)
    except Exception as ex:  # timeout
        return -999, "", f"exception: {ex}"
    return rc, o, e


def san_report(stderr):
    return any(m in (stderr or "") for m in SAN_MARKERS)


# ------------------------------------------------------------------------------------------------
# The tree as it is: unit table, include closure, public headers
# ------------------------------------------------------------------------------------------------

def au_dir():
    return os.path.join(vlib.AU_INC, "au")


def unit_table():
    """stem -> {makers:[(maker, Type)], pts:[(maker, Type)], singular:[...], symbols:[...]} by regex over the
    real headers (deprecated aliases are written `[[deprecated(...)]] constexpr auto`, i.e. not at line start)."""
    d = os.path.join(au_dir(), "units")
    tab = {}
    for f in sorted(os.listdir(d)):
        if not f.endswith(".hh") or f.endswith("_fwd.hh"):
            continue
        txt = open(os.path.join(d, f)).read()
        tab[f[:-3]] = {
            "makers": re.findall(r"^constexpr auto (\w+) = QuantityMaker<(\w+)>\{\};", txt, re.M),
            "pts": re.findall(r"^constexpr auto (\w+) = QuantityPointMaker<(\w+)>\{\};", txt, re.M),
            "singular": re.findall(r"^constexpr auto (\w+) = SingularNameFor<(\w+)>\{\};", txt, re.M),
            "symbols": re.findall(r"^constexpr auto (\w+) = SymbolFor<(\w+)>\{\};", txt, re.M),
        }
    return tab


_INC_RE = re.compile(r'^\s*#\s*include\s*[<"](au/[^">]+)[">]', re.M)


def include_closure(starts):
    """Transitive project includes (paths relative to AU_INC) of the given headers, in the multi-header tree."""
    seen, todo = [], list(starts)
    while todo:
        h = todo.pop()
        if h in seen:
            continue
        seen.append(h)
        p = os.path.join(vlib.AU_INC, h)
        if os.path.exists(p):
            todo += _INC_RE.findall(open(p).read())
    return seen


def public_headers():
    """(headers, skipped): every .hh under AU_INC/au not in a `test` directory; testing.hh / fwd_test_lib.hh are
    test support (gmock) and skipped."""
    res, skipped = [], []
    for dp, dn, fs in os.walk(au_dir()):
        if "test" in os.path.relpath(dp, au_dir()).split(os.sep):
            continue
        for f in sorted(fs):
            if not f.endswith(".hh"):
                continue
            rel = os.path.relpath(os.path.join(dp, f), vlib.AU_INC)
            (skipped if f in ("testing.hh", "fwd_test_lib.hh") else res).append(rel)
    return sorted(res), sorted(skipped)


# ------------------------------------------------------------------------------------------------
# Dimension / ratio table: ONE generated TU against the multi-header tree, cached in wd
# ------------------------------------------------------------------------------------------------

TABLE_PRELUDE = r'''
template <bool Fit, class N, class D> struct FitInfo { static void print() { std::printf("big\n"); } };
template <class N, class D> struct FitInfo<true, N, D> { static void print() {
  std::printf("%llu %llu\n", (unsigned long long)au::get_value<std::uint64_t>(N{}),
              (unsigned long long)au::get_value<std::uint64_t>(D{})); } };
template <bool Rat, class M> struct RatInfo { static void print() { std::printf("irrational\n"); } };
template <class M> struct RatInfo<true, M> { static void print() {
  using N = decltype(au::numerator(M{})); using D = decltype(au::denominator(M{}));
  FitInfo<(au::representable_in<std::uint64_t>(N{}) && au::representable_in<std::uint64_t>(D{})), N, D>::print(); } };
template <bool Same, class U, class V> struct Info { static void print(const char*, const char*) {} };
template <class U, class V> struct Info<true, U, V> { static void print(const char* a, const char* b) {
  using M = decltype(au::unit_ratio(U{}, V{}));
  std::printf("R %s %s ", a, b); RatInfo<au::is_rational(M{}), M>::print(); } };
template <class U, class V> void pr(const char* a, const char* b) {
  Info<au::HasSameDimension<U, V>::value, U, V>::print(a, b); }
'''


def build_tables(wd, utab):
    """ratio[(a, b)] for every ordered pair of distinct makers of the SAME dimension: Fraction (a = ratio * b),
    "irrational" or "big".  Pairs absent from the map have different dimensions."""
    d = os.path.join(wd, "tables")
    os.makedirs(d, exist_ok=True)
    cache = os.path.join(d, "tab.out")
    units = [(mk, ty) for stem in utab for (mk, ty) in utab[stem]["makers"]]
    if not os.path.exists(cache):
        src = ["#include <cstdio>", "#include <cstdint>", '#include "au/au.hh"']
        src += [f'#include "au/units/{stem}.hh"' for stem in utab]
        src.append(TABLE_PRELUDE)
        src.append("int main() {")
        for (a, A) in units:
            for (b, B) in units:
                if a != b:
                    src.append(f'  pr<au::{A}, au::{B}>("{a}", "{b}");')
        src.append("  std::printf(\"END\\n\");\n}")
        p = _write(os.path.join(d, "tab.cc"), "\n".join(src))
        exe = os.path.join(d, "tab")
        rc, o, e = run(["g++", "-std=c++14", "-O0", "-w", "-I", vlib.AU_INC, p, "-o", exe], timeout=1800)
        if rc != 0:
            return None, "dimension table TU does not compile: " + _tr(o + e)
        rc, o, e = run([exe], timeout=300)
        if rc != 0 or not o.rstrip().endswith("END"):
            return None, "dimension table TU failed at run time: " + _tr(o[-500:] + e)
        _write(cache, o)
    ratio = {}
    for l in open(cache).read().split("\n"):
        f = l.split()
        if len(f) >= 4 and f[0] == "R":
            if f[3] in ("irrational", "big"):
                ratio[(f[1], f[2])] = f[3]
            else:
                ratio[(f[1], f[2])] = Fraction(int(f[3]), int(f[4]))
    return ratio, None


# ------------------------------------------------------------------------------------------------
# violations
# ------------------------------------------------------------------------------------------------

def mk_violation(what, cls, probe, config, **rec):
    r = {"kind": "cxx", "probe": probe, "config": config}
    r.update(rec)
    for k in ("actual", "diagnostic"):
        if k in r and isinstance(r[k], str):
            r[k] = _tr(r[k])
    return {"what": what, "class": cls, "rec": r, "no_input": False}


def sel_name(sel):
    return "sel%02d[%du,%dc,%s]" % (sel["id"], len(sel["units"]), len(sel["constants"]), "io" if sel["io"] else "noio")


def sel_rec(sel):
    return {"id": sel["id"], "units": list(sel["units"]), "constants": list(sel["constants"]), "io": bool(sel["io"])}


def generate_single(sel, outdir):
    """Run the real packing script of the tree under test (used by replay; explore gets headers from the caller)."""
    os.makedirs(outdir, exist_ok=True)
    cmd = ["python3", "tools/bin/make-single-file", "--units"] + list(sel["units"]) + \
          ["--constants"] + list(sel["constants"]) + ["--version-id", "C20"]
    if not sel["io"]:
        cmd.append("--noio")
    rc, o, e = run(cmd, cwd=vlib.REPO, timeout=600)
    p = os.path.join(outdir, "au.hh")
    if rc == 0:
        _write(p, o)
    return rc, p, e


# ------------------------------------------------------------------------------------------------
# P1  self-contained single-file header
# ------------------------------------------------------------------------------------------------

def p1_api_snippet(sel, utab):
    """(statements computing `double r` from `double x`, python function giving the expected value)."""
    for u in sel["units"]:
        mk = [m for m, _ in utab.get(u, {}).get("makers", [])]
        if mk:
            m = mk[-1]
            return (f"auto q = au::{m}(x) * 2.0 + au::{m}(1.0); double r = q.in(au::{m});",
                    f"au::unit_label(au::{m})")
    return ("auto q = au::make_quantity<au::UnitProductT<>>(x) * 2.0 + au::make_quantity<au::UnitProductT<>>(1.0); "
            "double r = q.in(au::UnitProductT<>{}) + (au::get_value<int>(au::mag<3>() * au::mag<5>()) - 15);",
            "au::unit_label(au::UnitProductT<>{})")


def p1_sources(sel, utab):
    body, label = p1_api_snippet(sel, utab)
    inc = '#include "au.hh"\n#include "au.hh"\n'
    tu = inc + f"""#include <cstdio>
int main() {{
    double x = 4.0;
    {body}
    constexpr auto three = au::mag<3>();
    static_assert(au::get_value<int>(three) == 3, "");
    au::Quantity<au::UnitProductT<>, int> z = au::ZERO;
    return (r == 9.0 && z == au::ZERO) ? 0 : 1;
}}
"""
    io_inc = '#include <iostream>\n' if sel["io"] else ""
    io_use = ('    std::cout << "@N@-zero: " << au::ZERO << " " << au::mag<5>() << std::endl;\n' if sel["io"] else "")
    common = ('#include "au.hh"\n#include <cstdio>\n' + io_inc +
              "double c20_@N@(double x) {\n    " + body + "\n" +
              '    std::printf("@N@: label=%s value=%.1f\\n", ' + label + ", r);\n    std::fflush(stdout);\n" +
              io_use + "    return r;\n}\n")
    a = common.replace("@N@", "a")
    b = common.replace("@N@", "b")
    a += """double c20_b(double);
int main() {
    double s = c20_a(1.5) + c20_b(2.5);
    std::printf("sum=%.1f\\n", s);
    return s == 10.0 ? 0 : 1;
}
"""
    return tu, {"a.cc": a, "b.cc": b}


_QUOTED_INC = re.compile(r'^\s*#\s*include\s*"')


def exec_leftover(header):
    bad = []
    try:
        for i, l in enumerate(open(header).read().split("\n"), 1):
            if _QUOTED_INC.match(l):
                bad.append(f"{i}: {l.strip()}")
    except OSError as ex:
        return {"ok": False, "actual": f"cannot read header: {ex}"}
    return {"ok": not bad, "actual": "no quoted include" if not bad else "; ".join(bad[:8])}


def exec_single_tu(header, source, cfg, d):
    p = _write(os.path.join(d, "tu.cc"), source)
    rc, diag = syntax_only(p, cfg, [os.path.dirname(header)])
    return {"ok": rc == 0, "actual": "accepted" if rc == 0 else "rejected: " + _tr(diag)}


def exec_two_tu(header, sources, cfg, d, expect_lines):
    """Compile a.cc and b.cc separately (as separate translation units), link, run. expect_lines: list of regexes
    that stdout lines must match in order."""
    objs = []
    inc = os.path.dirname(header)
    for name in sorted(sources):
        p = _write(os.path.join(d, name), sources[name])
        o = p[:-3] + ".o"
        cmd = [cfg[0], f"-std={cfg[1]}", RUN_OPT, "-w", "-c", "-I", inc] + _san(cfg[0]) + [p, "-o", o]
        rc, so, se = run(cmd, timeout=3600)
        if rc != 0:
            return {"ok": False, "actual": f"{name} rejected: " + _tr(so + se)}
        objs.append(o)
    exe = os.path.join(d, "prog")
    rc, so, se = run([cfg[0]] + _san(cfg[0]) + objs + ["-o", exe], timeout=3600)
    if rc != 0:
        return {"ok": False, "actual": "link failed: " + _tr(so + se)}
    rc, out, err = run_san(exe)
    lines = [l for l in out.split("\n") if l]
    okl = len(lines) == len(expect_lines) and all(re.fullmatch(r, l) for r, l in zip(expect_lines, lines))
    if rc != 0 or not okl or san_report(err):
        return {"ok": False, "actual": f"exit={rc} stdout={out!r} stderr={_tr(err, 600)!r}"}
    # the label printed by both TUs must be the same string
    la = re.search(r"label=(.*) value", lines[0]).group(1)
    lb = re.search(r"label=(.*) value", [l for l in lines if l.startswith("b:")][0]).group(1)
    if la != lb:
        return {"ok": False, "actual": f"labels differ between TUs: {la!r} vs {lb!r}"}
    return {"ok": True, "actual": f"exit=0 stdout={out!r}"}


def p1_expect(sel):
    e = [r"a: label=.* value=4\.0"]
    if sel["io"]:
        e.append(r"a-zero: 0 5")
    e.append(r"b: label=.* value=6\.0")
    if sel["io"]:
        e.append(r"b-zero: 0 5")
    e.append(r"sum=10\.0")
    return e


def p1_jobs(tier, rng, wd, selections, utab):
    jobs = []
    for sel in selections:
        tu, two = p1_sources(sel, utab)
        cfgs = list(CONFIGS) if tier == "thorough" else [REF, rng.choice(CONFIGS[1:])]
        sname = sel_name(sel)
        base = os.path.join(wd, "p1", "sel%02d" % sel["id"])

        def grep_job(sel=sel, sname=sname):
            r = exec_leftover(sel["header"])
            return [("leftover-include", None, r, {"selection": sel_rec(sel), "header": sel["header"], "source": "",
                                                   "packaging": "single",
                                                   "expected": 'no line matching ^\\s*#\\s*include\\s*" in the generated header'})]
        jobs.append({"family": "P1", "cost": 0.05, "run": grep_job})
        for cfg in cfgs:
            def a_job(sel=sel, cfg=cfg, tu=tu, d=os.path.join(base, cfgtag(cfg) + "_a")):
                r = exec_single_tu(sel["header"], tu, cfg, d)
                return [("self-contained-include", cfg, r, {"selection": sel_rec(sel), "header": sel["header"], "source": tu,
                                                            "packaging": "single", "expected": "accepted"})]

            def b_job(sel=sel, cfg=cfg, two=two, d=os.path.join(base, cfgtag(cfg) + "_b")):
                r = exec_two_tu(sel["header"], two, cfg, d, p1_expect(sel))
                return [("two-tu-link", cfg, r, {"selection": sel_rec(sel), "header": sel["header"], "sources": two,
                                                 "source": "\n".join(f"// ---- {k}\n{v}" for k, v in sorted(two.items())),
                                                 "packaging": "single",
                                                 "expected": "links, exit 0, stdout matches " + " | ".join(p1_expect(sel))})]
            nunits = len(sel["units"])
            jobs.append({"family": "P1", "cost": 0.5 + 0.02 * nunits, "run": a_job})
            jobs.append({"family": "P1", "cost": 4 + 0.15 * nunits, "run": b_job})
    return jobs


# ------------------------------------------------------------------------------------------------
# P3  every public header on its own / included twice
# ------------------------------------------------------------------------------------------------

def p3_source(header, twice):
    inc = f'#include "{header}"\n'
    return inc * (2 if twice else 1) + "int main() {}\n"


def exec_header(header, cfg, d, twice):
    src = p3_source(header, twice)
    p = _write(os.path.join(d, "tu.cc"), src)
    rc, diag = syntax_only(p, cfg, [vlib.AU_INC])
    return {"ok": rc == 0, "actual": "accepted" if rc == 0 else "rejected: " + _tr(diag)}, src


def p3_jobs(tier, rng, wd, headers):
    jobs = []
    sub = set(rng.sample(headers, max(1, len(headers) // 5))) if headers else set()
    other = rng.choice(CONFIGS[1:])
    for h in headers:
        cfgs = list(CONFIGS) if tier == "thorough" else ([REF, other] if h in sub else [REF])
        for cfg in cfgs:
            def job(h=h, cfg=cfg):
                d = os.path.join(wd, "p3", cfgtag(cfg), h.replace("/", "_")[:-3])
                res = []
                r2, src2 = exec_header(h, cfg, d, True)
                if r2["ok"]:
                    # a TU with the header twice was accepted: the header alone is accepted a fortiori
                    res.append(("standalone-header", cfg, {"ok": True, "actual": "accepted (implied by double include)"},
                                {"header": h, "source": p3_source(h, False), "packaging": "multi", "expected": "accepted"}))
                else:
                    r1, src1 = exec_header(h, cfg, d, False)
                    res.append(("standalone-header", cfg, r1,
                                {"header": h, "source": src1, "packaging": "multi", "expected": "accepted"}))
                    if not r1["ok"]:
                        # not a guard problem: the header does not even compile once (reported above)
                        r2 = {"ok": True, "actual": "n/a: header rejected on its own"}
                res.append(("double-include", cfg, r2,
                            {"header": h, "source": src2, "packaging": "multi", "expected": "accepted"}))
                return res
            cost = 0.05 if h.endswith("_fwd.hh") else (1.0 if cfg[0] != "g++" else 0.5)
            jobs.append({"family": "P3", "cost": cost, "run": job})
    return jobs, cfgname(other), sorted(sub)


# ------------------------------------------------------------------------------------------------
# P4  forward declarations
# ------------------------------------------------------------------------------------------------

def fwd_pairs():
    """[(fwd header, [full headers], kind)], missing: list of (header, what is missing)."""
    pairs, missing = [], []
    ud = os.path.join(au_dir(), "units")
    names = sorted(f for f in os.listdir(ud) if f.endswith(".hh"))
    full = {f[:-3] for f in names if not f.endswith("_fwd.hh")}
    fwd = {f[:-7] for f in names if f.endswith("_fwd.hh")}
    for s in sorted(full | fwd):
        if s in full and s in fwd:
            pairs.append((f"au/units/{s}_fwd.hh", [f"au/units/{s}.hh"], "unit"))
        elif s in full:
            missing.append((f"au/units/{s}.hh", f"au/units/{s}_fwd.hh"))
        else:
            missing.append((f"au/units/{s}_fwd.hh", f"au/units/{s}.hh"))
    # any other *_fwd.hh / fwd.hh outside units
    for dp, dn, fs in os.walk(au_dir()):
        rel = os.path.relpath(dp, au_dir())
        if "test" in rel.split(os.sep) or rel == "units":
            continue
        for f in sorted(fs):
            p = os.path.relpath(os.path.join(dp, f), vlib.AU_INC)
            if f == "fwd.hh" and rel == ".":
                pairs.append((p, ["au/au.hh", "au/io.hh"], "core"))
            elif f.endswith("_fwd.hh"):
                cand = p[:-7] + ".hh"
                if os.path.exists(os.path.join(vlib.AU_INC, cand)):
                    pairs.append((p, [cand], "other"))
                else:
                    missing.append((p, cand))
    return pairs, missing


def fwd_declared(fwd_header):
    """Names declared `struct X;` / `class X;` (non-template) and template declarations in the fwd header."""
    txt = open(os.path.join(vlib.AU_INC, fwd_header)).read()
    txt = re.sub(r"//[^\n]*", "", txt)
    plain, templ = [], []
    for m in re.finditer(r"(template\s*<[^;{}]*>\s*)?\b(struct|class)\s+(\w+)\s*;", txt):
        (templ if m.group(1) else plain).append(m.group(3))
    return plain, templ


def p4_source(fwd, fulls, kind, order):
    plain, templ = fwd_declared(fwd)
    inc_fwd = f'#include "{fwd}"\n'
    inc_full = "".join(f'#include "{h}"\n' for h in fulls)
    use = "".join(f"au::{n} *c20_p_{n} = nullptr;\n" for n in plain)
    chk = "".join(f'static_assert(sizeof(au::{n}) > 0, "{n} must be complete after the full header");\n' for n in plain)
    if kind == "unit":
        chk += "".join(f'static_assert(au::IsUnit<au::{n}>::value, "{n} must be a unit");\n' for n in plain)
        chk += "".join(f"au::Quantity<au::{n}, int> c20_q_{n}{{}};\n" for n in plain)
    if order == "fwd-then-full":
        return inc_fwd + use + inc_full + chk + "int main() {}\n"
    return inc_full + inc_fwd + use + chk + "int main() {}\n"


def exec_src(src, cfg, d, name="tu.cc"):
    p = _write(os.path.join(d, name), src)
    rc, diag = syntax_only(p, cfg, [vlib.AU_INC])
    return {"ok": rc == 0, "actual": "accepted" if rc == 0 else "rejected: " + _tr(diag)}


def p4_batch_source(up, order):
    inc_fwd = "".join(f'#include "{f}"\n' for f, _, _ in up)
    inc_full = "".join(f'#include "{h}"\n' for _, hs, _ in up for h in hs)
    use, chk = "", ""
    for f, _, _ in up:
        for n in fwd_declared(f)[0]:
            use += f"au::{n} *c20_p_{n} = nullptr;\n"
            chk += f'static_assert(sizeof(au::{n}) > 0, "");\nstatic_assert(au::IsUnit<au::{n}>::value, "");\n'
    body = inc_fwd + use + inc_full + chk if order == "fwd-then-full" else inc_full + inc_fwd + use + chk
    return body + "int main() {}\n"


def p4_jobs(tier, rng, wd):
    """thorough: every pair x both orders x all six configs as individual TUs, plus the batched TUs.
    quick: reference config: individual fwd-then-full TUs for every pair + one batched full-then-fwd TU;
           clang++-14 c++20: both orders batched.  A batched TU contains every individual include sequence, so an
           individual failure implies a batch failure; on batch failure the individual TUs are run for attribution."""
    pairs, missing = fwd_pairs()
    jobs = []
    cfgs = list(CONFIGS) if tier == "thorough" else [REF, ("clang++-14", "c++20")]

    def rec_of(fwd, fulls, src):
        return {"header": fwd, "full": fulls, "source": src, "packaging": "multi", "expected": "accepted"}

    def ind_job(fwd, fulls, kind, cfg, order):
        def job():
            src = p4_source(fwd, fulls, kind, order)
            d = os.path.join(wd, "p4", cfgtag(cfg), order, fwd.replace("/", "_")[:-3])
            return [(order, cfg, exec_src(src, cfg, d), rec_of(fwd, fulls, src))]
        return {"family": "P4", "cost": 0.2 + (1.2 if cfg[0] != "g++" else 0.6) * len(fulls), "run": job}

    def batch_job(cfg, order, count_individual):
        def job():
            up = [p for p in pairs if p[2] == "unit"]
            rest = [p for p in pairs if p[2] != "unit"]
            d0 = os.path.join(wd, "p4", cfgtag(cfg), order)
            res = []
            src = p4_batch_source(up, order)
            r = exec_src(src, cfg, os.path.join(d0, "batch"))
            if r["ok"]:
                if count_individual:
                    for (fwd, fulls, kind) in up:
                        res.append((order, cfg, {"ok": True, "actual": "accepted (implied by the batched TU)"},
                                    rec_of(fwd, fulls, p4_source(fwd, fulls, kind, order))))
                res.append((order + "-batch", cfg, r, rec_of("au/units/*_fwd.hh", [], src)))
            else:
                anybad = False
                for (fwd, fulls, kind) in up:
                    s1 = p4_source(fwd, fulls, kind, order)
                    r1 = exec_src(s1, cfg, os.path.join(d0, fwd.replace("/", "_")[:-3]))
                    anybad = anybad or not r1["ok"]
                    if count_individual or not r1["ok"]:
                        res.append((order, cfg, r1, rec_of(fwd, fulls, s1)))
                # report the batch itself only when no individual TU explains it
                res.append((order + "-batch", cfg, r if not anybad else {"ok": True, "actual": "explained by individual TUs"},
                            rec_of("au/units/*_fwd.hh", [], src)))
            if count_individual:
                for (fwd, fulls, kind) in rest:
                    s1 = p4_source(fwd, fulls, kind, order)
                    r1 = exec_src(s1, cfg, os.path.join(d0, fwd.replace("/", "_")[:-3]))
                    res.append((order, cfg, r1, rec_of(fwd, fulls, s1)))
            return res
        return {"family": "P4", "cost": 8 if cfg[0] != "g++" else 4, "run": job}

    for cfg in cfgs:
        for order in ("fwd-then-full", "full-then-fwd"):
            individual = tier == "thorough" or (cfg == REF and order == "fwd-then-full")
            if individual:
                for (fwd, fulls, kind) in pairs:
                    jobs.append(ind_job(fwd, fulls, kind, cfg, order))
            jobs.append(batch_job(cfg, order, count_individual=not individual))
    return jobs, pairs, missing


# ------------------------------------------------------------------------------------------------
# P5  known compiler disagreement F4 (observation only)
# ------------------------------------------------------------------------------------------------

F4_SRC = '''#include <cstdint>
#include "au/au.hh"
#include "au/units/meters.hh"
int main() {
    auto r = au::meters(int8_t{5}) % au::meters(int8_t{3});
    au::Quantity<au::Meters, int8_t> q = au::meters(int8_t{5});
    auto n = -q;
    (void)r; (void)n;
}
'''


def p5_job(wd):
    def job():
        obs = {"probe": "F4-narrowing", "source": F4_SRC}
        for cfg in (("g++", "c++14"), ("clang++-14", "c++14")):
            p = _write(os.path.join(wd, "p5", cfgtag(cfg), "f4.cc"), F4_SRC)
            rc, diag = syntax_only(p, cfg, [vlib.AU_INC])
            obs[cfg[0]] = (rc == 0)
            if rc != 0 and "diagnostic" not in obs:
                obs["diagnostic"] = first_error(diag)
        obs.setdefault("diagnostic", "")
        return [("observation", None, obs, {})]
    return {"family": "P5", "cost": 1.0, "run": job}


# ------------------------------------------------------------------------------------------------
# P2  generated API-surface program
# ------------------------------------------------------------------------------------------------

REPS = [  # key, C++ type, bits, signed, floating
    ("i8", "int8_t", 8, True, False), ("i16", "int16_t", 16, True, False), ("i32", "int32_t", 32, True, False),
    ("u32", "uint32_t", 32, False, False), ("i64", "int64_t", 64, True, False), ("u64", "uint64_t", 64, False, False),
    ("f32", "float", 0, True, True), ("f64", "double", 0, True, True),
]
BASIC_BOUND = {"i8": 11, "i16": 150, "i32": 1200, "u32": 1200, "i64": 2000000, "u64": 2000000}
POW_BOUND = {"i8": 5, "i16": 30, "i32": 1200, "u32": 1200, "i64": 2000000, "u64": 2000000}

# Independent physical knowledge (NOT derived from the library): size of a unit in a reference unit of its kind.
F = Fraction
KNOWN = {
    "meters": ("len", F(1)), "feet": ("len", F(3048, 10000)), "inches": ("len", F(254, 10000)),
    "yards": ("len", F(9144, 10000)), "miles": ("len", F(1609344, 1000)), "nautical_miles": ("len", F(1852)),
    "fathoms": ("len", F(18288, 10000)), "furlongs": ("len", F(201168, 1000)),
    "seconds": ("time", F(1)), "minutes": ("time", F(60)), "hours": ("time", F(3600)), "days": ("time", F(86400)),
    "grams": ("mass", F(1)), "pounds_mass": ("mass", F(45359237, 100000)),
    "slugs": ("mass", F(45359237, 100000) * F(980665, 100000) / F(3048, 10000)),
    "bits": ("info", F(1)), "bytes": ("info", F(8)),
    "degrees": ("ang", F(1)), "arcminutes": ("ang", F(1, 60)), "arcseconds": ("ang", F(1, 3600)),
    "revolutions": ("ang", F(360)),
    "liters": ("vol", F(1)), "us_gallons": ("vol", F(231) * F(254, 1000) ** 3),
    "us_quarts": ("vol", F(231) * F(254, 1000) ** 3 / 4), "us_pints": ("vol", F(231) * F(254, 1000) ** 3 / 8),
    "pascals": ("pres", F(1)), "bars": ("pres", F(100000)),
    "kelvins": ("temp", F(1)), "celsius_qty": ("temp", F(1)), "fahrenheit_qty": ("temp", F(5, 9)),
    "rankines": ("temp", F(5, 9)),
    "unos": ("one", F(1)), "percent": ("one", F(1, 100)),
    "hertz": ("freq", F(1)), "becquerel": ("freq", F(1)),
    "newtons": ("force", F(1)), "pounds_force": ("force", F(45359237, 100000000) * F(980665, 100000)),
}
PREFIX_KNOWN = {"kilo": F(10) ** 3, "mega": F(10) ** 6, "giga": F(10) ** 9, "hecto": F(100), "deka": F(10),
                "deci": F(1, 10), "centi": F(1, 100), "milli": F(1, 1000), "micro": F(1, 10 ** 6),
                "nano": F(1, 10 ** 9), "kibi": F(1024), "mebi": F(1024) ** 2, "gibi": F(1024) ** 3}

P2_PRELUDE = r'''
namespace c20 {
template <class T> typename std::enable_if<std::is_integral<T>::value, T>::type ld(int k) { return static_cast<T>(VI[k]); }
template <class T> typename std::enable_if<std::is_floating_point<T>::value, T>::type ld(int k) { return static_cast<T>(VD[k]); }
template <class T> struct RepName { static const char *get() { return "other"; } };
#define C20_REP(T, N) template <> struct RepName<T> { static const char *get() { return N; } };
C20_REP(bool, "bool") C20_REP(char, "char") C20_REP(signed char, "i8") C20_REP(unsigned char, "u8")
C20_REP(short, "i16") C20_REP(unsigned short, "u16") C20_REP(int, "i32") C20_REP(unsigned, "u32")
C20_REP(long, "i64") C20_REP(unsigned long, "u64") C20_REP(long long, "ll") C20_REP(unsigned long long, "ull")
C20_REP(float, "f32") C20_REP(double, "f64") C20_REP(long double, "f80")
struct Val { char s[72]; };
template <class T> typename std::enable_if<std::is_floating_point<T>::value, Val>::type val(T v) {
    Val r; std::snprintf(r.s, sizeof r.s, "%La", static_cast<long double>(v)); return r; }
template <class T> typename std::enable_if<std::is_integral<T>::value && std::is_signed<T>::value, Val>::type val(T v) {
    Val r; std::snprintf(r.s, sizeof r.s, "%lld", static_cast<long long>(v)); return r; }
template <class T> typename std::enable_if<std::is_integral<T>::value && !std::is_signed<T>::value, Val>::type val(T v) {
    Val r; std::snprintf(r.s, sizeof r.s, "%llu", static_cast<unsigned long long>(v)); return r; }
template <class T> void out(const char *tag, T v) { std::printf("%s = %s [%s]\n", tag, val(v).s, RepName<T>::get()); }
inline void out(const char *tag, const char *s) { std::printf("%s = \"%s\"\n", tag, s); }
template <class U, class R> void out(const char *tag, au::Quantity<U, R> q) {
    std::printf("%s = %s [%s] %s\n", tag, val(q.in(U{})).s, RepName<R>::get(), au::unit_label(U{}));
#if C20_IO
    std::cout << tag << " ~ " << q << "\n";
#endif
}
template <class U, class R> void out(const char *tag, au::QuantityPoint<U, R> p) {
    std::printf("%s = @%s [%s] %s\n", tag, val(p.in(U{})).s, RepName<R>::get(), au::unit_label(U{}));
#if C20_IO
    std::cout << tag << " ~ " << p << "\n";
#endif
}
template <class A, class B> int cmpmask(A a, B b) {
    return (a == b ? 1 : 0) | (a != b ? 2 : 0) | (a < b ? 4 : 0) | (a <= b ? 8 : 0) | (a > b ? 16 : 0) | (a >= b ? 32 : 0);
}
template <class A, class B> int sign3(A a, B b) {
#if defined(__cpp_impl_three_way_comparison) && __cpp_impl_three_way_comparison >= 201907L
    auto c = (a <=> b);
    return (c < 0) ? -1 : ((c > 0) ? 1 : ((c == 0) ? 0 : 2));
#else
    return (a < b) ? -1 : ((a > b) ? 1 : ((a == b) ? 0 : 2));
#endif
}
template <class T, class C, class U> long long const_in(std::true_type, C c, U u) { return static_cast<long long>(c.template in<T>(u)); }
template <class T, class C, class U> long long const_in(std::false_type, C, U) { return -1; }
'''


def _fmt_d(x):
    return repr(float(x))


def c_trunc_div(a, b):
    """C++ integer division (truncation toward zero) of exact integers."""
    q = abs(a) // abs(b)
    return q if (a >= 0) == (b > 0) else -q


class P2Gen:
    """Generates one program for one selection.  All randomness comes from `rng`."""

    def __init__(self, rng, sel, utab, ratio, prefixes, reps=None):
        self.rng, self.sel, self.utab, self.ratio_tab = rng, sel, utab, ratio
        self.reps = list(reps or REPS)
        self.prefixes = prefixes
        self.vi, self.vd = [], []
        self.funcs = []          # (name, [lines])
        self.cur = None
        self.oracle = {}         # tag -> expected value token
        self.tags = set()
        self.stats = {}
        # units usable by the program: the selection plus what au/au.hh itself brings in
        stems = []
        for h in include_closure(["au/au.hh"]):
            m = re.fullmatch(r"au/units/(\w+)\.hh", h)
            if m and not m.group(1).endswith("_fwd"):
                stems.append(m.group(1))
        self.builtin = sorted(stems)
        self.units = []
        for stem in list(sel["units"]) + [s for s in self.builtin if s not in sel["units"]]:
            e = utab.get(stem)
            if not e:
                continue
            for (mk, ty) in e["makers"]:
                pt = [p for p, t in e["pts"] if t == ty]
                sy = [s for s, t in e["symbols"] if t == ty]
                self.units.append({"mk": mk, "ty": ty, "stem": stem, "pt": pt[0] if pt else None,
                                   "sym": sy[0] if sy else None, "selected": stem in sel["units"]})

    # -- plumbing ---------------------------------------------------------------------------------
    def count(self, k, n=1):
        self.stats[k] = self.stats.get(k, 0) + n

    def begin(self, name):
        self.cur = []
        self.funcs.append((name, self.cur))

    def emit(self, line):
        self.cur.append(line)

    def tag(self, t):
        base, n = t, 1
        while t in self.tags:
            n += 1
            t = f"{base}#{n}"
        self.tags.add(t)
        return t

    def out(self, t, expr, expect=None, fam=None):
        t = self.tag(t)
        self.emit(f'out("{t}", {expr});')
        if expect is not None:
            self.oracle[t] = str(expect)
        if fam:
            self.count(fam)
        return t

    def block(self, t, code, expect=None, fam=None):
        t = self.tag(t)
        self.emit(code % t)
        if expect is not None:
            self.oracle[t] = str(expect)
        if fam:
            self.count(fam)

    def ld(self, rep, v):
        if rep[4]:
            self.vd.append(float(v))
            return f"ld<{rep[1]}>({len(self.vd) - 1})"
        self.vi.append(int(v))
        return f"ld<{rep[1]}>({len(self.vi) - 1})"

    def ratio(self, a, b):
        """Exact ratio of two makers of the same dimension.  Distinct units with ratio exactly 1 ("twins", e.g.
        becquerel/hertz, bits-per-... ) are reported as NOT combinable: mixing them is a documented hard error of the
        library ("Broken strict total ordering"), identical in every configuration and packaging, hence outside what a
        generated well-formed program may do."""
        if a == b:
            return Fraction(1)
        r = self.ratio_tab.get((a, b))
        if isinstance(r, Fraction) and r == 1:
            return None
        return r

    def twins(self, a, b):
        r = self.ratio_tab.get((a, b))
        return a != b and isinstance(r, Fraction) and r == 1

    def known(self, a, b):
        ka, kb = KNOWN.get(a), KNOWN.get(b)
        if ka and kb and ka[0] == kb[0]:
            return ka[1] / kb[1]
        return None

    @staticmethod
    def lim(rep):
        if rep[4]:
            return None
        return (-(1 << (rep[2] - 1)), (1 << (rep[2] - 1)) - 1) if rep[3] else (0, (1 << rep[2]) - 1)

    @staticmethod
    def plim(rep):
        lo, hi = P2Gen.lim(rep)
        return (-(1 << 31), (1 << 31) - 1) if rep[2] < 32 else (lo, hi)

    def rand_val(self, rep, bound=None, nonzero=False, positive=False):
        r = self.rng
        if rep[4]:
            while True:
                v = r.randrange(-4000, 4000) / r.choice([1, 2, 4, 8, 16])
                if positive:
                    v = abs(v)
                if not (nonzero and v == 0):
                    return v
        b = bound or BASIC_BOUND[rep[0]]
        while True:
            v = r.randrange(0 if (positive or not rep[3]) else -b, b + 1)
            if not (nonzero and v == 0):
                return v

    # -- integer conversion planning (what compiles and stays free of overflow) -------------------
    def int_conv_value(self, rep, r):
        """A value x of type rep for which coerce_in by ratio r (Fraction) compiles, executes no overflow and whose
        result fits; None if impossible.  Mirrors the three integer paths of apply_magnitude."""
        if not isinstance(r, Fraction):
            return None
        lo, hi = self.lim(rep)
        plo, phi = self.plim(rep)
        n, d = r.numerator, r.denominator
        rng = self.rng
        if d == 1:
            if n > hi:
                return None
            m = min(hi // n, 10 ** 6)
        elif n == 1:
            if d > hi:
                return None
            m = min(hi, 10 ** 9)
        else:
            if n > phi or d > phi:
                return None
            m = min(phi // n, hi, hi * d // n, 10 ** 9)
        if m < 1:
            return None
        if d > 1 and d <= m and rng.random() < 0.7:
            x = d * rng.randrange(1, m // d + 1)       # exact
        else:
            x = rng.randrange(1, m + 1)
        if rep[3] and rng.random() < 0.3:
            x = -x
        return x

    def implicit_ok(self, rep, r):
        """Library policy for implicit integer conversion (documented: integer factor, 2147 * factor must fit)."""
        if rep[4]:
            return True
        if rep[2] < 32 or not isinstance(r, Fraction):
            return False
        return r.denominator == 1 and r.numerator <= self.lim(rep)[1] // 2147

    def common_ok(self, rep, r):
        if rep[4]:
            return isinstance(r, Fraction)
        if rep[2] < 32 or not isinstance(r, Fraction):
            return False
        hi = self.lim(rep)[1] // 2147
        return r.numerator <= hi and r.denominator <= hi

    # -- fact families ----------------------------------------------------------------------------
    def fam_basic(self, rep, u):
        """construction, same-unit arithmetic and comparison, scalars, ZERO, limits."""
        k, T, isf = rep[0], rep[1], rep[4]
        mk = u["mk"]
        r = self.rng
        x, y = self.rand_val(rep), self.rand_val(rep, nonzero=True)
        if not rep[3] and x < y:
            x, y = y, x
        if not isf and not rep[3] and y == 0:
            y = 1
        p = f"{k}.{mk}"
        self.emit(f"auto a = au::{mk}({self.ld(rep, x)}); auto b = au::{mk}({self.ld(rep, y)});")
        ex = (lambda v: v) if not isf else (lambda v: None)
        self.out(f"{p}.a", "a", ex(x), "construct")
        self.out(f"{p}.in", f"a.in(au::{mk})", ex(x), "construct")
        self.out(f"{p}.add", "a + b", ex(x + y), "arith")
        self.out(f"{p}.sub", "a - b", ex(x - y), "arith")
        self.out(f"{p}.cmp", "cmpmask(a, b)",
                 (1 if x == y else 0) | (2 if x != y else 0) | (4 if x < y else 0) | (8 if x <= y else 0) |
                 (16 if x > y else 0) | (32 if x >= y else 0), "compare")
        self.out(f"{p}.cmp3", "sign3(a, b)", -1 if x < y else (1 if x > y else 0), "compare")
        s = self.rand_val(rep, bound=min(BASIC_BOUND.get(k, 11), 11) if not isf else None, nonzero=True, positive=not rep[3])
        sv = self.ld(rep, s)
        self.emit(f"auto s = {sv};")
        ch = r.sample(["mul", "rmul", "div", "qdiv", "zero", "lim", "compound", "neg", "mod", "rdiv", "data", "repcast"], 6)
        if "mul" in ch:
            self.out(f"{p}.mul", "a * s", ex(x * s), "scalar")
        if "rmul" in ch:
            self.out(f"{p}.rmul", "s * b", ex(s * y), "scalar")
        if "div" in ch:
            self.out(f"{p}.div", "a / s", ex(c_trunc_div(x, s)) if not isf else None, "scalar")
        if "qdiv" in ch:
            self.out(f"{p}.qdiv", "a / b", ex(c_trunc_div(x, y)) if not isf else None, "arith")
        if "rdiv" in ch and isf:
            self.out(f"{p}.rdiv", "s / b", None, "scalar")
        if "zero" in ch:
            self.out(f"{p}.zero", "(a > au::ZERO ? 1 : 0) + (au::ZERO == b ? 2 : 0) + (b != au::ZERO ? 4 : 0) + (au::ZERO <= a ? 8 : 0)",
                     (1 if x > 0 else 0) + (2 if y == 0 else 0) + (4 if y != 0 else 0) + (8 if 0 <= x else 0), "zero")
            self.block(f"{p}.zeroq", "{ decltype(a) z = au::ZERO; out(\"%s\", z); }", 0 if not isf else None)
        if "lim" in ch:
            lim = self.lim(rep)
            self.out(f"{p}.max", "std::numeric_limits<decltype(a)>::max()", lim[1] if lim else None, "limits")
            self.out(f"{p}.lowest", "std::numeric_limits<decltype(a)>::lowest()", lim[0] if lim else None, "limits")
        if "compound" in ch:
            self.block(f"{p}.compound", "{ auto c = a; c += b; c -= a; c *= s; out(\"%s\", c); }", ex(y * s), "arith")
        if "neg" in ch and rep[3] and (isf or rep[2] >= 32):        # F4: no unary +/- on sub-int reps
            self.out(f"{p}.neg", "-a", ex(-x), "arith")
            self.out(f"{p}.pos", "+b", ex(y), "arith")
        if "mod" in ch and not isf and rep[2] >= 32:                 # F4: no % on sub-int reps
            self.out(f"{p}.mod", "a % b", abs(x) % abs(y) * (1 if x >= 0 else -1), "arith")
        if "data" in ch:
            self.block(f"{p}.data", "{ auto c = a; c.data_in(au::" + mk + ") = s; out(\"%s\", c); }", ex(s), "construct")
        if "repcast" in ch:
            self.out(f"{p}.repcast", "au::rep_cast<double>(a)", None, "construct")
        if u["sym"] and r.random() < 0.5:
            self.out(f"{p}.sym", f"s * au::symbols::{u['sym']}", ex(s), "construct")

    def fam_products(self, rep, u, w):
        if self.twins(u["mk"], w["mk"]):
            w = u           # a product of twins needs the same (undefined) ordering as mixing them
        k, isf = rep[0], rep[4]
        p = f"{k}.{u['mk']}x{w['mk']}"
        x, y = self.rand_val(rep), self.rand_val(rep, nonzero=True, positive=not rep[3])
        self.emit(f"auto a = au::{u['mk']}({self.ld(rep, x)}); auto c = au::{w['mk']}({self.ld(rep, y)});")
        ex = (lambda v: v) if not isf else (lambda v: None)
        self.out(f"{p}.prod", "a * c", ex(x * y), "product")
        if isf:
            self.out(f"{p}.quot", "a / c", None, "product")
        else:
            self.out(f"{p}.quot", "a / au::unblock_int_div(c)", c_trunc_div(x, y), "product")
        z = self.rand_val(rep)
        self.out(f"{p}.maker", f"(au::{u['mk']} / au::{w['mk']})({self.ld(rep, z)})", ex(z), "product")
        if u["mk"] != "unos" and self.ratio(u["mk"], "unos") != 1:      # unos^2 is unitless: a * a is a raw number
            self.out(f"{p}.pow", f"au::pow<2>(au::{u['mk']})({self.ld(rep, z)}) + a * a", ex(z + x * x), "product")

    def fam_convert(self, rep, u, v):
        """u -> v of the same dimension."""
        k, T, isf = rep[0], rep[1], rep[4]
        r = self.ratio(u["mk"], v["mk"])
        kr = self.known(u["mk"], v["mk"])
        p = f"{k}.{u['mk']}>{v['mk']}"
        um, vm = u["mk"], v["mk"]
        if isf:
            if r == "big" or r is None:
                return False
            x = self.rand_val(rep)
            self.emit(f"auto a = au::{um}({self.ld(rep, x)});")
            self.out(f"{p}.in", f"a.in(au::{vm})", None, "convert")
            self.out(f"{p}.as", f"a.as(au::{vm})", None, "convert")
            self.out(f"{p}.in_other", f"a.in<{'double' if T == 'float' else 'float'}>(au::{vm})", None, "convert")
            self.block(f"{p}.implicit", "{ au::Quantity<au::" + v["ty"] + ", " + T + "> q = a; out(\"%s\", q); }", None, "convert")
            if isinstance(r, Fraction):
                y = self.rand_val(rep)
                self.emit(f"auto c = au::{vm}({self.ld(rep, y)});")
                self.out(f"{p}.mixadd", "a + c", None, "mixed")
                self.out(f"{p}.mixcmp", "cmpmask(a, c)", None, "mixed")
                self.out(f"{p}.mixcmp3", "sign3(a, c)", None, "mixed")
                self.out(f"{p}.mixmin", "min(a, c)", None, "mixed")
                self.out(f"{p}.common_label",
                         "au::unit_label(typename std::common_type_t<decltype(a), decltype(c)>::Unit{})", None, "label")
            return True
        x = self.int_conv_value(rep, r)
        if x is None:
            # explicit-rep conversion through double is always available for rational and irrational ratios
            if r in (None, "big"):
                return False
            x = self.rand_val(rep)
            self.emit(f"auto a = au::{um}({self.ld(rep, x)});")
            self.out(f"{p}.in_f64", f"a.in<double>(au::{vm})", None, "convert")
            return True
        self.emit(f"auto a = au::{um}({self.ld(rep, x)});")
        exp = None
        if kr is not None:
            num = x * kr.numerator
            exp = c_trunc_div(num, kr.denominator)
        self.out(f"{p}.coerce_in", f"a.coerce_in(au::{vm})", exp, "convert")
        self.out(f"{p}.coerce_as", f"a.coerce_as(au::{vm})", exp, "convert")
        self.out(f"{p}.in_f64", f"a.in<double>(au::{vm})", None, "convert")
        self.out(f"{p}.lossy", f"(au::is_conversion_lossy(a, au::{vm}) ? 1 : 0) + (au::will_conversion_truncate(a, au::{vm}) ? 2 : 0)"
                              f" + (au::will_conversion_overflow(a, au::{vm}) ? 4 : 0)",
                 (None if kr is None else (3 if (x * kr.numerator) % kr.denominator else 0)), "checker")
        if self.implicit_ok(rep, r):
            self.out(f"{p}.in", f"a.in(au::{vm})", exp, "convert")
            self.block(f"{p}.implicit", "{ au::Quantity<au::" + v["ty"] + ", " + T + "> q = a; out(\"%s\", q); }", exp, "convert")
        if self.common_ok(rep, r):
            b = min(BASIC_BOUND[k], 2000, self.lim(rep)[1] // (r.numerator + r.denominator))
            if b < 3:
                return True
            x2, y2 = self.rng.randrange(1, b), self.rng.randrange(1, b)
            self.emit(f"auto a2 = au::{um}({self.ld(rep, x2)}); auto c2 = au::{vm}({self.ld(rep, y2)});")
            kc = None
            if kr is not None:
                # common unit = u / numerator(r) = v / denominator(r)
                kc = x2 * kr.numerator + y2 * kr.denominator
            self.out(f"{p}.mixadd", "a2 + c2", kc, "mixed")
            lhs, rhs = (x2 * kr.numerator, y2 * kr.denominator) if kr is not None else (None, None)
            self.out(f"{p}.mixcmp3", "sign3(a2, c2)", None if kr is None else (-1 if lhs < rhs else (1 if lhs > rhs else 0)), "mixed")
            self.out(f"{p}.mixmax", "max(a2, c2)", None if kr is None else max(lhs, rhs), "mixed")
        return True

    def fam_prefix(self, rep, u):
        k, T, isf = rep[0], rep[1], rep[4]
        names = [n for n in PREFIX_KNOWN if n in self.prefixes]
        if not names:
            return
        pf = self.rng.choice(names)
        f = PREFIX_KNOWN[pf]
        um = u["mk"]
        p = f"{k}.{pf}.{um}"
        if isf:
            x = self.rand_val(rep)
            self.emit(f"auto a = au::{pf}(au::{um})({self.ld(rep, x)});")
            self.out(f"{p}.q", "a", None, "prefix")
            self.out(f"{p}.in", f"a.in(au::{um})", None, "prefix")
            self.out(f"{p}.back", f"au::{um}({self.ld(rep, x)}).in(au::{pf}(au::{um}))", None, "prefix")
            return
        # prefixed -> base has ratio f; base -> prefixed has ratio 1/f
        x = self.int_conv_value(rep, f)
        if x is not None:
            self.emit(f"auto a = au::{pf}(au::{um})({self.ld(rep, x)});")
            self.out(f"{p}.q", "a", x, "prefix")
            self.out(f"{p}.coerce_in", f"a.coerce_in(au::{um})", c_trunc_div(x * f.numerator, f.denominator), "prefix")
            if self.implicit_ok(rep, f):
                self.out(f"{p}.in", f"a.in(au::{um})", x * f.numerator, "prefix")
                y = self.rng.randrange(1, 1000)
                self.out(f"{p}.mix", f"a + au::{um}({self.ld(rep, y)})", x * f.numerator + y, "prefix")
        y = self.int_conv_value(rep, 1 / f)
        if y is not None:
            g = 1 / f
            self.out(f"{p}.back", f"au::{um}({self.ld(rep, y)}).coerce_in(au::{pf}(au::{um}))",
                     c_trunc_div(y * g.numerator, g.denominator), "prefix")

    def fam_point(self, rep, u, others):
        k, T, isf = rep[0], rep[1], rep[4]
        pt = u["pt"]
        p = f"{k}.{pt}"
        x, y = self.rand_val(rep), self.rand_val(rep)
        if not rep[3] and x < y:
            x, y = y, x
        d = self.rand_val(rep, positive=True)
        self.emit(f"auto p = au::{pt}({self.ld(rep, x)}); auto p2 = au::{pt}({self.ld(rep, y)}); auto d = au::{u['mk']}({self.ld(rep, d)});")
        ex = (lambda v: v) if not isf else (lambda v: None)
        self.out(f"{p}.p", "p", ex(x), "point")
        self.out(f"{p}.diff", "p - p2", ex(x - y), "point")
        self.out(f"{p}.plus", "p + d", ex(x + d), "point")
        self.out(f"{p}.rplus", "d + p2", ex(y + d), "point")
        if rep[3] or x >= d:
            self.out(f"{p}.minus", "p - d", ex(x - d), "point")
        self.out(f"{p}.cmp", "cmpmask(p, p2)",
                 (1 if x == y else 0) | (2 if x != y else 0) | (4 if x < y else 0) | (8 if x <= y else 0) |
                 (16 if x > y else 0) | (32 if x >= y else 0), "point")
        self.out(f"{p}.cmp3", "sign3(p, p2)", -1 if x < y else (1 if x > y else 0), "point")
        if isf:
            for o in others[:2]:
                self.out(f"{p}>{o['pt']}.in", f"p.in(au::{o['pt']})", None, "point")
                self.out(f"{p}>{o['pt']}.as", f"p.as(au::{o['pt']})", None, "point")
                z = self.rand_val(rep)
                self.emit(f"auto o_{o['pt']} = au::{o['pt']}({self.ld(rep, z)});")
                self.out(f"{p}~{o['pt']}.cmp", f"cmpmask(p, o_{o['pt']})", None, "point")
                self.out(f"{p}~{o['pt']}.diff", f"p - o_{o['pt']}", None, "point")
            self.out(f"{p}.round", f"au::round_as(au::{pt}, p)", None, "math")

    def fam_math(self, rep, u, v):
        """v: a same-dimension unit (or u itself)."""
        k, T, isf = rep[0], rep[1], rep[4]
        um, vm = u["mk"], v["mk"]
        p = f"{k}.math.{um}"
        r = self.ratio(um, vm)
        b = POW_BOUND[k] if not isf else None
        x = self.rand_val(rep, bound=b, nonzero=True)
        y = self.rand_val(rep, bound=b, nonzero=True, positive=True)
        lo_, hi_ = sorted([self.rand_val(rep, bound=b), self.rand_val(rep, bound=b)])
        self.emit(f"auto a = au::{um}({self.ld(rep, x)}); auto b = au::{um}({self.ld(rep, y)});")
        self.emit(f"auto lo = au::{um}({self.ld(rep, lo_)}); auto hi = au::{um}({self.ld(rep, hi_)});")
        ex = (lambda w: w) if not isf else (lambda w: None)
        ch = self.rng.sample(["abs", "minmax", "clamp", "pow", "sqrt", "fmod", "rem", "round", "copysign", "hyp", "inv", "nan"], 6)
        if "abs" in ch and rep[3]:
            self.out(f"{p}.abs", "au::abs(a)", ex(abs(x)), "math")
        if "minmax" in ch:
            self.out(f"{p}.min", "min(a, b)", ex(min(x, y)), "math")
            self.out(f"{p}.max", "max(a, b)", ex(max(x, y)), "math")
        if "clamp" in ch:
            self.out(f"{p}.clamp", "clamp(a, lo, hi)", ex(min(max(x, lo_), hi_)), "math")
        if "pow" in ch:
            self.out(f"{p}.pow2", "au::int_pow<2>(a)", ex(x * x), "math")
            self.out(f"{p}.pow3", "au::int_pow<3>(b)", ex(y * y * y), "math")
            if isf:
                self.out(f"{p}.pow-1", "au::int_pow<-1>(b)", None, "math")
        if "sqrt" in ch:
            self.out(f"{p}.sqrt", "au::sqrt(au::int_pow<2>(b))", None, "math")
            if isf:
                self.out(f"{p}.cbrt", "au::cbrt(au::int_pow<3>(b))", None, "math")
        if "fmod" in ch:
            self.out(f"{p}.fmod", "au::fmod(a, b)", None, "math")
        if "rem" in ch:
            self.out(f"{p}.remainder", "au::remainder(a, b)", None, "math")
        if "round" in ch and r is not None and r != "big":
            self.out(f"{p}.round_in", f"au::round_in(au::{vm}, a)", None, "math")
            self.out(f"{p}.floor_as", f"au::floor_as(au::{vm}, a)", None, "math")
            self.out(f"{p}.ceil_in_i", f"au::ceil_in<long long>(au::{vm}, b)", None, "math")
        if "copysign" in ch and isf:
            self.out(f"{p}.copysign", "au::copysign(b, a)", None, "math")
            self.out(f"{p}.copysign_raw", f"au::copysign(b, {T}(-1))", None, "math")
        if "hyp" in ch and isf:
            self.out(f"{p}.hypot", "au::hypot(a, b)", None, "math")
        if "nan" in ch and isf:
            self.out(f"{p}.isnan", "au::isnan(a) ? 1 : 0", 0, "math")
        if "inv" in ch and isf:
            self.out(f"{p}.inverse_as", f"au::inverse_as(au::inverse(au::{um}), b)", None, "math")
            self.out(f"{p}.inverse_in", f"au::inverse_in(au::pow<-1>(au::{um}), b)", None, "math")

    def fam_trig(self, rep, u):
        k, T = rep[0], rep[1]
        x = self.rng.randrange(-300, 300) / 8 if rep[4] else self.rng.randrange(-BASIC_BOUND[k], BASIC_BOUND[k])
        p = f"{k}.trig.{u['mk']}"
        self.emit(f"auto a = au::{u['mk']}({self.ld(rep, x)});")
        self.out(f"{p}.sin", "au::sin(a)", None, "trig")
        self.out(f"{p}.cos", "au::cos(a)", None, "trig")
        if rep[4]:
            self.out(f"{p}.tan", "au::tan(a)", None, "trig")
            self.out(f"{p}.arctan2", f"au::arctan2(a, au::{u['mk']}({self.ld(rep, 1.5)}))", None, "trig")
            self.out(f"{p}.arcsin", f"au::arcsin({self.ld(rep, 0.625)})", None, "trig")

    # -- assembling -------------------------------------------------------------------------------
    def same_dim_pairs(self):
        res = []
        for u in self.units:
            for v in self.units:
                if u is not v and self.ratio(u["mk"], v["mk"]) is not None:
                    res.append((u, v))
        return res

    def scoped(self, fn, *a):
        self.emit("{")
        n = len(self.cur)
        r = fn(*a)
        if len(self.cur) == n:
            self.cur.pop()
        else:
            self.emit("}")
        return r

    def rep_function(self, rep, budget):
        r = self.rng
        self.begin("rep_" + rep[0])
        if not self.units:
            x = self.rand_val(rep)
            self.out(f"{rep[0]}.unitless", f"au::make_quantity<au::UnitProductT<>>({self.ld(rep, x)})", None, "construct")
            return
        sel_units = [u for u in self.units if u["selected"]] or self.units
        pool = list(self.units)
        # basics on a few units (selected ones first)
        us = r.sample(sel_units, min(len(sel_units), budget["units"]))
        if len(us) < budget["units"]:
            rest = [u for u in pool if u not in us]
            us += r.sample(rest, min(len(rest), budget["units"] - len(us)))
        for u in us:
            self.scoped(self.fam_basic, rep, u)
        for _ in range(budget["products"]):
            u, w = r.choice(sel_units), r.choice(pool)
            self.scoped(self.fam_products, rep, u, w)
        pairs = self.same_dim_pairs()
        pref = [pq for pq in pairs if pq[0]["selected"] or pq[1]["selected"]] or pairs
        done = 0
        for (u, v) in r.sample(pref, min(len(pref), 3 * budget["conversions"])):
            if done >= budget["conversions"]:
                break
            if self.scoped(self.fam_convert, rep, u, v):
                done += 1
        for _ in range(budget["prefixes"]):
            self.scoped(self.fam_prefix, rep, r.choice(sel_units))
        pts = [u for u in self.units if u["pt"]]
        for u in r.sample(pts, min(len(pts), budget["points"])):
            others = [o for o in pts if o is not u and self.ratio(u["mk"], o["mk"]) is not None]
            r.shuffle(others)
            self.scoped(self.fam_point, rep, u, others)
        for _ in range(budget["math"]):
            u = r.choice(sel_units)
            same = [v for v in self.units if v is u or self.ratio(u["mk"], v["mk"]) is not None]
            self.scoped(self.fam_math, rep, u, r.choice(same))
        ang = [u for u in self.units if u["mk"] == "radians" or self.ratio(u["mk"], "radians") is not None]
        if ang and r.random() < budget["trig"]:
            self.scoped(self.fam_trig, rep, r.choice(ang))

    def labels_function(self):
        r = self.rng
        self.begin("labels")
        us = [u for u in self.units if u["selected"]]
        us = r.sample(us, min(len(us), 8)) + [u for u in self.units if not u["selected"]]
        for u in us:
            self.out(f"label.{u['mk']}", f"au::unit_label(au::{u['mk']})", None, "label")
        names = [n for n in self.prefixes]
        for _ in range(4 if self.units and names else 0):
            u = r.choice(self.units)
            pf = r.choice(names)
            self.out(f"label.{pf}.{u['mk']}", f"au::unit_label(au::{pf}(au::{u['mk']}))", None, "label")
        for _ in range(4 if self.units else 0):
            u, w = r.choice(self.units), r.choice(self.units)
            if self.twins(u["mk"], w["mk"]):
                w = u
            form = r.choice(["au::{a} * au::{b}", "au::{a} / au::{b}", "au::pow<2>(au::{a}) / au::{b}",
                             "au::squared(au::{a}) * au::inverse(au::{b})", "au::cubed(au::{a})", "au::root<2>(au::{a}) * au::{b}",
                             "au::{a} * au::mag<3>() / au::mag<7>()"])
            e = form.format(a=u["mk"], b=w["mk"])
            self.out(f"label.{e.replace('au::', '').replace(' ', '')}", f"au::unit_label({e})", None, "label")
        self.out("label.mag", "au::mag_label(au::mag<22>() / au::mag<7>())", None, "label")
        self.out("mag.value", "au::get_value<int>(au::mag<360>() / au::mag<8>())", 45, "label")
        self.out("mag.pi", "au::get_value<double>(au::Magnitude<au::Pi>{})", None, "label")

    def chrono_function(self):
        if not all(s in self.builtin for s in ("seconds", "minutes", "hours")):
            return
        r = self.rng
        self.begin("chrono")
        x, y, z = r.randrange(1, 5000), r.randrange(1, 5000), r.randrange(1, 200)
        i64 = REPS[4]
        f64 = REPS[7]
        self.emit(f"std::chrono::milliseconds ms({self.ld(i64, x)}); std::chrono::seconds sec({self.ld(i64, y)});")
        self.out("chrono.as_quantity", "au::as_quantity(ms)", x, "chrono")
        self.out("chrono.mixadd", "au::seconds(" + self.ld(i64, z) + ") + ms", z * 1000 + x, "chrono")
        self.out("chrono.cmp", "cmpmask(au::as_quantity(sec), au::as_quantity(ms))", None, "chrono")
        self.out("chrono.mixcmp", "(au::minutes(" + self.ld(i64, z) + ") > sec) ? 1 : 0", 1 if z * 60 > y else 0, "chrono")
        self.emit("{ std::chrono::nanoseconds ns = au::seconds(" + self.ld(i64, z) + "); out(\"%s\", static_cast<long long>(ns.count())); }"
                  % self.tag("chrono.to_ns"))
        self.oracle["chrono.to_ns"] = str(z * 10 ** 9)
        self.emit("{ auto d = au::as_chrono_duration(au::hours(" + self.ld(i64, z) + ")); out(\"%s\", static_cast<long long>(std::chrono::duration_cast<std::chrono::seconds>(d).count())); }"
                  % self.tag("chrono.hours"))
        self.oracle["chrono.hours"] = str(z * 3600)
        self.emit("{ std::chrono::duration<double> dd = au::milli(au::seconds)(" + self.ld(f64, x / 8) + "); out(\"%s\", dd.count()); }"
                  % self.tag("chrono.double"))
        self.emit("{ au::QuantityD<au::Seconds> q = ms; out(\"%s\", q); }" % self.tag("chrono.implicit"))
        # every mixed operator, both operand orders, operands differing in unit (and the foreign type on the LEFT too): a program
        # such as `ms != au::seconds(1)` must be accepted alike, with the same value, under every standard
        import operator as _op
        ops = [("eq", "==", _op.eq), ("ne", "!=", _op.ne), ("lt", "<", _op.lt), ("le", "<=", _op.le), ("gt", ">", _op.gt), ("ge", ">=", _op.ge)]
        zq = r.choice([z, max(1, x // 1000), x // 1000 + 1])
        for name, sym, fn in ops:
            self.out(f"chrono.mix.{name}.dq", f"(ms {sym} au::seconds({self.ld(i64, zq)})) ? 1 : 0", int(fn(x, zq * 1000)), "chrono")
            self.out(f"chrono.mix.{name}.qd", f"(au::seconds({self.ld(i64, zq)}) {sym} ms) ? 1 : 0", int(fn(zq * 1000, x)), "chrono")
        self.out("chrono.mix.add.dq", "ms + au::seconds(" + self.ld(i64, z) + ")", z * 1000 + x, "chrono")
        self.out("chrono.mix.sub.dq", "ms - au::seconds(" + self.ld(i64, z) + ")", x - z * 1000, "chrono")
        self.out("chrono.mix.sub.qd", "au::seconds(" + self.ld(i64, z) + ") - ms", z * 1000 - x, "chrono")
        self.count("chrono", 4)

    def constants_function(self):
        if not self.sel["constants"]:
            return
        self.begin("constants")
        full = set(self.rng.sample(list(self.sel["constants"]), min(3, len(self.sel["constants"]))))
        for c in self.sel["constants"]:
            C = f"au::{c}"
            if c not in full:
                self.out(f"const.{c}.label", f"au::unit_label({C})", None, "constant")
                self.out(f"const.{c}.as", f"{C}.as<float>()", None, "constant")
                continue
            self.emit("{")
            self.emit(f"using CU = au::AssociatedUnitT<std::remove_cv_t<decltype({C})>>;")
            self.emit("constexpr auto base = CU{} / au::detail::MagT<CU>{};")
            p = f"const.{c}"
            self.out(f"{p}.label", f"au::unit_label({C})", None, "constant")
            self.out(f"{p}.base_label", "au::unit_label(base)", None, "constant")
            self.out(f"{p}.f64", f"{C}.in<double>(base)", None, "constant")
            self.out(f"{p}.f32", f"{C}.coerce_in<float>(base)", None, "constant")
            self.out(f"{p}.as", f"{C}.as<double>()", None, "constant")
            for rep in REPS:
                x = self.rand_val(rep, bound=11, nonzero=True)
                self.out(f"{p}.{rep[0]}.times", f"{self.ld(rep, x)} * {C}", None if rep[4] else x, "constant")
            for rep in REPS[:6]:
                T = rep[1]
                self.out(f"{p}.{rep[0]}.store", f"{C}.can_store_value_in<{T}>(base) ? 1 : 0", None, "constant")
                self.out(f"{p}.{rep[0]}.in",
                         f"const_in<{T}>(std::integral_constant<bool, {C}.can_store_value_in<{T}>(base)>{{}}, {C}, base)",
                         None, "constant")
            x = self.rng.randrange(1, 4000) / 8
            self.emit(f"auto q = {self.ld(REPS[7], x)} * {C};")
            self.out(f"{p}.q_in_base", "q.in(base)", None, "constant")
            self.out(f"{p}.cmp", f"cmpmask(q, {C}.as<double>())", None, "constant")
            self.block(f"{p}.implicit", "{ au::Quantity<CU, double> q2 = " + C + "; out(\"%s\", q2 + q); }", None, "constant")
            self.out(f"{p}.sq", f"au::unit_label({C} * {C})", None, "constant")
            self.emit("}")
        # independent knowledge about two exact SI constants
        if "SPEED_OF_LIGHT" in full:
            self.oracle["const.SPEED_OF_LIGHT.i32.in"] = "299792458"
            self.oracle["const.SPEED_OF_LIGHT.i64.in"] = "299792458"
            self.oracle["const.SPEED_OF_LIGHT.i16.store"] = "0"
        if "CESIUM_HYPERFINE_TRANSITION_FREQUENCY" in full:
            self.oracle["const.CESIUM_HYPERFINE_TRANSITION_FREQUENCY.i64.in"] = "9192631770"
            self.oracle["const.CESIUM_HYPERFINE_TRANSITION_FREQUENCY.i32.store"] = "0"

    def generate(self):
        nsel = len([u for u in self.units if u["selected"]])
        budget = {"units": 2, "products": 1, "conversions": 2, "prefixes": 1, "points": 1, "math": 1,
                  "trig": 0.5}
        for rep in self.reps:
            self.rep_function(rep, budget)
        self.labels_function()
        self.chrono_function()
        self.constants_function()
        return self.source()

    def include_block(self):
        sel = self.sel
        multi = ['#include "au/au.hh"'] + [f'#include "au/units/{u}.hh"' for u in sel["units"]] + \
                [f'#include "au/constants/{c.lower()}.hh"' for c in sel["constants"]] + \
                (['#include "au/io.hh"'] if sel["io"] else [])
        return "#if defined(AU_C20_SINGLE)\n#include \"au.hh\"\n#else\n" + "\n".join(multi) + "\n#endif\n"

    def source(self):
        head = ["#include <chrono>", "#include <cmath>", "#include <cstdint>", "#include <cstdio>", "#include <limits>",
                "#include <type_traits>", f"#define C20_IO {1 if self.sel['io'] else 0}"]
        if self.sel["io"]:
            head.append("#include <iostream>")
        body = ["\n".join(head), self.include_block(), "namespace c20 {",
                "static volatile long long VI[] = {" + ", ".join(f"{v}LL" for v in (self.vi or [0])) + "};",
                "static volatile double VD[] = {" + ", ".join(_fmt_d(v) for v in (self.vd or [0.0])) + "};",
                "}", P2_PRELUDE]
        for name, lines in self.funcs:
            body.append(f"static void f_{name}() {{")
            body += ["    " + l for l in lines]
            body.append("}")
        body.append("}  // namespace c20")
        body.append("int main() {")
        body += [f"    c20::f_{name}();" for name, _ in self.funcs]
        body.append('    std::printf("END\\n");\n    return 0;\n}\n')
        return "\n".join(body)


def prefix_names():
    txt = open(os.path.join(au_dir(), "prefix.hh")).read()
    return re.findall(r"^constexpr auto (\w+) = PrefixApplier<\w+>\{\};", txt, re.M)


def exec_p2(source, cfg, packaging, header, d):
    """Compile (sanitizers on) and run one packaging of a generated program."""
    src = _write(os.path.join(d, "prog.cc"), source)
    exe = os.path.join(d, f"prog_{cfgtag(cfg)}_{packaging}")
    if packaging == "single":
        rc, diag = compile_san([src], exe, cfg, [os.path.dirname(header)], extra=["-DAU_C20_SINGLE"])
    else:
        rc, diag = compile_san([src], exe, cfg, [vlib.AU_INC])
    if rc != 0:
        return {"compiled": False, "diag": diag, "exit": None, "stdout": "", "stderr": ""}
    rc, out, err = run_san(exe)
    try:
        os.remove(exe)
    except OSError:
        pass
    return {"compiled": True, "diag": "", "exit": rc, "stdout": out, "stderr": err}


def p2_other_configs(rng, n):
    """One non-reference config per selection; over the selections a clang config and a c++20 config are used."""
    if n == 0:
        return []
    must = [rng.choice([c for c in CONFIGS if c[0] != "g++"])]
    if must[0][1] != "c++20" and n >= 2:
        must.append(rng.choice([c for c in CONFIGS if c[1] == "c++20"]))
    if n == 1:
        must = [("clang++-14", "c++20")]
    res = must[:n] + [rng.choice(CONFIGS[1:]) for _ in range(n - len(must[:n]))]
    rng.shuffle(res)
    return res


def p2_prepare(tier, rng, wd, selections, utab, ratio):
    """Generate one program per selection; returns (programs, jobs)."""
    prefixes = prefix_names()
    others = p2_other_configs(rng, len(selections))
    progs, jobs = [], []
    for sel, oc in zip(selections, others):
        reps = None
        if tier != "thorough":
            # quick: 5 of the 8 rep classes per program (always a sub-int one, a 64-bit one and a floating one)
            reps = [rng.choice(REPS[0:2]), rng.choice(REPS[4:6]), rng.choice(REPS[6:8])]
            reps += rng.sample([r for r in REPS if r not in reps], 1)     # (4 of 8: the directed surface program covers all reps every run)
            reps = [r for r in REPS if r in reps]
        g = P2Gen(rng, sel, utab, ratio, prefixes, reps)
        src = g.generate()
        cfgs = list(CONFIGS) if tier == "thorough" else [REF, oc]
        prog = {"sel": sel, "source": src, "oracle": g.oracle, "gen_stats": g.stats, "configs": cfgs, "results": {},
                "reps": [r[0] for r in g.reps]}
        progs.append(prog)
        base = os.path.join(wd, "p2", "sel%02d" % sel["id"])
        for cfg in cfgs:
            for pack in ("multi", "single"):
                def job(prog=prog, cfg=cfg, pack=pack, d=os.path.join(base, cfgtag(cfg) + "_" + pack)):
                    r = exec_p2(prog["source"], cfg, pack, prog["sel"]["header"], d)
                    return [("p2", cfg, r, {"prog": prog, "packaging": pack})]
                cost = (10 if cfg[0] != "g++" else 7) + 0.1 * len(sel["units"])
                jobs.append({"family": "P2", "cost": cost, "run": job})
    return progs, jobs


def parse_out(stdout):
    d = {}
    for l in stdout.split("\n"):
        if " = " in l:
            t, v = l.split(" = ", 1)
            d[t] = v
    return d


def value_token(v):
    return v.split(" ")[0].lstrip("@")


def first_diff(a, b):
    la, lb = a.split("\n"), b.split("\n")
    for i in range(max(len(la), len(lb))):
        x = la[i] if i < len(la) else "<missing>"
        y = lb[i] if i < len(lb) else "<missing>"
        if x != y:
            return i + 1, x, y
    return None


def p2_evaluate(prog, stats, violations):
    """Compare every (config, packaging) result with the reference (g++ c++14, multi) and with the oracle."""
    sel = prog["sel"]
    sname = sel_name(sel)
    res = prog["results"]
    ref = res.get((REF, "multi"))
    base = {"selection": sel_rec(sel), "header": sel["header"], "source": prog["source"]}
    if ref is None:
        return
    all_reject = all(not r["compiled"] for r in res.values())
    if not ref["compiled"]:
        accepted = [f"{cfgname(c)} {p}" for (c, p), r in res.items() if r["compiled"]]
        what = (f"P2 {sname}: generated program rejected by the reference configuration (g++ c++14, multi-header)"
                + (f" but accepted by {', '.join(accepted)}" if accepted else " and by every other configuration/packaging"
                   " (generator defect or a tree on which nothing compiles)"))
        violations.append(mk_violation(what, "p2-reference-rejected" if all_reject else f"p2-accept-mismatch:{sname}",
                                       "api-program", cfgname(REF), packaging="multi", expected="accepted",
                                       actual="rejected: " + ref["diag"], others_accepting=accepted, **base))
        stats["evaluations"] += len(res)
        return
    ref_lines = parse_out(ref["stdout"])
    # the reference run itself: exit status, sanitizer, oracle
    for (cfg, pack), r in sorted(res.items(), key=lambda kv: (cfgname(kv[0][0]), kv[0][1])):
        stats["evaluations"] += 1       # compile verdict
        tagc = f"{cfgname(cfg)}/{pack}"
        if not r["compiled"]:
            violations.append(mk_violation(
                f"P2 {sname}: program accepted by g++ c++14 multi-header but rejected by {cfgname(cfg)} in the {pack} packaging: "
                + first_error(r["diag"]),
                f"p2-accept-mismatch:{pack}:{norm_err(first_error(r['diag']))}", "api-program", cfgname(cfg),
                packaging=pack, expected="accepted (as under g++ c++14 multi-header)", actual="rejected: " + r["diag"], **base))
            continue
        stats["evaluations"] += 2       # exit status + stdout verdict
        stats["p2_runs"] += 1
        if r["exit"] != 0 or not r["stdout"].rstrip().endswith("END"):
            violations.append(mk_violation(
                f"P2 {sname}: program exits with {r['exit']} under {tagc}", f"p2-exit:{pack}:{cfgname(cfg)}", "api-program",
                cfgname(cfg), packaging=pack, expected="exit 0 and complete output",
                actual=f"exit={r['exit']} stderr={_tr(r['stderr'], 800)} stdout tail={r['stdout'][-300:]}", **base))
        if san_report(r["stderr"]):
            lines = [l for l in r["stderr"].split("\n") if any(m in l for m in SAN_MARKERS)]
            skey = re.sub(r"^.*?(runtime error|Sanitizer)", lambda m: m.group(1), lines[0])[:100]
            violations.append(mk_violation(
                f"P2 {sname}: sanitizer report under {tagc}: {lines[0][:300]}",
                f"p2-sanitizer:{skey}", "api-program", cfgname(cfg),
                packaging=pack, expected="no sanitizer report", actual=_tr(r["stderr"]), **base))
        if (cfg, pack) != (REF, "multi") and r["stdout"] != ref["stdout"]:
            dline = first_diff(ref["stdout"], r["stdout"])
            kind = "packaging" if cfg == REF else ("config" if pack == "multi" else "config+packaging")
            tagname = dline[1].split(" = ")[0] if dline else "?"
            violations.append(mk_violation(
                f"P2 {sname}: output differs ({kind}) between g++ c++14/multi and {tagc} at line {dline[0]}: "
                f"{dline[1]!r} vs {dline[2]!r}",
                f"p2-output:{kind}:{re.sub(r'^(i8|i16|i32|u32|i64|u64|f32|f64)[.]', '', tagname)[:60]}", "api-program",
                cfgname(cfg), packaging=pack, expected=dline[1], actual=dline[2], line=dline[0], **base))
    # independent exact oracle on the reference output
    nchk = 0
    for t, want in prog["oracle"].items():
        got = ref_lines.get(t)
        nchk += 1
        if got is None or value_token(got) != want:
            violations.append(mk_violation(
                f"P2 {sname}: oracle line `{t}`: exact value {want}, program printed {got!r} (g++ c++14, multi-header)",
                f"p2-oracle:{re.sub(r'^(i8|i16|i32|u32|i64|u64|f32|f64)[.]', '', t)[:60]}", "api-program", cfgname(REF),
                packaging="multi", expected=want, actual=str(got), tag=t, **base))
    stats["oracle_lines"] += nchk
    stats["evaluations"] += nchk
    stats["p2_output_lines"] += len(ref["stdout"].split("\n")) - 1
    for k, v in prog["gen_stats"].items():
        stats["p2_facts"][k] = stats["p2_facts"].get(k, 0) + v


# ------------------------------------------------------------------------------------------------
# explore / replay
# ------------------------------------------------------------------------------------------------


# ------------------------------------------------------------------------------------------------
# P6: the directed API-surface program (tools/c20_surface.py) and the small agreement probes
# ------------------------------------------------------------------------------------------------

def surface_jobs(tier, rng, wd):
    """The directed program under ALL six configurations in the multi-header packaging (every run, quick too) and in
    the single-file packaging (quick: reference + clang c++20; thorough: all six)."""
    src, nfacts = c20_surface.build(rng)
    d0 = os.path.join(wd, "surface")
    rc, header, err = generate_single({"units": [], "constants": [], "io": True}, os.path.join(d0, "single"))
    state = {"source": src, "facts": nfacts, "results": {}, "header": header if rc == 0 else None, "gen_err": err}
    jobs = []
    singles = list(CONFIGS) if tier == "thorough" else [REF, ("clang++-14", "c++20")]
    for cfg in CONFIGS:
        for pack in ("multi", "single"):
            if pack == "single" and (cfg not in singles or rc != 0):
                continue

            def job(cfg=cfg, pack=pack):
                r = exec_p2(src, cfg, pack, header, os.path.join(d0, cfgtag(cfg) + "_" + pack))
                return [("surface", cfg, r, {"packaging": pack, "state": state})]
            jobs.append({"family": "P6", "cost": 30 if cfg[0] != "g++" else 20, "run": job})
    for name, msrc, mode in c20_surface.MINI_PROBES:
        for cfg in CONFIGS:
            def mjob(name=name, msrc=msrc, mode=mode, cfg=cfg):
                d = os.path.join(d0, "mini_" + name, cfgtag(cfg))
                f = _write(os.path.join(d, "tu.cc"), msrc)
                if mode == "syntax":
                    rc2, diag = syntax_only(f, cfg, [vlib.AU_INC])
                else:
                    rc2, o, e = run([cfg[0], f"-std={cfg[1]}", "-O0", "-w", "-I", vlib.AU_INC, f, "-o", os.path.join(d, "tu")], timeout=1800)
                    diag = o + e
                    if rc2 == 0:
                        rc2, o, e = run([os.path.join(d, "tu")], timeout=120)
                        diag = f"exit={rc2} " + o + e
                ok = rc2 == 0
                return [("mini:" + name, cfg, {"ok": ok, "actual": "accepted" if ok else "rejected: " + _tr(diag)},
                         {"source": msrc, "packaging": "multi", "compiler": cfg[0], "std": cfg[1], "expected": "accepted, linked and run alike under all six configurations"})]
            jobs.append({"family": "P6", "cost": 3, "run": mjob})
    return state, jobs


def surface_evaluate(state, stats, violations):
    res = state["results"]
    base = {"source": state["source"]}
    stats["surface_facts"] = state["facts"]
    if state["header"] is None:
        violations.append(mk_violation("make-single-file fails for the empty selection with io: " + _tr(state["gen_err"], 400),
                                       "surface-single-gen", "surface", cfgname(REF), packaging="single", expected="header generated", actual=_tr(state["gen_err"]), **base))
    ref = res.get((REF, "multi"))
    if ref is None:
        return
    for (cfg, pack), r in sorted(res.items(), key=lambda kv: (cfgname(kv[0][0]), kv[0][1])):
        stats["evaluations"] += 1
        tagc = f"{cfgname(cfg)}/{pack}"
        if not r["compiled"]:
            fe = first_error(r["diag"])
            violations.append(mk_violation(f"directed API-surface program rejected under {tagc}: {fe}", f"surface-reject:{norm_err(fe)}", "surface",
                                           cfgname(cfg), packaging=pack, expected="accepted under every configuration and packaging",
                                           actual="rejected: " + r["diag"], compiler=cfg[0], std=cfg[1], **base))
            continue
        stats["evaluations"] += 2
        if r["exit"] != 0 or not r["stdout"].rstrip().endswith("END"):
            violations.append(mk_violation(f"directed API-surface program exits with {r['exit']} under {tagc}", f"surface-exit:{pack}:{cfgname(cfg)}", "surface",
                                           cfgname(cfg), packaging=pack, expected="exit 0", actual=f"exit={r['exit']} stderr={_tr(r['stderr'], 800)}", **base))
        if san_report(r["stderr"]):
            lines = [l for l in r["stderr"].split("\n") if any(m in l for m in SAN_MARKERS)]
            violations.append(mk_violation(f"directed API-surface program: sanitizer report under {tagc}: {lines[0][:300]}", "surface-sanitizer", "surface",
                                           cfgname(cfg), packaging=pack, expected="no sanitizer report", actual=_tr(r["stderr"]), **base))
        bad = [l for l in r["stdout"].split("\n") if "!MISMATCH" in l]
        for l in bad[:6]:
            t = l.split(" = ")[0]
            violations.append(mk_violation(f"directed API-surface program, {tagc}: value differs from the hand-derived exact expectation: {l[:300]}",
                                           f"surface-mismatch:{t}", "surface", cfgname(cfg), packaging=pack, expected="no !MISMATCH line", actual=l[:400], tag=t, **base))
        stats["evaluations"] += r["stdout"].count("\n")
        if (cfg, pack) != (REF, "multi") and ref["compiled"] and r["stdout"] != ref["stdout"]:
            dl = first_diff(ref["stdout"], r["stdout"])
            t = dl[1].split(" = ")[0] if dl else "?"
            violations.append(mk_violation(f"directed API-surface program: output differs between g++ c++14/multi and {tagc} at line {dl[0]}: {dl[1]!r} vs {dl[2]!r}",
                                           f"surface-output:{t}", "surface", cfgname(cfg), packaging=pack, expected=dl[1], actual=dl[2], line=dl[0], tag=t, **base))
    stats["surface_runs"] = len([r for r in res.values() if r["compiled"]])
    stats["surface_lines"] = ref["stdout"].count("\n") if ref["compiled"] else 0

PROBE_WHAT = {
    "leftover-include": "generated single-file header still contains a quoted (project) #include",
    "self-contained-include": "TU including the generated au.hh twice, with only its directory on the include path, is rejected",
    "two-tu-link": "two translation units including the generated au.hh do not link/run as expected",
    "standalone-header": "public header does not compile on its own",
    "double-include": "public header cannot be included twice in one TU (no include guard): the multi-header packaging "
                      "rejects a program that the single-file packaging (which de-duplicates) accepts",
    "fwd-then-full": "forward-declaration header followed by its full header (declared names used in between) is rejected",
    "full-then-fwd": "full header followed by its forward-declaration header is rejected",
    "fwd-then-full-batch": "all unit *_fwd.hh headers followed by all unit headers in one TU is rejected",
    "full-then-fwd-batch": "all unit headers followed by all unit *_fwd.hh headers in one TU is rejected",
    "mini:odr-static-unit": "ODR-use (reference / address) of the `unit` static data members does not compile+link alike",
    "mini:constexpr-copysign": "a constant expression calling au::copysign is not accepted alike",
    "mini:compound-assign-unitless": "built-in compound assignment `arithmetic op= unitless Quantity` is not accepted alike",
}


def _run_jobs(jobs):
    jobs = sorted(jobs, key=lambda j: -j["cost"])

    def one(j):
        t0 = time.time()
        try:
            res = j["run"]()
        except Exception as ex:          # a probe that cannot run is a failed probe, not a crash of the check
            res = [("internal-error", None, {"ok": False, "actual": f"{type(ex).__name__}: {ex}"}, {"source": ""})]
        return j["family"], time.time() - t0, res
    return pmap(one, jobs)


def explore(tier, seed, rng, wd, selections):
    t_start = time.time()
    cpu0 = sum(os.times()[2:4])
    violations, observations = [], []
    stats = {"evaluations": 0, "tier": tier, "seed": seed, "selections": len(selections), "probes": {}, "configs": set(),
             "cpu_s": {}, "wall_s": {}, "samples": [], "oracle_lines": 0, "p2_runs": 0, "p2_output_lines": 0, "p2_facts": {},
             "run_opt": RUN_OPT}
    utab = unit_table()
    headers, skipped = public_headers()
    stats["public_headers"] = len(headers)
    stats["skipped_headers"] = skipped

    # ---- phase A: everything that does not need the dimension table, plus the table itself -----------------------
    tables = {}

    def table_job():
        ratio, err = build_tables(wd, utab)
        tables["ratio"], tables["err"] = ratio, err
        return []
    jobs = [{"family": "tables", "cost": 100, "run": table_job}]
    jobs += p1_jobs(tier, rng, wd, selections, utab)
    j3, p3_other, p3_sub = p3_jobs(tier, rng, wd, headers)
    jobs += j3
    j4, pairs, missing = p4_jobs(tier, rng, wd)
    jobs += j4
    jobs.append(p5_job(wd))
    surf_state, j6 = surface_jobs(tier, rng, wd)
    jobs += j6
    stats["p3_other_config"] = p3_other
    stats["p3_subsample"] = len(p3_sub)
    stats["fwd_pairs"] = len(pairs)
    tA = time.time()
    resA = _run_jobs(jobs)
    stats["wall_s"]["phaseA(P1,P3,P4,P5,tables)"] = round(time.time() - tA, 2)

    for (hdr, miss) in missing:
        stats["evaluations"] += 1
        violations.append(mk_violation(f"{hdr} has no counterpart {miss}", f"fwd-missing:{miss}", "fwd-missing", cfgname(REF),
                                       header=hdr, missing=miss, packaging="multi", source="", expected=f"{miss} exists",
                                       actual="missing"))
    stats["evaluations"] += len(pairs)      # existence of each counterpart

    def absorb(results):
        for fam, dt, res in results:
            stats["cpu_s"][fam] = round(stats["cpu_s"].get(fam, 0) + dt, 2)
            for (probe, cfg, r, rec) in res:
                if probe == "observation":
                    observations.append(r)
                    continue
                if probe == "p2":
                    rec["prog"]["results"][(cfg, rec["packaging"])] = r
                    stats["configs"].add(cfgname(cfg))
                    continue
                if probe == "surface":
                    rec["state"]["results"][(cfg, rec["packaging"])] = r
                    stats["configs"].add(cfgname(cfg))
                    continue
                stats["evaluations"] += 1
                stats["probes"][probe] = stats["probes"].get(probe, 0) + 1
                cname = cfgname(cfg) if cfg else cfgname(REF)
                if cfg:
                    stats["configs"].add(cname)
                if not r["ok"]:
                    subject = rec.get("header") if probe in ("standalone-header", "double-include", "fwd-then-full",
                                                             "full-then-fwd", "fwd-then-full-batch",
                                                             "full-then-fwd-batch") else None
                    if subject is None and "selection" in rec:
                        subject = "sel[%s|%s|%s]" % (",".join(rec["selection"]["units"][:4]),
                                                     ",".join(rec["selection"]["constants"][:2]),
                                                     "io" if rec["selection"]["io"] else "noio")
                    fe = first_error(r["actual"])
                    what = f"{PROBE_WHAT.get(probe, probe)}: {subject} under {cname}: {fe}"
                    if probe == "double-include":
                        cls = f"{probe}:{subject}"
                    elif probe in ("standalone-header", "fwd-then-full", "full-then-fwd") and \
                            err_file(fe) in (os.path.basename(subject), "tu.cc"):
                        cls = f"{probe}:{subject}"
                    elif probe.startswith("mini:"):
                        cls = f"{probe}:{cname}"
                    elif probe == "leftover-include":
                        cls = f"{probe}:" + re.sub(r"^\d+: ", "", r["actual"].split(";")[0])
                    else:
                        cls = f"{probe}:{norm_err(fe)}"
                    violations.append(mk_violation(what, cls, probe, cname, actual=r["actual"], **rec))
                elif len(stats["samples"]) < 6 and probe not in [s["probe"] for s in stats["samples"]]:
                    stats["samples"].append({"probe": probe, "config": cname, "subject": rec.get("header"),
                                             "source": _tr(rec.get("source", ""), 400), "verdict": r["actual"][:120]})
    absorb(resA)
    surface_evaluate(surf_state, stats, violations)

    # ---- phase B: P2 ----------------------------------------------------------------------------------------------
    if tables.get("ratio") is None:
        violations.append(mk_violation("dimension/ratio table TU (all units, multi-header tree, g++ c++14) failed: "
                                       + str(tables.get("err")), "tables", "tables", cfgname(REF), packaging="multi",
                                       source="", expected="compiles and runs", actual=str(tables.get("err"))))
        progs = []
    else:
        tB = time.time()
        progs, j2 = p2_prepare(tier, rng, wd, selections, utab, tables["ratio"])
        stats["wall_s"]["P2 generate"] = round(time.time() - tB, 2)
        absorb(_run_jobs(j2))
        stats["wall_s"]["phaseB(P2)"] = round(time.time() - tB, 2)
        for prog in progs:
            p2_evaluate(prog, stats, violations)
        stats["probes"]["api-program"] = sum(len(p["results"]) for p in progs)
        stats["p2_programs"] = [{"selection": sel_name(p["sel"]), "configs": [cfgname(c) for c in p["configs"]],
                                 "fact_lines": p["source"].count('out("'), "oracle_lines": len(p["oracle"]), "reps": p["reps"]} for p in progs]
        if progs:
            ref = progs[0]["results"].get((REF, "multi"))
            if ref and ref["compiled"]:
                stats["samples"].append({"probe": "api-program", "selection": sel_name(progs[0]["sel"]),
                                         "first_output_lines": ref["stdout"].split("\n")[:6]})
    stats["configs"] = sorted(stats["configs"])
    stats["violations"] = len(violations)
    stats["wall_s"]["total"] = round(time.time() - t_start, 2)
    stats["children_cpu_s"] = round(sum(os.times()[2:4]) - cpu0, 1)     # user+sys of all compiler/program processes
    return stats, violations, observations


def replay(rec, wd):
    """Re-run exactly the recorded probe against the current tree. Returns 1 if it still fails, else 0."""
    probe = rec.get("probe")
    cfg = cfg_of(rec.get("config", cfgname(REF)))
    d = os.path.join(wd, "replay_c20")
    os.makedirs(d, exist_ok=True)
    print(f"replay: probe={probe} config={cfgname(cfg)} packaging={rec.get('packaging')} "
          f"subject={rec.get('header') if 'selection' not in rec else rec['selection']}")
    header = None
    if "selection" in rec:
        sel = dict(rec["selection"])
        rc, header, err = generate_single(sel, os.path.join(d, "single"))
        if rc != 0:
            print("replay: make-single-file fails on the current tree:", _tr(err, 800))
            return 1
        sel["header"] = header
    if probe == "leftover-include":
        r = exec_leftover(header)
    elif probe == "self-contained-include":
        r = exec_single_tu(header, rec["source"], cfg, os.path.join(d, "a"))
    elif probe == "two-tu-link":
        r = exec_two_tu(header, rec["sources"], cfg, os.path.join(d, "b"), p1_expect(sel))
    elif probe in ("standalone-header", "double-include", "fwd-then-full", "full-then-fwd", "fwd-then-full-batch",
                   "full-then-fwd-batch"):
        src = rec["source"]
        # the fwd probes derive the declared names from the fwd header: re-derive them from the current tree
        if probe in ("fwd-then-full", "full-then-fwd") and os.path.exists(os.path.join(vlib.AU_INC, rec["header"])):
            kind = "unit" if rec["header"].startswith("au/units/") else "core"
            src = p4_source(rec["header"], rec.get("full", []), kind, probe)
        elif probe.endswith("-batch"):
            src = p4_batch_source([q for q in fwd_pairs()[0] if q[2] == "unit"], probe[:-6])
        r = exec_src(src, cfg, os.path.join(d, "hdr"))
    elif probe == "surface" or (probe or "").startswith("mini:"):
        # the recorded source is the input; the single-file header is regenerated from the current tree
        pack = rec.get("packaging", "multi")
        hdr = None
        if pack == "single":
            rc, hdr, err = generate_single({"units": [], "constants": [], "io": True}, os.path.join(d, "single"))
            if rc != 0:
                print("replay: make-single-file fails on the current tree:", _tr(err, 800))
                return 1
        if probe == "surface":
            ref = exec_p2(rec["source"], REF, "multi", hdr, os.path.join(d, "ref"))
            cur = ref if (cfg == REF and pack == "multi") else exec_p2(rec["source"], cfg, pack, hdr, os.path.join(d, "cur"))
            bad = (not cur["compiled"]) or cur["exit"] != 0 or "!MISMATCH" in cur["stdout"] or san_report(cur["stderr"]) or \
                (ref["compiled"] and cur["stdout"] != ref["stdout"])
            print(f"replay: reference compiled={ref['compiled']}; probed compiled={cur['compiled']} exit={cur['exit']} "
                  f"mismatch lines={[l for l in cur['stdout'].split(chr(10)) if '!MISMATCH' in l][:5]} "
                  f"first diff={first_diff(ref['stdout'], cur['stdout']) if ref['compiled'] and cur['compiled'] else None}")
            if not cur["compiled"]:
                print(_tr(cur["diag"], 1200))
            r = {"ok": not bad, "actual": "holds" if not bad else "fails"}
        else:
            f = _write(os.path.join(d, "mini", "tu.cc"), rec["source"])
            rc2, o, e = run([cfg[0], f"-std={cfg[1]}", "-O0", "-w", "-I", vlib.AU_INC, f, "-o", os.path.join(d, "mini", "tu")], timeout=1800)
            r = {"ok": rc2 == 0, "actual": "accepted" if rc2 == 0 else "rejected: " + _tr(o + e)}
    elif probe == "fwd-missing":
        ok = os.path.exists(os.path.join(vlib.AU_INC, rec["missing"]))
        r = {"ok": ok, "actual": "exists" if ok else "missing"}
    elif probe == "tables":
        ratio, err = build_tables(os.path.join(d, "t"), unit_table())
        r = {"ok": ratio is not None, "actual": str(err)}
    elif probe == "api-program":
        ref = exec_p2(rec["source"], REF, "multi", header, os.path.join(d, "ref"))
        cur = ref if (cfg == REF and rec.get("packaging") == "multi") else \
            exec_p2(rec["source"], cfg, rec.get("packaging", "multi"), header, os.path.join(d, "cur"))
        prog = {"sel": sel, "source": rec["source"], "oracle": {}, "gen_stats": {}, "configs": [REF, cfg],
                "results": {(REF, "multi"): ref, (cfg, rec.get("packaging", "multi")): cur}}
        if rec.get("tag"):
            prog["oracle"] = {rec["tag"]: rec["expected"]}
        st = {"evaluations": 0, "p2_runs": 0, "oracle_lines": 0, "p2_output_lines": 0, "p2_facts": {}}
        vs = []
        p2_evaluate(prog, st, vs)
        for v in vs:
            print("  still failing:", v["what"][:600])
        print(f"replay: reference compiled={ref['compiled']} exit={ref['exit']}; probed compiled={cur['compiled']} exit={cur['exit']}")
        if not vs:
            print("replay: property holds on this case")
        return 1 if vs else 0
    else:
        print("replay: unknown probe", probe)
        return 1
    print("expected:", rec.get("expected"))
    print("observed:", _tr(r["actual"], 1200))
    if r["ok"]:
        print("replay: property holds on this case")
    return 0 if r["ok"] else 1

"""C20 — the DIRECTED API-surface program.

One program, independent of any unit/constant selection (it uses only what au/au.hh + au/io.hh provide plus units it
defines itself), emitted in EVERY run and compiled+run under all six configurations (and in the single-file packaging).
It walks the public API family by family — every operator of every family in BOTH operand orders, same and mixed
units/reps, foreign (chrono) operands on either side, hidden friends and free templates, every wrapper spelling
(maker, point maker, singular name, symbol, prefix, constant), math.hh, io.hh, the magnitude API, the traits, and the
constructs whose meaning depends on the language standard (rewritten comparisons and <=> in C++20, ODR-use of constexpr
static members in C++14, constexpr evaluation, CTAD in C++17, noexcept) — with hand-derived expected values checked
inside the program (`CK`): a line whose value differs from the exact expectation prints `!MISMATCH`.

Judgement (done by c20_cxx): accepted everywhere, exit 0, no sanitizer report, byte-identical stdout across
configurations and packagings, and no `!MISMATCH` line.
"""
from fractions import Fraction as F

PRELUDE = r'''
#include <chrono>
#include <cmath>
#include <cstdint>
#include <cstdio>
#include <limits>
#include <sstream>
#include <string>
#include <type_traits>
#include <utility>
#if defined(AU_C20_SINGLE)
#include "au.hh"
#else
#include "au/au.hh"
#include "au/io.hh"
#endif

namespace sx {
// ---- units defined by the program itself (the way the library's own unit headers do it) ----
template <class T> struct MtrLabel { static constexpr const char label[] = "mtr"; };
template <class T> constexpr const char MtrLabel<T>::label[];
struct Mtr : au::UnitImpl<au::Length>, MtrLabel<void> { using MtrLabel<void>::label; };
template <class T> struct FtLabel { static constexpr const char label[] = "ft"; };
template <class T> constexpr const char FtLabel<T>::label[];
struct Ft : decltype(Mtr{} * au::mag<381>() / au::mag<1250>()), FtLabel<void> { using FtLabel<void>::label; };
template <class T> struct KelLabel { static constexpr const char label[] = "Kel"; };
template <class T> constexpr const char KelLabel<T>::label[];
struct Kel : au::UnitImpl<au::Temperature>, KelLabel<void> { using KelLabel<void>::label; };
constexpr auto kel = au::QuantityMaker<Kel>{};
constexpr auto kel_pt = au::QuantityPointMaker<Kel>{};
template <class T> struct CelLabel { static constexpr const char label[] = "Cel"; };
template <class T> constexpr const char CelLabel<T>::label[];
struct Cel : Kel, CelLabel<void> {
    using CelLabel<void>::label;
    static constexpr auto origin() { return au::centi(kel)(27315); }
};
constexpr auto mtr = au::QuantityMaker<Mtr>{};
constexpr auto mtr_pt = au::QuantityPointMaker<Mtr>{};
constexpr auto a_mtr = au::SingularNameFor<Mtr>{};
constexpr auto m_sym = au::SymbolFor<Mtr>{};
constexpr auto ft = au::QuantityMaker<Ft>{};
constexpr auto ft_pt = au::QuantityPointMaker<Ft>{};
constexpr auto a_ft = au::SingularNameFor<Ft>{};
constexpr auto ft_sym = au::SymbolFor<Ft>{};
constexpr auto cel = au::QuantityMaker<Cel>{};
constexpr auto cel_pt = au::QuantityPointMaker<Cel>{};
constexpr auto s_sym = au::SymbolFor<au::Seconds>{};

// ---- inputs the optimiser cannot see through ----
template <class T> T I(long long v) { volatile long long x = v; return static_cast<T>(x); }
inline double D(double v) { volatile double x = v; return x; }
inline float Fl(float v) { volatile float x = v; return x; }

// ---- printing: every value as an exact hex long double, with the rep and the unit label ----
static int g_mismatch = 0;
template <class T> struct RepName { static const char *get() { return "other"; } };
#define SX_REP(T, N) template <> struct RepName<T> { static const char *get() { return N; } };
SX_REP(bool, "bool") SX_REP(char, "char") SX_REP(signed char, "i8") SX_REP(unsigned char, "u8")
SX_REP(short, "i16") SX_REP(unsigned short, "u16") SX_REP(int, "i32") SX_REP(unsigned, "u32")
SX_REP(long, "i64") SX_REP(unsigned long, "u64") SX_REP(long long, "ll") SX_REP(unsigned long long, "ull")
SX_REP(float, "f32") SX_REP(double, "f64") SX_REP(long double, "f80")
struct NoWant {};
inline void tail(NoWant, long double) { std::printf("\n"); }
inline void tail(long double want, long double got) {
    if (want == got) { std::printf("\n"); } else { ++g_mismatch; std::printf(" !MISMATCH want %La\n", want); }
}
template <class W, class T, class = typename std::enable_if<std::is_arithmetic<T>::value>::type>
void show(const char *tag, T v, W want) {
    std::printf("%s = %La [%s]", tag, static_cast<long double>(v), RepName<T>::get());
    tail(want, static_cast<long double>(v));
}
template <class W, class U, class R> void show(const char *tag, au::Quantity<U, R> q, W want) {
    std::printf("%s = %La [%s] %s", tag, static_cast<long double>(q.in(U{})), RepName<R>::get(), au::unit_label(U{}));
    tail(want, static_cast<long double>(q.in(U{})));
}
template <class W, class U, class R> void show(const char *tag, au::QuantityPoint<U, R> p, W want) {
    std::printf("%s = @%La [%s] %s", tag, static_cast<long double>(p.in(U{})), RepName<R>::get(), au::unit_label(U{}));
    tail(want, static_cast<long double>(p.in(U{})));
}
inline void shows(const char *tag, const std::string &s, const char *want = nullptr) {
    std::printf("%s = \"%s\"", tag, s.c_str());
    if (want && s != want) { ++g_mismatch; std::printf(" !MISMATCH want \"%s\"\n", want); } else { std::printf("\n"); }
}
template <class T> std::string str(const T &x) { std::ostringstream o; o << x; return o.str(); }
#define V(tag, ...) ::sx::show(tag, (__VA_ARGS__), ::sx::NoWant{})
#define CK(tag, want, ...) ::sx::show(tag, (__VA_ARGS__), static_cast<long double>(want))
#define TY(T, ...) static_assert(std::is_same<decltype(__VA_ARGS__), T>::value, "type of " #__VA_ARGS__)
#define SA(...) static_assert((__VA_ARGS__), #__VA_ARGS__)

template <class T, class = typename std::enable_if<std::is_arithmetic<T>::value>::type> T rawof(T x) { return x; }
template <class U, class R> R rawof(au::Quantity<U, R> q) { R r = q; return r; }   // implicit conversion of a unitless Quantity

// three-way comparison through <=> where the language has it, through < > == otherwise: same printed value
template <class A, class B> int sign3(A a, B b) {
#if defined(__cpp_impl_three_way_comparison) && __cpp_impl_three_way_comparison >= 201907L
    auto c = (a <=> b);
    return (c < 0) ? -1 : ((c > 0) ? 1 : ((c == 0) ? 0 : 2));
#else
    return (a < b) ? -1 : ((a > b) ? 1 : ((a == b) ? 0 : 2));
#endif
}
}  // namespace sx
using namespace sx;
'''

OPS = [("eq", "==", lambda a, b: a == b), ("ne", "!=", lambda a, b: a != b), ("lt", "<", lambda a, b: a < b),
       ("le", "<=", lambda a, b: a <= b), ("gt", ">", lambda a, b: a > b), ("ge", ">=", lambda a, b: a >= b)]


class Gen:
    def __init__(self, rng):
        self.rng = rng
        self.funcs = []
        self.cur = None
        self.tags = set()
        self.n = 0

    def begin(self, name):
        self.cur = []
        self.funcs.append((name, self.cur))

    def raw(self, *lines):
        self.cur += list(lines)

    def tag(self, t):
        assert t not in self.tags, t
        self.tags.add(t)
        self.n += 1
        return t

    def ck(self, t, want, expr):
        self.raw('CK("%s", %s, %s);' % (self.tag(t), lit(want), expr))

    def v(self, t, expr):
        self.raw('V("%s", %s);' % (self.tag(t), expr))

    def cmp_family(self, t, l, r, lv, rv, three=True):
        """All six comparison operators in BOTH operand orders (+ three-way), exact expectations from lv, rv."""
        for name, sym, fn in OPS:
            self.ck("%s.%s.lr" % (t, name), int(fn(lv, rv)), "((%s) %s (%s)) ? 1 : 0" % (l, sym, r))
            self.ck("%s.%s.rl" % (t, name), int(fn(rv, lv)), "((%s) %s (%s)) ? 1 : 0" % (r, sym, l))
        if three:
            s = lambda a, b: -1 if a < b else (1 if a > b else 0)
            self.ck("%s.cmp3.lr" % t, s(lv, rv), "sign3(%s, %s)" % (l, r))
            self.ck("%s.cmp3.rl" % t, s(rv, lv), "sign3(%s, %s)" % (r, l))

    def addsub_family(self, t, l, r, lv, rv):
        self.ck(t + ".add.lr", lv + rv, "(%s) + (%s)" % (l, r))
        self.ck(t + ".add.rl", rv + lv, "(%s) + (%s)" % (r, l))
        self.ck(t + ".sub.lr", lv - rv, "(%s) - (%s)" % (l, r))
        self.ck(t + ".sub.rl", rv - lv, "(%s) - (%s)" % (r, l))

    def source(self):
        body = [PRELUDE]
        for name, lines in self.funcs:
            body.append("static void f_%s() {" % name)
            body += ["    " + l for l in lines]
            body.append("}")
        body.append("int main() {")
        body += ["    f_%s();" % name for name, _ in self.funcs]
        body.append('    std::printf("MISMATCHES %d\\n", sx::g_mismatch);')
        body.append('    std::printf("END\\n");')
        body.append("    return 0;")
        body.append("}")
        return "\n".join(body) + "\n"


def lit(x):
    """Exact C++ long double literal for an int / dyadic Fraction / float."""
    if isinstance(x, bool):
        return "1" if x else "0"
    if isinstance(x, int):
        return "%dLL" % x if abs(x) < (1 << 63) else "%dULL" % x
    if isinstance(x, F):
        if x.denominator == 1:
            return lit(int(x))
        assert x.denominator & (x.denominator - 1) == 0, x
        return "(%dLL / %d.0L)" % (x.numerator, x.denominator)
    if isinstance(x, float):
        return lit(F(x))
    raise TypeError(x)


def c_div(a, b):
    q = abs(a) // abs(b)
    return q if (a >= 0) == (b > 0) else -q


def c_mod(a, b):
    return a - b * c_div(a, b)


# ------------------------------------------------------------------------------------------------
# sections
# ------------------------------------------------------------------------------------------------

REPS = [("i16", "int16_t", True, False), ("i32", "int", True, False), ("u64", "uint64_t", False, False),
        ("f64", "double", True, True), ("f32", "float", True, True), ("i8", "int8_t", True, False)]


def sec_quantity_same(g):
    """Quantity<U,R> with itself: the hidden friends and members, per rep."""
    r = g.rng
    for k, T, signed, isf in REPS:
        g.begin("qsame_" + k)
        hi = 11 if k == "i8" else 90
        x, y = r.randrange(5, hi), r.randrange(2, 5)            # x > y > 1: every operator is asymmetric
        s = r.randrange(2, 5)
        ld = (lambda v: "D(%r)" % float(v)) if T == "double" else ((lambda v: "Fl(%r)" % float(v)) if T == "float" else
                                                                    (lambda v: "I<%s>(%d)" % (T, v)))
        g.raw("const auto a = mtr(%s); const auto b = mtr(%s); const auto s = %s;" % (ld(x), ld(y), ld(s)))
        g.raw("static_assert(std::is_same<decltype(a), const au::Quantity<Mtr, %s>>::value, \"maker(T) makes Quantity<U, T>\");" % T)
        p = "qsame." + k
        g.cmp_family(p, "a", "b", x, y)
        g.cmp_family(p + ".self", "a", "a", x, x, three=False)
        g.ck(p + ".add", x + y, "a + b")
        g.ck(p + ".sub", x - y, "a - b")
        g.ck(p + ".sub.rl", y - x if signed else None, "b - a") if signed else None
        g.ck(p + ".mul.qs", x * s, "a * s")
        g.ck(p + ".mul.sq", s * y, "s * b")
        g.ck(p + ".div.qs", F(x, s) if isf else c_div(x, s), "a / s") if (not isf or F(x, s).denominator & (F(x, s).denominator - 1) == 0) else g.v(p + ".div.qs", "a / s")
        if isf:
            g.v(p + ".div.sq", "s / b")
            g.v(p + ".div.qq", "a / b")
        else:
            g.ck(p + ".div.sq", c_div(s * 7, y), "(s * s * s * s) / au::unblock_int_div(b)") if False else None
            g.ck(p + ".div.qq", c_div(x, y), "a / au::unblock_int_div(b)")
            g.ck(p + ".div.raw_unblock", c_div(x, s), "a / au::unblock_int_div(s)")
            g.ck(p + ".div.sq", c_div(x * 3, y), "static_cast<%s>(%d) / au::unblock_int_div(b)" % (T, x * 3)) if x * 3 < 127 or k != "i8" else None
        g.ck(p + ".mul.qq", x * y, "a * b")
        g.raw("{ auto c = a; c += b; CK(\"%s\", %s, c); c -= b; c -= b; CK(\"%s\", %s, c); c *= s; CK(\"%s\", %s, c); }" % (
            g.tag(p + ".pluseq"), lit(x + y), g.tag(p + ".minuseq"), lit(x - y), g.tag(p + ".timeseq"), lit((x - y) * s)))
        if isf:
            g.raw("{ auto c = a; c /= s; V(\"%s\", c); }" % g.tag(p + ".diveq"))
        else:
            g.raw("{ auto c = a; c /= s; CK(\"%s\", %s, c); }" % (g.tag(p + ".diveq"), lit(c_div(x, s))))
        wide = k in ("i32", "u64", "f64", "f32")            # F4: no %, unary +/- on sub-int reps
        if wide and not isf:
            g.ck(p + ".mod", c_mod(x, y), "a % b")
            g.ck(p + ".mod.rl", c_mod(y, x), "b % a")
        if wide and signed:
            g.ck(p + ".neg", -x, "-a")
            g.ck(p + ".pos", y, "+b")
        g.ck(p + ".min", y, "min(a, b)")
        g.ck(p + ".min.rl", y, "min(b, a)")
        g.ck(p + ".max", x, "max(b, a)")
        g.ck(p + ".clamp.hi", y, "clamp(a, b - b, b)")
        g.ck(p + ".clamp.lo", x, "clamp(b, a, a + a)")
        g.ck(p + ".clamp.mid", y + 1 if not isf else y + 1, "clamp(b + mtr(%s), b, a)" % ld(1))
        # members
        g.ck(p + ".in", x, "a.in(mtr)")
        g.ck(p + ".in.unit_type", x, "a.in(Mtr{})")
        g.ck(p + ".in.singular", x, "a.in(a_mtr)")
        g.ck(p + ".in.symbol", x, "a.in(m_sym)")
        g.ck(p + ".as", x, "a.as(mtr)")
        g.ck(p + ".in.rep", x, "a.in<double>(mtr)")
        g.ck(p + ".as.rep", x, "a.as<long long>(mtr)") if not isf else g.ck(p + ".as.rep", x, "a.as<long double>(mtr)")
        g.ck(p + ".coerce_in", x, "a.coerce_in(mtr)")
        g.ck(p + ".coerce_as", x, "a.coerce_as(mtr)")
        g.ck(p + ".coerce_in.rep", x, "a.coerce_in<short>(mtr)")
        g.ck(p + ".coerce_as.rep", x, "a.coerce_as<float>(mtr)")
        g.raw("{ auto c = a; c.data_in(mtr) = s; CK(\"%s\", %s, c); CK(\"%s\", %s, a.data_in(Mtr{})); }" % (
            g.tag(p + ".data_in"), lit(s), g.tag(p + ".data_in.const"), lit(x)))
        g.ck(p + ".rep_cast", x, "au::rep_cast<double>(a)")
        g.ck(p + ".make_quantity", y, "au::make_quantity<Mtr>(%s)" % ld(y))
        g.raw("{ au::Quantity<Mtr, %s> z = au::ZERO; CK(\"%s\", 0, z); au::Quantity<Mtr, %s> dflt{}; CK(\"%s\", 0, dflt); }" % (
            T, g.tag(p + ".from_zero"), T, g.tag(p + ".default")))
        g.ck(p + ".unit_member", 1, "std::is_same<std::remove_cv_t<decltype(a.unit)>, Mtr>::value ? 1 : 0")
        g.ck(p + ".unit_static", 1, "std::is_same<typename std::remove_cv_t<decltype(a)>::Unit, Mtr>::value ? 1 : 0")
        g.ck(p + ".rep_alias", 1, "std::is_same<typename std::remove_cv_t<decltype(a)>::Rep, %s>::value ? 1 : 0" % T)
        # unitless: conversion to the raw number
        g.raw("{ const auto u = a / b * b / a; (void)u; }") if isf else None
        g.ck(p + ".unitless.raw", F(x, x) if isf else 1, "au::as_raw_number(a / %s)" % ("a" if isf else "au::unblock_int_div(a)"))
        g.ck(p + ".unitless.implicit", 1, "rawof(a / %s)" % ("a" if isf else "au::unblock_int_div(a)"))
    g.funcs = [(n, [l for l in ls if l is not None]) for n, ls in g.funcs]


def sec_quantity_mixed(g):
    """Different units and/or reps: the free operator templates, both operand orders; math.hh mixed overloads."""
    r = g.rng
    g.begin("qmixed")
    x = r.randrange(3, 40)
    y = r.randrange(2, 30)
    # (tag, lhs, rhs, lhs value, rhs value) — values counted in the COMMON unit of the pair, which is what the
    # library must compute in (hand-derived: ft = 381/1250 mtr, so common(mtr, ft) = mtr/1250)
    fams = [
        ("mtr_i32.ft_i32", "mtr(I<int>(%d))" % x, "ft(I<int>(%d))" % y, 1250 * x, 381 * y, True),
        ("mtr_i32.mtr_f64", "mtr(I<int>(%d))" % x, "mtr(D(%d.5))" % y, F(x), F(2 * y + 1, 2), False),
        ("mtr_i32.milli_i32.equal", "mtr(I<int>(%d))" % x, "au::milli(mtr)(I<int>(%d))" % (1000 * x), 1000 * x, 1000 * x, True),
        ("mtr_i16.mtr_i8", "mtr(I<int16_t>(%d))" % (300 + x), "mtr(I<int8_t>(%d))" % (-y), 300 + x, -y, True),
        ("mtr_u16.mtr_i8", "mtr(I<uint16_t>(%d))" % (60000 + x), "mtr(I<int8_t>(%d))" % (-y), 60000 + x, -y, True),
        ("mtr_i64.mtr_i32", "mtr(I<int64_t>(%d))" % (5000000000 + x), "mtr(I<int>(%d))" % (-y), 5000000000 + x, -y, True),
        ("mtr_f32.ft_f64", "mtr(Fl(%d.0f))" % (2 * x), "ft(D(%d.0))" % (1250 * y), None, None, False),
        ("kilo_i32.mtr_i64", "au::kilo(mtr)(I<int>(%d))" % x, "mtr(I<int64_t>(%d))" % (1000 * x + 1), 1000 * x, 1000 * x + 1, True),
    ]
    for t, l, rr, lv, rv, integral in fams:
        g.raw("{ const auto l = %s; const auto r = %s;" % (l, rr))
        p = "qmixed." + t
        if lv is None:
            for name, sym, _ in OPS:
                g.v("%s.%s.lr" % (p, name), "(l %s r) ? 1 : 0" % sym)
                g.v("%s.%s.rl" % (p, name), "(r %s l) ? 1 : 0" % sym)
            g.v(p + ".add.lr", "l + r"), g.v(p + ".add.rl", "r + l"), g.v(p + ".sub.lr", "l - r"), g.v(p + ".sub.rl", "r - l")
            g.v(p + ".min", "au::min(l, r)"), g.v(p + ".max", "au::max(r, l)")
        else:
            g.cmp_family(p, "l", "r", lv, rv)
            g.addsub_family(p, "l", "r", lv, rv)
            g.ck(p + ".min.lr", min(lv, rv), "au::min(l, r)")
            g.ck(p + ".min.rl", min(lv, rv), "au::min(r, l)")
            g.ck(p + ".max.lr", max(lv, rv), "au::max(l, r)")
            g.ck(p + ".max.rl", max(lv, rv), "au::max(r, l)")
            g.ck(p + ".clamp", min(max(lv, rv), lv + rv) if rv >= 0 else None, "au::clamp(l, r, l + r)") if rv >= 0 else None
            if integral and rv != 0 and lv != 0:
                g.ck(p + ".mod.lr", c_mod(lv, rv), "l % r")
                g.ck(p + ".mod.rl", c_mod(rv, lv), "r % l")
        g.v(p + ".common_type.label", "au::unit_label(typename std::common_type_t<std::remove_cv_t<decltype(l)>, std::remove_cv_t<decltype(r)>>::Unit{})") \
            if False else None
        g.raw("{ using CT = std::common_type_t<std::remove_cv_t<decltype(l)>, std::remove_cv_t<decltype(r)>>; "
              "static_assert(std::is_same<CT, std::common_type_t<std::remove_cv_t<decltype(r)>, std::remove_cv_t<decltype(l)>>>::value, \"common_type is symmetric\"); "
              "static_assert(std::is_same<CT, std::remove_cv_t<decltype(l + r)>>::value || !std::is_same<typename CT::Rep, decltype(typename CT::Rep{} + typename CT::Rep{})>::value, \"sum has the common type\"); "
              "sx::shows(\"%s\", au::unit_label(typename CT::Unit{})); sx::shows(\"%s\", sx::RepName<typename CT::Rep>::get()); }" % (
                  g.tag(p + ".common_type.unit"), g.tag(p + ".common_type.rep")))
        g.v(p + ".mul.lr", "l * r"), g.v(p + ".mul.rl", "r * l")
        g.v(p + ".fmod", "au::fmod(l, r)"), g.v(p + ".remainder", "au::remainder(r, l)")
        g.v(p + ".hypot", "au::hypot(l, r)"), g.v(p + ".arctan2", "au::arctan2(l, r)")
        g.v(p + ".copysign.qq", "au::copysign(l, r)"), g.v(p + ".copysign.rl", "au::copysign(r, l)")
        g.raw("}")
    g.funcs = [(n, [l for l in ls if l is not None]) for n, ls in g.funcs]


def sec_qlike_zero(g):
    """Foreign quantity-like types (std::chrono durations) on either side of every mixed operator; Zero."""
    r = g.rng
    g.begin("qlike")
    z = r.randrange(2, 50)
    fams = [
        ("sec_i32.chrono_ms", "au::seconds(I<int>(%d))" % z, "std::chrono::milliseconds(I<long long>(%d))" % (1000 * z - 1), 1000 * z, 1000 * z - 1),
        ("min_i32.chrono_s.equal", "au::minutes(I<int>(%d))" % z, "std::chrono::seconds(I<long long>(%d))" % (60 * z), 60 * z, 60 * z),
        ("sec_f64.chrono_f64.equal", "au::seconds(D(%d.5))" % z, "std::chrono::duration<double>(D(%d.5))" % z, F(2 * z + 1, 2), F(2 * z + 1, 2)),
        ("ms_i64.chrono_h", "au::milli(au::seconds)(I<int64_t>(%d))" % (3600000 * z + 1), "std::chrono::hours(I<long long>(%d))" % z, 3600000 * z + 1, 3600000 * z),
        ("hours_i32.chrono_ns", "au::hours(I<int64_t>(1))", "std::chrono::nanoseconds(I<long long>(%d))" % (3600 * 10 ** 9 + z), 3600 * 10 ** 9, 3600 * 10 ** 9 + z),
    ]
    for t, l, rr, lv, rv in fams:
        g.raw("{ const auto l = %s; const auto r = %s;" % (l, rr))
        p = "qlike." + t
        g.cmp_family(p, "l", "r", lv, rv, three=False)
        g.addsub_family(p, "l", "r", lv, rv)
        g.raw("}")
    g.raw("{ const std::chrono::milliseconds ms(I<long long>(%d));" % (1000 * z + 7))
    g.ck("qlike.as_quantity", 1000 * z + 7, "au::as_quantity(ms)")
    g.raw('static_assert(std::is_same<decltype(au::as_quantity(ms)), au::Quantity<au::Milli<au::Seconds>, std::chrono::milliseconds::rep>>::value, "as_quantity(ms)");')
    g.raw("{ au::QuantityD<au::Seconds> q = ms; V(\"%s\", q); }" % g.tag("qlike.implicit_ctor.f64"))
    g.raw("{ au::Quantity<au::Micro<au::Seconds>, int64_t> q = ms; CK(\"%s\", %d, q); q = std::chrono::seconds(I<long long>(2)); CK(\"%s\", 2000000, q); }" % (
        g.tag("qlike.implicit_ctor.us"), (1000 * z + 7) * 1000, g.tag("qlike.assign")))
    g.raw("{ std::chrono::nanoseconds ns = au::seconds(I<long long>(%d)); CK(\"%s\", %d, static_cast<long long>(ns.count())); }" % (z, g.tag("qlike.to_chrono.implicit"), z * 10 ** 9))
    g.raw("{ std::chrono::duration<double> dd = au::milli(au::seconds)(D(%d.0)); CK(\"%s\", %s, dd.count()); }" % (z * 500, g.tag("qlike.to_chrono.f64"), lit(F(z, 2))))
    g.raw("{ const auto d = au::as_chrono_duration(au::hours(I<int>(%d))); CK(\"%s\", %d, static_cast<long long>(std::chrono::duration_cast<std::chrono::seconds>(d).count())); "
          "static_assert(std::is_same<std::remove_cv_t<decltype(d)>, std::chrono::duration<int, std::ratio<3600>>>::value, \"as_chrono_duration\"); }" % (z, g.tag("qlike.as_chrono_duration"), 3600 * z))
    g.raw("{ std::chrono::seconds cs = au::ZERO; CK(\"%s\", 0, static_cast<long long>(cs.count())); }" % g.tag("qlike.zero_to_chrono"))
    g.raw("}")

    g.begin("zero")
    for name, sym, fn in OPS:
        g.ck("zero.zz." + name, int(fn(0, 0)), "(au::ZERO %s au::ZERO) ? 1 : 0" % sym)
    g.raw('static_assert(std::is_same<decltype(au::ZERO + au::ZERO), au::Zero>::value && std::is_same<decltype(au::ZERO - au::ZERO), au::Zero>::value, "Zero +/- Zero");')
    for k, e, v in [("i32.neg", "mtr(I<int>(-4))", -4), ("f64.equal", "mtr(D(0.0))", 0), ("f64.negzero", "mtr(D(-0.0))", 0),
                    ("u32.equal", "mtr(I<unsigned>(0))", 0), ("i8.pos", "mtr(I<int8_t>(5))", 5), ("f32.pos", "ft(Fl(0.25f))", F(1, 4))]:
        g.raw("{ const auto q = %s;" % e)
        g.cmp_family("zero.q." + k, "q", "au::ZERO", v, 0, three=False)
        g.ck("zero.q.%s.add.lr" % k, v, "q + au::ZERO")
        g.ck("zero.q.%s.add.rl" % k, v, "au::ZERO + q")
        g.ck("zero.q.%s.sub.lr" % k, v, "q - au::ZERO")
        if not k.startswith("u32"):
            g.ck("zero.q.%s.sub.rl" % k, -v, "au::ZERO - q")
        g.raw("{ auto c = q; c = au::ZERO; CK(\"%s\", 0, c); c += au::ZERO; c -= au::ZERO; CK(\"%s\", 0, c); }" % (g.tag("zero.q.%s.assign" % k), g.tag("zero.q.%s.compound" % k)))
        g.ck("zero.q.%s.min" % k, min(v, 0), "min(q, decltype(q){au::ZERO})")
        g.raw("}")
    g.raw("{ int i = au::ZERO; double d = au::ZERO; unsigned char c = au::ZERO; CK(\"%s\", 0, i); CK(\"%s\", 0, d); CK(\"%s\", 0, c); }" % (
        g.tag("zero.to_int"), g.tag("zero.to_double"), g.tag("zero.to_uchar")))
    g.raw('static_assert(std::is_same<decltype(au::rep_cast<int>(au::ZERO)), au::Zero>::value, "rep_cast<T>(ZERO)");')
    g.raw('static_assert(!std::is_constructible<au::QuantityPoint<Kel, int>, au::Zero>::value, "a point cannot be made from ZERO");')


def build(rng):
    g = Gen(rng)
    for sec in SECTIONS:
        sec(g)
    return g.source(), g.n


SECTIONS = [sec_quantity_same, sec_quantity_mixed, sec_qlike_zero]

"""C20 — the DIRECTED API-surface program.

One program, independent of any unit/constant selection (it uses only what au/au.hh + au/io.hh provide plus units it
defines itself), emitted in EVERY run and compiled+run under all six configurations (and in the single-file packaging).
It walks the public API family by family — every operator of every family in BOTH operand orders, same and mixed
units/reps, foreign (chrono) operands on either side, hidden friends and free templates, every wrapper spelling
(maker, point maker, singular name, symbol, prefix, constant), math.hh, io.hh, the magnitude API, the traits, and the
constructs whose meaning depends on the language standard (rewritten comparisons and <=> in C++20, ODR-use of constexpr
static members in C++14, constexpr evaluation, CTAD in C++17, noexcept) — with hand-derived expected values checked
inside the program (`CK`): a line whose value differs from the exact expectation prints `!MISMATCH`.

Judgement (done by c20_cxx): accepted everywhere, exit 0, no sanitizer report, byte-identical stdout across
configurations and packagings, and no `!MISMATCH` line.
"""
from fractions import Fraction as F

PRELUDE = r'''
#include <chrono>
#include <cmath>
#include <cstdint>
#include <cstdio>
#include <limits>
#include <sstream>
#include <string>
#include <type_traits>
#include <utility>
#if defined(AU_C20_SINGLE)
#include "au.hh"
#else
#include "au/au.hh"
#include "au/io.hh"
#endif

namespace sx {
// ---- units defined by the program itself (the way the library's own unit headers do it) ----
template <class T> struct MtrLabel { static constexpr const char label[] = "mtr"; };
template <class T> constexpr const char MtrLabel<T>::label[];
struct Mtr : au::UnitImpl<au::Length>, MtrLabel<void> { using MtrLabel<void>::label; };
template <class T> struct FtLabel { static constexpr const char label[] = "ft"; };
template <class T> constexpr const char FtLabel<T>::label[];
struct Ft : decltype(Mtr{} * au::mag<381>() / au::mag<1250>()), FtLabel<void> { using FtLabel<void>::label; };
template <class T> struct KelLabel { static constexpr const char label[] = "Kel"; };
template <class T> constexpr const char KelLabel<T>::label[];
struct Kel : au::UnitImpl<au::Temperature>, KelLabel<void> { using KelLabel<void>::label; };
constexpr auto kel = au::QuantityMaker<Kel>{};
constexpr auto kel_pt = au::QuantityPointMaker<Kel>{};
template <class T> struct CelLabel { static constexpr const char label[] = "Cel"; };
template <class T> constexpr const char CelLabel<T>::label[];
struct Cel : Kel, CelLabel<void> {
    using CelLabel<void>::label;
    static constexpr auto origin() { return au::centi(kel)(27315); }
};
constexpr auto mtr = au::QuantityMaker<Mtr>{};
constexpr auto mtr_pt = au::QuantityPointMaker<Mtr>{};
constexpr auto a_mtr = au::SingularNameFor<Mtr>{};
constexpr auto m_sym = au::SymbolFor<Mtr>{};
constexpr auto ft = au::QuantityMaker<Ft>{};
constexpr auto ft_pt = au::QuantityPointMaker<Ft>{};
constexpr auto a_ft = au::SingularNameFor<Ft>{};
constexpr auto ft_sym = au::SymbolFor<Ft>{};
constexpr auto cel = au::QuantityMaker<Cel>{};
constexpr auto cel_pt = au::QuantityPointMaker<Cel>{};
constexpr auto s_sym = au::SymbolFor<au::Seconds>{};

// ---- inputs the optimiser cannot see through ----
template <class T> T I(long long v) { volatile long long x = v; return static_cast<T>(x); }
inline double D(double v) { volatile double x = v; return x; }
inline float Fl(float v) { volatile float x = v; return x; }

// ---- printing: every value as an exact hex long double, with the rep and the unit label ----
static int g_mismatch = 0;
template <class T> struct RepName { static const char *get() { return "other"; } };
#define SX_REP(T, N) template <> struct RepName<T> { static const char *get() { return N; } };
SX_REP(bool, "bool") SX_REP(char, "char") SX_REP(signed char, "i8") SX_REP(unsigned char, "u8")
SX_REP(short, "i16") SX_REP(unsigned short, "u16") SX_REP(int, "i32") SX_REP(unsigned, "u32")
SX_REP(long, "i64") SX_REP(unsigned long, "u64") SX_REP(long long, "ll") SX_REP(unsigned long long, "ull")
SX_REP(float, "f32") SX_REP(double, "f64") SX_REP(long double, "f80")
struct NoWant {};
inline void tail(NoWant, long double) { std::printf("\n"); }
inline void tail(long double want, long double got) {
    if (want == got) { std::printf("\n"); } else { ++g_mismatch; std::printf(" !MISMATCH want %La\n", want); }
}
template <class W, class T, class = typename std::enable_if<std::is_arithmetic<T>::value>::type>
void show(const char *tag, T v, W want) {
    std::printf("%s = %La [%s]", tag, static_cast<long double>(v), RepName<T>::get());
    tail(want, static_cast<long double>(v));
}
template <class W, class U, class R> void show(const char *tag, au::Quantity<U, R> q, W want) {
    std::printf("%s = %La [%s] %s", tag, static_cast<long double>(q.in(U{})), RepName<R>::get(), au::unit_label(U{}));
    tail(want, static_cast<long double>(q.in(U{})));
}
template <class W, class U, class R> void show(const char *tag, au::QuantityPoint<U, R> p, W want) {
    std::printf("%s = @%La [%s] %s", tag, static_cast<long double>(p.in(U{})), RepName<R>::get(), au::unit_label(U{}));
    tail(want, static_cast<long double>(p.in(U{})));
}
inline void shows(const char *tag, const std::string &s, const char *want = nullptr) {
    std::printf("%s = \"%s\"", tag, s.c_str());
    if (want && s != want) { ++g_mismatch; std::printf(" !MISMATCH want \"%s\"\n", want); } else { std::printf("\n"); }
}
template <class T> std::string str(const T &x) { std::ostringstream o; o << x; return o.str(); }
#define V(tag, ...) ::sx::show(tag, (__VA_ARGS__), ::sx::NoWant{})
#define CK(tag, want, ...) ::sx::show(tag, (__VA_ARGS__), static_cast<long double>(want))
#define TY(T, ...) static_assert(std::is_same<decltype(__VA_ARGS__), T>::value, "type of " #__VA_ARGS__)
#define SA(...) static_assert((__VA_ARGS__), #__VA_ARGS__)

template <class T, class = typename std::enable_if<std::is_arithmetic<T>::value>::type> T rawof(T x) { return x; }
template <class U, class R> R rawof(au::Quantity<U, R> q) { R r = q; return r; }   // implicit conversion of a unitless Quantity

// three-way comparison through <=> where the language has it, through < > == otherwise: same printed value
template <class A, class B> int sign3(A a, B b) {
#if defined(__cpp_impl_three_way_comparison) && __cpp_impl_three_way_comparison >= 201907L
    auto c = (a <=> b);
    return (c < 0) ? -1 : ((c > 0) ? 1 : ((c == 0) ? 0 : 2));
#else
    return (a < b) ? -1 : ((a > b) ? 1 : ((a == b) ? 0 : 2));
#endif
}
}  // namespace sx
using namespace sx;
'''

OPS = [("eq", "==", lambda a, b: a == b), ("ne", "!=", lambda a, b: a != b), ("lt", "<", lambda a, b: a < b),
       ("le", "<=", lambda a, b: a <= b), ("gt", ">", lambda a, b: a > b), ("ge", ">=", lambda a, b: a >= b)]


class Gen:
    def __init__(self, rng):
        self.rng = rng
        self.funcs = []
        self.cur = None
        self.tags = set()
        self.n = 0

    def begin(self, name):
        self.cur = []
        self.funcs.append((name, self.cur))

    def raw(self, *lines):
        self.cur += list(lines)

    def tag(self, t):
        assert t not in self.tags, t
        self.tags.add(t)
        self.n += 1
        return t

    def ck(self, t, want, expr):
        self.raw('CK("%s", %s, %s);' % (self.tag(t), lit(want), expr))

    def v(self, t, expr):
        self.raw('V("%s", %s);' % (self.tag(t), expr))

    def cmp_family(self, t, l, r, lv, rv, three=True):
        """All six comparison operators in BOTH operand orders (+ three-way), exact expectations from lv, rv."""
        for name, sym, fn in OPS:
            self.ck("%s.%s.lr" % (t, name), int(fn(lv, rv)), "((%s) %s (%s)) ? 1 : 0" % (l, sym, r))
            self.ck("%s.%s.rl" % (t, name), int(fn(rv, lv)), "((%s) %s (%s)) ? 1 : 0" % (r, sym, l))
        if three:
            s = lambda a, b: -1 if a < b else (1 if a > b else 0)
            self.ck("%s.cmp3.lr" % t, s(lv, rv), "sign3(%s, %s)" % (l, r))
            self.ck("%s.cmp3.rl" % t, s(rv, lv), "sign3(%s, %s)" % (r, l))

    def addsub_family(self, t, l, r, lv, rv):
        self.ck(t + ".add.lr", lv + rv, "(%s) + (%s)" % (l, r))
        self.ck(t + ".add.rl", rv + lv, "(%s) + (%s)" % (r, l))
        self.ck(t + ".sub.lr", lv - rv, "(%s) - (%s)" % (l, r))
        self.ck(t + ".sub.rl", rv - lv, "(%s) - (%s)" % (r, l))

    def source(self):
        vm, self.vm_cells, self.vm_expected = vm_block()
        body = [PRELUDE, CONSTEXPR_BLOCK, vm]
        for name, lines in self.funcs:
            body.append("static void f_%s() {" % name)
            body += ["    " + l for l in lines]
            body.append("}")
        body.append("int main() {")
        body += ["    f_%s();" % name for name, _ in self.funcs]
        body.append("    sxv::table();")
        body.append('    std::printf("MISMATCHES %d\\n", sx::g_mismatch);')
        body.append('    std::printf("END\\n");')
        body.append("    return 0;")
        body.append("}")
        return "\n".join(body) + "\n"


def lit(x):
    """Exact C++ long double literal for an int / dyadic Fraction / float."""
    if isinstance(x, bool):
        return "1" if x else "0"
    if isinstance(x, int):
        return "%dLL" % x if abs(x) < (1 << 63) else "%dULL" % x
    if isinstance(x, F):
        if x.denominator == 1:
            return lit(int(x))
        assert x.denominator & (x.denominator - 1) == 0, x
        return "(%dLL / %d.0L)" % (x.numerator, x.denominator)
    if isinstance(x, float):
        return lit(F(x))
    raise TypeError(x)


def c_div(a, b):
    q = abs(a) // abs(b)
    return q if (a >= 0) == (b > 0) else -q


def c_mod(a, b):
    return a - b * c_div(a, b)


# ------------------------------------------------------------------------------------------------
# sections
# ------------------------------------------------------------------------------------------------

REPS = [("i16", "int16_t", True, False), ("i32", "int", True, False), ("u64", "uint64_t", False, False),
        ("f64", "double", True, True), ("f32", "float", True, True), ("i8", "int8_t", True, False)]


def sec_quantity_same(g):
    """Quantity<U,R> with itself: the hidden friends and members, per rep."""
    r = g.rng
    for k, T, signed, isf in REPS:
        g.begin("qsame_" + k)
        hi = 11 if k == "i8" else 90
        x, y = r.randrange(5, hi), r.randrange(2, 5)            # x > y > 1: every operator is asymmetric
        s = r.randrange(2, 5)
        ld = (lambda v: "D(%r)" % float(v)) if T == "double" else ((lambda v: "Fl(%r)" % float(v)) if T == "float" else
                                                                    (lambda v: "I<%s>(%d)" % (T, v)))
        g.raw("const auto a = mtr(%s); const auto b = mtr(%s); const auto s = %s;" % (ld(x), ld(y), ld(s)))
        g.raw("static_assert(std::is_same<decltype(a), const au::Quantity<Mtr, %s>>::value, \"maker(T) makes Quantity<U, T>\");" % T)
        p = "qsame." + k
        g.cmp_family(p, "a", "b", x, y)
        g.cmp_family(p + ".self", "a", "a", x, x, three=False)
        g.ck(p + ".add", x + y, "a + b")
        g.ck(p + ".sub", x - y, "a - b")
        g.ck(p + ".sub.rl", y - x if signed else None, "b - a") if signed else None
        g.ck(p + ".mul.qs", x * s, "a * s")
        g.ck(p + ".mul.sq", s * y, "s * b")
        g.ck(p + ".div.qs", F(x, s) if isf else c_div(x, s), "a / s") if (not isf or F(x, s).denominator & (F(x, s).denominator - 1) == 0) else g.v(p + ".div.qs", "a / s")
        if isf:
            g.v(p + ".div.sq", "s / b")
            g.v(p + ".div.qq", "a / b")
        else:
            g.ck(p + ".div.sq", c_div(s * 7, y), "(s * s * s * s) / au::unblock_int_div(b)") if False else None
            g.ck(p + ".div.qq", c_div(x, y), "a / au::unblock_int_div(b)")
            g.ck(p + ".div.raw_unblock", c_div(x, s), "a / au::unblock_int_div(s)")
            g.ck(p + ".div.sq", c_div(x * 3, y), "static_cast<%s>(%d) / au::unblock_int_div(b)" % (T, x * 3)) if x * 3 < 127 or k != "i8" else None
        g.ck(p + ".mul.qq", x * y, "a * b")
        g.raw("{ auto c = a; c += b; CK(\"%s\", %s, c); c -= b; c -= b; CK(\"%s\", %s, c); c *= s; CK(\"%s\", %s, c); }" % (
            g.tag(p + ".pluseq"), lit(x + y), g.tag(p + ".minuseq"), lit(x - y), g.tag(p + ".timeseq"), lit((x - y) * s)))
        if isf:
            g.raw("{ auto c = a; c /= s; V(\"%s\", c); }" % g.tag(p + ".diveq"))
        else:
            g.raw("{ auto c = a; c /= s; CK(\"%s\", %s, c); }" % (g.tag(p + ".diveq"), lit(c_div(x, s))))
        wide = k in ("i32", "u64", "f64", "f32")            # F4: no %, unary +/- on sub-int reps
        if wide and not isf:
            g.ck(p + ".mod", c_mod(x, y), "a % b")
            g.ck(p + ".mod.rl", c_mod(y, x), "b % a")
        if wide and signed:
            g.ck(p + ".neg", -x, "-a")
            g.ck(p + ".pos", y, "+b")
        g.ck(p + ".min", y, "min(a, b)")
        g.ck(p + ".min.rl", y, "min(b, a)")
        g.ck(p + ".max", x, "max(b, a)")
        g.ck(p + ".clamp.hi", y, "clamp(a, b - b, b)")
        g.ck(p + ".clamp.lo", x, "clamp(b, a, a + a)")
        g.ck(p + ".clamp.mid", y + 1 if not isf else y + 1, "clamp(b + mtr(%s), b, a)" % ld(1))
        # members
        g.ck(p + ".in", x, "a.in(mtr)")
        g.ck(p + ".in.unit_type", x, "a.in(Mtr{})")
        g.ck(p + ".in.singular", x, "a.in(a_mtr)")
        g.ck(p + ".in.symbol", x, "a.in(m_sym)")
        g.ck(p + ".as", x, "a.as(mtr)")
        g.ck(p + ".in.rep", x, "a.in<double>(mtr)")
        g.ck(p + ".as.rep", x, "a.as<long long>(mtr)") if not isf else g.ck(p + ".as.rep", x, "a.as<long double>(mtr)")
        g.ck(p + ".coerce_in", x, "a.coerce_in(mtr)")
        g.ck(p + ".coerce_as", x, "a.coerce_as(mtr)")
        g.ck(p + ".coerce_in.rep", x, "a.coerce_in<short>(mtr)")
        g.ck(p + ".coerce_as.rep", x, "a.coerce_as<float>(mtr)")
        g.raw("{ auto c = a; c.data_in(mtr) = s; CK(\"%s\", %s, c); CK(\"%s\", %s, a.data_in(Mtr{})); }" % (
            g.tag(p + ".data_in"), lit(s), g.tag(p + ".data_in.const"), lit(x)))
        g.ck(p + ".rep_cast", x, "au::rep_cast<double>(a)")
        g.ck(p + ".make_quantity", y, "au::make_quantity<Mtr>(%s)" % ld(y))
        g.raw("{ au::Quantity<Mtr, %s> z = au::ZERO; CK(\"%s\", 0, z); au::Quantity<Mtr, %s> dflt{}; CK(\"%s\", 0, dflt); }" % (
            T, g.tag(p + ".from_zero"), T, g.tag(p + ".default")))
        g.ck(p + ".unit_member", 1, "std::is_same<std::remove_cv_t<decltype(a.unit)>, Mtr>::value ? 1 : 0")
        g.ck(p + ".unit_static", 1, "std::is_same<typename std::remove_cv_t<decltype(a)>::Unit, Mtr>::value ? 1 : 0")
        g.ck(p + ".rep_alias", 1, "std::is_same<typename std::remove_cv_t<decltype(a)>::Rep, %s>::value ? 1 : 0" % T)
        # unitless: conversion to the raw number
        g.raw("{ const auto u = a / b * b / a; (void)u; }") if isf else None
        g.ck(p + ".unitless.raw", F(x, x) if isf else 1, "au::as_raw_number(a / %s)" % ("a" if isf else "au::unblock_int_div(a)"))
        g.ck(p + ".unitless.implicit", 1, "rawof(a / %s)" % ("a" if isf else "au::unblock_int_div(a)"))
    g.funcs = [(n, [l for l in ls if l is not None]) for n, ls in g.funcs]


def sec_quantity_mixed(g):
    """Different units and/or reps: the free operator templates, both operand orders; math.hh mixed overloads."""
    r = g.rng
    g.begin("qmixed")
    x = r.randrange(3, 40)
    y = r.randrange(2, 30)
    # (tag, lhs, rhs, lhs value, rhs value) — values counted in the COMMON unit of the pair, which is what the
    # library must compute in (hand-derived: ft = 381/1250 mtr, so common(mtr, ft) = mtr/1250)
    fams = [
        ("mtr_i32.ft_i32", "mtr(I<int>(%d))" % x, "ft(I<int>(%d))" % y, 1250 * x, 381 * y, True),
        ("mtr_i32.mtr_f64", "mtr(I<int>(%d))" % x, "mtr(D(%d.5))" % y, F(x), F(2 * y + 1, 2), False),
        ("mtr_i32.milli_i32.equal", "mtr(I<int>(%d))" % x, "au::milli(mtr)(I<int>(%d))" % (1000 * x), 1000 * x, 1000 * x, True),
        ("mtr_i16.mtr_i8", "mtr(I<int16_t>(%d))" % (300 + x), "mtr(I<int8_t>(%d))" % (-y), 300 + x, -y, True),
        ("mtr_u16.mtr_i8", "mtr(I<uint16_t>(%d))" % (60000 + x), "mtr(I<int8_t>(%d))" % (-y), 60000 + x, -y, True),
        ("mtr_i64.mtr_i32", "mtr(I<int64_t>(%d))" % (5000000000 + x), "mtr(I<int>(%d))" % (-y), 5000000000 + x, -y, True),
        ("mtr_f32.ft_f64", "mtr(Fl(%d.0f))" % (2 * x), "ft(D(%d.0))" % (1250 * y), None, None, False),
        ("kilo_i32.mtr_i64", "au::kilo(mtr)(I<int>(%d))" % x, "mtr(I<int64_t>(%d))" % (1000 * x + 1), 1000 * x, 1000 * x + 1, True),
    ]
    for t, l, rr, lv, rv, integral in fams:
        g.raw("{ const auto l = %s; const auto r = %s;" % (l, rr))
        p = "qmixed." + t
        if lv is None:
            for name, sym, _ in OPS:
                g.v("%s.%s.lr" % (p, name), "(l %s r) ? 1 : 0" % sym)
                g.v("%s.%s.rl" % (p, name), "(r %s l) ? 1 : 0" % sym)
            g.v(p + ".add.lr", "l + r"), g.v(p + ".add.rl", "r + l"), g.v(p + ".sub.lr", "l - r"), g.v(p + ".sub.rl", "r - l")
            g.v(p + ".min", "au::min(l, r)"), g.v(p + ".max", "au::max(r, l)")
        else:
            g.cmp_family(p, "l", "r", lv, rv)
            g.addsub_family(p, "l", "r", lv, rv)
            g.ck(p + ".min.lr", min(lv, rv), "au::min(l, r)")
            g.ck(p + ".min.rl", min(lv, rv), "au::min(r, l)")
            g.ck(p + ".max.lr", max(lv, rv), "au::max(l, r)")
            g.ck(p + ".max.rl", max(lv, rv), "au::max(r, l)")
            g.ck(p + ".clamp", min(max(lv, rv), lv + rv) if rv >= 0 else None, "au::clamp(l, r, l + r)") if rv >= 0 else None
            if integral and rv != 0 and lv != 0:
                g.ck(p + ".mod.lr", c_mod(lv, rv), "l % r")
                g.ck(p + ".mod.rl", c_mod(rv, lv), "r % l")
        g.v(p + ".common_type.label", "au::unit_label(typename std::common_type_t<std::remove_cv_t<decltype(l)>, std::remove_cv_t<decltype(r)>>::Unit{})") \
            if False else None
        g.raw("{ using CT = std::common_type_t<std::remove_cv_t<decltype(l)>, std::remove_cv_t<decltype(r)>>; "
              "static_assert(std::is_same<CT, std::common_type_t<std::remove_cv_t<decltype(r)>, std::remove_cv_t<decltype(l)>>>::value, \"common_type is symmetric\"); "
              "static_assert(std::is_same<CT, std::remove_cv_t<decltype(l + r)>>::value || !std::is_same<typename CT::Rep, decltype(typename CT::Rep{} + typename CT::Rep{})>::value, \"sum has the common type\"); "
              "sx::shows(\"%s\", au::unit_label(typename CT::Unit{})); sx::shows(\"%s\", sx::RepName<typename CT::Rep>::get()); }" % (
                  g.tag(p + ".common_type.unit"), g.tag(p + ".common_type.rep")))
        g.v(p + ".mul.lr", "l * r"), g.v(p + ".mul.rl", "r * l")
        g.v(p + ".fmod", "au::fmod(l, r)"), g.v(p + ".remainder", "au::remainder(r, l)")
        g.v(p + ".hypot", "au::hypot(l, r)"), g.v(p + ".arctan2", "au::arctan2(l, r)")
        g.v(p + ".copysign.qq", "au::copysign(l, r)"), g.v(p + ".copysign.rl", "au::copysign(r, l)")
        g.raw("}")
    g.funcs = [(n, [l for l in ls if l is not None]) for n, ls in g.funcs]


def sec_qlike_zero(g):
    """Foreign quantity-like types (std::chrono durations) on either side of every mixed operator; Zero."""
    r = g.rng
    g.begin("qlike")
    z = r.randrange(2, 50)
    fams = [
        ("sec_i32.chrono_ms", "au::seconds(I<int>(%d))" % z, "std::chrono::milliseconds(I<long long>(%d))" % (1000 * z - 1), 1000 * z, 1000 * z - 1),
        ("min_i32.chrono_s.equal", "au::minutes(I<int>(%d))" % z, "std::chrono::seconds(I<long long>(%d))" % (60 * z), 60 * z, 60 * z),
        ("sec_f64.chrono_f64.equal", "au::seconds(D(%d.5))" % z, "std::chrono::duration<double>(D(%d.5))" % z, F(2 * z + 1, 2), F(2 * z + 1, 2)),
        ("ms_i64.chrono_h", "au::milli(au::seconds)(I<int64_t>(%d))" % (3600000 * z + 1), "std::chrono::hours(I<long long>(%d))" % z, 3600000 * z + 1, 3600000 * z),
        ("hours_i32.chrono_ns", "au::hours(I<int64_t>(1))", "std::chrono::nanoseconds(I<long long>(%d))" % (3600 * 10 ** 9 + z), 3600 * 10 ** 9, 3600 * 10 ** 9 + z),
    ]
    for t, l, rr, lv, rv in fams:
        g.raw("{ const auto l = %s; const auto r = %s;" % (l, rr))
        p = "qlike." + t
        g.cmp_family(p, "l", "r", lv, rv, three=False)
        g.addsub_family(p, "l", "r", lv, rv)
        g.raw("}")
    g.raw("{ const std::chrono::milliseconds ms(I<long long>(%d));" % (1000 * z + 7))
    g.ck("qlike.as_quantity", 1000 * z + 7, "au::as_quantity(ms)")
    g.raw('static_assert(std::is_same<decltype(au::as_quantity(ms)), au::Quantity<au::Milli<au::Seconds>, std::chrono::milliseconds::rep>>::value, "as_quantity(ms)");')
    g.raw("{ au::QuantityD<au::Seconds> q = ms; V(\"%s\", q); }" % g.tag("qlike.implicit_ctor.f64"))
    g.raw("{ au::Quantity<au::Micro<au::Seconds>, int64_t> q = ms; CK(\"%s\", %d, q); q = std::chrono::seconds(I<long long>(2)); CK(\"%s\", 2000000, q); }" % (
        g.tag("qlike.implicit_ctor.us"), (1000 * z + 7) * 1000, g.tag("qlike.assign")))
    g.raw("{ std::chrono::nanoseconds ns = au::seconds(I<long long>(%d)); CK(\"%s\", %d, static_cast<long long>(ns.count())); }" % (z, g.tag("qlike.to_chrono.implicit"), z * 10 ** 9))
    g.raw("{ std::chrono::duration<double> dd = au::milli(au::seconds)(D(%d.0)); CK(\"%s\", %s, dd.count()); }" % (z * 500, g.tag("qlike.to_chrono.f64"), lit(F(z, 2))))
    g.raw("{ const auto d = au::as_chrono_duration(au::hours(I<int>(%d))); CK(\"%s\", %d, static_cast<long long>(std::chrono::duration_cast<std::chrono::seconds>(d).count())); "
          "static_assert(std::is_same<std::remove_cv_t<decltype(d)>, std::chrono::duration<int, std::ratio<3600>>>::value, \"as_chrono_duration\"); }" % (z, g.tag("qlike.as_chrono_duration"), 3600 * z))
    g.raw("{ std::chrono::seconds cs = au::ZERO; CK(\"%s\", 0, static_cast<long long>(cs.count())); }" % g.tag("qlike.zero_to_chrono"))
    g.raw("}")

    g.begin("zero")
    for name, sym, fn in OPS:
        g.ck("zero.zz." + name, int(fn(0, 0)), "(au::ZERO %s au::ZERO) ? 1 : 0" % sym)
    g.raw('static_assert(std::is_same<decltype(au::ZERO + au::ZERO), au::Zero>::value && std::is_same<decltype(au::ZERO - au::ZERO), au::Zero>::value, "Zero +/- Zero");')
    for k, e, v in [("i32.neg", "mtr(I<int>(-4))", -4), ("f64.equal", "mtr(D(0.0))", 0), ("f64.negzero", "mtr(D(-0.0))", 0),
                    ("u32.equal", "mtr(I<unsigned>(0))", 0), ("i8.pos", "mtr(I<int8_t>(5))", 5), ("f32.pos", "ft(Fl(0.25f))", F(1, 4))]:
        g.raw("{ const auto q = %s;" % e)
        g.cmp_family("zero.q." + k, "q", "au::ZERO", v, 0, three=False)
        g.ck("zero.q.%s.add.lr" % k, v, "q + au::ZERO")
        g.ck("zero.q.%s.add.rl" % k, v, "au::ZERO + q")
        g.ck("zero.q.%s.sub.lr" % k, v, "q - au::ZERO")
        if not k.startswith("u32"):
            g.ck("zero.q.%s.sub.rl" % k, -v, "au::ZERO - q")
        g.raw("{ auto c = q; c = au::ZERO; CK(\"%s\", 0, c); c += au::ZERO; c -= au::ZERO; CK(\"%s\", 0, c); }" % (g.tag("zero.q.%s.assign" % k), g.tag("zero.q.%s.compound" % k)))
        g.ck("zero.q.%s.min" % k, min(v, 0), "min(q, decltype(q){au::ZERO})")
        g.raw("}")
    g.raw("{ int i = au::ZERO; double d = au::ZERO; unsigned char c = au::ZERO; CK(\"%s\", 0, i); CK(\"%s\", 0, d); CK(\"%s\", 0, c); }" % (
        g.tag("zero.to_int"), g.tag("zero.to_double"), g.tag("zero.to_uchar")))
    g.raw('static_assert(std::is_same<decltype(au::rep_cast<int>(au::ZERO)), au::Zero>::value, "rep_cast<T>(ZERO)");')
    g.raw('static_assert(!std::is_constructible<au::QuantityPoint<Kel, int>, au::Zero>::value, "a point cannot be made from ZERO");')


def sec_points(g):
    """QuantityPoint: same type (hidden friends), mixed units/reps incl. units with different origins, point +/- quantity
    in both orders, members, math.hh point overloads."""
    r = g.rng
    g.begin("points")
    x, y, d = r.randrange(250, 350), r.randrange(100, 249), r.randrange(2, 40)
    g.raw("{ const auto p = kel_pt(I<int>(%d)); const auto p2 = kel_pt(I<int>(%d)); const auto d = kel(I<int>(%d));" % (x, y, d))
    g.raw('static_assert(std::is_same<decltype(p), const au::QuantityPoint<Kel, int>>::value, "point maker");')
    g.cmp_family("pt.same", "p", "p2", x, y)
    g.ck("pt.same.diff.lr", x - y, "p - p2")
    g.ck("pt.same.diff.rl", y - x, "p2 - p")
    g.raw('static_assert(std::is_same<decltype(p - p2), au::Quantity<Kel, int>>::value, "point - point is a quantity");')
    g.ck("pt.same.plus.pq", x + d, "p + d")
    g.ck("pt.same.plus.qp", y + d, "d + p2")
    g.ck("pt.same.minus.pq", x - d, "p - d")
    g.raw("{ auto c = p; c += d; CK(\"%s\", %d, c); c -= d; c -= d; CK(\"%s\", %d, c); }" % (g.tag("pt.same.pluseq"), x + d, g.tag("pt.same.minuseq"), x - d))
    g.ck("pt.same.min", y, "au::min(p, p2)"), g.ck("pt.same.max", x, "au::max(p2, p)")
    g.ck("pt.same.clamp", x, "au::clamp(p2, p, p + d)")
    g.ck("pt.in", x, "p.in(kel_pt)"), g.ck("pt.in.unit", x, "p.in(Kel{})"), g.ck("pt.as", x, "p.as(kel_pt)")
    g.ck("pt.in.rep", x, "p.in<double>(kel_pt)"), g.ck("pt.as.rep", x, "p.as<long long>(kel_pt)")
    g.ck("pt.coerce_in", x, "p.coerce_in(kel_pt)"), g.ck("pt.coerce_as", x, "p.coerce_as(kel_pt)")
    g.ck("pt.coerce_in.rep", x, "p.coerce_in<short>(kel_pt)"), g.ck("pt.coerce_as.rep", x, "p.coerce_as<float>(kel_pt)")
    g.ck("pt.in.milli", 1000 * x, "p.in(au::milli(kel_pt))")
    g.ck("pt.coerce_in.cel", c_div(100 * x - 27315, 100), "p.coerce_in(cel_pt)")          # x K = (x - 273.15) C, truncated toward zero
    g.ck("pt.rep_cast", x, "au::rep_cast<double>(p)")
    g.ck("pt.make_quantity_point", y, "au::make_quantity_point<Kel>(I<int>(%d))" % y)
    g.raw("{ au::QuantityPoint<Kel, int> dflt{}; CK(\"%s\", 0, dflt); }" % g.tag("pt.default"))
    g.ck("pt.unit_member", 1, "std::is_same<std::remove_cv_t<decltype(p.unit)>, Kel>::value ? 1 : 0")
    g.raw("{ au::QuantityPoint<au::Milli<Kel>, int> q = p; CK(\"%s\", %d, q); au::QuantityPoint<Kel, double> q2 = p; CK(\"%s\", %d, q2); }" % (
        g.tag("pt.implicit.milli"), 1000 * x, g.tag("pt.implicit.rep"), x))
    g.v("pt.maker_times_mag", "(kel_pt * au::mag<2>())(I<int>(3))"), g.v("pt.maker_div_mag", "(kel_pt / au::mag<2>())(I<int>(3))")
    g.raw("}")
    # different origins: Cel's origin is declared as 27315 centi-Kel, so both points are expressed in centi-Kel
    k, c = r.randrange(295, 305), r.randrange(20, 32)
    lv, rv = 100 * k, 100 * c + 27315
    g.raw("{ const auto l = kel_pt(I<int>(%d)); const auto r = cel_pt(I<int>(%d));" % (k, c))
    g.cmp_family("pt.kel_cel", "l", "r", lv, rv)
    g.ck("pt.kel_cel.diff.lr", lv - rv, "l - r"), g.ck("pt.kel_cel.diff.rl", rv - lv, "r - l")
    g.ck("pt.kel_cel.min", min(lv, rv), "au::min(l, r)"), g.ck("pt.kel_cel.max", max(lv, rv), "au::max(r, l)")
    g.ck("pt.kel_cel.clamp", lv, "au::clamp(l, r - kel(I<int>(50)), r + kel(I<int>(50)))")
    g.ck("pt.cel.to_centikel", 100 * c + 27315, "r.coerce_in(au::centi(kel_pt))")
    g.raw("}")
    g.raw("{ const auto l = kel_pt(D(300.0)); const auto r = cel_pt(Fl(26.5f));")
    g.cmp_family("pt.kel_f64.cel_f32", "l", "r", F(300), F(29965, 100))
    g.v("pt.kel_f64.cel_f32.diff", "l - r")
    g.v("pt.cel.as_kel", "r.as(kel_pt)"), g.v("pt.kel.in_cel", "l.in(cel_pt)")
    g.raw("{ au::QuantityPoint<Kel, double> q = r; V(\"%s\", q); }" % g.tag("pt.implicit.cel_to_kel"))
    g.ck("pt.isnan", 0, "au::isnan(l) ? 1 : 0")
    g.ck("pt.isnan.nan", 1, "au::isnan(kel_pt(std::numeric_limits<double>::quiet_NaN())) ? 1 : 0")
    for fn, want in [("round", 27), ("floor", 26), ("ceil", 27)]:
        g.ck("pt.%s_in" % fn, want, "au::%s_in(cel_pt, r)" % fn)
        g.ck("pt.%s_as" % fn, want, "au::%s_as(cel_pt, r)" % fn)
        g.ck("pt.%s_in.rep" % fn, want, "au::%s_in<int>(cel_pt, r)" % fn)
        g.ck("pt.%s_as.rep" % fn, want, "au::%s_as<long long>(cel_pt, r)" % fn)
        g.v("pt.%s_as.kel" % fn, "au::%s_as(kel_pt, r)" % fn)
    g.raw("}")
    # point +/- quantity with different units, both orders
    m = r.randrange(1, 999)
    g.raw("{ const auto p = kel_pt(I<int>(%d)); const auto q = au::milli(kel)(I<int>(%d)); const auto pc = cel_pt(I<int>(%d)); const auto qk = kel(I<int>(%d));" % (k, m, c, d))
    g.ck("pt.plus.mixed.pq", 1000 * k + m, "p + q"), g.ck("pt.plus.mixed.qp", 1000 * k + m, "q + p")
    g.ck("pt.minus.mixed.pq", 1000 * k - m, "p - q")
    g.ck("pt.plus.cel_kel.pq", c + d, "pc + qk"), g.ck("pt.plus.cel_kel.qp", c + d, "qk + pc"), g.ck("pt.minus.cel_kel", c - d, "pc - qk")
    g.raw('static_assert(std::is_same<decltype(pc + qk), au::QuantityPoint<Cel, int>>::value, "point + quantity keeps the point origin");')
    g.raw("}")


def sec_wrappers(g):
    """Every unit-wrapper spelling and every operator it supports, in both operand orders: QuantityMaker,
    QuantityPointMaker, SingularNameFor, SymbolFor, prefix appliers, unit types, power aliases."""
    r = g.rng
    g.begin("wrappers")
    x, y = r.randrange(3, 60), r.randrange(2, 9)
    g.raw("const int x = I<int>(%d); const int y = I<int>(%d); const double xd = D(%d.5);" % (x, y, x))
    lab = lambda t, e, want=None: g.raw('sx::shows("%s", au::unit_label(%s)%s);' % (g.tag(t), e, (', "%s"' % want) if want else ""))
    # makers
    g.ck("mk.call", x, "mtr(x)"), g.ck("mk.call.f64", F(2 * x + 1, 2), "mtr(xd)")
    g.ck("mk.prod", x, "(mtr * ft)(x)"), lab("mk.prod.label", "mtr * ft")
    g.ck("mk.quot", x, "(mtr / au::seconds)(x)"), lab("mk.quot.label", "mtr / au::seconds", "mtr / s")
    g.ck("mk.quot.singular", x, "(mtr / au::second)(x)"), lab("mk.quot.singular.label", "mtr / au::second", "mtr / s")
    g.ck("mk.singular_times_maker", x, "(a_mtr * au::seconds)(x)"), lab("mk.singular_times_maker.label", "a_mtr * au::seconds")
    g.ck("mk.times_mag", x, "(mtr * au::mag<3>())(x)"), g.ck("mk.div_mag", x, "(mtr / au::mag<3>())(x)")
    g.ck("mk.times_mag.in", 3 * x, "(mtr * au::mag<3>())(x).in(mtr)")
    g.ck("mk.pow", x, "au::pow<2>(mtr)(x)"), g.ck("mk.root", F(2 * x + 1, 2), "au::root<2>(au::pow<2>(mtr))(xd)")
    g.ck("mk.squared", x, "au::squared(mtr)(x)"), g.ck("mk.cubed", x, "au::cubed(mtr)(x)"), g.ck("mk.inverse", x, "au::inverse(au::seconds)(x)")
    g.ck("mk.sqrt", F(2 * x + 1, 2), "au::sqrt(au::squared(mtr))(xd)"), g.ck("mk.cbrt", F(2 * x + 1, 2), "au::cbrt(au::cubed(mtr))(xd)")
    g.raw('static_assert(std::is_same<decltype(au::sqrt(au::squared(mtr))), std::remove_cv_t<decltype(mtr)>>::value, "sqrt(squared(maker)) is the maker");')
    g.raw('static_assert(std::is_same<std::remove_cv_t<decltype(mtr.unit)>, Mtr>::value && std::is_same<std::remove_cv_t<decltype(kel_pt.unit)>, Kel>::value, "maker::unit");')
    # singular names
    lab("sg.prod", "a_mtr * au::second"), lab("sg.pow", "au::pow<2>(au::second)", "s^2")
    g.ck("sg.in_slot", x, "(mtr * au::seconds)(x).in(a_mtr * au::second)")
    g.ck("sg.in_slot.quot", x, "(mtr / au::seconds)(x).in(mtr / au::pow<1>(au::second))")
    # symbols: number * symbol etc. (MakesQuantityFromNumber), quantity * symbol etc. (ScalesQuantity), symbol * symbol ...
    g.ck("sym.num_times", x, "x * m_sym"), g.ck("sym.times_num", x, "m_sym * x")
    g.raw('static_assert(std::is_same<decltype(x * m_sym), au::Quantity<Mtr, int>>::value && std::is_same<decltype(m_sym * xd), au::Quantity<Mtr, double>>::value, "number * symbol");')
    g.ck("sym.num_div", F(2 * x + 1, 2), "xd / s_sym"), g.ck("sym.div_num", F(1, 2), "m_sym / D(2.0)")
    g.raw('static_assert(std::is_same<decltype(xd / s_sym), au::Quantity<au::UnitInverseT<au::Seconds>, double>>::value, "number / symbol");')
    g.ck("sym.q_times", x, "mtr(x) * s_sym"), g.ck("sym.times_q", x, "s_sym * mtr(x)")
    g.ck("sym.q_div", x, "mtr(x) / s_sym"), g.ck("sym.div_q", F(1, 2), "m_sym / au::seconds(D(2.0))")
    g.raw('static_assert(std::is_same<decltype(mtr(x) / s_sym), au::Quantity<au::UnitQuotientT<Mtr, au::Seconds>, int>>::value, "quantity / symbol");')
    g.ck("sym.sym_times_sym", x, "x * (m_sym * s_sym)"), g.ck("sym.sym_div_sym", x, "x * (m_sym / s_sym)")
    # pow/root of a symbol are hidden friends: reachable by ADL once `pow` names a template (using-declaration)
    g.raw("{ using au::pow; using au::root;")
    g.ck("sym.pow", x, "x * pow<2>(m_sym)"), g.ck("sym.root", x, "x * root<2>(pow<2>(m_sym))"), g.ck("sym.squared", x, "x * au::squared(m_sym)")
    g.raw("}")
    g.ck("sym.mag_times", 3 * x, "(x * (au::mag<3>() * m_sym)).in(mtr)"), g.ck("sym.times_mag", 3 * x, "(x * (m_sym * au::mag<3>())).in(mtr)")
    g.ck("sym.div_mag", x, "(x * y * (m_sym / au::mag<%d>())).in(mtr) / 1 - x * y / %d * 0" % (1, 1)) if False else None
    g.ck("sym.mag_div", 3 * x, "(x * (au::mag<3>() / s_sym)).in(au::inverse(au::seconds))")
    g.ck("sym.in_slot", 1000 * x, "au::kilo(mtr)(x).in(m_sym)"), g.ck("sym.in_slot.quot", x, "(mtr / au::seconds)(x).in(m_sym / s_sym)")
    g.ck("sym.symbol_for", x, "x * au::symbol_for(mtr / au::second)"), lab("sym.symbol_for.label", "au::symbol_for(mtr / au::second)", "mtr / s")
    g.ck("sym.library", x, "x * au::symbols::s")
    # prefixes on every kind of wrapper
    g.ck("pf.maker", x, "au::kilo(mtr)(x)"), g.ck("pf.maker.in", 1000 * x, "au::kilo(mtr)(x).in(mtr)")
    g.ck("pf.point_maker", 1000 * x, "au::kilo(kel_pt)(x).in(kel_pt)")
    g.ck("pf.singular", 1000 * x, "(au::kilo(mtr) * au::seconds)(x).in(a_mtr * au::second) / 1") if False else None
    g.ck("pf.singular", x, "(au::kilo(mtr) / au::seconds)(x).in(au::kilo(mtr) / au::second)")
    g.ck("pf.singular2", x, "(au::kilo(mtr) * au::seconds)(x).in(au::kilo(a_mtr) * au::second)")
    g.ck("pf.symbol", 1000 * x, "(x * au::kilo(m_sym)).in(mtr)")
    g.ck("pf.unit_type", x, "au::milli(mtr)(1000 * x).coerce_in(au::Kilo<au::Milli<Mtr>>{})")
    lab("pf.unit_type.label", "au::kilo(Mtr{})", "kmtr"), lab("pf.label.milli", "au::milli(mtr)", "mmtr"), lab("pf.label.kibi", "au::kibi(mtr)", "Kimtr")
    for pf, f in [("quetta", 30), ("ronna", 27), ("yotta", 24), ("zetta", 21), ("exa", 18), ("peta", 15), ("tera", 12), ("giga", 9),
                  ("mega", 6), ("kilo", 3), ("hecto", 2), ("deka", 1), ("deci", -1), ("centi", -2), ("milli", -3), ("micro", -6),
                  ("nano", -9), ("pico", -12), ("femto", -15), ("atto", -18), ("zepto", -21), ("yocto", -24), ("ronto", -27),
                  ("quecto", -30)]:
        g.ck("pf.ratio." + pf, 1, "(au::unit_ratio(au::%s(mtr), mtr) == au::pow<%d>(au::mag<10>())) ? 1 : 0" % (pf, f))
    for pf, f in [("kibi", 10), ("mebi", 20), ("gibi", 30), ("tebi", 40), ("pebi", 50), ("exbi", 60), ("zebi", 70), ("yobi", 80)]:
        g.ck("pf.ratio." + pf, 1, "(au::unit_ratio(au::%s(mtr), mtr) == au::pow<%d>(au::mag<2>())) ? 1 : 0" % (pf, f))
    # unit types: * / pow root with units and magnitudes
    lab("ut.prod", "Mtr{} * au::Seconds{}"), lab("ut.quot", "Mtr{} / au::Seconds{}", "mtr / s"), lab("ut.pow", "au::pow<3>(Mtr{})", "mtr^3")
    lab("ut.root", "au::root<2>(Mtr{})"), lab("ut.times_mag", "Mtr{} * au::mag<5>()"), lab("ut.div_mag", "Mtr{} / au::mag<5>()")
    lab("ut.inverse", "au::inverse(au::Seconds{})"), lab("ut.squared", "au::squared(Mtr{})", "mtr^2")
    g.ck("ut.scaled.in", 5 * x, "au::make_quantity<decltype(Mtr{} * au::mag<5>())>(x).in(mtr)")
    g.funcs = [(n, [l for l in ls if l is not None]) for n, ls in g.funcs]


def sec_constant_mag_traits(g):
    r = g.rng
    g.begin("constant")
    x = r.randrange(2, 30)
    g.raw("constexpr auto C = au::make_constant(mtr / au::seconds * au::mag<1500>());   // 1500 mtr/s")
    g.raw("constexpr auto mps = mtr / au::seconds; const int x = I<int>(%d); const double xd = D(%d.25);" % (x, x))
    xq = F(4 * x + 1, 4)
    g.raw('static_assert(std::is_same<std::remove_cv_t<decltype(C)>, au::Constant<decltype((Mtr{} / au::Seconds{}) * au::mag<1500>())>>::value, "make_constant");')
    g.ck("const.as.rep", 1, "C.as<int>()"), g.ck("const.as.rep_unit", 1500, "C.as<int>(mps)"), g.ck("const.in.rep_unit", 1500, "C.in<short>(mps)")
    g.ck("const.as.f64", F(3, 2), "C.as<double>(au::kilo(mtr) / au::second)"), g.ck("const.in.f32", F(3, 2), "C.in<float>(au::kilo(mtr) / au::second)")
    g.ck("const.coerce_as", 1, "C.coerce_as<int>(au::kilo(mtr) / au::second)"), g.ck("const.coerce_in", 1, "C.coerce_in<int>(au::kilo(mtr) / au::second)")
    g.ck("const.can_store.i16", 1, "C.can_store_value_in<int16_t>(mps) ? 1 : 0"), g.ck("const.can_store.i8", 0, "C.can_store_value_in<int8_t>(mps) ? 1 : 0")
    g.ck("const.can_store.kilo_int", 0, "C.can_store_value_in<int>(au::kilo(mtr) / au::second) ? 1 : 0")
    g.ck("const.can_store.kilo_f32", 1, "C.can_store_value_in<float>(au::kilo(mtr) / au::second) ? 1 : 0")
    g.raw("{ au::Quantity<decltype(Mtr{} / au::Seconds{}), int> q = C; CK(\"%s\", 1500, q); au::QuantityD<decltype(au::Kilo<Mtr>{} / au::Seconds{})> q2 = C; CK(\"%s\", %s, q2); }" % (
        g.tag("const.implicit.int"), g.tag("const.implicit.f64"), lit(F(3, 2))))
    g.ck("const.num_times", x, "x * C"), g.ck("const.times_num", x, "C * x"), g.ck("const.num_div", xq, "xd / C"), g.ck("const.div_num", F(1, 4), "C / D(4.0)")
    g.ck("const.num_times.in", 1500 * x, "(x * C).in(mps)")
    g.ck("const.q_times", x, "au::seconds(x) * C"), g.ck("const.times_q", x, "C * au::seconds(x)"), g.ck("const.q_div", xq, "mtr(xd) / C"), g.ck("const.div_q", F(1, 2), "C / au::seconds(D(2.0))")
    g.ck("const.q_times.in", 1500 * x, "(au::seconds(x) * C).in(mtr)")
    g.raw('static_assert(std::is_same<decltype(au::seconds(x) * C), decltype(C * au::seconds(x))>::value, "quantity * constant commutes in type");')
    lab = lambda t, e, want=None: g.raw('sx::shows("%s", au::unit_label(%s)%s);' % (g.tag(t), e, (', "%s"' % want) if want else ""))
    lab("const.label", "C"), lab("const.c_times_c", "C * C"), lab("const.c_div_c", "C / C"), lab("const.c_times_maker", "C * au::seconds"), lab("const.maker_times_c", "au::seconds * C")
    lab("const.c_div_maker", "C / mtr"), lab("const.maker_div_c", "mtr / C"), lab("const.c_times_singular", "C * au::second"), lab("const.singular_times_c", "au::second * C")
    lab("const.c_div_singular", "C / a_mtr"), lab("const.singular_div_c", "a_mtr / C")
    g.ck("const.maker_composed", x, "(C * au::seconds)(x)"), g.ck("const.maker_composed.in", 1500 * x, "(au::seconds * C)(x).in(mtr)")
    g.raw("{ using au::pow; using au::root;")
    lab("const.pow", "pow<2>(C)"), lab("const.root", "root<2>(pow<2>(C))"), lab("const.squared", "au::squared(C)")
    g.raw("}")
    lab("const.mag_times", "au::mag<2>() * C"), lab("const.times_mag", "C * au::mag<2>()"), lab("const.div_mag", "C / au::mag<2>()"), lab("const.mag_div", "au::mag<2>() / C")
    g.ck("const.times_mag.value", 3000, "(C * au::mag<2>()).in<int>(mps)")
    g.ck("const.in_slot", 1, "(mtr / au::seconds)(1500 * x).coerce_in(C) / x")

    g.begin("magnitude")
    g.raw("constexpr auto m = au::mag<360>() / au::mag<7>(); constexpr auto PI = au::Magnitude<au::Pi>{};")
    g.ck("mag.eq", 1, "(au::mag<6>() * au::mag<60>() / au::mag<7>() == m) ? 1 : 0"), g.ck("mag.ne", 1, "(m != au::mag<51>()) ? 1 : 0")
    g.ck("mag.eq.rl", 0, "(au::mag<51>() == m) ? 1 : 0"), g.ck("mag.ne.same", 0, "(m != m) ? 1 : 0")
    g.ck("mag.get_value.f64", F(45), "au::get_value<double>(m * au::mag<7>() / au::mag<8>())"), g.ck("mag.get_value.int", 360, "au::get_value<int>(au::numerator(m))")
    g.ck("mag.denominator", 7, "au::get_value<uint8_t>(au::denominator(m))"), g.ck("mag.integer_part", 360, "au::get_value<int>(au::integer_part(m))")
    g.ck("mag.is_rational", 1, "au::is_rational(m) ? 1 : 0"), g.ck("mag.is_rational.pi", 0, "au::is_rational(PI) ? 1 : 0")
    g.ck("mag.is_integer", 0, "au::is_integer(m) ? 1 : 0"), g.ck("mag.is_integer.yes", 1, "au::is_integer(m * au::mag<7>()) ? 1 : 0")
    g.ck("mag.pow", 1, "(au::pow<2>(au::mag<12>()) == au::mag<144>()) ? 1 : 0"), g.ck("mag.root", 1, "(au::root<2>(au::mag<144>()) == au::mag<12>()) ? 1 : 0")
    g.ck("mag.inverse", 1, "(au::inverse(au::mag<4>()) == au::mag<1>() / au::mag<4>()) ? 1 : 0"), g.ck("mag.squared", 1, "(au::squared(au::mag<3>()) == au::mag<9>()) ? 1 : 0")
    g.ck("mag.representable.i8", 0, "au::representable_in<int8_t>(au::mag<360>()) ? 1 : 0"), g.ck("mag.representable.i16", 1, "au::representable_in<int16_t>(au::mag<360>()) ? 1 : 0")
    g.ck("mag.representable.frac_int", 0, "au::representable_in<int>(m) ? 1 : 0"), g.ck("mag.representable.frac_f32", 1, "au::representable_in<float>(m) ? 1 : 0")
    g.ck("mag.common", 1, "(au::common_magnitude(au::mag<6>(), au::mag<4>() / au::mag<5>()) == au::mag<2>() / au::mag<5>()) ? 1 : 0")
    g.v("mag.pi.f64", "au::get_value<double>(PI)"), g.v("mag.pi.f32", "au::get_value<float>(PI * au::mag<2>())"), g.v("mag.sqrt2.f80", "au::get_value<long double>(au::root<2>(au::mag<2>()))")
    g.raw('sx::shows("%s", au::mag_label(m), "360 / 7"); sx::shows("%s", au::mag_label(au::mag<5>()), "5"); sx::shows("%s", au::mag_label(PI));' % (
        g.tag("mag.label.ratio"), g.tag("mag.label.int"), g.tag("mag.label.pi")))

    g.begin("unit_traits")
    for t, want, e in [
        ("is_unit", 1, "au::is_unit(Mtr{})"), ("is_unit.maker", 0, "au::is_unit(mtr)"), ("fits_in_unit_slot.maker", 1, "au::fits_in_unit_slot(mtr)"),
        ("fits_in_unit_slot.sym", 1, "au::fits_in_unit_slot(m_sym)"), ("fits_in_unit_slot.int", 0, "au::fits_in_unit_slot(3)"),
        ("has_same_dimension", 1, "au::has_same_dimension(mtr, ft, au::kilo(mtr))"), ("has_same_dimension.no", 0, "au::has_same_dimension(mtr, au::seconds)"),
        ("quantity_equivalent", 1, "au::are_units_quantity_equivalent(Cel{}, Kel{})"), ("point_equivalent", 0, "au::are_units_point_equivalent(Cel{}, Kel{})"),
        ("quantity_equivalent.scaled", 1, "au::are_units_quantity_equivalent(ft * au::mag<1250>(), mtr * au::mag<381>())"),
        ("quantity_equivalent.no", 0, "au::are_units_quantity_equivalent(ft, mtr)"),
        ("is_dimensionless", 1, "au::is_dimensionless(mtr / ft)"), ("is_unitless_unit", 0, "au::is_unitless_unit(mtr / ft)"), ("is_unitless_unit.yes", 1, "au::is_unitless_unit(mtr / mtr)"),
        ("unit_ratio", 1, "(au::unit_ratio(ft, mtr) == au::mag<381>() / au::mag<1250>())"), ("unit_ratio.rl", 1, "(au::unit_ratio(mtr, ft) == au::mag<1250>() / au::mag<381>())"),
        ("origin_displacement", 27315, "au::origin_displacement(Kel{}, Cel{}).in(au::centi(kel))"), ("origin_displacement.rl", -27315, "au::origin_displacement(Cel{}, Kel{}).in(au::centi(kel))"),
        ("associated_unit", 1, "std::is_same<decltype(au::associated_unit(mtr / au::second)), au::UnitQuotientT<Mtr, au::Seconds>>::value"),
        ("associated_unit_for_points", 1, "std::is_same<decltype(au::associated_unit_for_points(cel_pt)), Cel>::value"),
        ("common_unit.sym", 1, "std::is_same<decltype(au::common_unit(mtr, ft)), decltype(au::common_unit(ft, mtr))>::value"),
        ("common_unit.ratio", 1, "(au::unit_ratio(mtr, au::common_unit(ft, mtr)) == au::mag<1250>())"),
        ("common_point_unit.sym", 1, "std::is_same<decltype(au::common_point_unit(kel_pt, cel_pt)), decltype(au::common_point_unit(cel_pt, kel_pt))>::value"),
        ("common_point_unit.ratio", 1, "(au::unit_ratio(Kel{}, au::common_point_unit(kel_pt, cel_pt)) == au::mag<100>())"),
        ("equiv_types", 1, "au::AreQuantityTypesEquivalent<au::Quantity<Cel, int>, au::Quantity<Kel, int>>::value"),
        ("equiv_types.no", 0, "au::AreQuantityTypesEquivalent<au::Quantity<Cel, int>, au::Quantity<Kel, long>>::value"),
        ("equiv_point_types.no", 0, "au::AreQuantityPointTypesEquivalent<au::QuantityPoint<Cel, int>, au::QuantityPoint<Kel, int>>::value"),
    ]:
        g.ck("ut." + t, want, "(%s) ? 1 : 0" % e if "in(" not in e else e)
        if "in(" not in e:
            g.raw("static_assert((%s) == %s, \"constant expression\");" % (e, "true" if want else "false"))
    # std::common_type and std::numeric_limits — including ODR-use of every static data member (needs an out-of-class
    # definition in C++14, an inline variable in C++17)
    g.raw("using QI = au::Quantity<Mtr, int>; using QD = au::Quantity<Ft, double>; using QF = au::Quantity<Mtr, float>;")
    g.raw('static_assert(std::is_same<std::common_type_t<QI, QI>, QI>::value && std::is_same<std::common_type_t<QI, QF>, au::Quantity<Mtr, float>>::value, "common_type same unit");')
    g.raw('static_assert(std::is_same<std::common_type_t<QI, QD>, std::common_type_t<QD, QI>>::value && std::is_same<std::common_type_t<QI, QD>::Rep, double>::value, "common_type mixed");')
    g.raw('static_assert(std::is_same<std::common_type_t<QI, QD, QF>::Rep, double>::value, "common_type of three");')
    g.raw('static_assert(std::is_same<std::common_type_t<au::QuantityPoint<Kel, int>, au::QuantityPoint<Cel, float>>, std::common_type_t<au::QuantityPoint<Cel, float>, au::QuantityPoint<Kel, int>>>::value, "common_type of points");')
    members = ["is_specialized", "is_integer", "is_signed", "is_exact", "has_infinity", "has_quiet_NaN", "has_signaling_NaN", "has_denorm",
               "has_denorm_loss", "round_style", "is_iec559", "is_bounded", "is_modulo", "digits", "digits10", "max_digits10", "radix",
               "min_exponent", "min_exponent10", "max_exponent", "max_exponent10", "traps", "tinyness_before"]
    for Q, qn in [("QI", "i32"), ("QF", "f32"), ("const QD", "cf64"), ("volatile QI", "vi32"), ("const volatile QF", "cvf32")]:
        base = Q.replace("const ", "").replace("volatile ", "")
        rep = {"QI": "int", "QF": "float", "QD": "double"}[base]
        for mname in members:
            g.raw("{ const auto &ref = std::numeric_limits<%s>::%s; CK(\"%s\", static_cast<long double>(std::numeric_limits<%s>::%s), static_cast<long double>(ref)); }" % (
                Q, mname, g.tag("nl.%s.%s" % (qn, mname)), rep, mname))
        for fn in ["max", "lowest", "min", "epsilon", "round_error", "denorm_min"] + (["infinity"] if rep != "int" else []):
            g.raw("CK(\"%s\", static_cast<long double>(std::numeric_limits<%s>::%s()), std::numeric_limits<%s>::%s());" % (g.tag("nl.%s.%s()" % (qn, fn)), rep, fn, Q, fn))
        if rep != "int":
            g.raw("CK(\"%s\", 1, au::isnan(std::numeric_limits<%s>::quiet_NaN()) && au::isnan(std::numeric_limits<%s>::signaling_NaN()) ? 1 : 0);" % (g.tag("nl.%s.nan" % qn), Q, Q))
    # ODR-use (bind a reference / take the address) of the library's constexpr static data members
    # (the four `unit` static members are ODR-used in a separate probe, ODR_UNIT_PROGRAM: see c20_cxx)
    for t, e, want in [("Seconds.label", "au::Seconds::label", "s"), ("Kilo.label", "au::Kilo<Mtr>::label", "kmtr"), ("Kibi.label", "au::Kibi<au::Seconds>::label", "Kis"),
                       ("unit_label.ref", "au::unit_label(mtr / au::second)", "mtr / s"), ("mag_label.ref", "au::mag_label(au::mag<22>() / au::mag<7>())", "22 / 7"),
                       ("unit_label.default", "au::unit_label(au::UnitImpl<au::Mass>{})", None), ("unit_label.scaled", "au::unit_label(Mtr{} * au::mag<3>())", "[3 mtr]"),
                       ("unit_label.common", "au::unit_label(au::common_unit(mtr, ft))", None), ("unit_label.pow", "au::unit_label(au::pow<-2>(Mtr{}))", "mtr^(-2)"),
                       ("unit_label.root", "au::unit_label(au::root<3>(Mtr{}))", "mtr^(1/3)")]:
        g.raw("{ const auto &ref = %s; const char *ptr = &ref[0]; sx::shows(\"%s\", ptr%s); CK(\"%s\", std::char_traits<char>::length(ptr), sizeof(ref) - 1); }" % (
            e, g.tag("odr." + t), (', "%s"' % want) if want else "", g.tag("odr." + t + ".size")))


def sec_math_io(g):
    g.begin("math")
    hz = "au::inverse(au::seconds)"
    for t, want, e in [
        ("abs.i32", 7, "au::abs(mtr(I<int>(-7)))"), ("abs.f64", F(5, 2), "au::abs(mtr(D(-2.5)))"), ("abs.i8", 7, "au::abs(mtr(I<int8_t>(-7)))"),
        ("int_pow.3", 64, "au::int_pow<3>(mtr(I<int>(4)))"), ("int_pow.-2", F(1, 16), "au::int_pow<-2>(mtr(D(4.0)))"), ("int_pow.0", 1, "au::int_pow<0>(mtr(I<int>(4)))"),
        ("sqrt", F(5, 2), "au::sqrt(au::squared(mtr)(D(6.25)))"), ("sqrt.int", 3, "au::sqrt(au::squared(mtr)(I<int>(9)))"),
        ("fmod", F(3, 2), "au::fmod(mtr(D(7.5)), mtr(D(2.0)))"), ("fmod.int", 1, "au::fmod(mtr(I<int>(7)), mtr(I<int>(2)))"),
        ("remainder", F(-1, 2), "au::remainder(mtr(D(7.5)), mtr(D(2.0)))"),
        ("round_in", 3, "au::round_in(mtr, mtr(D(2.5)))"), ("round_as", 3, "au::round_as(mtr, mtr(D(2.5)))"),
        ("round_in.rep", 3, "au::round_in<int>(mtr, mtr(D(2.5)))"), ("round_as.rep", 3, "au::round_as<int8_t>(mtr, mtr(D(2.5)))"),
        ("round_in.neg", -3, "au::round_in(mtr, mtr(D(-2.5)))"), ("round_in.f32", 2, "au::round_in(mtr, mtr(Fl(2.25f)))"),
        ("round_in.other_unit", 123, "au::round_in(au::centi(mtr), mtr(D(1.234)))"), ("round_in.int_input", 7000, "au::round_in(au::milli(mtr), mtr(I<int>(7)))"),
        ("floor_in", 2, "au::floor_in(mtr, mtr(D(2.5)))"), ("floor_as", 2, "au::floor_as(mtr, mtr(D(2.5)))"), ("floor_in.rep", -3, "au::floor_in<int>(mtr, mtr(D(-2.5)))"),
        ("floor_as.rep", 2, "au::floor_as<long>(mtr, mtr(D(2.5)))"), ("floor_in.other_unit", 123, "au::floor_in(au::centi(mtr), mtr(D(1.239)))"),
        ("ceil_in", 3, "au::ceil_in(mtr, mtr(D(2.5)))"), ("ceil_as", 3, "au::ceil_as(mtr, mtr(D(2.5)))"), ("ceil_in.rep", -2, "au::ceil_in<int>(mtr, mtr(D(-2.5)))"),
        ("ceil_as.rep", 3, "au::ceil_as<unsigned>(mtr, mtr(D(2.5)))"), ("ceil_in.other_unit", 124, "au::ceil_in(au::centi(mtr), mtr(D(1.231)))"),
        ("inverse_as.f64", F(1, 4), "au::inverse_as(%s, au::seconds(D(4.0)))" % hz), ("inverse_in.f64", F(1, 4), "au::inverse_in(%s, au::seconds(D(4.0)))" % hz),
        ("inverse_as.int", 250000, "au::inverse_as(%s, au::micro(au::seconds)(I<int>(4)))" % hz), ("inverse_in.int", 250000, "au::inverse_in(%s, au::micro(au::seconds)(I<int>(4)))" % hz),
        ("inverse_as.rep", 250, "au::inverse_as<int>(%s, au::milli(au::seconds)(I<int>(4)))" % hz), ("inverse_in.rep", F(1, 4), "au::inverse_in<double>(%s, au::seconds(I<int>(4)))" % hz),
        ("isnan", 0, "au::isnan(mtr(D(1.0))) ? 1 : 0"), ("isnan.nan", 1, "au::isnan(mtr(std::numeric_limits<float>::quiet_NaN())) ? 1 : 0"),
        ("copysign.q_raw", -3, "au::copysign(mtr(D(3.0)), D(-1.0))"), ("copysign.raw_q", -3, "au::copysign(D(3.0), mtr(D(-2.0)))"),
        ("copysign.q_q", 3, "au::copysign(mtr(D(-3.0)), ft(D(2.0)))"), ("copysign.negzero", -3, "au::copysign(mtr(D(3.0)), mtr(D(-0.0)))"),
        ("sin.0", 0, "au::sin(au::radians(D(0.0)))"), ("cos.0", 1, "au::cos(au::radians(D(0.0)))"), ("tan.0", 0, "au::tan(au::radians(Fl(0.0f)))"),
        ("arcsin.0", 0, "au::arcsin(D(0.0))"), ("arccos.1", 0, "au::arccos(D(1.0))"), ("arctan.0", 0, "au::arctan(Fl(0.0f))"),
        ("arctan2.raw", 0, "au::arctan2(D(0.0), D(1.0))"), ("arctan2.q", 0, "au::arctan2(mtr(D(0.0)), ft(D(1.0)))"),
        ("hypot", 5, "au::hypot(mtr(D(3.0)), mtr(D(4.0)))"), ("clamp.mixed", 1000, "au::clamp(au::milli(mtr)(I<int>(1500)), mtr(I<int>(0)), mtr(I<int>(1)))"),
    ]:
        g.ck("math." + t, want, e)
    for t, e in [("cbrt", "au::cbrt(au::cubed(mtr)(D(27.0)))"), ("sin", "au::sin(au::radians(D(1.0)))"), ("cos.f32", "au::cos(au::radians(Fl(1.0f)))"),
                 ("tan", "au::tan(au::radians(D(1.0)))"), ("sin.int", "au::sin(au::radians(I<int>(1)))"), ("arcsin", "au::arcsin(D(0.625))"),
                 ("arccos", "au::arccos(Fl(0.625f))"), ("arctan", "au::arctan(D(0.625))"), ("arctan2", "au::arctan2(mtr(D(1.5)), mtr(D(-2.0)))"),
                 ("hypot.mixed", "au::hypot(mtr(D(3.0)), ft(D(4.0)))"), ("sqrt.mixed_rep", "au::sqrt(au::squared(mtr)(Fl(2.0f)))")]:
        g.v("math." + t, e)
    g.raw('static_assert(std::is_same<decltype(au::sin(au::radians(1.0f))), float>::value && std::is_same<decltype(au::arcsin(0.5)), au::Quantity<au::Radians, double>>::value, "trig types");')
    g.raw('static_assert(std::is_same<decltype(au::round_in<int>(mtr, mtr(2.5))), int>::value && std::is_same<decltype(au::round_as<int>(mtr, mtr(2.5))), au::Quantity<Mtr, int>>::value, "round types");')

    g.begin("io")
    for t, want, e in [
        ("q.i32", "-7 mtr", "mtr(I<int>(-7))"), ("q.f64", "2.5 ft", "ft(D(2.5))"), ("q.i8", "65 mtr", "mtr(I<int8_t>(65))"), ("q.u8", "200 mtr", "mtr(I<uint8_t>(200))"),
        ("q.i8.neg", "-5 mtr", "mtr(I<int8_t>(-5))"), ("q.u64", "18446744073709551615 mtr", "mtr(std::numeric_limits<uint64_t>::max())"),
        ("q.i64.min", "-9223372036854775808 mtr", "mtr(std::numeric_limits<int64_t>::lowest())"), ("q.bool_like", "1 mtr", "mtr(I<uint16_t>(1))"),
        ("q.compound", "3 mtr / s", "(mtr / au::seconds)(I<int>(3))"), ("q.prefixed", "4 kmtr", "au::kilo(mtr)(I<int>(4))"), ("q.unitless", "6 ", "au::make_quantity<au::UnitProductT<>>(I<int>(6))"),
        ("pt.i32", "@(300 Kel)", "kel_pt(I<int>(300))"), ("pt.f64", "@(26.5 Cel)", "cel_pt(D(26.5))"), ("pt.i8", "@(-5 Cel)", "cel_pt(I<int8_t>(-5))"),
        ("zero", "0", "au::ZERO"), ("mag", "360 / 7", "au::mag<360>() / au::mag<7>()"), ("mag.int", "5", "au::mag<5>()"),
        ("constant", "[1500 mtr / s]", "au::make_constant(mtr / au::seconds * au::mag<1500>())"), ("symbol", "mtr", "m_sym"), ("symbol.compound", "mtr / s", "m_sym / s_sym"),
        ("q.f32", "0.25 mtr", "mtr(Fl(0.25f))"), ("q.scaled", "2 [3 mtr]", "(mtr * au::mag<3>())(I<int>(2))"),
    ]:
        g.raw('sx::shows("%s", sx::str(%s), "%s");' % (g.tag("io." + t), e, want))
    g.raw('{ std::ostringstream o; o << mtr(1) << "," << kel_pt(2) << "," << au::ZERO; sx::shows("%s", o.str(), "1 mtr,@(2 Kel),0"); }' % g.tag("io.chain"))
    g.raw('sx::shows("%s", sx::str(mtr(I<int>(1)) + ft(I<int>(1))));' % g.tag("io.common_unit"))


CONSTEXPR_BLOCK = r"""
// ---- everything below is evaluated by the compiler: constexpr-ness is part of the API (accepted alike everywhere) ----
namespace sxc {
using namespace sx;
constexpr auto a = mtr(7), b = mtr(3);
constexpr auto f = ft(10);
SA(a + b == mtr(10)); SA(a - b == mtr(4)); SA(a * 2 == mtr(14)); SA(2 * a == mtr(14)); SA(a / 2 == mtr(3)); SA((a * b).in(au::squared(mtr)) == 21);
SA(a % b == mtr(1)); SA(-a == mtr(-7)); SA(+a == a); SA(a > b && a >= b && b < a && b <= a && a != b && !(a == b));
SA(a + f == f + a); SA((a + f).in(mtr / au::mag<1250>()) == 7 * 1250 + 10 * 381); SA(a > f && f < a && a != f); SA((a % f).in(mtr / au::mag<1250>()) == (7 * 1250) % 3810);
SA(min(a, b) == b && max(a, b) == a && clamp(a, b, b) == b); SA(au::min(a, f) == f && au::max(f, a) == a && au::clamp(f, b, a) == f);
SA(a > au::ZERO && au::ZERO < a && au::ZERO != a && au::ZERO == au::ZERO && mtr(0) == au::ZERO);
SA(a.in(au::milli(mtr)) == 7000); SA(a.as(au::milli(mtr)) == au::milli(mtr)(7000)); SA(a.in<double>(mtr) == 7.0); SA(a.coerce_in(au::kilo(mtr)) == 0);
SA(au::milli(mtr)(7500).coerce_as(mtr) == a); SA(au::rep_cast<double>(a) == mtr(7.0));
SA(!au::will_conversion_overflow(a, au::milli(mtr)) && !au::will_conversion_truncate(a, au::milli(mtr)) && !au::is_conversion_lossy(a, au::milli(mtr)));
SA(au::will_conversion_truncate(a, au::kilo(mtr)) && au::is_conversion_lossy(a, au::kilo(mtr)) && au::will_conversion_overflow(mtr(int8_t{100}), au::milli(mtr)));
SA(au::will_conversion_overflow<int8_t>(a, au::centi(mtr)) && !au::will_conversion_truncate<int8_t>(a, au::centi(mtr)) && au::is_conversion_lossy<int8_t>(a, au::centi(mtr)));
constexpr au::Quantity<Mtr, int> zq = au::ZERO; SA(zq == mtr(0));
constexpr au::Quantity<au::Milli<Mtr>, long> conv = a; SA(conv.in(au::milli(mtr)) == 7000);
constexpr auto compound() { auto c = mtr(7); c += mtr(3); c -= mtr(1); c *= 2; c /= 3; return c; }
SA(compound() == mtr(6));
constexpr auto p = kel_pt(300); constexpr auto p2 = cel_pt(27);
SA(p < p2 && p2 > p && p != p2 && p <= p2 && !(p >= p2) && !(p == p2)); SA((p2 - p).in(au::centi(kel)) == 15); SA(p + kel(5) == kel_pt(305) && kel(5) + p == kel_pt(305) && p - kel(5) == kel_pt(295));
SA(p2.coerce_in(au::centi(kel_pt)) == 30015); SA(au::min(p, p2) == p && au::max(p, p2) == p2); SA(p - kel_pt(1) == kel(299));
constexpr auto pcompound() { auto c = kel_pt(300); c += kel(3); c -= kel(1); return c; }
SA(pcompound() == kel_pt(302));
SA(5 * m_sym == mtr(5) && m_sym * 5 == mtr(5) && (10 / s_sym).in(au::inverse(au::seconds)) == 10); SA((6 * m_sym / s_sym).in(mtr / au::second) == 6);
constexpr auto CC = au::make_constant(mtr * au::mag<1500>());
SA(CC.as<int>(mtr) == mtr(1500) && CC.can_store_value_in<int16_t>(mtr) && !CC.can_store_value_in<int8_t>(mtr)); SA((2 * CC).in(mtr) == 3000 && (CC * 2).in(mtr) == 3000);
SA(au::seconds(3) == std::chrono::seconds(3) && std::chrono::seconds(3) == au::seconds(3) && std::chrono::milliseconds(2999) < au::seconds(3) && au::seconds(3) > std::chrono::milliseconds(2999));
SA(std::chrono::milliseconds(2999) != au::seconds(3) && au::seconds(3) != std::chrono::milliseconds(2999) && std::chrono::minutes(1) >= au::seconds(60) && au::seconds(60) <= std::chrono::minutes(1));
SA((au::seconds(3) + std::chrono::milliseconds(5)).in(au::milli(au::seconds)) == 3005 && (std::chrono::milliseconds(5) + au::seconds(3)).in(au::milli(au::seconds)) == 3005);
SA((au::seconds(3) - std::chrono::milliseconds(5)).in(au::milli(au::seconds)) == 2995 && (std::chrono::milliseconds(5) - au::seconds(3)).in(au::milli(au::seconds)) == -2995);
SA(au::as_quantity(std::chrono::hours(2)) == au::hours(2)); SA(au::as_chrono_duration(au::minutes(2)) == std::chrono::seconds(120));
constexpr std::chrono::nanoseconds ns = au::seconds(2); SA(ns.count() == 2000000000);
SA(au::int_pow<2>(a) == au::squared(mtr)(49)); SA(au::inverse_as(au::inverse(au::seconds), au::micro(au::seconds)(4)) == au::inverse(au::seconds)(250000));
SA(!au::isnan(mtr(1.0)) && !au::isnan(kel_pt(1.0)));   // (constexpr copysign: separate probe, see CONSTEXPR_COPYSIGN_PROGRAM)
SA(std::numeric_limits<au::Quantity<Mtr, int8_t>>::max() == mtr(int8_t{127}) && std::numeric_limits<au::Quantity<Mtr, int8_t>>::lowest() == mtr(int8_t{-128}));
SA(au::get_value<int>(au::mag<360>() / au::mag<8>()) == 45 && au::unit_ratio(au::kilo(mtr), mtr) == au::mag<1000>());
SA(au::unit_label(mtr)[0] == 'm' && sizeof(au::unit_label(au::kilo(mtr))) == 5 && au::mag_label(au::mag<12>())[1] == '2');
// special members and noexcept (part of the function type since C++17)
using QI = au::Quantity<Mtr, int>; using PI_ = au::QuantityPoint<Kel, int>;
SA(std::is_nothrow_default_constructible<QI>::value && std::is_trivially_copyable<QI>::value && std::is_standard_layout<QI>::value && sizeof(QI) == sizeof(int));
SA(std::is_nothrow_default_constructible<PI_>::value && std::is_trivially_copyable<PI_>::value && std::is_standard_layout<PI_>::value && sizeof(PI_) == sizeof(int));
SA(std::is_trivially_destructible<QI>::value && std::is_nothrow_copy_constructible<QI>::value && std::is_nothrow_move_assignable<PI_>::value);
SA(std::is_empty<au::Zero>::value && std::is_empty<au::QuantityMaker<Mtr>>::value && std::is_empty<au::SymbolFor<Mtr>>::value && std::is_empty<au::Constant<Mtr>>::value && std::is_empty<decltype(au::mag<3>())>::value);
// implicit / explicit conversions: the policy answers must not depend on the standard
using QM = au::Quantity<au::Milli<Mtr>, int>; using QK = au::Quantity<au::Kilo<Mtr>, int>; using QDm = au::Quantity<Mtr, double>; using QS = au::Quantity<au::Seconds, int>;
SA(std::is_convertible<QI, QM>::value && !std::is_convertible<QI, QK>::value && std::is_convertible<QI, QDm>::value && !std::is_convertible<QDm, QI>::value);
SA(!std::is_convertible<QI, QS>::value && !std::is_constructible<QS, QI>::value && !std::is_convertible<int, QI>::value && !std::is_constructible<QI, int>::value && !std::is_convertible<QI, int>::value);
SA(std::is_convertible<au::Zero, QI>::value && !std::is_convertible<au::Zero, PI_>::value && std::is_convertible<au::Quantity<au::UnitProductT<>, int>, int>::value);
SA(std::is_convertible<std::chrono::seconds, au::Quantity<au::Milli<au::Seconds>, long>>::value && std::is_convertible<QS, std::chrono::milliseconds>::value && !std::is_convertible<QS, std::chrono::hours>::value);
SA(std::is_convertible<au::QuantityPoint<Cel, double>, au::QuantityPoint<Kel, double>>::value && !std::is_convertible<au::QuantityPoint<Cel, int>, au::QuantityPoint<Kel, int>>::value);
SA(std::is_convertible<au::QuantityPoint<Kel, int>, au::QuantityPoint<au::Milli<Kel>, int>>::value && !std::is_convertible<PI_, QI>::value && !std::is_constructible<PI_, au::Quantity<Kel, int>>::value);
SA(std::is_assignable<QM &, QI>::value && !std::is_assignable<QK &, QI>::value && std::is_assignable<QI &, au::Zero>::value && !std::is_assignable<QI &, int>::value);
#if __cplusplus >= 201703L
// class template argument deduction and structured use that only exist from C++17 on: same facts as the C++14 spelling
constexpr au::Quantity ctad_q = mtr(7); SA(std::is_same<decltype(ctad_q), const au::Quantity<Mtr, int>>::value);
constexpr au::QuantityPoint ctad_p = kel_pt(3.5); SA(std::is_same<decltype(ctad_p), const au::QuantityPoint<Kel, double>>::value);
constexpr std::pair ctad_pair{mtr(1), au::seconds(2.0)}; SA(std::is_same<decltype(ctad_pair), const std::pair<au::Quantity<Mtr, int>, au::Quantity<au::Seconds, double>>>::value);
inline constexpr auto inline_var = au::kilo(mtr)(2); SA(inline_var.in(mtr) == 2000);
template <auto Q> struct NT { static constexpr auto value = Q; };
#else
constexpr au::Quantity<Mtr, int> ctad_q = mtr(7);
constexpr au::QuantityPoint<Kel, double> ctad_p = kel_pt(3.5);
constexpr std::pair<au::Quantity<Mtr, int>, au::Quantity<au::Seconds, double>> ctad_pair{mtr(1), au::seconds(2.0)};
constexpr auto inline_var = au::kilo(mtr)(2);
#endif
#if defined(__cpp_impl_three_way_comparison) && __cpp_impl_three_way_comparison >= 201907L
SA((a <=> b) > 0 && (b <=> a) < 0 && (a <=> a) == 0 && (a <=> f) > 0 && (f <=> a) < 0 && (mtr(1.5) <=> mtr(1)) > 0 && (mtr(int8_t{-1}) <=> mtr(uint16_t{1})) < 0);
SA((p <=> p2) < 0 && (p2 <=> p) > 0 && (p <=> p) == 0 && (kel_pt(300.0) <=> cel_pt(26.0f)) > 0);
SA(std::is_same<decltype(a <=> b), std::strong_ordering>::value && std::is_same<decltype(mtr(1.0) <=> mtr(1)), std::partial_ordering>::value);
#endif
}  // namespace sxc
"""


def sec_standard_dependent(g):
    g.begin("stddep")
    g.ck("stddep.ctad_q", 7, "sxc::ctad_q"), g.ck("stddep.ctad_p", F(7, 2), "sxc::ctad_p"), g.ck("stddep.ctad_pair", 2, "sxc::ctad_pair.second")
    g.ck("stddep.inline_var", 2000, "sxc::inline_var.in(mtr)")
    g.ck("stddep.constexpr_compound", 6, "sxc::compound()"), g.ck("stddep.constexpr_point_compound", 302, "sxc::pcompound()")
    # range-for / algorithms over containers of quantities (uses the comparison operators through std:: templates)
    g.raw("{ au::Quantity<Mtr, int> arr[] = {mtr(I<int>(5)), mtr(I<int>(-2)), mtr(I<int>(9))}; auto mx = arr[0]; auto sum = mtr(0);")
    g.raw("  for (const auto &q : arr) { mx = std::max(mx, q); sum += q; }")
    g.raw("  CK(\"%s\", 9, mx); CK(\"%s\", 12, sum); CK(\"%s\", -2, std::min(arr[1], arr[2])); }" % (g.tag("stddep.std_max"), g.tag("stddep.range_sum"), g.tag("stddep.std_min")))


# ------------------------------------------------------------------------------------------------
# validity matrix: for every binary operator and every ordered pair of operand KINDS, is `a op b` well-formed?
# (SFINAE detection inside the program; the printed 0/1 table must be identical under every configuration, which is
# what "accepted or rejected alike" means for the operator surface; a hand-derived subset is checked exactly)
# ------------------------------------------------------------------------------------------------
VM_KINDS = [("QI", "au::Quantity<Mtr, int>"), ("QD", "au::Quantity<Mtr, double>"), ("QF", "au::Quantity<Ft, int>"),
            ("QS", "au::Quantity<au::Seconds, int>"), ("QU", "au::Quantity<au::UnitProductT<>, int>"),
            ("PK", "au::QuantityPoint<Kel, int>"), ("PC", "au::QuantityPoint<Cel, double>"), ("Z", "au::Zero"), ("I", "int"), ("D", "double"),
            ("CH", "std::chrono::milliseconds"), ("MK", "au::QuantityMaker<Mtr>"), ("PM", "au::QuantityPointMaker<Kel>"),
            ("SY", "au::SymbolFor<Mtr>"), ("SG", "au::SingularNameFor<Mtr>"), ("CN", "au::Constant<Mtr>"),
            ("MG", "decltype(au::mag<3>())"), ("UT", "Mtr")]
VM_OPS = [("add", "+"), ("sub", "-"), ("mul", "*"), ("div", "/"), ("mod", "%"), ("eq", "=="), ("ne", "!="), ("lt", "<"), ("le", "<="),
          ("gt", ">"), ("ge", ">="), ("addeq", "+="), ("subeq", "-="), ("muleq", "*="), ("diveq", "/=")]
# cells whose mere detection is a hard error (static_assert inside a deduced return type): identical in every
# configuration on the pinned tree; left out of the table (found by compiling, frozen here)
VM_HARD_ERROR = {
    ("add", "CH", "QD"), ("add", "CH", "QF"), ("add", "CH", "QI"), ("add", "CH", "QU"), ("add", "PC", "QD"), ("add", "PC", "QF"),
    ("add", "PC", "QI"), ("add", "PC", "QS"), ("add", "PC", "QU"), ("add", "PK", "QD"), ("add", "PK", "QF"), ("add", "PK", "QI"),
    ("add", "PK", "QS"), ("add", "PK", "QU"), ("add", "QD", "CH"), ("add", "QD", "PC"), ("add", "QD", "PK"), ("add", "QD", "QS"),
    ("add", "QD", "QU"), ("add", "QF", "CH"), ("add", "QF", "PC"), ("add", "QF", "PK"), ("add", "QF", "QS"), ("add", "QF", "QU"),
    ("add", "QI", "CH"), ("add", "QI", "PC"), ("add", "QI", "PK"), ("add", "QI", "QS"), ("add", "QI", "QU"), ("add", "QS", "PC"),
    ("add", "QS", "PK"), ("add", "QS", "QD"), ("add", "QS", "QF"), ("add", "QS", "QI"), ("add", "QS", "QU"), ("add", "QU", "CH"),
    ("add", "QU", "PC"), ("add", "QU", "PK"), ("add", "QU", "QD"), ("add", "QU", "QF"), ("add", "QU", "QI"), ("add", "QU", "QS"),
    ("addeq", "CH", "CN"), ("div", "CN", "QF"), ("div", "CN", "QI"), ("div", "CN", "QS"), ("div", "CN", "QU"), ("div", "I", "QF"),
    ("div", "I", "QI"), ("div", "I", "QS"), ("div", "QF", "QI"), ("div", "QF", "QS"), ("div", "QF", "QU"), ("div", "QI", "QF"),
    ("div", "QI", "QS"), ("div", "QI", "QU"), ("div", "QS", "QF"), ("div", "QS", "QI"), ("div", "QS", "QU"), ("div", "QU", "QF"),
    ("div", "QU", "QI"), ("div", "QU", "QS"), ("div", "SY", "QF"), ("div", "SY", "QI"), ("div", "SY", "QS"), ("div", "SY", "QU"),
    ("mod", "QD", "QF"), ("mod", "QD", "QI"), ("mod", "QD", "QS"), ("mod", "QD", "QU"), ("mod", "QF", "QD"), ("mod", "QF", "QS"),
    ("mod", "QF", "QU"), ("mod", "QI", "QD"), ("mod", "QI", "QS"), ("mod", "QI", "QU"), ("mod", "QS", "QD"), ("mod", "QS", "QF"),
    ("mod", "QS", "QI"), ("mod", "QS", "QU"), ("mod", "QU", "QD"), ("mod", "QU", "QF"), ("mod", "QU", "QI"), ("mod", "QU", "QS"),
    ("sub", "CH", "QD"), ("sub", "CH", "QF"), ("sub", "CH", "QI"), ("sub", "CH", "QU"), ("sub", "PC", "QD"), ("sub", "PC", "QF"),
    ("sub", "PC", "QI"), ("sub", "PC", "QS"), ("sub", "PC", "QU"), ("sub", "PK", "QD"), ("sub", "PK", "QF"), ("sub", "PK", "QI"),
    ("sub", "PK", "QS"), ("sub", "PK", "QU"), ("sub", "QD", "CH"), ("sub", "QD", "QS"), ("sub", "QD", "QU"), ("sub", "QF", "CH"),
    ("sub", "QF", "QS"), ("sub", "QF", "QU"), ("sub", "QI", "CH"), ("sub", "QI", "QS"), ("sub", "QI", "QU"), ("sub", "QS", "QD"),
    ("sub", "QS", "QF"), ("sub", "QS", "QI"), ("sub", "QS", "QU"), ("sub", "QU", "CH"), ("sub", "QU", "QD"), ("sub", "QU", "QF"),
    ("sub", "QU", "QI"), ("sub", "QU", "QS"), ("subeq", "CH", "CN"),
}

# cells on which g++ and clang++ DISAGREE on the clean tree (built-in compound assignment `int += unitless Quantity`
# needs the templated `operator Rep()`): judged by the mini probe "compound-assign-unitless" instead
VM_DIVERGENT = {(op, a, "QU") for op in ("addeq", "subeq", "muleq", "diveq") for a in ("I", "D")}
# hand-derived expectations (1 = must be well-formed, 0 = must not)
VM_EXPECT = {
    ("add", "QI", "QI"): 1, ("add", "QI", "QD"): 1, ("add", "QI", "QF"): 1, ("add", "QI", "I"): 0, ("add", "I", "QI"): 0, ("add", "QI", "Z"): 1, ("add", "Z", "QI"): 1,
    ("add", "PK", "PK"): 0, ("add", "PK", "PC"): 0, ("add", "QS", "CH"): 1, ("add", "CH", "QS"): 1, ("add", "Z", "Z"): 1,
    ("add", "PK", "I"): 0, ("add", "QI", "MK"): 0, ("add", "QI", "SY"): 0, ("add", "MG", "MG"): 0,
    ("sub", "PK", "PK"): 1, ("sub", "PK", "PC"): 1, ("sub", "PC", "PK"): 1, ("sub", "QI", "I"): 0, ("sub", "QS", "CH"): 1, ("sub", "CH", "QS"): 1, ("sub", "QI", "Z"): 1,
    ("mul", "QI", "QI"): 1, ("mul", "QI", "QS"): 1, ("mul", "QI", "I"): 1, ("mul", "I", "QI"): 1, ("mul", "D", "QI"): 1, ("mul", "QI", "PK"): 0, ("mul", "PK", "I"): 0,
    ("mul", "I", "PK"): 0, ("mul", "PK", "PK"): 0, ("mul", "QI", "SY"): 1, ("mul", "SY", "QI"): 1, ("mul", "I", "SY"): 1, ("mul", "SY", "I"): 1, ("mul", "QI", "CN"): 1,
    ("mul", "CN", "QI"): 1, ("mul", "I", "CN"): 1, ("mul", "CN", "I"): 1, ("mul", "CN", "CN"): 1, ("mul", "MK", "MK"): 1, ("mul", "MK", "MG"): 1, ("mul", "SG", "MK"): 1,
    ("mul", "SG", "SG"): 1, ("mul", "MG", "MG"): 1, ("mul", "UT", "UT"): 1, ("mul", "UT", "MG"): 1, ("mul", "SY", "SY"): 1, ("mul", "MG", "SY"): 1, ("mul", "SY", "MG"): 1,
    ("mul", "CN", "MK"): 1, ("mul", "MK", "CN"): 1, ("mul", "CN", "MG"): 1, ("mul", "MG", "CN"): 1, ("mul", "PM", "MG"): 1, ("mul", "I", "MK"): 0, ("mul", "Z", "QI"): 0,
    ("mul", "QI", "CH"): 0,
    ("div", "QI", "I"): 1, ("div", "QD", "QD"): 1, ("div", "D", "QD"): 1, ("div", "MK", "MK"): 1, ("div", "MK", "SG"): 1, ("div", "MK", "MG"): 1, ("div", "QD", "SY"): 1,
    ("div", "SY", "QD"): 1, ("div", "D", "SY"): 1, ("div", "SY", "D"): 1, ("div", "QD", "CN"): 1, ("div", "CN", "QD"): 1, ("div", "CN", "CN"): 1, ("div", "PK", "I"): 0,
    ("div", "PK", "PK"): 0, ("div", "MG", "MG"): 1, ("div", "UT", "UT"): 1, ("div", "UT", "MG"): 1, ("div", "PM", "MG"): 1, ("div", "SG", "SG"): 0,
    ("mod", "QI", "QI"): 1, ("mod", "QI", "QF"): 1, ("mod", "QI", "I"): 0, ("mod", "PK", "PK"): 0,
    ("eq", "QI", "QI"): 1, ("eq", "QI", "QD"): 1, ("eq", "QI", "QF"): 1, ("eq", "QI", "Z"): 1, ("eq", "Z", "QI"): 1, ("eq", "QI", "I"): 0, ("eq", "I", "QI"): 0,
    ("eq", "PK", "PK"): 1, ("eq", "PK", "PC"): 1, ("eq", "PK", "Z"): 0, ("eq", "Z", "PK"): 0, ("eq", "PK", "QI"): 0, ("eq", "QS", "CH"): 1, ("eq", "CH", "QS"): 1,
    ("eq", "Z", "Z"): 1, ("eq", "MG", "MG"): 1, ("eq", "MK", "MK"): 0, 
    ("ne", "QS", "CH"): 1, ("ne", "CH", "QS"): 1, ("ne", "QI", "Z"): 1, ("ne", "Z", "QI"): 1, ("ne", "PK", "PC"): 1, ("ne", "PC", "PK"): 1, ("ne", "MG", "MG"): 1, ("ne", "QI", "I"): 0,
    ("lt", "QS", "CH"): 1, ("lt", "CH", "QS"): 1, ("lt", "QI", "Z"): 1, ("lt", "Z", "QI"): 1, ("lt", "PK", "PC"): 1, ("lt", "PK", "Z"): 0, ("lt", "MG", "MG"): 0, ("lt", "Z", "Z"): 1,
    ("le", "QS", "CH"): 1, ("le", "CH", "QS"): 1, ("le", "Z", "QD"): 1, ("gt", "QS", "CH"): 1, ("gt", "CH", "QS"): 1, ("gt", "QD", "Z"): 1, ("ge", "QS", "CH"): 1,
    ("ge", "CH", "QS"): 1, ("ge", "PC", "PK"): 1, ("ge", "Z", "QF"): 1,
    ("addeq", "QI", "QI"): 1, ("addeq", "QI", "Z"): 1, ("addeq", "QI", "I"): 0, ("addeq", "PK", "QI"): 0, ("addeq", "PK", "PK"): 0, ("addeq", "QI", "QD"): 0,
    ("subeq", "QI", "QI"): 1, ("subeq", "PK", "PK"): 0, ("muleq", "QI", "I"): 1, ("muleq", "PK", "I"): 0, ("diveq", "QD", "D"): 1,
    ("diveq", "PK", "I"): 0,
}


def vm_block():
    """C++ text of the detection traits + the function printing the table."""
    L = ["namespace sxv {", "using namespace sx;", "template <class...> using vt = void;"]
    for n, sym in VM_OPS:
        lhs = "std::declval<A &>()" if n in ("addeq", "subeq", "muleq", "diveq") else "std::declval<A>()"
        L.append("template <class A, class B, class = void> struct can_%s : std::false_type {}; "
                 "template <class A, class B> struct can_%s<A, B, vt<decltype(%s %s std::declval<B>())>> : std::true_type {};" % (n, n, lhs, sym))
    L += ["template <class A, class = void> struct can_neg : std::false_type {}; template <class A> struct can_neg<A, vt<decltype(-std::declval<A>())>> : std::true_type {};",
          "template <class A, class = void> struct can_pos : std::false_type {}; template <class A> struct can_pos<A, vt<decltype(+std::declval<A>())>> : std::true_type {};",
          "template <class A, class = void> struct can_stream : std::false_type {}; template <class A> struct can_stream<A, vt<decltype(std::declval<std::ostream &>() << std::declval<A>())>> : std::true_type {};",
          "template <class A, class B, class = void> struct can_call : std::false_type {}; template <class A, class B> struct can_call<A, B, vt<decltype(std::declval<A>()(std::declval<B>()))>> : std::true_type {};",
          "inline void cell(int got, int want) { std::printf(\"%d\", got); if (want >= 0 && want != got) { ++sx::g_mismatch; std::printf(\"!MISMATCH\"); } }",
          "static void table() {"]
    n_cells = n_exp = 0
    for n, _ in VM_OPS:
        for a, ta in VM_KINDS:
            L.append('    std::printf("valid.%s.%s = ");' % (n, a))
            for b, tb in VM_KINDS:
                if (n, a, b) in VM_HARD_ERROR:
                    L.append('    std::printf("h");')
                elif (n, a, b) in VM_DIVERGENT:
                    L.append('    std::printf("d");')
                else:
                    w = VM_EXPECT.get((n, a, b), -1)
                    n_cells += 1
                    n_exp += w >= 0
                    L.append("    cell(int(can_%s<%s, %s>::value), %d);" % (n, ta, tb, w))
            L.append('    std::printf("\\n");')
    un = {("neg", "QI"): 1, ("neg", "QD"): 1, ("neg", "PK"): 0, ("neg", "Z"): 0, ("neg", "MK"): 0, ("pos", "QI"): 1, ("pos", "PK"): 0,
          ("stream", "QI"): 1, ("stream", "PK"): 1, ("stream", "Z"): 1, ("stream", "MG"): 1, ("stream", "CN"): 1, ("stream", "SY"): 1, ("stream", "MK"): 0, ("stream", "UT"): 0}
    for n in ("neg", "pos", "stream"):
        L.append('    std::printf("valid.%s = ");' % n)
        for a, ta in VM_KINDS:
            if n == "stream" and a == "CH":
                L.append('    std::printf("s");')      # streaming a chrono duration is a C++20 standard-library feature, not Au's
                continue
            if False:
                pass
            n_cells += 1
            L.append("    cell(int(can_%s<%s>::value), %d);" % (n, ta, un.get((n, a), -1)))
        L.append('    std::printf("\\n");')
    calls = {("MK", "I"): 1, ("MK", "D"): 1, ("MK", "QI"): 1, ("MK", "PK"): 1, ("PM", "I"): 1, ("PM", "QI"): 1, ("SY", "I"): 0, ("SG", "I"): 0, ("CN", "I"): 0, ("MK", "MK"): 0}
    for a, ta in [k for k in VM_KINDS if k[0] in ("MK", "PM", "SY", "SG", "CN")]:
        L.append('    std::printf("valid.call.%s = ");' % a)
        for b, tb in [k for k in VM_KINDS if k[0] in ("I", "D", "QI", "PK")]:
            if a in ("MK", "PM") or b == "I":
                n_cells += 1
                L.append("    cell(int(can_call<%s, %s>::value), %d);" % (ta, tb, calls.get((a, b), -1)))
        L.append('    std::printf("\\n");')
    L += ["}", "}  // namespace sxv"]
    return "\n".join(L) + "\n", n_cells, n_exp


def build(rng):
    g = Gen(rng)
    for sec in SECTIONS:
        sec(g)
    src = g.source()
    return src, g.n + g.vm_cells


SECTIONS = [sec_quantity_same, sec_quantity_mixed, sec_qlike_zero, sec_points, sec_wrappers, sec_constant_mag_traits, sec_math_io, sec_standard_dependent]


# ---- small agreement probes: each must be accepted (and link) alike under all six configurations ----------------------
# ODR-use of the `unit` static data members: a reference to / the address of a constexpr static data member needs a
# namespace-scope definition in C++14 and none in C++17 (inline variables).  Kept apart from the big program so that a
# missing definition names exactly the member (the linker's "undefined reference to ...").
_INC = '#if defined(AU_C20_SINGLE)\n#include "au.hh"\n#else\n#include "au/au.hh"\n#endif\n#include <cstdio>\n'
ODR_UNIT_PROGRAM = _INC + r"""
template <class T> const void *addr(const T &x) { return &x; }
int main() {
    auto q = au::seconds(3);
    auto p = au::make_quantity_point<au::Seconds>(3);
    int n = 0;
    n += addr(q.unit) != nullptr;                                    // Quantity<U, R>::unit
    n += addr(au::seconds.unit) != nullptr;                          // QuantityMaker<U>::unit
    n += addr(p.unit) != nullptr;                                    // QuantityPoint<U, R>::unit
    n += addr(au::QuantityPointMaker<au::Seconds>::unit) != nullptr; // QuantityPointMaker<U>::unit
    std::printf("%d\n", n);
    return n == 4 ? 0 : 1;
}
"""
# `au::copysign` is declared constexpr; whether a constant expression may call it must not depend on the compiler
CONSTEXPR_COPYSIGN_PROGRAM = _INC + r"""
constexpr auto a = au::copysign(au::seconds(3.0), -1.0);               // copysign(Quantity, T)
constexpr auto b = au::copysign(3.0, au::seconds(-1.0));               // copysign(T, Quantity)
constexpr auto c = au::copysign(au::seconds(3.0), au::minutes(-1.0));  // copysign(Quantity, Quantity)
static_assert(a == au::seconds(-3.0) && b == -3.0 && c == au::seconds(-3.0), "copysign");
int main() { return 0; }
"""
# built-in compound assignment with a unitless Quantity on the right needs the implicit `operator Rep()`
COMPOUND_UNITLESS_PROGRAM = _INC + r"""
int main() {
    auto u = au::make_quantity<au::UnitProductT<>>(2);
    int i = 3; i += u; i -= u; i *= u; i /= u;
    double d = 1.5; d += u; d -= u; d *= u; d /= u;
    std::printf("%d %g\n", i, d);
    return (i == 3 && d == 1.5) ? 0 : 1;
}
"""
MINI_PROBES = [("odr-static-unit", ODR_UNIT_PROGRAM, "link"), ("constexpr-copysign", CONSTEXPR_COPYSIGN_PROGRAM, "syntax"),
               ("compound-assign-unitless", COMPOUND_UNITLESS_PROGRAM, "link")]

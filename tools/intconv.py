"""C03 / C04: integral same-rep conversions — correspondence between the Lean model
(AuModel.ApplyMag) and the real headers, plus the statement-level oracle.

One harness serves both properties.  Instances are (T, N, D) with N/D in lowest terms.  For every
instance the harness is asked to
  * sweep every value of T (8/16-bit always, 32-bit in the thorough tier) and compare the three
    public checkers against (a) the certificate computed by the Lean model (interval + modulus,
    proved equivalent to the pointwise model in AuProofs.Lemmas.Cert) and (b) the exact __int128
    oracle of the property statement, and to perform every conversion the checker clears, under
    UBSan/ASan, checking exactness;
  * evaluate sample points (boundary neighbourhoods from the model's own guards + random), which are
    then compared line by line with the Lean driver and with a big-integer oracle in Python.
"""
import math
import os
import time

from vlib import (INT_TYPES, UBSAN_ENV, Driver, cxx, kv, pmap, promote, run, ty_hi, ty_lo)

LIB_RATIOS = [
    (381, 1250), (1250, 381), (127, 5000), (5000, 127), (201168, 125), (125, 201168), (1000, 1), (1, 1000),
    (60, 1), (1, 60), (3600, 1), (1, 3600), (5, 9), (9, 5), (1024, 1), (1, 1024), (1852, 1), (1, 1852),
    (45359237, 100000000), (100000000, 45359237), (3, 2), (2, 3), (1, 1), (1000000, 1), (1, 1000000),
    (1000000000, 1), (1, 1000000000), (86400, 1), (1, 86400), (25, 9), (1143, 1250),
]
PRIMES_BIG = [2147483647, 2147483629, 4294967291, 4294967311, 1000000007, 2305843009213693951, 65521, 65537,
              32749, 251, 257, 127, 131]


def gen_factors(rng, t, n):
    """Structured factor grid for type t: list of (N, D), coprime, positive."""
    hi, phi = ty_hi(t), ty_hi(promote(t))
    nb = INT_TYPES[t][1]
    plo, lo = ty_lo(promote(t)), ty_lo(t)
    must = [(rng.choice([3, 5, 7, 9]), 1 << (nb - 1)), (2, 3), (3, 2)]
    # guard boundaries of the model (and hence of the code): every instance-level comparison in
    # categorize / gvInt / lessThanOne / max-/minNonOverflowing, at the threshold and one to either side
    thetas = [hi, phi, phi // hi] + ([plo // lo] if lo < 0 else [])
    for th in thetas:
        for dl in (-1, 0, 1):
            v = th + dl
            if v < 2:
                continue
            must += [(v, 1), (1, v), (v, rng.choice([2, 3, 5, 7])), (rng.choice([2, 3, 5, 7]), v),
                     (v + 1, v), (v, v + 1), (v + rng.randrange(2, 50), v), (2 * v + 1, v)]
    cand = list(must)
    cand += rng.sample(LIB_RATIOS, 6)
    # straddling the limits of T and of the promoted type
    lim = [hi - 1, hi, hi + 1, hi + 2, phi - 1, phi, phi + 1, (hi + 1) // 2, (hi + 1) * 2, hi // 3, phi // 3]
    for v in rng.sample(lim, 6):
        w = rng.choice([1, 2, 3, 5, 7, rng.choice(lim), rng.randrange(2, 1000)])
        cand.append((v, w) if rng.random() < 0.5 else (w, v))
    # powers of two and ten
    for _ in range(3):
        a = rng.choice([2, 10]) ** rng.randrange(1, 20 if rng.random() < 0.7 else 19)
        b = rng.choice([1, 3, 7, 9, 3 ** rng.randrange(1, 12)])
        cand.append((a, b) if rng.random() < 0.5 else (b, a))
    # large primes
    for _ in range(2):
        p = rng.choice(PRIMES_BIG)
        q = rng.choice([1, 2, 3, rng.choice(PRIMES_BIG)])
        cand.append((p, q) if rng.random() < 0.5 else (q, p))
    cand.append((rng.choice([3, 5, 7, 9]), 1 << (nb - 2)))
    # random coprime pairs of several sizes (small ones dominate: they leave many values un-flagged)
    for _ in range(4 * n + 40):
        ka = rng.choice([2, 3, 4, 4, 6, 8, 8, 12, 16, 20, 31, 32, 40])
        kb = rng.choice([2, 3, 4, 4, 6, 8, 8, 12, 16, 20, 31, 32, 40])
        cand.append((rng.randrange(1, 1 << ka), rng.randrange(1, 1 << kb)))
    out, seen = [], set()
    for (a, d) in cand:
        if a <= 0 or d <= 0:
            continue
        g = math.gcd(a, d)
        a, d = a // g, d // g
        if (a, d) in seen or a >= 1 << 63 or d >= 1 << 63:
            continue
        # keep compile-time factorisation cheap: numbers above 2^40 must be smooth or known primes
        if any(v > (1 << 40) and not _cheap(v) for v in (a, d)):
            continue
        seen.add((a, d))
        out.append((a, d))
    head = out[:len(must)]          # the must-list survives (minus duplicates / non-cheap numbers)
    tail = out[len(must):]
    rng.shuffle(tail)
    return (head + tail)[:max(n, len(head))]


_SMALL = None


def _small_primes():
    global _SMALL
    if _SMALL is None:
        n = 1 << 17
        sieve = bytearray([1]) * n
        sieve[0] = sieve[1] = 0
        for i in range(2, int(n ** 0.5) + 1):
            if sieve[i]:
                sieve[i * i::i] = bytearray(len(sieve[i * i::i]))
        _SMALL = [i for i in range(n) if sieve[i]]
    return _SMALL


def is_prime_mr(n):
    if n < 2:
        return False
    for p in (2, 3, 5, 7, 11, 13, 17, 19, 23, 29, 31, 37):
        if n % p == 0:
            return n == p
    d, s = n - 1, 0
    while d % 2 == 0:
        d //= 2
        s += 1
    for a in (2, 3, 5, 7, 11, 13, 17, 19, 23, 29, 31, 37):
        x = pow(a, d, n)
        if x in (1, n - 1):
            continue
        for _ in range(s - 1):
            x = x * x % n
            if x == n - 1:
                break
        else:
            return False
    return True


def _cheap(v):
    """Compile-time factorisation stays cheap: smooth part over primes < 2^17 times at most one prime."""
    for p in _small_primes():
        if p * p > v:
            break
        while v % p == 0:
            v //= p
    return v == 1 or is_prime_mr(v)


def gen_instances(rng, tier):
    per_type = 40 if tier == "quick" else 120
    inst = []
    for t in INT_TYPES:
        for (n, d) in gen_factors(rng, t, per_type):
            inst.append({"id": len(inst), "T": t, "N": n, "D": d})
    # same width and signedness, another C++ TYPE: a change keyed on std::is_same<T, int64_t> or on the fixed-width typedefs
    # must not escape (long long vs long, plain char / signed char vs int8_t's underlying type, ...)
    ALT = {"i64": ["long long"], "u64": ["unsigned long long"], "i8": ["char", "signed char"], "u8": ["unsigned char"], "i32": ["int"],
           "u32": ["unsigned"], "i16": ["short"], "u16": ["unsigned short"]}
    for i in inst:
        if i["T"] in ALT and rng.random() < 0.15:
            i["ctype"] = rng.choice(ALT[i["T"]])
    return inst


def sample_points(rng, inst, cert, count):
    t, n, d = inst["T"], inst["N"], inst["D"]
    lo, hi = ty_lo(t), ty_hi(t)
    pts = {lo, lo + 1, lo + 2, -1, 0, 1, 2, hi - 2, hi - 1, hi, -d, d, -n, n, d - 1, d + 1, -d - 1, -d + 1}
    for b in (int(cert["lo"]), int(cert["hi"])):
        for k in (-2, -1, 0, 1, 2):
            pts.add(b + k)
        if d > 1:
            m = (b // d) * d
            pts.update({m, m + d, m - d})
    for _ in range(count):
        r = rng.random()
        if r < 0.4:
            pts.add(rng.randrange(lo, hi + 1))
        elif r < 0.7:
            mag = 1 << rng.randrange(0, INT_TYPES[t][1])
            v = rng.randrange(0, mag + 1)
            pts.add(v if rng.random() < 0.5 else -v)
        else:
            # exact multiples of D (so that "not lossy" cases are not starved)
            if d <= hi:
                q = rng.randrange(lo // d, hi // d + 1)
                pts.add(q * d)
            else:
                pts.add(rng.randrange(lo, hi + 1))
    return sorted(p for p in pts if lo <= p <= hi)


HARNESS_COMMON = r'''
#include <cstdint>
#include <cstdio>
#include <cstdlib>
#include <cstring>
#include <limits>
#include <string>
#include "au/quantity.hh"
#include "au/unit_of_measure.hh"
#include "au/magnitude.hh"
typedef __int128 i128;
struct VBase : au::UnitImpl<au::Length> {};
struct Entry {
    int id; int bits; int is_signed; int compiles;
    bool (*ovf)(i128); bool (*tr)(i128); bool (*lossy)(i128);
    i128 (*conv)(i128); i128 (*conv2)(i128);
};
template <class T, class NumMag, class DenMag, bool Compiles>
struct Inst;
template <class T, class NumMag, class DenMag>
struct InstBase {
    using Target = decltype(VBase{} * (DenMag{} / NumMag{}));
    static bool ovf(i128 x) { return au::will_conversion_overflow(au::make_quantity<VBase>(static_cast<T>(x)), Target{}); }
    static bool tr(i128 x) { return au::will_conversion_truncate(au::make_quantity<VBase>(static_cast<T>(x)), Target{}); }
    static bool lossy(i128 x) { return au::is_conversion_lossy(au::make_quantity<VBase>(static_cast<T>(x)), Target{}); }
};
template <class T, class NumMag, class DenMag>
struct Inst<T, NumMag, DenMag, true> : InstBase<T, NumMag, DenMag> {
    using Target = typename InstBase<T, NumMag, DenMag>::Target;
    static i128 conv(i128 x) { return au::make_quantity<VBase>(static_cast<T>(x)).coerce_in(Target{}); }
    static i128 conv2(i128 x) { return au::make_quantity<VBase>(static_cast<T>(x)).coerce_as(Target{}).in(Target{}); }
};
template <class T, class NumMag, class DenMag>
struct Inst<T, NumMag, DenMag, false> : InstBase<T, NumMag, DenMag> {
    static i128 conv(i128) { return 0; }
    static i128 conv2(i128) { return 0; }
};
#define ENTRY(ID, T, NM, DM, C) \
    { ID, int(sizeof(T) * 8), int(std::numeric_limits<T>::is_signed), C, \
      &Inst<T, decltype(NM), decltype(DM), C>::ovf, &Inst<T, decltype(NM), decltype(DM), C>::tr, \
      &Inst<T, decltype(NM), decltype(DM), C>::lossy, &Inst<T, decltype(NM), decltype(DM), C>::conv, \
      &Inst<T, decltype(NM), decltype(DM), C>::conv2 }
'''

HARNESS_MAIN = r'''
#include <csetjmp>
#include <csignal>
#include <unistd.h>
extern const Entry* const chunks[]; extern const int chunk_sizes[]; extern const int n_chunks;
static sigjmp_buf g_jb; static volatile sig_atomic_t g_in = 0;
static void on_fpe(int) { if (g_in) siglongjmp(g_jb, 1); _exit(97); }
static volatile long g_ub = 0;
extern "C" void __ubsan_on_report(void) { g_ub = g_ub + 1; }
static std::string s128(i128 v) {
    if (v == 0) return "0";
    bool neg = v < 0; unsigned __int128 u = neg ? (unsigned __int128)(-(v + 1)) + 1u : (unsigned __int128)v;
    std::string s; while (u) { s.insert(s.begin(), char('0' + int(u % 10))); u /= 10; }
    return neg ? "-" + s : s;
}
static i128 p128(const char* s) {
    bool neg = false; if (*s == '-') { neg = true; ++s; }
    unsigned __int128 u = 0; while (*s >= '0' && *s <= '9') { u = u * 10 + unsigned(*s - '0'); ++s; }
    return neg ? -(i128)u : (i128)u;
}
static const Entry* find(int id) {
    for (int c = 0; c < n_chunks; ++c) for (int i = 0; i < chunk_sizes[c]; ++i) if (chunks[c][i].id == id) return &chunks[c][i];
    return nullptr;
}
static i128 tlo(const Entry& e) { return e.is_signed ? -((i128)1 << (e.bits - 1)) : 0; }
static i128 thi(const Entry& e) { return e.is_signed ? ((i128)1 << (e.bits - 1)) - 1 : ((i128)1 << e.bits) - 1; }
int main() {
    char line[512];
    { struct sigaction sa; sa.sa_handler = on_fpe; sigemptyset(&sa.sa_mask); sa.sa_flags = SA_NODEFER; sigaction(SIGFPE, &sa, nullptr); }
    while (fgets(line, sizeof line, stdin)) {
        char cmd; int id; char a[4][64] = {{0}};
        char kind[32] = {0};
        if (line[0] == 'P') {
            // P id x
            if (sscanf(line, "%c %d %63s", &cmd, &id, a[0]) != 3) { puts("bad"); continue; }
            const Entry* e = find(id); if (!e) { puts("bad"); continue; }
            i128 x = p128(a[0]);
            if (sigsetjmp(g_jb, 0)) { g_in = 0; printf("P %d %s ovf=fpe trunc=fpe lossy=fpe val=fpe val2=fpe ub=0\n", id, a[0]); fflush(stdout); continue; }
            g_in = 1;
            bool o = e->ovf(x), t = e->tr(x), l = e->lossy(x);
            long ub0 = g_ub; std::string v = "-", v2 = "-";
            if (e->compiles && !l) { v = s128(e->conv(x)); v2 = s128(e->conv2(x)); }
            g_in = 0;
            printf("P %d %s ovf=%d trunc=%d lossy=%d val=%s val2=%s ub=%ld\n", id, a[0], o, t, l, v.c_str(), v2.c_str(), g_ub - ub0);
        } else if (line[0] == 'S') {
            // S id N D lo hi kind d plo phi
            if (sscanf(line, "%c %d %63s %63s %63s %63s %31s %63s", &cmd, &id, a[0], a[1], a[2], a[3], kind, line + 400) < 7) { puts("bad"); continue; }
            const Entry* e = find(id); if (!e) { puts("bad"); continue; }
            i128 N = p128(a[0]), D = p128(a[1]), clo = p128(a[2]), chi = p128(a[3]), md = p128(line + 400);
            i128 lo = tlo(*e), hi = thi(*e);
            int pb = e->bits < 32 ? 32 : e->bits; bool ps = e->bits < 32 ? true : bool(e->is_signed);
            i128 plo = ps ? -((i128)1 << (pb - 1)) : 0, phi = ps ? ((i128)1 << (pb - 1)) - 1 : ((i128)1 << pb) - 1;
            volatile long n = 0, cm = 0, of_ovf = 0, of_tr = 0, of_lossy = 0, vbad = 0, ub = 0, cleared = 0, nontriv = 0;   // live across siglongjmp
            volatile long fpe = 0;
            std::string first_cm = "-", first_ovf = "-", first_tr = "-", first_val = "-", first_ub = "-", first_fpe = "-";
            for (volatile i128 xv = lo; xv <= hi; xv = xv + 1) {
                i128 x = xv;
                n = n + 1;
                if (sigsetjmp(g_jb, 0)) { g_in = 0; if (!fpe) first_fpe = s128(xv); fpe = fpe + 1; continue; }   // no mask save: SA_NODEFER handler
                g_in = 1;
                bool o = e->ovf(x), t = e->tr(x), l = e->lossy(x);
                // (a) certificate from the Lean model
                bool mo = !(clo <= x && x <= chi);
                bool mt = kind[0] == 'n' && kind[1] == 'e' ? false : (kind[0] == 'm' ? (x % md != 0) : (x != 0));
                if (o != mo || t != mt || l != (mo || mt)) { if (!cm) first_cm = s128(x); cm = cm + 1; }
                // (b) statement-level oracle
                i128 y = x * N;
                bool fits = (lo * D <= y && y <= hi * D) && (plo <= y && y <= phi);
                bool exact = (y % D == 0);
                if (o != !fits) { if (!of_ovf) first_ovf = s128(x); of_ovf = of_ovf + 1; }
                if (t != !exact) { if (!of_tr) first_tr = s128(x); of_tr = of_tr + 1; }
                if (l != (o || t)) { of_lossy = of_lossy + 1; }
                if (o || t) nontriv = nontriv + 1;
                if (e->compiles && !l) {
                    cleared = cleared + 1;
                    long ub0 = g_ub;
                    i128 v = e->conv(x);
                    if (g_ub != ub0) { if (!ub) first_ub = s128(x); ub = ub + 1; }
                    if (!exact || v * D != y) { if (!vbad) first_val = s128(x); vbad = vbad + 1; }
                }
                g_in = 0;
            }
            printf("S %d n=%ld cert_mismatch=%ld first_cm=%s oracle_ovf=%ld first_ovf=%s oracle_tr=%ld first_tr=%s oracle_lossy=%ld cleared=%ld val_bad=%ld first_val=%s ub=%ld first_ub=%s flagged=%ld fpe=%ld first_fpe=%s\n",
                   id, (long)n, (long)cm, first_cm.c_str(), (long)of_ovf, first_ovf.c_str(), (long)of_tr, first_tr.c_str(), (long)of_lossy, (long)cleared, (long)vbad, first_val.c_str(), (long)ub, first_ub.c_str(), (long)nontriv, (long)fpe, first_fpe.c_str());
        } else { puts("bad"); }
        fflush(stdout);
    }
    return 0;
}
'''


def mag_expr(v):
    """C++ expression for the magnitude of positive integer v (< 2^64)."""
    return f"au::mag<{v}ull>()"


CTYPE = {k: v[0] for k, v in INT_TYPES.items()}


def write_harness(wd, insts, certs, nchunks=16):
    chunks = [insts[i::nchunks] for i in range(nchunks)]
    chunks = [c for c in chunks if c]
    files = []
    for ci, ch in enumerate(chunks):
        p = os.path.join(wd, f"chunk{ci}.cc")
        with open(p, "w") as f:
            f.write(HARNESS_COMMON)
            f.write(f"extern const Entry table{ci}[] = {{\n")
            for ins in ch:
                c = certs[ins["id"]]
                f.write(f"  ENTRY({ins['id']}, {ins.get('ctype') or CTYPE[ins['T']]}, {mag_expr(ins['N'])}, {mag_expr(ins['D'])}, "
                        f"{'true' if c['compiles'] == '1' else 'false'}),\n")
            f.write("};\n")
        files.append(p)
    p = os.path.join(wd, "main.cc")
    with open(p, "w") as f:
        f.write(HARNESS_COMMON)
        for ci, ch in enumerate(chunks):
            f.write(f"extern const Entry table{ci}[];\n")
        f.write("const Entry* const chunks[] = {" + ", ".join(f"table{ci}" for ci in range(len(chunks))) + "};\n")
        f.write("const int chunk_sizes[] = {" + ", ".join(str(len(ch)) for ch in chunks) + "};\n")
        f.write(f"const int n_chunks = {len(chunks)};\n")
        f.write(HARNESS_MAIN)
    files.append(p)
    return files


def build_harness(wd, files, compiler, std, tag):
    """compiler "exact" = clang++-14 with the exact-count UBSan handlers (every undefined operation or unsigned
    wrap is counted for the input that executes it; the full runtimes report a source location only once)."""
    objs = []
    exact = compiler == "exact"

    def comp(src):
        obj = src[:-3] + f".{tag}.o"
        rc, out = cxx(src, obj, compiler=compiler, std=std, extra=["-c"], san="exact" if exact else True)
        return (src, obj, rc, out)
    res = pmap(comp, files)
    for src, obj, rc, out in res:
        if rc != 0:
            return None, {"src": src, "output": out[-4000:]}
        objs.append(obj)
    exe = os.path.join(wd, f"harness_{tag}")
    from vlib import san_flags, EXACT, EXACT_HANDLERS
    if exact:
        rc, out, err = run([EXACT] + san_flags(EXACT, "exact") + objs + [EXACT_HANDLERS, "-o", exe])
    else:
        rc, out, err = run([compiler] + san_flags(compiler) + objs + ["-o", exe])
    if rc != 0:
        return None, {"src": "link", "output": (out + err)[-4000:]}
    return exe, None


def run_harness(exe, lines, shards=16):
    """Distribute request lines over processes; return answers in request order."""
    if not lines:
        return []
    # S lines are heavy: spread them round-robin
    order = sorted(range(len(lines)), key=lambda i: (0 if lines[i][0] == "S" else 1))
    buckets = [[] for _ in range(shards)]
    for k, i in enumerate(order):
        buckets[k % shards].append(i)

    def work(idx):
        if not idx:
            return []
        rc, out, err = run([exe], inp="\n".join(lines[i] for i in idx) + "\n", env=UBSAN_ENV, timeout=7200)
        res = [l for l in out.split("\n") if l]
        if len(res) != len(idx):
            raise RuntimeError(f"harness: rc={rc}, {len(res)} answers for {len(idx)} requests; stderr tail:\n{err[-3000:]}")
        return res, err
    outs = pmap(work, buckets, workers=shards)
    answers = [None] * len(lines)
    errs = []
    for idx, o in zip(buckets, outs):
        if not idx:
            continue
        res, err = o
        errs.append(err)
        for i, r in zip(idx, res):
            answers[i] = r
    return answers, errs


def oracle(t, n, d, x):
    """Statement-level predicates, big-integer arithmetic."""
    lo, hi = ty_lo(t), ty_hi(t)
    p = promote(t)
    plo, phi = ty_lo(p), ty_hi(p)
    y = x * n
    fits = lo * d <= y <= hi * d and plo <= y <= phi
    exact = (y % d == 0)
    return fits, exact, (y // d if exact else None)


def neg_probe_src(ins):
    return (HARNESS_COMMON + f"\nint main() {{ return int(Inst<{ins.get('ctype') or CTYPE[ins['T']]}, decltype({mag_expr(ins['N'])}), "
            f"decltype({mag_expr(ins['D'])}), true>::conv(1)); }}\n")


def explore(prop, tier, seed, rng, wd):
    """Run the whole correspondence. Returns (coverage dict, violations list)."""
    t0 = time.time()
    drv = Driver()
    insts = gen_instances(rng, tier)
    cert_lines = drv.ask([f"cert {i['T']} {i['N']} {i['D']}" for i in insts])
    certs = {i["id"]: kv(l) for i, l in zip(insts, cert_lines)}
    violations = []
    files = write_harness(wd, insts, certs)
    # configurations: g++ c++14 always; clang (adds unsigned-overflow detection) with a seed-chosen standard
    configs = [("g++", "c++14", "g14")]
    std2 = ["c++14", "c++17", "c++20"][seed % 3]
    configs.append(("exact", std2, "x" + std2[-2:]))
    if tier == "thorough":
        configs = [("g++", "c++14", "g14"), ("g++", "c++20", "g20"), ("clang++-14", "c++14", "c14"),
                   ("clang++-14", "c++17", "c17"), ("exact", "c++14", "x14")]
    sweep_bits = 16 if tier == "quick" else 32
    npts = 150 if tier == "quick" else 600
    pts = {i["id"]: sample_points(rng, i, certs[i["id"]], npts if INT_TYPES[i["T"]][1] > sweep_bits else npts // 3)
           for i in insts}
    by_id = {i["id"]: i for i in insts}
    stats = {"instances": len(insts), "sweeps": 0, "sweep_values": 0, "points": 0, "cleared_conversions": 0,
             "flagged_values": 0, "configs": [], "categories": {}, "types": {}, "neg_probes": 0,
             "model_noncompiling_instances": 0}
    for i in insts:
        c = certs[i["id"]]
        stats["categories"][c["cat"]] = stats["categories"].get(c["cat"], 0) + 1
        stats["types"][i["T"]] = stats["types"].get(i["T"], 0) + 1
        if c["compiles"] == "0":
            stats["model_noncompiling_instances"] += 1
    samples = []
    distinct = set()
    for (compiler, std, tag) in configs:
        exe, err = build_harness(wd, files, compiler, std, tag)
        if exe is None:
            # The model said these conversions compile; the compiler disagrees (or the API changed).
            violations.append({
                "what": f"harness does not compile under {compiler} -std={std}: the model's `compiles` predicate "
                        f"or the public conversion API no longer matches the headers",
                "class": "harness-build", "rec": {"kind": "build", "config": f"{compiler} {std}"},
                "no_input": True, "broken": "correspondence: Au.compiles vs get_value static_asserts", "detail": err})
            continue
        stats["configs"].append(f"{compiler} -std={std}" if compiler != "exact" else f"exact -std={std} (clang++-14, exact-count UBSan handlers)")
        lines = []
        thorough32 = []
        for i in insts:
            c = certs[i["id"]]
            bits = INT_TYPES[i["T"]][1]
            # thorough: exhaustive 2^32 sweeps for 16 instances in the first configuration, 4 in each further one
            if bits <= 16 or (bits == 32 and sweep_bits == 32 and len(thorough32) < (16 if not stats["configs"][1:] else 4)):
                if bits == 32:
                    thorough32.append(i["id"])
                tk = c["trunc"]
                kind, md = ("never", "1") if tk == "never" else (("mod", tk[4:]) if tk.startswith("mod:") else ("nonzero", "1"))
                lines.append(f"S {i['id']} {i['N']} {i['D']} {c['lo']} {c['hi']} {kind} {md}")
            for x in pts[i["id"]]:
                lines.append(f"P {i['id']} {x}")
        answers, errs = run_harness(exe, lines)
        # model answers for the P lines
        preq = [l for l in lines if l[0] == "P"]
        mreq = []
        for l in preq:
            _, sid, x = l.split()
            ins = by_id[int(sid)]
            mreq.append(f"applymag {ins['T']} {ins['N']} {ins['D']} {x}")
        mans = drv.ask(mreq)
        mi = 0
        for l, a in zip(lines, answers):
            f = a.split()
            ins = by_id[int(f[1])]
            t, n, d = ins["T"], ins["N"], ins["D"]
            cfg = f"{compiler} -std={std}"
            base = {"T": t, "N": n, "D": d, "config": cfg}
            if ins.get("ctype"):
                base["ctype"] = ins["ctype"]
            if l[0] == "S":
                r = kv(a)
                stats["sweeps"] += 1
                stats["sweep_values"] += int(r["n"])
                stats["cleared_conversions"] += int(r["cleared"])
                stats["flagged_values"] += int(r["flagged"])
                if len(samples) < 3:
                    samples.append({"request": l, "harness": a})
                if int(r["cert_mismatch"]):
                    x = int(r["first_cm"])
                    violations.append({"what": "model certificate and implementation checkers differ",
                                       "class": "corr-cert", "no_input": True,
                                       "broken": "correspondence: okInterval/truncKind vs will_conversion_*",
                                       "rec": dict(base, kind="corr", x=x, count=int(r["cert_mismatch"])), "props": ["C03", "C04"]})
                if int(r["oracle_ovf"]):
                    x = int(r["first_ovf"])
                    violations.append({"what": f"will_conversion_overflow disagrees with the exact range predicate at x={x}",
                                       "class": f"oracle-ovf-{t}-{n}-{d}", "rec": dict(base, kind="oracle", observable="ovf", x=x,
                                                                                    count=int(r["oracle_ovf"])), "props": ["C04"]})
                if int(r["oracle_tr"]):
                    x = int(r["first_tr"])
                    violations.append({"what": f"will_conversion_truncate disagrees with exact divisibility at x={x}",
                                       "class": f"oracle-tr-{t}-{n}-{d}", "rec": dict(base, kind="oracle", observable="trunc", x=x,
                                                                                   count=int(r["oracle_tr"])), "props": ["C04"]})
                if int(r["oracle_lossy"]):
                    violations.append({"what": "is_conversion_lossy is not the disjunction of the two checkers",
                                       "class": "oracle-lossy", "rec": dict(base, kind="oracle", observable="lossy"), "props": ["C04"]})
                if int(r["val_bad"]):
                    x = int(r["first_val"])
                    violations.append({"what": f"checker-cleared conversion is not exact at x={x}",
                                       "class": f"val-{t}-{n}-{d}", "rec": dict(base, kind="oracle", observable="value", x=x), "props": ["C03"]})
                if int(r["ub"]):
                    x = int(r["first_ub"])
                    violations.append({"what": f"checker-cleared conversion executes UB / unsigned wrap at x={x} (sanitizer report)",
                                       "class": f"ub-{t}-{n}-{d}", "rec": dict(base, kind="oracle", observable="ub", x=x), "props": ["C03"]})
                if int(r.get("fpe", "0")):
                    x = int(r["first_fpe"])
                    violations.append({"what": f"a conversion checker or the conversion itself traps (SIGFPE: division by zero) at x={x} for factor {n}/{d} in {t}",
                                       "class": f"fpe-{t}-{n}-{d}", "rec": dict(base, kind="oracle", observable="trap", x=x, count=int(r["fpe"])),
                                       "props": ["C03", "C04"]})
            else:
                x = int(f[2])
                r = kv(a)
                m = kv(mans[mi])
                mi += 1
                stats["points"] += 1
                if r["ovf"] == "fpe":
                    violations.append({"what": f"a conversion checker or the conversion itself traps (SIGFPE) at x={x} for factor {n}/{d} in {t}",
                                       "class": f"fpe-{t}-{n}-{d}", "rec": dict(base, kind="oracle", observable="trap", x=x), "props": ["C03", "C04"]})
                    continue
                if r["lossy"] == "0":
                    stats["cleared_conversions"] += 1
                else:
                    stats["flagged_values"] += 1
                distinct.add((t, n, d, x))
                if len(samples) < 8 and x not in (0, 1, -1):
                    samples.append({"request": f"applymag {t} {n} {d} {x}", "model": mans[mi - 1], "harness": a})
                # correspondence
                same = (r["ovf"] == m["ovf"] and r["trunc"] == m["trunc"] and r["lossy"] == m["lossy"])
                if r["lossy"] == "0" and m["val"] != "-":
                    same = same and r["val"] == m["val"] and r["val2"] == m["val"]
                if not same:
                    violations.append({"what": f"model and implementation differ at x={x}", "class": "corr-point",
                                       "no_input": True, "broken": "correspondence: applymag line protocol",
                                       "rec": dict(base, kind="corr", x=x, model=mans[mi - 1], impl=a), "props": ["C03", "C04"]})
                # oracle
                fits, exact, q = oracle(t, n, d, x)
                if (r["ovf"] == "1") != (not fits):
                    violations.append({"what": f"will_conversion_overflow disagrees with the exact range predicate at x={x}",
                                       "class": f"oracle-ovf-{t}-{n}-{d}", "rec": dict(base, kind="oracle", observable="ovf", x=x), "props": ["C04"]})
                if (r["trunc"] == "1") != (not exact):
                    violations.append({"what": f"will_conversion_truncate disagrees with exact divisibility at x={x}",
                                       "class": f"oracle-tr-{t}-{n}-{d}", "rec": dict(base, kind="oracle", observable="trunc", x=x), "props": ["C04"]})
                if (r["lossy"] == "1") != (r["ovf"] == "1" or r["trunc"] == "1"):
                    violations.append({"what": "is_conversion_lossy is not the disjunction of the two checkers",
                                       "class": "oracle-lossy", "rec": dict(base, kind="oracle", observable="lossy", x=x), "props": ["C04"]})
                if r["lossy"] == "0" and r["val"] != "-":
                    if not exact or int(r["val"]) != q or int(r["val2"]) != q:
                        violations.append({"what": f"checker-cleared conversion is not exact at x={x}",
                                           "class": f"val-{t}-{n}-{d}", "rec": dict(base, kind="oracle", observable="value", x=x,
                                                                                  got=r["val"], want=q), "props": ["C03"]})
                    if r["ub"] != "0":
                        violations.append({"what": f"checker-cleared conversion executes UB / unsigned wrap at x={x} (sanitizer report)",
                                           "class": f"ub-{t}-{n}-{d}", "rec": dict(base, kind="oracle", observable="ub", x=x), "props": ["C03"]})
        stats.setdefault("sanitizer_stderr_lines", 0)
        stats["sanitizer_stderr_lines"] += sum(e.count("runtime error") for e in errs)
        with open(os.path.join(wd, f"stderr_{tag}.txt"), "w") as ef:
            ef.write("\n".join(errs))
    # negative probes: conversions the model says do not compile must be rejected by the compiler
    neg = [i for i in insts if certs[i["id"]]["compiles"] == "0"]
    rng.shuffle(neg)
    neg = neg[: (6 if tier == "quick" else 24)]

    def probe(ins):
        p = os.path.join(wd, f"neg{ins['id']}.cc")
        open(p, "w").write(neg_probe_src(ins))
        rc, out = cxx(p, None, san=False, syntax_only=True)
        return ins, rc, out
    for ins, rc, out in pmap(probe, neg):
        stats["neg_probes"] += 1
        base = {"T": ins["T"], "N": ins["N"], "D": ins["D"]}
        if rc == 0:
            violations.append({"what": "conversion compiles although the model (get_value static_asserts) says it must not",
                               "class": "corr-compiles", "no_input": True, "broken": "correspondence: Au.compiles",
                               "rec": dict(base, kind="corr", observable="compiles"), "props": ["C03", "C04"]})
        elif "static assertion failed" not in out and "static_assert failed" not in out:
            violations.append({"what": "negative probe rejected for an unexpected reason", "class": "corr-probe",
                               "no_input": True, "broken": "probe allow-list", "rec": dict(base, kind="corr", out=out[-800:]),
                               "props": ["C03", "C04"]})
    # The properties quantify over factors "for which the conversion compiles": oracle disagreements on
    # instances whose conversion is ill-formed (model `compiles` = 0, confirmed by the negative probes)
    # are out of scope; they are kept in the evidence as observations.
    comp = {(i["T"], i["N"], i["D"]): certs[i["id"]]["compiles"] == "1" for i in insts}
    oos = [v for v in violations if v["rec"].get("kind") == "oracle" and not comp.get((v["rec"]["T"], v["rec"]["N"], v["rec"]["D"]), True)]
    violations = [v for v in violations if v not in oos]
    stats["out_of_scope_observations"] = sorted({f"{v['rec']['T']} {v['rec']['N']}/{v['rec']['D']} {v['rec']['observable']} x={v['rec'].get('x')}" for v in oos})[:20]
    violations = [v for v in violations if prop in v.get("props", [prop])]
    total = stats["sweep_values"] + stats["points"]
    coverage = {
        "evaluations": total,
        "distinct_nontrivial": len({(v[0], v[1], v[2]) for v in distinct}) + 0,
        "rule": "case = (T, N, D, x); instances from a seeded structured grid (library ratios, limits of T and of the promoted "
                "type ±1, powers of 2/10, large primes, D = 2^(bits-1), random coprime pairs); 8/16-bit values exhaustive "
                "(32-bit in thorough), 64-bit: model-guard neighbourhoods + random. distinct_nontrivial counts distinct "
                "(T,N,D) instances explored (each with both flagged and cleared values where they exist)",
        "samples": samples,
        "exhaustive": False,
        "distribution": stats,
        "explore_s": round(time.time() - t0, 2),
    }
    return coverage, violations


def replay(prop, rec):
    """Re-run one recorded case against the current tree: prints model, implementation and oracle."""
    from vlib import workdir
    r = rec.get("rec", {})
    if not all(k in r for k in ("T", "N", "D")):
        print("replay: record has no (T, N, D) instance; it names a broken obligation:", rec.get("broken"))
        return 1
    wd = workdir(prop + "_replay")
    drv = Driver()
    ins = {"id": 0, "T": r["T"], "N": int(r["N"]), "D": int(r["D"])}
    if r.get("ctype"):
        ins["ctype"] = r["ctype"]
    cert = kv(drv.ask([f"cert {ins['T']} {ins['N']} {ins['D']}"])[0])
    files = write_harness(wd, [ins], {0: cert}, nchunks=1)
    cfg = r.get("config", "g++ -std=c++14").split()
    exe, err = build_harness(wd, files, cfg[0], cfg[1].replace("-std=", ""), "rp")
    if exe is None:
        print("replay: harness does not build:", err["output"][-1500:])
        return 1
    x = int(r.get("x", 0))
    ans, _ = run_harness(exe, [f"P 0 {x}"], shards=1)
    m = drv.ask([f"applymag {ins['T']} {ins['N']} {ins['D']} {x}"])[0]
    fits, exact, q = oracle(ins["T"], ins["N"], ins["D"], x)
    a = kv(ans[0])
    print("impl  :", ans[0])
    print("model :", m)
    print(f"oracle: fits={fits} exact={exact} value={q} compiles(model)={cert['compiles']}")
    bad = cert["compiles"] == "1" and ((a["ovf"] == "1") != (not fits) or (a["trunc"] == "1") != (not exact) or
                                       (a["lossy"] == "0" and a["val"] != "-" and (not exact or int(a["val"]) != q)) or a["ub"] != "0")
    mk = kv(m)
    diff = any(a[k] != mk[k] for k in ("ovf", "trunc", "lossy"))
    if bad or diff:
        print(f"VIOLATION property={prop} replay={rec.get('_path', '<given>')}" + ("" if bad else " no-failing-input-found"))
        return 1
    print("replay: property holds on this case")
    return 0

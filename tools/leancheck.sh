#!/bin/sh
# Independent re-check of the compiled proofs with leanchecker (the toolchain's .olean replayer), one module per call.
# Not part of the registered checks (it replays the imported Mathlib modules too and takes minutes per module);
# run by hand:  tools/leancheck.sh [module ...]   (default: every AuProofs module).  Prints one line per module.
cd "$(dirname "$0")/../lean" || exit 2
flock /verif/.work/.lake.lock lake build >/dev/null 2>&1
if [ $# -eq 0 ]; then
  set -- $(find AuProofs -name '*.lean' | sed 's#/#.#g; s#\.lean$##' | sort)
fi
rc=0
for m in "$@"; do
  if out=$(lake env leanchecker "$m" 2>&1); then echo "leanchecker OK   $m"; else echo "leanchecker FAIL $m: $(echo "$out" | tail -2 | tr '\n' ' ')"; rc=1; fi
done
exit $rc

#!/usr/bin/env python3
"""manifest_add.py <ID> <design_ref> <technique> <text-file> <note-file>: register / update a check in MANIFEST.json."""
import json
import sys

pid, dref, tech, textf, notef = sys.argv[1:6]
m = json.load(open('/verif/MANIFEST.json'))
m['checks'] = [c for c in m['checks'] if c['property_id'] != pid]
m['checks'].append({
    "property_id": pid, "quick_cmd": f"./check {pid} --tier quick", "thorough_cmd": f"./check {pid} --tier thorough",
    "evidence_file": f"/verif/evidence/{pid}.json", "replay_cmd_template": f"./check {pid} --replay {{path}}",
    "engine": "lean4-model+correspondence",
    "level_claimed": {"category": "proof", "text": open(textf).read().strip(), "design_ref": dref},
    "level_note": open(notef).read().strip(), "technique": tech})
m['not_applicable'] = [n for n in m['not_applicable'] if n['property_id'] != pid]
m['checks'].sort(key=lambda c: c['property_id'])
json.dump(m, open('/verif/MANIFEST.json', 'w'), indent=1)

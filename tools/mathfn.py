"""C15 — unit-aware math functions (au/math.hh): exact helpers, unit table, value generators,
C++ harness templates and the statement-level oracles.  Used by tools/p_c15.py.

Three independent parties meet in p_c15.py:
  * the implementation: the real headers under vlib.AU_INC, called through the public API;
  * the model: the compiled Lean driver (`c15.*` commands, AuModel/MathFn.lean);
  * the oracle: exact `Fraction` arithmetic written here (own round-to-nearest, own unit
    magnitudes, own common-unit rule, a 300-bit rational for pi) or the compiler's verdict.
"""
import math
import sys
import re
from fractions import Fraction

sys.set_int_max_str_digits(0)

# ------------------------------------------------------------------------------------------------
# arithmetic types
# ------------------------------------------------------------------------------------------------

CT = {"i8": "int8_t", "u8": "uint8_t", "i16": "int16_t", "u16": "uint16_t", "i32": "int32_t", "u32": "uint32_t",
      "i64": "int64_t", "u64": "uint64_t", "f32": "float", "f64": "double", "f80": "long double"}
INTS = ["i8", "u8", "i16", "u16", "i32", "u32", "i64", "u64"]
FLTS = ["f32", "f64", "f80"]
FMT = {"f32": (24, 127), "f64": (53, 1023), "f80": (64, 16383)}


def is_int(t):
    return t[0] in "iu"


def bits(t):
    return int(t[1:])


def lo(t):
    return -(1 << (bits(t) - 1)) if t[0] == "i" else 0


def hi(t):
    return (1 << (bits(t) - 1)) - 1 if t[0] == "i" else (1 << bits(t)) - 1


def promote(t):
    return "i32" if bits(t) < 32 else t


def uac(a, b):
    a, b = promote(a), promote(b)
    if a == b:
        return a
    if a[0] == b[0]:
        return a if bits(a) >= bits(b) else b
    s, u = (a, b) if a[0] == "i" else (b, a)
    return u if bits(s) <= bits(u) else s


def common(a, b):
    """std::common_type_t on arithmetic types (LP64)."""
    if is_int(a) and is_int(b):
        return a if a == b else uac(a, b)
    if is_int(a):
        return b
    if is_int(b):
        return a
    return a if FLTS.index(a) >= FLTS.index(b) else b


def rounding_rep(t):
    return "f64" if is_int(t) else t


def two_arg_rep(a, b):
    if "f80" in (a, b):
        return "f80"
    if a == "f32" and b == "f32":
        return "f32"
    return "f64"


def wrap(t, v):
    m = 1 << bits(t)
    r = v % m
    return r - m if t[0] == "i" and r >= m // 2 else r


# ------------------------------------------------------------------------------------------------
# exact floating point (oracle side; independent of the Lean model)
# ------------------------------------------------------------------------------------------------

NAN, PINF, NINF = "nan", "inf", "-inf"


def is_fin(v):
    return isinstance(v, Fraction)


class NegZero(Fraction):
    """-0.0: numerically Fraction(0) everywhere; only its C spelling differs (the Lean model identifies it with +0)."""


NZERO = NegZero(0)


def rn(fmt, q):
    """Round-to-nearest-even of the rational q into format fmt; Fraction or an infinity."""
    p, emax = FMT[fmt]
    q = Fraction(q)
    if q == 0:
        return Fraction(0)
    s = -1 if q < 0 else 1
    a = abs(q)
    e = a.numerator.bit_length() - a.denominator.bit_length()
    if Fraction(2) ** e > a:
        e -= 1
    ex = max(e - p + 1, (1 - emax) - p + 1)
    scaled = a / Fraction(2) ** ex
    fl = scaled.numerator // scaled.denominator
    rem = scaled - fl
    if rem > Fraction(1, 2) or (rem == Fraction(1, 2) and fl % 2 == 1):
        fl += 1
    v = fl * Fraction(2) ** ex
    if v >= Fraction(2) ** (emax + 1):
        return PINF if s > 0 else NINF
    return s * v


def representable(fmt, q):
    return rn(fmt, q) == q


def max_finite(fmt):
    p, emax = FMT[fmt]
    return (Fraction(2) - Fraction(2) ** (1 - p)) * Fraction(2) ** emax


def min_normal(fmt):
    return Fraction(2) ** (1 - FMT[fmt][1])


def ulp_of(fmt, q):
    p, emax = FMT[fmt]
    a = abs(Fraction(q))
    if a == 0:
        return Fraction(2) ** ((1 - emax) - p + 1)
    e = a.numerator.bit_length() - a.denominator.bit_length()
    if Fraction(2) ** e > a:
        e -= 1
    return Fraction(2) ** max(e - p + 1, (1 - emax) - p + 1)


def nextafter(fmt, q, up):
    """Neighbouring representable value of the representable q (towards +inf if up)."""
    p, emax = FMT[fmt]
    q = Fraction(q)
    qmin = (1 - emax) - p + 1
    if q == 0:
        t = Fraction(2) ** qmin
        return t if up else -t
    a = abs(q)
    e = a.numerator.bit_length() - a.denominator.bit_length()
    if Fraction(2) ** e > a:
        e -= 1
    ex = max(e - p + 1, qmin)
    m = a / Fraction(2) ** ex
    assert m.denominator == 1
    m = m.numerator
    away = (q > 0) == up            # moving away from zero?
    if away:
        r = (m + 1) * Fraction(2) ** ex
    elif m == 1 << (p - 1) and ex > qmin:
        r = ((1 << p) - 1) * Fraction(2) ** (ex - 1)
    else:
        r = (m - 1) * Fraction(2) ** ex
    return r if q > 0 else -r


def neighbours(fmt, q, k):
    """The finite representable values within k steps of the representable q (q included)."""
    res = [Fraction(q)]
    a = b = Fraction(q)
    for _ in range(k):
        a = nextafter(fmt, a, True)
        b = nextafter(fmt, b, False)
        res += [a, b]
    mx = max_finite(fmt)
    return [v for v in res if abs(v) <= mx]


_HEX = re.compile(r"^([+-]?)0x([0-9a-fA-F]*)\.?([0-9a-fA-F]*)p([+-]?\d+)$")


def parse_hex(s):
    """C hex float (as printed by %a / %La) → Fraction | nan | inf | -inf."""
    t = s.strip().lower()
    if "nan" in t:
        return NAN
    if t in ("inf", "+inf", "infinity"):
        return PINF
    if t in ("-inf", "-infinity"):
        return NINF
    m = _HEX.match(t)
    if not m:
        raise ValueError("hex float: " + s)
    sign, ip, fp, ex = m.groups()
    mant = int((ip + fp) or "0", 16)
    v = Fraction(mant) * Fraction(2) ** (int(ex) - 4 * len(fp))
    return -v if sign == "-" else v


def dyadic(q):
    """q = m * 2^e with m odd (or 0)."""
    q = Fraction(q)
    if q == 0:
        return 0, 0
    d = q.denominator
    if d & (d - 1):
        raise ValueError("not dyadic: %s" % q)
    e = -(d.bit_length() - 1)
    m = q.numerator
    while m % 2 == 0:
        m //= 2
        e += 1
    return m, e


def to_hex(v):
    """Value → text strtof/strtod/strtold parse exactly."""
    if v == NAN:
        return "nan"
    if v in (PINF, NINF):
        return v
    if isinstance(v, NegZero):
        return "-0.0"
    m, e = dyadic(v)
    return ("-" if m < 0 else "") + "0x%xp%d" % (abs(m), e)


def to_drv(v):
    if not is_fin(v):
        return v
    m, e = dyadic(v)
    return "%d@%d" % (m, e)


def parse_drv(s):
    if s in (NAN, PINF, NINF):
        return s
    if "@" in s:
        m, e = s.split("@")
        return Fraction(int(m)) * Fraction(2) ** int(e)
    return int(s)


def val_in(t, s):
    """Harness text of a value of type t → python value (int | Fraction | nan/inf)."""
    return int(s) if is_int(t) else parse_hex(s)


def val_out(t, v):
    return str(v) if is_int(t) else to_hex(v)


def val_drv(t, v):
    return str(v) if is_int(t) else to_drv(v)


def as_frac(v):
    return Fraction(v) if isinstance(v, int) else v


# pi to ~300 bits (Machin), as a rational: independent of the library's literal
def _arctan_inv(x, prec):
    s = t = (1 << prec) // x
    n, x2, sign = 1, x * x, 1
    while t:
        t //= x2
        n += 2
        sign = -sign
        s += sign * (t // n)
    return s


_PREC = 400
PI = Fraction(4 * (4 * _arctan_inv(5, _PREC) - _arctan_inv(239, _PREC)), 1 << _PREC)

# ------------------------------------------------------------------------------------------------
# units
# ------------------------------------------------------------------------------------------------

PREFIX = {"Quecto": -30, "Ronto": -27, "Yocto": -24, "Zepto": -21, "Atto": -18, "Femto": -15, "Pico": -12, "Nano": -9,
          "Micro": -6, "Milli": -3, "Centi": -2, "Deci": -1, "": 0, "Deka": 1, "Hecto": 2, "Kilo": 3, "Mega": 6, "Giga": 9,
          "Tera": 12, "Peta": 15, "Exa": 18, "Zetta": 21, "Yotta": 24, "Ronna": 27, "Quetta": 30}


class Unit:
    def __init__(self, cpp, dim, q, pi=0):
        self.cpp, self.dim, self.q, self.pi = cpp, dim, Fraction(q), pi

    def __repr__(self):
        return self.cpp

    def value(self):
        return self.q * PI ** self.pi


def prefixed(pfx, u):
    if not pfx:
        return u
    return Unit("au::%s<%s>" % (pfx, u.cpp), u.dim, u.q * Fraction(10) ** PREFIX[pfx], u.pi)


def scaled(u, n, d=1):
    cpp = "decltype(%s{} * au::mag<%d>()%s)" % (u.cpp, n, "" if d == 1 else " / au::mag<%d>()" % d)
    return Unit(cpp, u.dim, u.q * Fraction(n, d), u.pi)


SECONDS = Unit("au::Seconds", "T", 1)
MINUTES = Unit("au::Minutes", "T", 60)
HOURS = Unit("au::Hours", "T", 3600)
DAYS = Unit("au::Days", "T", 86400)
HERTZ = Unit("au::Hertz", "1/T", 1)
METERS = Unit("au::Meters", "L", 1)
INCHES = Unit("au::Inches", "L", Fraction(127, 5000))
FEET = Unit("au::Feet", "L", Fraction(381, 1250))
YARDS = Unit("au::Yards", "L", Fraction(1143, 1250))
MILES = Unit("au::Miles", "L", Fraction(201168, 125))
NMILES = Unit("au::NauticalMiles", "L", 1852)
RADIANS = Unit("au::Radians", "A", 1)
DEGREES = Unit("au::Degrees", "A", Fraction(1, 180), 1)
REVOLUTIONS = Unit("au::Revolutions", "A", 2, 1)
ARCMINUTES = Unit("au::Arcminutes", "A", Fraction(1, 10800), 1)
ARCSECONDS = Unit("au::Arcseconds", "A", Fraction(1, 648000), 1)

UNIT_HEADERS = ["seconds", "minutes", "hours", "days", "hertz", "meters", "inches", "feet", "yards", "miles",
                "nautical_miles", "radians", "degrees", "revolutions", "arcminutes", "arcseconds"]


def factorize(n):
    res, p = [], 2
    while p * p <= n:
        if n % p == 0:
            e = 0
            while n % p == 0:
                n //= p
                e += 1
            res.append((p, e))
        p += 1 if p == 2 else 2
    if n > 1:
        res.append((n, 1))
    return res


def pack(q, pi=0):
    """The library's pack of the magnitude q * pi^pi: [(base, exp)], primes ascending, 'pi' by value."""
    q = Fraction(q)
    items = {}
    for p, e in factorize(q.numerator):
        items[p] = e
    for p, e in factorize(q.denominator):
        items[p] = items.get(p, 0) - e
    lst = [(float(p), str(p), e) for p, e in items.items() if e]
    if pi:
        lst.append((math.pi, "pi", pi))
    lst.sort()
    return [(b, e) for _, b, e in lst]


def pack_str(q, pi=0):
    pk = pack(q, pi)
    return ",".join("%s^%d" % be for be in pk) if pk else "1"


def ratio(u, t):
    """Magnitude of U / T as (Fraction, pi exponent)."""
    assert u.dim == t.dim
    return u.q / t.q, u.pi - t.pi


def ratio_value(u, t):
    q, k = ratio(u, t)
    return q * PI ** k


def common_unit_q(units):
    """Rational magnitude of the common unit of units whose pairwise ratios are rational:
    the largest magnitude dividing all (gcd of the numerators over lcm of the denominators).
    Returns (Fraction, pi exponent)."""
    k = units[0].pi
    assert all(u.pi == k and u.dim == units[0].dim for u in units)
    num = 0
    den = 1
    for u in units:
        den = den * u.q.denominator // math.gcd(den, u.q.denominator)
    for u in units:
        num = math.gcd(num, u.q.numerator * (den // u.q.denominator))
    return Fraction(num, den), k


# ------------------------------------------------------------------------------------------------
# oracles
# ------------------------------------------------------------------------------------------------

def fl(q):
    return q.numerator // q.denominator


def ce(q):
    return -((-q.numerator) // q.denominator)


def rnd(q):
    """round half away from zero"""
    return fl(q + Fraction(1, 2)) if q >= 0 else -fl(-q + Fraction(1, 2))


RFN = {"round": rnd, "floor": fl, "ceil": ce}


def conversion_is_exact(rr, xq, q, k):
    """Is every step of `x.in<rr>(target)` exact?  (integer or reciprocal-integer ratio exactly
    representable, x exactly representable, exact result representable.)"""
    if k != 0 or not representable(rr, xq):
        return False
    if q.denominator == 1 and representable(rr, q):
        return representable(rr, xq * q)
    if q.numerator == 1 and representable(rr, q.denominator):
        return representable(rr, xq * q)
    return False


def round_oracle(fn, rr, xq, q, k, got):
    """Statement of C15 for round/floor/ceil: `got` (Fraction) must be an integer r with the
    bracketing inequality w.r.t. the exact value E = x*ratio, up to the rounding error of the
    floating type (relative 4*2^-p), exactly when every conversion step is exact.
    Returns (verdict, detail): verdict in ok / bad / skip."""
    p, emax = FMT[rr]
    E = xq * q * PI ** k
    if got.denominator != 1:
        return "bad", "result %s is not integral" % got
    if abs(E) > max_finite(rr) / 4:
        return "skip", "range"          # within a factor 4 of overflow: finite-or-inf depends on the individual roundings
    r = got.numerator
    f = RFN[fn]
    if conversion_is_exact(rr, xq, q, k):
        return ("ok", "exact") if r == f(E) else ("bad", "exact conversion: want %d" % f(E))
    # relative error of three roundings, plus two quanta of the subnormal range (gradual underflow)
    d = abs(E) * Fraction(4, 1 << p) + Fraction(2) ** ((1 - emax) - p + 2)
    lo_, hi_ = f(E - d), f(E + d)
    return ("ok", "tol") if lo_ <= r <= hi_ else ("bad", "want in [%d, %d] (exact value %s)" % (lo_, hi_, float(E)))


def cast_oracle(out, r):
    """static_cast<Out>(r) for an integral-valued Fraction r: expected value or None (undefined)."""
    if is_int(out):
        return r.numerator if lo(out) <= r <= hi(out) else None
    return rn(out, r)


# ------------------------------------------------------------------------------------------------
# C++ harness
# ------------------------------------------------------------------------------------------------

HARNESS_COMMON = r'''
#include <cmath>
#include <cstdint>
#include <cstdio>
#include <cstdlib>
#include <cstring>
#include <limits>
#include <string>
#include <type_traits>
#include "au/math.hh"
#include "au/prefix.hh"
#include "au/quantity_point.hh"
%(unit_includes)s
#include <csetjmp>
#include <csignal>
typedef __int128 i128;
typedef void (*Fn)(int, char**, std::string&);
struct Entry { int id; Fn pt; Fn sweep; };
extern volatile long g_ub;
// Trap robustness: every evaluated input runs inside `guarded`; a SIGFPE / SIGILL / SIGSEGV / SIGBUS raised by the
// library code longjmps back, the input is reported as `trap` and the harness goes on with the next input.
extern sigjmp_buf g_jb;
extern volatile sig_atomic_t g_in;
extern volatile long g_traps;
template <class F> static bool guarded(F f) {
    if (sigsetjmp(g_jb, 1)) { g_in = 0; g_traps = g_traps + 1; return false; }
    g_in = 1; f(); g_in = 0;
    return true;
}
// one token of a P answer: the body's output, or `trap`
template <class F> static void token(std::string& o, F f) {
    const size_t mark = o.size();
    if (!guarded(f)) { o.resize(mark); o += "trap"; }
    o += " ";
}

template <class T, class E = void> struct IO;
template <> struct IO<float> {
    static float parse(const char* s) { return strtof(s, nullptr); }
    static void put(std::string& o, float v) { char b[96]; snprintf(b, sizeof b, "%%a", (double)v); o += b; }
};
template <> struct IO<double> {
    static double parse(const char* s) { return strtod(s, nullptr); }
    static void put(std::string& o, double v) { char b[96]; snprintf(b, sizeof b, "%%a", v); o += b; }
};
template <> struct IO<long double> {
    static long double parse(const char* s) { return strtold(s, nullptr); }
    static void put(std::string& o, long double v) { char b[96]; snprintf(b, sizeof b, "%%La", v); o += b; }
};
template <> struct IO<bool> {
    static void put(std::string& o, bool v) { o += v ? "1" : "0"; }
};
template <class T> struct IO<T, std::enable_if_t<std::is_integral<T>::value && !std::is_same<T, bool>::value>> {
    static T parse(const char* s) {
        return std::is_signed<T>::value ? static_cast<T>(strtoll(s, nullptr, 10)) : static_cast<T>(strtoull(s, nullptr, 10));
    }
    static void put(std::string& o, T v) {
        char b[64];
        if (std::is_signed<T>::value) snprintf(b, sizeof b, "%%lld", (long long)v); else snprintf(b, sizeof b, "%%llu", (unsigned long long)v);
        o += b;
    }
};
template <class T> static void put(std::string& o, T v) { IO<T>::put(o, v); }
template <class T> static bool same(T a, T b) { return (a == b) || (a != a && b != b); }
template <class T> static void putc(std::string& o, T v) { IO<T>::put(o, v); o += ","; }

static const unsigned long long HASH_P = 2305843009213693951ull;
static unsigned long long code_of(double v) {
    if (v != v) return 1111111ull;
    if (v == std::numeric_limits<double>::infinity()) return 2222222ull;
    if (v == -std::numeric_limits<double>::infinity()) return 3333333ull;
    if (std::fabs(v) >= 9.2e18 || v != std::floor(v)) return 5555555ull;
    i128 r = (i128)(long long)v %% (i128)HASH_P; if (r < 0) r += HASH_P;
    return (unsigned long long)r;
}
static void hash_add(unsigned long long& h, unsigned long long code, unsigned long long w) {
    h = (unsigned long long)(((unsigned __int128)h + (unsigned __int128)code * (w %% HASH_P)) %% HASH_P);
}
static i128 p128(const char* s) {
    bool neg = false; if (*s == '-') { neg = true; ++s; }
    unsigned __int128 u = 0; while (*s >= '0' && *s <= '9') { u = u * 10 + unsigned(*s - '0'); ++s; }
    return neg ? -(i128)u : (i128)u;
}
static i128 fdiv128(i128 a, i128 b) { i128 q = a / b; if ((a %% b != 0) && ((a < 0) != (b < 0))) --q; return q; }
static std::string s128(i128 v) {
    if (v == 0) return "0";
    bool neg = v < 0; unsigned __int128 u = neg ? (unsigned __int128)(-(v + 1)) + 1u : (unsigned __int128)v;
    std::string s; while (u) { s.insert(s.begin(), char('0' + int(u %% 10))); u /= 10; }
    return neg ? "-" + s : s;
}

// ---------------------------------------------------------------------------------------------
// round / floor / ceil
template <class R, class U, class Tgt, class Out>
struct RoundBase {
    using Q = au::Quantity<U, R>;
    using RR = decltype(au::round_in(Tgt{}, Q{}));
    static_assert(std::is_same<RR, decltype(std::round(R{}))>::value, "rounding rep");
    static_assert(std::is_same<decltype(au::floor_in(Tgt{}, Q{})), RR>::value, "floor_in type");
    static_assert(std::is_same<decltype(au::ceil_in(Tgt{}, Q{})), RR>::value, "ceil_in type");
    static_assert(std::is_same<decltype(au::round_as(Tgt{}, Q{})), au::Quantity<Tgt, RR>>::value, "round_as unit");
    static_assert(std::is_same<decltype(au::floor_as(Tgt{}, Q{})), au::Quantity<Tgt, RR>>::value, "floor_as unit");
    static_assert(std::is_same<decltype(au::ceil_as(Tgt{}, Q{})), au::Quantity<Tgt, RR>>::value, "ceil_as unit");
    static_assert(std::is_same<decltype(au::round_in<Out>(Tgt{}, Q{})), Out>::value, "round_in<Out> type");
    static_assert(std::is_same<decltype(au::round_as<Out>(Tgt{}, Q{})), au::Quantity<Tgt, Out>>::value, "round_as<Out> unit");
    static_assert(std::is_same<decltype(au::floor_as<Out>(Tgt{}, Q{})), au::Quantity<Tgt, Out>>::value, "floor_as<Out> unit");
    static_assert(std::is_same<decltype(au::ceil_as<Out>(Tgt{}, Q{})), au::Quantity<Tgt, Out>>::value, "ceil_as<Out> unit");
    static void pt(int argc, char** argv, std::string& o) {
        for (int i = 0; i < argc; ++i) {
            token(o, [&] {
                R x = IO<R>::parse(argv[i]);
                Q q = au::make_quantity<U>(x);
                RR r = au::round_in(Tgt{}, q), f = au::floor_in(Tgt{}, q), c = au::ceil_in(Tgt{}, q);
                bool as_ok = same(au::round_as(Tgt{}, q).in(Tgt{}), r) && same(au::floor_as(Tgt{}, q).in(Tgt{}), f) &&
                             same(au::ceil_as(Tgt{}, q).in(Tgt{}), c);
                putc(o, r); putc(o, f); putc(o, c); putc(o, as_ok);
                long u0 = g_ub; Out ro = au::round_in<Out>(Tgt{}, q); long u1 = g_ub;
                Out fo = au::floor_in<Out>(Tgt{}, q); long u2 = g_ub;
                Out co = au::ceil_in<Out>(Tgt{}, q); long u3 = g_ub;
                bool aso = same(au::round_as<Out>(Tgt{}, q).in(Tgt{}), ro) && same(au::floor_as<Out>(Tgt{}, q).in(Tgt{}), fo) &&
                           same(au::ceil_as<Out>(Tgt{}, q).in(Tgt{}), co);
                putc(o, ro); putc(o, u1 - u0); putc(o, fo); putc(o, u2 - u1); putc(o, co); putc(o, u3 - u2); put(o, aso || (u3 != u0));
            });
        }
    }
};
template <class R, class U, class Tgt, class Out, bool Integral> struct RoundSweep {
    static void sweep(int, char**, std::string& o) { o += "unsupported"; }
};
template <class R, class U, class Tgt, class Out> struct RoundSweep<R, U, Tgt, Out, true> {
    // argv: lo hi N D piexp exact ratio_ld
    static void sweep(int argc, char** argv, std::string& o) {
        if (argc < 7) { o += "bad"; return; }
        using Q = au::Quantity<U, R>;
        long long lo = strtoll(argv[0], nullptr, 10), hi = strtoll(argv[1], nullptr, 10);
        i128 N = p128(argv[2]), D = p128(argv[3]); int k = atoi(argv[4]); int exact = atoi(argv[5]);
        long double ratio = strtold(argv[6], nullptr);
        unsigned long long hr = 0, hf = 0, hc = 0; long n = 0, bad = 0, bad_as = 0; std::string first = "-", what = "-";
        for (long long xx = lo; xx <= hi; ++xx) {
          ++n;
          if (!guarded([&] {
            R x = static_cast<R>(xx); Q q = au::make_quantity<U>(x);
            double r = au::round_in(Tgt{}, q), f = au::floor_in(Tgt{}, q), c = au::ceil_in(Tgt{}, q);
            unsigned long long w = (unsigned long long)(xx - lo + 1);
            hash_add(hr, code_of(r), w); hash_add(hf, code_of(f), w); hash_add(hc, code_of(c), w);
            if (!(same(au::round_as(Tgt{}, q).in(Tgt{}), r) && same(au::floor_as(Tgt{}, q).in(Tgt{}), f) &&
                  same(au::ceil_as(Tgt{}, q).in(Tgt{}), c))) ++bad_as;
            const char* w_bad = nullptr;
            if (k == 0) {
                i128 y = (i128)xx * N;                     // exact value is y / D
                i128 fe = fdiv128(y, D), cee = -fdiv128(-y, D);
                bool isint = (y %% D == 0);
                i128 a2 = (y < 0 ? -y : y) * 2 + D; i128 re = a2 / (2 * D); if (y < 0) re = -re;   // half away from zero
                bool half = ((2 * y) %% D == 0) && (((2 * y) / D) %% 2 != 0);
                i128 rf = (i128)f, rc = (i128)c, rr = (i128)r;
                bool okf = (rf == fe) || (!exact && isint && rf == fe - 1);
                bool okc = (rc == cee) || (!exact && isint && rc == cee + 1);
                bool okr = (rr == re) || (!exact && half && rr == re - (y < 0 ? -1 : 1));
                if (f != std::floor(f) || c != std::floor(c) || r != std::floor(r)) w_bad = "integral";
                else if (!okf) w_bad = "floor"; else if (!okc) w_bad = "ceil"; else if (!okr) w_bad = "round";
            } else {
                long double E = (long double)xx * ratio, d = fabsl(E) * ldexpl(1.0L, -49);
                if (!(floorl(E - d) <= f && f <= floorl(E + d))) w_bad = "floor";
                else if (!(ceill(E - d) <= c && c <= ceill(E + d))) w_bad = "ceil";
                else if (!(roundl(E - d) <= r && r <= roundl(E + d))) w_bad = "round";
            }
            if (w_bad) { if (!bad++) { first = std::to_string(xx); what = w_bad; } }
          })) { if (!bad++) { first = std::to_string(xx); what = "trap"; } }
        }
        char b[256];
        snprintf(b, sizeof b, "n=%%ld hr=%%llu hf=%%llu hc=%%llu bad=%%ld first=%%s what=%%s bad_as=%%ld", n, hr, hf, hc, bad, first.c_str(), what.c_str(), bad_as);
        o += b;
    }
};
template <class R, class U, class Tgt, class Out>
struct RoundInst : RoundBase<R, U, Tgt, Out>, RoundSweep<R, U, Tgt, Out, std::is_integral<R>::value> {};

// QuantityPoint versions (same-origin units): must agree with the Quantity versions
template <class R, class U, class Tgt, class Out>
struct RoundPointInst {
    using P = au::QuantityPoint<U, R>;
    using Q = au::Quantity<U, R>;
    using RR = decltype(au::round_in(Tgt{}, P{}));
    static_assert(std::is_same<RR, decltype(std::round(R{}))>::value, "rounding rep (point)");
    static_assert(std::is_same<decltype(au::round_as(Tgt{}, P{})), au::QuantityPoint<Tgt, RR>>::value, "round_as unit (point)");
    static_assert(std::is_same<decltype(au::floor_as<Out>(Tgt{}, P{})), au::QuantityPoint<Tgt, Out>>::value, "floor_as<Out> unit (point)");
    static void pt(int argc, char** argv, std::string& o) {
        for (int i = 0; i < argc; ++i) {
            token(o, [&] {
                R x = IO<R>::parse(argv[i]);
                P p = au::make_quantity_point<U>(x);
                RR r = au::round_in(Tgt{}, p), f = au::floor_in(Tgt{}, p), c = au::ceil_in(Tgt{}, p);
                bool as_ok = same(au::round_as(Tgt{}, p).in(Tgt{}), r) && same(au::floor_as(Tgt{}, p).in(Tgt{}), f) &&
                             same(au::ceil_as(Tgt{}, p).in(Tgt{}), c);
                putc(o, r); putc(o, f); putc(o, c); putc(o, as_ok);
                long u0 = g_ub; Out ro = au::round_in<Out>(Tgt{}, p); long u1 = g_ub;
                Out fo = au::floor_in<Out>(Tgt{}, p); long u2 = g_ub;
                Out co = au::ceil_in<Out>(Tgt{}, p); long u3 = g_ub;
                bool aso = same(au::round_as<Out>(Tgt{}, p).in(Tgt{}), ro) && same(au::floor_as<Out>(Tgt{}, p).in(Tgt{}), fo) &&
                           same(au::ceil_as<Out>(Tgt{}, p).in(Tgt{}), co);
                putc(o, ro); putc(o, u1 - u0); putc(o, fo); putc(o, u2 - u1); putc(o, co); putc(o, u3 - u2); put(o, aso || (u3 != u0));
            });
        }
    }
    static void sweep(int, char**, std::string& o) { o += "unsupported"; }
};

// ---------------------------------------------------------------------------------------------
// inverse_in / inverse_as
template <class R, class U, class Tgt, bool Integral> struct InvSweep {
    static void sweep(int, char**, std::string& o) { o += "unsupported"; }
};
template <class R, class U, class Tgt> struct InvSweep<R, U, Tgt, true> {
    // argv: K  — for n = 1..min(1000, max(R)): inverse_as(Tgt, U(n)) == K / n and the round trip is the identity
    static void sweep(int argc, char** argv, std::string& o) {
        if (argc < 1) { o += "bad"; return; }
        unsigned long long K = strtoull(argv[0], nullptr, 10);
        long nmax = 1000; if ((unsigned long long)std::numeric_limits<R>::max() < 1000ull) nmax = (long)std::numeric_limits<R>::max();
        long n_done = 0, bad_val = 0, bad_rt = 0, ub = 0, traps = 0; std::string first_val = "-", first_rt = "-", first_trap = "-";
        for (long n = 1; n <= nmax; ++n) {
          if (!guarded([&] {
            long u0 = g_ub;
            auto a = au::inverse_as(Tgt{}, au::make_quantity<U>(static_cast<R>(n)));
            static_assert(std::is_same<decltype(a), au::Quantity<Tgt, R>>::value, "inverse_as unit");
            unsigned long long av = (unsigned long long)a.in(Tgt{});
            if (av != K / (unsigned long long)n) { if (!bad_val++) first_val = std::to_string(n); }
            static_assert(std::is_same<decltype(au::inverse_in(U{}, a)), R>::value, "inverse_in type");
            if (av == 0) {                                   // the inverse collapsed to 0: inverting back would divide by zero
                if (!bad_rt++) first_rt = std::to_string(n);
            } else {
                R back = au::inverse_in(U{}, a);
                if ((long long)back != (long long)n) { if (!bad_rt++) first_rt = std::to_string(n); }
            }
            if (g_ub != u0) ++ub;
          })) { if (!traps++) first_trap = std::to_string(n); }
            ++n_done;
        }
        char b[260];
        snprintf(b, sizeof b, "n=%%ld bad_val=%%ld first_val=%%s bad_rt=%%ld first_rt=%%s ub=%%ld traps=%%ld first_trap=%%s", n_done, bad_val, first_val.c_str(), bad_rt, first_rt.c_str(), ub, traps, first_trap.c_str());
        o += b;
    }
};
template <class R, class U, class Tgt>
struct InvImplInst : InvSweep<R, U, Tgt, std::is_integral<R>::value> {
    static void pt(int argc, char** argv, std::string& o) {
        for (int i = 0; i < argc; ++i) {
            token(o, [&] {
                R x = IO<R>::parse(argv[i]);
                auto q = au::make_quantity<U>(x);
                long u0 = g_ub;
                R v = au::inverse_in(Tgt{}, q);
                auto a = au::inverse_as(Tgt{}, q);
                static_assert(std::is_same<decltype(a), au::Quantity<Tgt, R>>::value, "inverse_as unit");
                static_assert(std::is_same<decltype(au::inverse_in(Tgt{}, q)), R>::value, "inverse_in type");
                putc(o, v); putc(o, same(a.in(Tgt{}), v)); put(o, g_ub - u0);
            });
        }
    }
};
template <class TR, class R, class U, class Tgt>
struct InvExplInst {
    static void pt(int argc, char** argv, std::string& o) {
        for (int i = 0; i < argc; ++i) {
            token(o, [&] {
                R x = IO<R>::parse(argv[i]);
                auto q = au::make_quantity<U>(x);
                long u0 = g_ub;
                TR v = au::inverse_in<TR>(Tgt{}, q);
                auto a = au::inverse_as<TR>(Tgt{}, q);
                static_assert(std::is_same<decltype(a), au::Quantity<Tgt, TR>>::value, "inverse_as<T> unit");
                static_assert(std::is_same<decltype(au::inverse_in<TR>(Tgt{}, q)), TR>::value, "inverse_in<T> type");
                putc(o, v); putc(o, same(a.in(Tgt{}), v) || g_ub != u0); put(o, g_ub - u0);
            });
        }
    }
    static void sweep(int, char**, std::string& o) { o += "unsupported"; }
};

// ---------------------------------------------------------------------------------------------
// sin / cos / tan:  argv = x cand0 cand1 ...  (candidates: the argument in radians, in the promoted type)
template <class R, class U>
struct TrigInst {
    using Q = au::Quantity<U, R>;
    using P = std::conditional_t<std::is_floating_point<R>::value, R, double>;
    static_assert(std::is_same<decltype(au::sin(Q{})), P>::value, "sin type");
    static_assert(std::is_same<decltype(au::cos(Q{})), P>::value, "cos type");
    static_assert(std::is_same<decltype(au::tan(Q{})), P>::value, "tan type");
    static void pt(int argc, char** argv, std::string& o) {
        if (argc < 1) { o += "bad"; return; }
        R x = IO<R>::parse(argv[0]);
        Q q = au::make_quantity<U>(x);
        token(o, [&] { putc(o, au::sin(q)); putc(o, au::cos(q)); put(o, au::tan(q)); });
        o.pop_back();
        for (int i = 1; i < argc; ++i) {
            P a = IO<P>::parse(argv[i]);
            o += " "; putc(o, std::sin(a)); putc(o, std::cos(a)); put(o, std::tan(a));
        }
    }
    static void sweep(int, char**, std::string& o) { o += "unsupported"; }
};

// ---------------------------------------------------------------------------------------------
// fmod / remainder (always), hypot / arctan2 (when Hyp: implicit-rep conversion to the common unit permitted)
template <class U1, class U2> struct RatioInfo {
    using CU = au::CommonUnitT<U1, U2>;
    static void put_info(std::string& o) { put_info_for(CU{}, o); }
    template <class CUx> static void put_info_for(CUx, std::string& o) {
        using M1 = decltype(au::unit_ratio(U1{}, CUx{})); using M2 = decltype(au::unit_ratio(U2{}, CUx{}));
        char b[160];
        snprintf(b, sizeof b, "r1=%%llu/%%llu r2=%%llu/%%llu",
                 (unsigned long long)au::get_value<std::uint64_t>(au::numerator(M1{})), (unsigned long long)au::get_value<std::uint64_t>(au::denominator(M1{})),
                 (unsigned long long)au::get_value<std::uint64_t>(au::numerator(M2{})), (unsigned long long)au::get_value<std::uint64_t>(au::denominator(M2{})));
        o += b;
    }
};
template <class R1, class U1, class R2, class U2, bool Hyp> struct HypPart {
    static void run(au::Quantity<U1, R1>, au::Quantity<U2, R2>, char**, std::string& o) { o += "-,-,-,-"; }
};
template <class R1, class U1, class R2, class U2> struct HypPart<R1, U1, R2, U2, true> {
    using CU = au::CommonUnitT<U1, U2>;
    using HR = decltype(std::hypot(R1{}, R2{}));
    static void run(au::Quantity<U1, R1> q1, au::Quantity<U2, R2> q2, char** hv, std::string& o) {
        static_assert(std::is_same<decltype(au::hypot(q1, q2)), au::Quantity<CU, HR>>::value, "hypot unit");
        static_assert(std::is_same<decltype(au::arctan2(q1, q2)), au::Quantity<au::Radians, decltype(std::atan2(R1{}, R2{}))>>::value, "arctan2 unit");
        R1 h1 = IO<R1>::parse(hv[0]); R2 h2 = IO<R2>::parse(hv[1]);
        putc(o, au::hypot(q1, q2).in(CU{})); putc(o, std::hypot(h1, h2));
        putc(o, au::arctan2(q1, q2).in(au::Radians{})); put(o, std::atan2(h1, h2));
    }
};
template <class R1, class U1, class R2, class U2, bool Hyp>
struct TwoInst {
    using Q1 = au::Quantity<U1, R1>; using Q2 = au::Quantity<U2, R2>;
    using CU = au::CommonUnitT<U1, U2>;
    using FR = decltype(std::fmod(R1{}, R2{}));
    static_assert(std::is_same<decltype(au::fmod(Q1{}, Q2{})), au::Quantity<CU, FR>>::value, "fmod unit");
    static_assert(std::is_same<decltype(au::remainder(Q1{}, Q2{})), au::Quantity<CU, decltype(std::remainder(R1{}, R2{}))>>::value, "remainder unit");
    // argv: x1 x2 a1 a2 h1 h2   (a: FR-typed converted args; h: R1/R2-typed converted args)
    static void pt(int argc, char** argv, std::string& o) {
        if (argc < 6) { o += "bad"; return; }
        Q1 q1 = au::make_quantity<U1>(IO<R1>::parse(argv[0])); Q2 q2 = au::make_quantity<U2>(IO<R2>::parse(argv[1]));
        FR a1 = IO<FR>::parse(argv[2]), a2 = IO<FR>::parse(argv[3]);
        token(o, [&] {
            putc(o, au::fmod(q1, q2).in(CU{})); putc(o, std::fmod(a1, a2));
            putc(o, au::remainder(q1, q2).in(CU{})); putc(o, std::remainder(a1, a2));
            HypPart<R1, U1, R2, U2, Hyp>::run(q1, q2, argv + 4, o);
        });
        o.pop_back();
    }
    static void sweep(int, char**, std::string& o) { RatioInfo<U1, U2>::put_info(o); }
};

// ---------------------------------------------------------------------------------------------
// min / max / clamp — called unqualified, as users do (for identical types the hidden friends of Quantity are found by
// ADL; the qualified spelling au::max(q, q) is ambiguous with std::max and is not used here)
template <class A, class B> constexpr auto call_max(A a, B b) { using au::max; return max(a, b); }
template <class A, class B> constexpr auto call_min(A a, B b) { using au::min; return min(a, b); }
template <class A, class B, class C> constexpr auto call_clamp(A a, B b, C c) { using au::clamp; return clamp(a, b, c); }
template <class R1, class U1, class R2, class U2>
struct MinMaxInst {
    using Q1 = au::Quantity<U1, R1>; using Q2 = au::Quantity<U2, R2>;
    using CU = au::CommonUnitT<U1, U2>; using CR = std::common_type_t<R1, R2>;
    // static result type, judged by the check (printed, so that the values are still judged when it is wrong)
    static constexpr bool type_ok = std::is_same<decltype(call_max(Q1{}, Q2{})), au::Quantity<CU, CR>>::value &&
                                    std::is_same<decltype(call_min(Q1{}, Q2{})), au::Quantity<CU, CR>>::value;
    static void pt(int argc, char** argv, std::string& o) {
        for (int i = 0; i + 1 < argc; i += 2) {
            token(o, [&] {
                Q1 q1 = au::make_quantity<U1>(IO<R1>::parse(argv[i])); Q2 q2 = au::make_quantity<U2>(IO<R2>::parse(argv[i + 1]));
                long u0 = g_ub;
                putc(o, call_max(q1, q2).in(CU{})); putc(o, call_min(q1, q2).in(CU{})); put(o, g_ub - u0);
            });
        }
    }
    static void sweep(int, char**, std::string& o) { RatioInfo<U1, U2>::put_info(o); o += type_ok ? " type=1" : " type=0"; }
};
template <class RV, class UV, class RL, class UL, class RH, class UH>
struct ClampInst {
    using QV = au::Quantity<UV, RV>; using QL = au::Quantity<UL, RL>; using QH = au::Quantity<UH, RH>;
    using CU = au::CommonUnitT<UV, UL, UH>; using CR = std::common_type_t<RV, RL, RH>;
    static constexpr bool type_ok = std::is_same<decltype(call_clamp(QV{}, QL{}, QH{})), au::Quantity<CU, CR>>::value;
    static void pt(int argc, char** argv, std::string& o) {
        for (int i = 0; i + 2 < argc; i += 3) {
            token(o, [&] {
                QV v = au::make_quantity<UV>(IO<RV>::parse(argv[i])); QL l = au::make_quantity<UL>(IO<RL>::parse(argv[i + 1]));
                QH h = au::make_quantity<UH>(IO<RH>::parse(argv[i + 2]));
                long u0 = g_ub;
                putc(o, call_clamp(v, l, h).in(CU{})); put(o, g_ub - u0);
            });
        }
    }
    static void sweep(int, char**, std::string& o) {
        using M1 = decltype(au::unit_ratio(UV{}, CU{})); using M2 = decltype(au::unit_ratio(UL{}, CU{})); using M3 = decltype(au::unit_ratio(UH{}, CU{}));
        char b[200];
        snprintf(b, sizeof b, "r1=%%llu/%%llu r2=%%llu/%%llu r3=%%llu/%%llu",
                 (unsigned long long)au::get_value<std::uint64_t>(au::numerator(M1{})), (unsigned long long)au::get_value<std::uint64_t>(au::denominator(M1{})),
                 (unsigned long long)au::get_value<std::uint64_t>(au::numerator(M2{})), (unsigned long long)au::get_value<std::uint64_t>(au::denominator(M2{})),
                 (unsigned long long)au::get_value<std::uint64_t>(au::numerator(M3{})), (unsigned long long)au::get_value<std::uint64_t>(au::denominator(M3{})));
        o += b; o += type_ok ? " type=1" : " type=0";
    }
};

// min / max / clamp of QuantityPoint (math.hh: the point overloads, incl. the identical-type ones that forward to std::)
template <class R1, class U1, class R2, class U2>
struct PointMinMaxInst {
    using P1 = au::QuantityPoint<U1, R1>; using P2 = au::QuantityPoint<U2, R2>;
    using CU = au::CommonPointUnitT<U1, U2>; using CR = std::common_type_t<R1, R2>;
    static constexpr bool type_ok =
        std::is_same<std::decay_t<decltype(call_max(std::declval<P1>(), std::declval<P2>()))>, au::QuantityPoint<CU, CR>>::value &&
        std::is_same<std::decay_t<decltype(call_min(std::declval<P1>(), std::declval<P2>()))>, au::QuantityPoint<CU, CR>>::value;
    static void pt(int argc, char** argv, std::string& o) {
        for (int i = 0; i + 1 < argc; i += 2) {
            token(o, [&] {
                P1 p1 = au::make_quantity_point<U1>(IO<R1>::parse(argv[i])); P2 p2 = au::make_quantity_point<U2>(IO<R2>::parse(argv[i + 1]));
                long u0 = g_ub;
                putc(o, call_max(p1, p2).in(CU{})); putc(o, call_min(p1, p2).in(CU{})); put(o, g_ub - u0);
            });
        }
    }
    static void sweep(int, char**, std::string& o) { RatioInfo<U1, U2>::put_info_for(CU{}, o); o += type_ok ? " type=1" : " type=0"; }
};
template <class RV, class UV, class RL, class UL, class RH, class UH>
struct PointClampInst {
    using PV = au::QuantityPoint<UV, RV>; using PL = au::QuantityPoint<UL, RL>; using PH = au::QuantityPoint<UH, RH>;
    using CU = au::CommonPointUnitT<UV, UL, UH>; using CR = std::common_type_t<RV, RL, RH>;
    static constexpr bool type_ok =
        std::is_same<std::decay_t<decltype(call_clamp(std::declval<PV>(), std::declval<PL>(), std::declval<PH>()))>, au::QuantityPoint<CU, CR>>::value;
    static void pt(int argc, char** argv, std::string& o) {
        for (int i = 0; i + 2 < argc; i += 3) {
            token(o, [&] {
                PV v = au::make_quantity_point<UV>(IO<RV>::parse(argv[i])); PL l = au::make_quantity_point<UL>(IO<RL>::parse(argv[i + 1]));
                PH h = au::make_quantity_point<UH>(IO<RH>::parse(argv[i + 2]));
                long u0 = g_ub;
                putc(o, call_clamp(v, l, h).in(CU{})); put(o, g_ub - u0);
            });
        }
    }
    static void sweep(int, char**, std::string& o) {
        using M1 = decltype(au::unit_ratio(UV{}, CU{})); using M2 = decltype(au::unit_ratio(UL{}, CU{})); using M3 = decltype(au::unit_ratio(UH{}, CU{}));
        char b[200];
        snprintf(b, sizeof b, "r1=%%llu/%%llu r2=%%llu/%%llu r3=%%llu/%%llu",
                 (unsigned long long)au::get_value<std::uint64_t>(au::numerator(M1{})), (unsigned long long)au::get_value<std::uint64_t>(au::denominator(M1{})),
                 (unsigned long long)au::get_value<std::uint64_t>(au::numerator(M2{})), (unsigned long long)au::get_value<std::uint64_t>(au::denominator(M2{})),
                 (unsigned long long)au::get_value<std::uint64_t>(au::numerator(M3{})), (unsigned long long)au::get_value<std::uint64_t>(au::denominator(M3{})));
        o += b; o += type_ok ? " type=1" : " type=0";
    }
};

// ---------------------------------------------------------------------------------------------
// Other spellings of the unit slot (QuantityMaker, prefix applied to a maker, QuantityPointMaker, SymbolFor) and the
// "shapeshifter" ZERO as an argument of the hidden friends.  argv = x*   (double values)
struct SpellInst {
    template <class A, class B> static bool same_q(A a, B b) { return std::is_same<A, B>::value && same(a.in(typename A::Unit{}), b.in(typename B::Unit{})); }
    static void pt(int argc, char** argv, std::string& o) {
        for (int i = 0; i < argc; ++i) {
            token(o, [&] {
                double x = IO<double>::parse(argv[i]);
                auto q = au::milli(au::meters)(x);
                auto p = au::milli(au::meters_pt)(x);
                auto f = au::kilo(au::hertz)(x);
                put(o, same_q(au::round_as(au::meters, q), au::round_as(au::Meters{}, q)));
                put(o, same_q(au::floor_as(au::centi(au::meters), q), au::floor_as(au::Centi<au::Meters>{}, q)));
                put(o, same_q(au::ceil_as(au::symbols::m, q), au::ceil_as(au::Meters{}, q)));
                put(o, same(au::round_in(au::meters, q), au::round_in(au::Meters{}, q)));
                put(o, same(au::floor_in<int>(au::centi(au::meters), au::meters(3.25)), 325));
                put(o, same_q(au::round_as(au::meters_pt, p), au::round_as(au::Meters{}, p)));
                put(o, same_q(au::floor_as<float>(au::centi(au::meters_pt), p), au::floor_as<float>(au::Centi<au::Meters>{}, p)));
                put(o, same(au::ceil_in(au::meters_pt, p), au::ceil_in(au::Meters{}, p)));
                put(o, same_q(au::inverse_as(au::micro(au::seconds), f), au::inverse_as(au::Micro<au::Seconds>{}, f)));
                put(o, same(au::inverse_in(au::micro(au::seconds), f), au::inverse_in(au::Micro<au::Seconds>{}, f)));
                put(o, same_q(au::inverse_as<float>(au::nano(au::seconds), f), au::inverse_as<float>(au::Nano<au::Seconds>{}, f)));
                put(o, same(au::inverse_in(au::nano(au::seconds), au::kilo(au::hertz)(40)), 25000));
                o += ",";
                auto m = au::meters(x);
                putc(o, call_max(m, au::ZERO).in(au::meters)); putc(o, call_max(au::ZERO, m).in(au::meters));
                putc(o, call_min(m, au::ZERO).in(au::meters)); putc(o, call_min(au::ZERO, m).in(au::meters));
                putc(o, call_clamp(m, au::ZERO, au::meters(10.0)).in(au::meters));
                put(o, call_clamp(m, au::meters(-10.0), au::ZERO).in(au::meters));
            });
        }
    }
    static void sweep(int, char**, std::string& o) { o += "unsupported"; }
};

// ---------------------------------------------------------------------------------------------
// abs / copysign / isnan   argv = (x s)*
template <class R, class U, bool Abs> struct AbsPart {
    static void run(au::Quantity<U, R> q, R x, std::string& o) {
        static_assert(std::is_same<decltype(au::abs(q)), au::Quantity<U, decltype(std::abs(R{}))>>::value, "abs unit");
        putc(o, au::abs(q).in(U{})); putc(o, std::abs(x));
    }
};
template <class R, class U> struct AbsPart<R, U, false> {
    static void run(au::Quantity<U, R>, R, std::string& o) { o += "0,0,"; }
};
template <class R, class U, bool Abs = true>
struct UnaryInst {
    using Q = au::Quantity<U, R>;
    static_assert(std::is_same<decltype(au::copysign(Q{}, 1.0)), au::Quantity<U, decltype(std::copysign(R{}, 1.0))>>::value, "copysign unit");
    static_assert(std::is_same<decltype(au::copysign(1.0, Q{})), decltype(std::copysign(1.0, R{}))>::value, "copysign raw");
    static_assert(std::is_same<decltype(au::copysign(Q{}, Q{})), au::Quantity<U, decltype(std::copysign(R{}, R{}))>>::value, "copysign qq unit");
    static_assert(std::is_same<decltype(au::isnan(Q{})), bool>::value, "isnan type");
    static void pt(int argc, char** argv, std::string& o) {
        for (int i = 0; i + 1 < argc; i += 2) {
            token(o, [&] {
                R x = IO<R>::parse(argv[i]); double s = IO<double>::parse(argv[i + 1]);
                Q q = au::make_quantity<U>(x);
                long u0 = g_ub;
                AbsPart<R, U, Abs>::run(q, x, o);
                putc(o, au::copysign(q, s).in(U{})); putc(o, std::copysign(x, s));
                putc(o, au::copysign(s, q)); putc(o, std::copysign(s, x));
                R sr = static_cast<R>(s < 0 ? -1 : 1);
                putc(o, au::copysign(q, au::make_quantity<U>(sr)).in(U{})); putc(o, std::copysign(x, sr));
                putc(o, au::isnan(q)); putc(o, bool(std::isnan(x)));
                putc(o, au::isnan(au::make_quantity_point<U>(x)));
                put(o, g_ub - u0);
            });
        }
    }
    static void sweep(int, char**, std::string& o) { o += "unsupported"; }
};

// arcsin / arccos / arctan / arctan2 on raw numbers: argv = (y x)*
template <class T>
struct ArcInst {
    using P = decltype(std::asin(T{}));
    static_assert(std::is_same<decltype(au::arcsin(T{})), au::Quantity<au::Radians, P>>::value, "arcsin unit");
    static_assert(std::is_same<decltype(au::arccos(T{})), au::Quantity<au::Radians, P>>::value, "arccos unit");
    static_assert(std::is_same<decltype(au::arctan(T{})), au::Quantity<au::Radians, P>>::value, "arctan unit");
    static_assert(std::is_same<decltype(au::arctan2(T{}, T{})), au::Quantity<au::Radians, P>>::value, "arctan2 unit");
    static void pt(int argc, char** argv, std::string& o) {
        for (int i = 0; i + 1 < argc; i += 2) {
            token(o, [&] {
                T y = IO<T>::parse(argv[i]), x = IO<T>::parse(argv[i + 1]);
                putc(o, au::arcsin(y).in(au::Radians{})); putc(o, std::asin(y));
                putc(o, au::arccos(y).in(au::Radians{})); putc(o, std::acos(y));
                putc(o, au::arctan(y).in(au::Radians{})); putc(o, std::atan(y));
                putc(o, au::arctan2(y, x).in(au::Radians{})); put(o, std::atan2(y, x));
            });
        }
    }
    static void sweep(int, char**, std::string& o) { o += "unsupported"; }
};
struct NullInst {
    static void pt(int, char**, std::string& o) { o += "dead"; }
    static void sweep(int, char**, std::string& o) { o += "dead"; }
};
#define ENTRY(ID, ...) { ID, &__VA_ARGS__::pt, &__VA_ARGS__::sweep }
'''

HARNESS_MAIN = r'''
extern const Entry* const chunks[]; extern const int chunk_sizes[]; extern const int n_chunks;
volatile long g_ub = 0;
sigjmp_buf g_jb; volatile sig_atomic_t g_in = 0; volatile long g_traps = 0;
extern "C" void __ubsan_on_report(void) { g_ub = g_ub + 1; }
static void on_trap(int sig) { if (g_in) siglongjmp(g_jb, sig); _exit(97); }
static const Entry* find(int id) {
    for (int c = 0; c < n_chunks; ++c) for (int i = 0; i < chunk_sizes[c]; ++i) if (chunks[c][i].id == id) return &chunks[c][i];
    return nullptr;
}
int main() {
    signal(SIGFPE, on_trap); signal(SIGILL, on_trap); signal(SIGSEGV, on_trap); signal(SIGBUS, on_trap);
    static char line[1 << 22];
    std::string out;
    while (fgets(line, sizeof line, stdin)) {
        // <id> <P|S> args...
        static char* argv[1 << 18]; int argc = 0;
        for (char* t = strtok(line, " \n"); t && argc < (1 << 18); t = strtok(nullptr, " \n")) argv[argc++] = t;
        out.clear();
        if (argc < 2) { puts("bad"); fflush(stdout); continue; }
        const Entry* e = find(atoi(argv[0]));
        if (!e) { puts("bad"); fflush(stdout); continue; }
        if (argv[1][0] == 'P') e->pt(argc - 2, argv + 2, out); else e->sweep(argc - 2, argv + 2, out);
        printf("%s %s %s\n", argv[0], argv[1], out.c_str());
        fflush(stdout);
    }
    return 0;
}
'''

ALLOWED_REJECTIONS = (
    "Can only use trig functions with Angle-dimensioned Quantity instances",
    "Dangerous inversion risking truncation to 0",
    "Dangerous inversion: this Rep cannot hold values large enough for a safe",
    "Cannot represent constant in this unit/rep",
    "Value outside range of destination type",
    "Cannot represent non-integer in integral destination type",
    # `constexpr R threshold{1'000'000};` for a rep that cannot hold the literal (g++ / clang wording)
    "narrowing conversion of '1000000'",
    "cannot be narrowed to type",
)


def harness_common():
    inc = "\n".join('#include "au/units/%s.hh"' % h for h in UNIT_HEADERS)
    return HARNESS_COMMON % {"unit_includes": inc}

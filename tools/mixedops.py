"""C08: mixed-unit comparison, +, -, %, <=> — correspondence between the Lean model
(AuModel.Mixed / AuModel.CommonRat) and the real headers, plus the statement-level oracles.

An *instance* is (R1, R2, n1/d1, n2/d2 [, named1, named2]): two quantities of one dimension with units
`VBase * mag<n_i>() / mag<d_i>()` (optionally wrapped in a named struct) and integral reps of equal
signedness.  For every instance the harness (real headers, public operators, ASan/UBSan) answers

  I id                         -> the library's unit_ratio(U_i, CommonUnitT<U1,U2>) and the result reps
  P id op v1 v2                -> one operation on one pair of values
  S id k1 k2 lo1 hi1 lo2 hi2   -> every (v1, v2) of a rectangle, every operation: compared in-process with
                                  the exact __int128 oracle of the statement; digest over the cases in the
                                  scope of the Lean theorems, compared with the model's digest.

Floating-point reps are covered by P lines only (tolerance relation, no Lean model).
"""
import math
import os
import time
from fractions import Fraction

from vlib import (INT_TYPES, Driver, cxx, kv, link_cmd, pmap, run, ty_hi, ty_lo)
from intconv import _cheap

OPS_COMMON = ["eq", "ne", "lt", "le", "gt", "ge", "add", "sub"]
OPS_OWN = ["mod", "cmp3"]
OPS = OPS_COMMON + OPS_OWN
SWAPS = ["seq", "sne", "sgt", "sge", "slt", "sle", "sadd"]      # q2 op' q1, mirror of eq ne lt le gt ge add
OPCODE = {o: i for i, o in enumerate(OPS + SWAPS)}
CTYPE = {k: v[0] for k, v in INT_TYPES.items()}
FTYPES = {"f32": ("float", 24), "f64": ("double", 53), "f80": ("long double", 64)}
OVERFLOW_THRESHOLD = 2147


# ------------------------------------------------------------------------------------------------
# C++ facts used by the oracle (independent re-statement of [conv.prom], [expr.arith.conv])
# ------------------------------------------------------------------------------------------------

UBSAN_ENV = {"UBSAN_OPTIONS": "suppress_equal_pcs=0:print_summary=0",
             "ASAN_OPTIONS": "detect_leaks=0:handle_sigfpe=0:allow_user_segv_handler=1"}


class RetryDriver(Driver):
    """The driver binary is relinked by concurrent builds of other checks: retry when it is momentarily absent."""

    def ask(self, lines):
        last = None
        for attempt in range(8):
            try:
                return Driver.ask(self, lines)
            except (FileNotFoundError, PermissionError, OSError, RuntimeError) as e:
                last = e
                time.sleep(3 + 2 * attempt)
        raise last


def promote(t):
    return "i32" if INT_TYPES[t][1] < 32 else t


def uac(a, b):
    a, b = promote(a), promote(b)
    if a == b:
        return a
    (_, ba, sa), (_, bb, sb) = INT_TYPES[a], INT_TYPES[b]
    if sa == sb:
        return a if ba >= bb else b
    s, u = (a, b) if sa else (b, a)
    return u if INT_TYPES[s][1] <= INT_TYPES[u][1] else s


def common_ty(a, b):
    return a if a == b else uac(a, b)


def in_range(t, x):
    return ty_lo(t) <= x <= ty_hi(t)


def rat_gcd(r1, r2):
    """Largest positive rational g such that r1/g and r2/g are integers."""
    n1, d1, n2, d2 = r1.numerator, r1.denominator, r2.numerator, r2.denominator
    return Fraction(math.gcd(n1 * d2, n2 * d1), d1 * d2)


def kmax(t):
    """Largest integer ratio the implicit policy admits for rep t (0: none but 1)."""
    hi = ty_hi(t)
    return hi // OVERFLOW_THRESHOLD if hi >= OVERFLOW_THRESHOLD else 1


# ------------------------------------------------------------------------------------------------
# Instance generation
# ------------------------------------------------------------------------------------------------

G_CHOICES = [(1, 1), (1, 1), (1, 3), (5, 7), (1, 1000), (1000, 1), (3, 2), (1, 12), (254, 10000), (9, 5), (1, 1024)]


def cheap_near(v, step):
    """Nearest value to v (moving by step) whose compile-time factorisation is cheap."""
    while v > 1 and not (v <= (1 << 40) or _cheap(v)):
        v += step
    return max(v, 1)


def coprime_pair(rng, kind, lim1, lim2):
    """(k1, k2) coprime positive integers of the requested ratio class, k_i <= lim_i where possible."""
    for _ in range(200):
        if kind == "integer":
            k1, k2 = rng.choice([2, 3, 5, 10, 12, 60, 100, 1000, rng.randrange(2, max(3, min(lim1, 5000)) + 1)]), 1
        elif kind == "reciprocal":
            k1, k2 = 1, rng.choice([2, 3, 5, 10, 12, 60, 100, 1000, rng.randrange(2, max(3, min(lim2, 5000)) + 1)])
        elif kind == "equal":
            return 1, 1
        else:
            k1 = rng.randrange(2, max(3, min(lim1, 400)) + 1)
            k2 = rng.randrange(2, max(3, min(lim2, 400)) + 1)
        if math.gcd(k1, k2) == 1 and k1 <= max(lim1, 1) and k2 <= max(lim2, 1):
            return k1, k2
    return 1, 1


def make_inst(r1, r2, k1, k2, g, named=(False, False), why=""):
    """Units r_i = k_i * g (g = a/b)."""
    a, b = g
    u1, u2 = Fraction(k1 * a, b), Fraction(k2 * a, b)
    return {"r1": r1, "r2": r2, "n1": u1.numerator, "d1": u1.denominator, "n2": u2.numerator, "d2": u2.denominator,
            "named1": bool(named[0]), "named2": bool(named[1]), "why": why}


def units_ok(ins):
    vals = [ins["n1"], ins["d1"], ins["n2"], ins["d2"]]
    return all(0 < v < (1 << 62) and (v <= (1 << 40) or _cheap(v)) for v in vals)


def rep_pairs():
    sg = ["i8", "i16", "i32", "i64"]
    us = ["u8", "u16", "u32", "u64"]
    return [(a, b) for fam in (sg, us) for a in fam for b in fam]


def gen_instances(rng, tier):
    """Structured grid: every rep pair of equal signedness x ratio classes, plus the policy guard
    boundaries (k = kmax(common rep), kmax + 1, own-rep kmax for % and <=>)."""
    per_pair = 3 if tier == "quick" else 9
    out = []
    for (r1, r2) in rep_pairs():
        c = common_ty(r1, r2)
        km = kmax(c)
        kinds = ["equal"]
        if km > 1:
            kinds += ["integer", "reciprocal", "general"]
        # always: the equal-scale twin (the only thing 8-bit x 8-bit admits), both namings
        # (scale 1 excluded: a struct derived from VBase itself cannot be ordered against VBase by the library)
        out.append(make_inst(r1, r2, 1, 1, rng.choice([g for g in G_CHOICES if g != (1, 1)]),
                             named=rng.choice([(True, False), (False, True)]), why="equal-scale twin"))
        chosen = []
        for kind in kinds[1:]:
            chosen.append(kind)
        rng.shuffle(chosen)
        for kind in chosen[:per_pair]:
            # keep k within the own reps' limits about half of the time (before the fix of F11/F17 % and <=> needed that)
            own = rng.random() < 0.6
            l1 = min(km, kmax(r1)) if own else km
            l2 = min(km, kmax(r2)) if own else km
            k1, k2 = coprime_pair(rng, kind, l1, l2)
            g = rng.choice(G_CHOICES)
            out.append(make_inst(r1, r2, k1, k2, g, named=(rng.random() < 0.2, rng.random() < 0.2), why=kind))
        if km > 1:
            # guard boundary of the policy in the common rep: k = kmax (admitted), kmax + 1 (rejected)
            side = rng.random() < 0.5
            kb = cheap_near(km, -1)
            out.append(make_inst(r1, r2, kb if side else 1, 1 if side else kb, (1, 1), why="k=kmax(common)"))
            kb2 = cheap_near(km + 1, 1)
            out.append(make_inst(r1, r2, kb2 if side else 1, 1 if side else kb2, (1, 1), why="k=kmax(common)+1"))
            # own-rep boundary (regression for F11/F17: % and <=> used to be gated and scaled in the operand's own rep)
            for (r, left) in ((r1, True), (r2, False)):
                ko = kmax(r)
                if 1 < ko < km and rng.random() < 0.7:
                    for kk in (ko, ko + 1):
                        out.append(make_inst(r1, r2, kk if left else 1, 1 if left else kk, (1, 1), why="k=kmax(own)" + ("+1" if kk > ko else "")))
        if tier == "thorough":
            for _ in range(3):
                k1, k2 = coprime_pair(rng, "general", km, km)
                out.append(make_inst(r1, r2, k1, k2, rng.choice(G_CHOICES), why="general"))
        if r1 != r2:
            # the SAME unit type with different reps (identical-type fast paths must not differ from equivalent types)
            ins = make_inst(r1, r2, 1, 1, rng.choice(G_CHOICES), why="same unit, different reps")
            ins["same_unit"] = True
            out.append(ins)
    # same-width, distinct types (`long` vs `long long`): the model identifies them, the library must not care
    for (r, a, b) in (("i64", "long long", "long"), ("u64", "unsigned long", "unsigned long long")):
        k1, k2 = coprime_pair(rng, rng.choice(["integer", "reciprocal", "general"]), kmax(r), kmax(r))
        ins = make_inst(r, r, k1, k2, rng.choice(G_CHOICES), why="long vs long long")
        ins["ct1"], ins["ct2"] = a, b
        out.append(ins)
        ins = make_inst(r, r, 1, 1, rng.choice([g for g in G_CHOICES if g != (1, 1)]), named=(True, False), why="long vs long long")
        ins["ct1"], ins["ct2"] = b, a
        out.append(ins)
    res, seen = [], set()
    for ins in out:
        key = (ins["r1"], ins["r2"], ins["n1"], ins["d1"], ins["n2"], ins["d2"], ins["named1"], ins["named2"], ins.get("ct1"), ins.get("ct2"))
        if key in seen or not units_ok(ins):
            continue
        if ins["n1"] * ins["d2"] == ins["n2"] * ins["d1"] and ins["named1"] == ins["named2"] and not ins.get("same_unit"):
            ins["named1"] = True      # equal scales: the two unit types must differ, or it is not a mixed-unit case
            ins["named2"] = False
        if (ins["n1"] == ins["d1"] and ins["named1"]) or (ins["n2"] == ins["d2"] and ins["named2"]):
            continue
        seen.add(key)
        ins["id"] = len(res)
        res.append(ins)
    return res


def gen_float_instances(rng, tier):
    n = 10 if tier == "quick" else 40
    pairs = [("f32", "f32"), ("f64", "f64"), ("f32", "f64"), ("f64", "f32"), ("i32", "f64"), ("f32", "i16"), ("i64", "f64"),
             ("f80", "f80"), ("f64", "f80"), ("f80", "i32")]
    out = []
    for i in range(max(n, len(pairs))):
        r1, r2 = pairs[i % len(pairs)]
        kind = rng.choice(["integer", "reciprocal", "general", "general"])
        k1, k2 = coprime_pair(rng, kind, 5000, 5000)
        ins = make_inst(r1, r2, k1, k2, rng.choice(G_CHOICES), why="float " + kind)
        if units_ok(ins):
            ins["id"] = 100000 + len(out)
            out.append(ins)
    return out


# ------------------------------------------------------------------------------------------------
# Harness
# ------------------------------------------------------------------------------------------------

HARNESS_COMMON = r'''
#include <cstdint>
#include <cstdio>
#include <cstdlib>
#include <cstring>
#include <csetjmp>
#include <csignal>
#include <unistd.h>
#include <limits>
#include <string>
#include <type_traits>
#include "au/quantity.hh"
#include "au/unit_of_measure.hh"
#include "au/magnitude.hh"
#if __cplusplus >= 202002L
#include <compare>
#endif
typedef __int128 i128;
struct VBase : au::UnitImpl<au::Length> {};
#define VUNIT(N, D) decltype(VBase{} * (au::mag<N>() / au::mag<D>()))
struct Entry {
    int id; int bits1, sg1, bits2, sg2; int common_ok, own_ok, is_float;
    i128 (*op)(int, i128, i128);
    long double (*fop)(int, long double, long double);
    void (*info)(char*, size_t);
};
template <class T> struct RepInfo { static constexpr int bits = int(sizeof(T) * 8); static constexpr int sg = std::numeric_limits<T>::is_signed ? 1 : 0;
    static constexpr int flt = std::is_floating_point<T>::value ? 1 : 0; };

// Operations that go through using_common_type (policy checked in the common rep).
template <class R1, class R2, class U1, class U2, bool Ok> struct CommonOps {
    static i128 op(int, i128, i128) { return 0; }
    static void info(char* b, size_t n) { snprintf(b, n, "sum=-,- common=-,-"); }
};
template <class R1, class R2, class U1, class U2> struct CommonOps<R1, R2, U1, U2, true> {
    using C = au::CommonUnitT<U1, U2>;
    static i128 op(int w, i128 a, i128 b) {
        const auto q1 = au::make_quantity<U1>(static_cast<R1>(a));
        const auto q2 = au::make_quantity<U2>(static_cast<R2>(b));
        switch (w) {
            case 0: return q1 == q2;
            case 1: return q1 != q2;
            case 2: return q1 < q2;
            case 3: return q1 <= q2;
            case 4: return q1 > q2;
            case 5: return q1 >= q2;
            case 6: return static_cast<i128>((q1 + q2).in(C{}));
            case 7: return static_cast<i128>((q1 - q2).in(C{}));
            case 10: return q2 == q1;
            case 11: return q2 != q1;
            case 12: return q2 > q1;
            case 13: return q2 >= q1;
            case 14: return q2 < q1;
            case 15: return q2 <= q1;
            case 16: return static_cast<i128>((q2 + q1).in(C{}));
            case 17: return static_cast<i128>((q2 - q1).in(C{}));
        }
        return -99;
    }
    static void info(char* b, size_t n) {
        using S = decltype((au::make_quantity<U1>(R1{}) + au::make_quantity<U2>(R2{})).in(C{}));
        using D = decltype((au::make_quantity<U1>(R1{}) - au::make_quantity<U2>(R2{})).in(C{}));
        using Q = std::common_type_t<au::Quantity<U1, R1>, au::Quantity<U2, R2>>;
        static_assert(std::is_same<S, D>::value, "sum and difference have different reps");
        static_assert(std::is_same<typename Q::Unit, C>::value, "common_type unit is not CommonUnitT");
        snprintf(b, n, "sum=%d,%d common=%d,%d", RepInfo<S>::bits, RepInfo<S>::sg, RepInfo<typename Q::Rep>::bits, RepInfo<typename Q::Rep>::sg);
    }
};
// operator% and operator<=>: rep_cast to the common rep, then q.in(CommonUnitT) (policy checked in the common rep).
template <class R1, class R2, class U1, class U2, bool Ok> struct OwnOps {
    static i128 op(int, i128, i128) { return 0; }
    static void info(char* b, size_t n) { snprintf(b, n, "mod=-,-"); }
};
template <class R1, class R2, class U1, class U2> struct OwnOps<R1, R2, U1, U2, true> {
    using C = au::CommonUnitT<U1, U2>;
    static i128 op(int w, i128 a, i128 b) {
        const auto q1 = au::make_quantity<U1>(static_cast<R1>(a));
        const auto q2 = au::make_quantity<U2>(static_cast<R2>(b));
        switch (w) {
            case 8: return static_cast<i128>((q1 % q2).in(C{}));
            case 18: return static_cast<i128>((q2 % q1).in(C{}));
#if __cplusplus >= 202002L
            case 9: { const auto s = (q1 <=> q2); return s < 0 ? 0 : (s == 0 ? 1 : (s > 0 ? 2 : 3)); }
            case 19: { const auto s = (q2 <=> q1); return s < 0 ? 0 : (s == 0 ? 1 : (s > 0 ? 2 : 3)); }
#endif
        }
        return -99;
    }
    static void info(char* b, size_t n) {
        using M = decltype((au::make_quantity<U1>(R1{}) % au::make_quantity<U2>(R2{})).in(C{}));
        snprintf(b, n, "mod=%d,%d", RepInfo<M>::bits, RepInfo<M>::sg);
    }
};
template <class R1, class R2, class U1, class U2, bool CommonOk, bool OwnOk> struct Inst {
    using C = au::CommonUnitT<U1, U2>;
    static i128 op(int w, i128 a, i128 b) {
        return (w == 8 || w == 9 || w == 18 || w == 19) ? OwnOps<R1, R2, U1, U2, OwnOk>::op(w, a, b) : CommonOps<R1, R2, U1, U2, CommonOk>::op(w, a, b);
    }
    static long double fop(int, long double, long double) { return 0; }
    static void info(char* b, size_t n) {
        char s1[96], s2[96];
        CommonOps<R1, R2, U1, U2, CommonOk>::info(s1, sizeof s1);
        OwnOps<R1, R2, U1, U2, OwnOk>::info(s2, sizeof s2);
        snprintf(b, n, "k1=%llu k2=%llu %s %s twin=%d",
                 (unsigned long long)au::get_value<uint64_t>(au::unit_ratio(U1{}, C{})),
                 (unsigned long long)au::get_value<uint64_t>(au::unit_ratio(U2{}, C{})), s1, s2,
                 int(std::is_same<U1, U2>::value));
    }
};
// <=> (C++20 only): rep_cast to the common (floating) rep, then .in(common unit).
template <class R1, class R2, class U1, class U2, bool BothFloat> struct FCmp3 {
    template <class Q1, class Q2> static long double go(const Q1&, const Q2&) { return -98; }
};
#if __cplusplus >= 202002L
template <class R1, class R2, class U1, class U2> struct FCmp3<R1, R2, U1, U2, true> {
    template <class Q1, class Q2> static long double go(const Q1& q1, const Q2& q2) {
        const auto s = (q1 <=> q2); return s < 0 ? 0 : (s == 0 ? 1 : (s > 0 ? 2 : 3));
    }
};
#endif
// Floating-point (or mixed int/float) reps: values travel as long double (exact for float/double/int64 inputs
// that the generator restricts to |v| < 2^53).
template <class R1, class R2, class U1, class U2> struct FInst {
    using C = au::CommonUnitT<U1, U2>;
    static i128 op(int, i128, i128) { return 0; }
    static long double fop(int w, long double a, long double b) {
        const auto q1 = au::make_quantity<U1>(static_cast<R1>(a));
        const auto q2 = au::make_quantity<U2>(static_cast<R2>(b));
        switch (w) {
            case 0: return q1 == q2;
            case 1: return q1 != q2;
            case 2: return q1 < q2;
            case 3: return q1 <= q2;
            case 4: return q1 > q2;
            case 5: return q1 >= q2;
            case 6: return static_cast<long double>((q1 + q2).in(C{}));
            case 7: return static_cast<long double>((q1 - q2).in(C{}));
            case 9: return FCmp3<R1, R2, U1, U2, true>::go(q1, q2);
        }
        return -99;
    }
    static void info(char* b, size_t n) {
        using S = decltype((au::make_quantity<U1>(R1{}) + au::make_quantity<U2>(R2{})).in(C{}));
        snprintf(b, n, "k1=%llu k2=%llu sum=%d,%d flt=%d twin=0",
                 (unsigned long long)au::get_value<uint64_t>(au::unit_ratio(U1{}, C{})),
                 (unsigned long long)au::get_value<uint64_t>(au::unit_ratio(U2{}, C{})), RepInfo<S>::bits, RepInfo<S>::sg, RepInfo<S>::flt);
    }
};
#define ENTRY(ID, R1, R2, U1, U2, CO, OO) \
    { ID, RepInfo<R1>::bits, RepInfo<R1>::sg, RepInfo<R2>::bits, RepInfo<R2>::sg, CO, OO, 0, \
      &Inst<R1, R2, U1, U2, CO, OO>::op, &Inst<R1, R2, U1, U2, CO, OO>::fop, &Inst<R1, R2, U1, U2, CO, OO>::info }
#define FENTRY(ID, R1, R2, U1, U2) \
    { ID, RepInfo<R1>::bits, RepInfo<R1>::sg, RepInfo<R2>::bits, RepInfo<R2>::sg, 1, 0, 1, \
      &FInst<R1, R2, U1, U2>::op, &FInst<R1, R2, U1, U2>::fop, &FInst<R1, R2, U1, U2>::info }
'''

HARNESS_MAIN = r'''
extern const Entry* const chunks[]; extern const int chunk_sizes[]; extern const int n_chunks;
static volatile long g_ub = 0;
extern "C" void __ubsan_on_report(void) { g_ub = g_ub + 1; }
static std::string s128(i128 v) {
    if (v == 0) return "0";
    bool neg = v < 0; unsigned __int128 u = neg ? (unsigned __int128)(-(v + 1)) + 1u : (unsigned __int128)v;
    std::string s; while (u) { s.insert(s.begin(), char('0' + int(u % 10))); u /= 10; }
    return neg ? "-" + s : s;
}
static i128 p128(const char* s) {
    bool neg = false; if (*s == '-') { neg = true; ++s; }
    unsigned __int128 u = 0; while (*s >= '0' && *s <= '9') { u = u * 10 + unsigned(*s - '0'); ++s; }
    return neg ? -(i128)u : (i128)u;
}
static const Entry* find(int id) {
    for (int c = 0; c < n_chunks; ++c) for (int i = 0; i < chunk_sizes[c]; ++i) if (chunks[c][i].id == id) return &chunks[c][i];
    return nullptr;
}
static i128 tlo(int bits, int sg) { return sg ? -((i128)1 << (bits - 1)) : 0; }
static i128 thi(int bits, int sg) { return sg ? ((i128)1 << (bits - 1)) - 1 : ((i128)1 << bits) - 1; }
// exact: lo <= v*k <= hi, without overflowing i128 (k > 0)
static bool fits(i128 v, i128 k, i128 lo, i128 hi) { return v >= 0 ? v <= hi / k : v >= lo / k; }
#if defined(__clang__)
#define NOWRAPSAN __attribute__((no_sanitize("unsigned-integer-overflow", "undefined")))
#else
#define NOWRAPSAN
#endif
// digest arithmetic is modular on purpose: keep it out of the sanitizer's counts
NOWRAPSAN static uint64_t cell_weight(i128 v1, i128 v2) {
    return (((uint64_t)v1 * 6364136223846793005ull) + ((uint64_t)v2 * 1442695040888963407ull)) | 1ull;
}
NOWRAPSAN static uint64_t digest_add(uint64_t h, i128 r, uint64_t wt) { return h + ((uint64_t)r + 1ull) * wt; }
static i128 wrapto(i128 x, int bits, int sg) {
    const i128 m = (i128)1 << bits; i128 r = x % m; if (r < 0) r += m;
    if (sg && r >= (m >> 1)) r -= m;
    return r;
}
// A trapping operation (integer division by zero, min % -1) must not take the harness down: it is an answer.
static sigjmp_buf g_jmp; static volatile sig_atomic_t g_armed = 0;
static void on_fpe(int) { if (g_armed) siglongjmp(g_jmp, 1); _exit(3); }
static bool call_op(const Entry* e, int w, i128 a, i128 b, i128* out) {
    if (sigsetjmp(g_jmp, 1)) { g_armed = 0; return false; }
    g_armed = 1;
    *out = e->op(w, a, b);
    g_armed = 0;
    return true;
}
static const char* OPN[] = {"eq", "ne", "lt", "le", "gt", "ge", "add", "sub", "mod", "cmp3"};
struct Stat { long n = 0, badout = 0, badown = 0, ubout = 0, ubown = 0, dn = 0; uint64_t h = 0; std::string firstout = "-", firstown = "-", firstubout = "-", firstubown = "-"; };
int main() {
    static char line[1024];
    signal(SIGFPE, on_fpe);
    while (fgets(line, sizeof line, stdin)) {
        char cmd = line[0];
        if (cmd == 'I') {
            int id; if (sscanf(line + 1, "%d", &id) != 1) { puts("bad"); continue; }
            const Entry* e = find(id); if (!e) { puts("bad"); continue; }
            char b[400]; e->info(b, sizeof b);
            printf("I %d %s std=%ld\n", id, b, (long)__cplusplus);
        } else if (cmd == 'P') {
            int id, w; char a[2][64];
            if (sscanf(line + 1, "%d %d %63s %63s", &id, &w, a[0], a[1]) != 4) { puts("bad"); continue; }
            const Entry* e = find(id); if (!e) { puts("bad"); continue; }
            long ub0 = g_ub;
            i128 r = 0;
            const bool okc = call_op(e, w, p128(a[0]), p128(a[1]), &r);
            printf("P %d %d val=%s ub=%ld\n", id, w, okc ? s128(r).c_str() : "trap", g_ub - ub0);
        } else if (cmd == 'F') {
            int id, w; long double x, y;
            if (sscanf(line + 1, "%d %d %La %La", &id, &w, &x, &y) != 4) { puts("bad"); continue; }
            const Entry* e = find(id); if (!e) { puts("bad"); continue; }
            long ub0 = g_ub;
            long double r = e->fop(w, x, y);
            printf("F %d %d val=%La ub=%ld\n", id, w, r, g_ub - ub0);
        } else if (cmd == 'S') {
            // S id k1 k2 lo1 hi1 lo2 hi2 cbits csg  (c = common rep as computed by the oracle side)
            int id, cbits, csg; char a[6][64];
            if (sscanf(line + 1, "%d %63s %63s %63s %63s %63s %63s %d %d", &id, a[0], a[1], a[2], a[3], a[4], a[5], &cbits, &csg) != 9) { puts("bad"); continue; }
            const Entry* e = find(id); if (!e) { puts("bad"); continue; }
            const i128 k1 = p128(a[0]), k2 = p128(a[1]), lo1 = p128(a[2]), hi1 = p128(a[3]), lo2 = p128(a[4]), hi2 = p128(a[5]);
            const i128 clo = tlo(cbits, csg), chi = thi(cbits, csg);
            const int pbits = cbits < 32 ? 32 : cbits, psg = cbits < 32 ? 1 : csg;           // rep of + and -
            const i128 plo = tlo(pbits, psg), phi = thi(pbits, psg);
            const int b1 = e->bits1 < 32 ? 32 : e->bits1, s1 = e->bits1 < 32 ? 1 : e->sg1;
            const int b2 = e->bits2 < 32 ? 32 : e->bits2, s2 = e->bits2 < 32 ? 1 : e->sg2;
            const int mbits = b1 > b2 ? b1 : b2, msg = (b1 == b2) ? (s1 && s2) : (b1 > b2 ? s1 : s2);  // equal signedness only
            const i128 mlo = plo;   // rep of %: decltype(R{} % R{}) with R the common rep
            (void)mbits; (void)msg;
            Stat st[10]; long cons_bad = 0; std::string cons_first = "-"; long cells = 0;
            const bool have3 = (__cplusplus >= 202002L);
            for (i128 v1 = lo1; v1 <= hi1; ++v1) for (i128 v2 = lo2; v2 <= hi2; ++v2) {
                ++cells;
                const bool fc = fits(v1, k1, clo, chi) && fits(v2, k2, clo, chi);
                if (!fc) continue;                       // out of the statement's scope: never executed
                const i128 A = v1 * k1, B = v2 * k2;
                const bool fo = true;   // since the fix of F11/F17, % and <=> scale in the common rep: one scope for all operators
                const uint64_t wt = cell_weight(v1, v2);
                i128 got[10]; bool have[10] = {false};
                for (int w = 0; w < 10; ++w) {
                    bool scope, dscope; i128 want = 0;
                    if (w < 8 && !e->common_ok) continue;
                    if (w >= 8 && !e->own_ok) continue;
                    if (w == 9 && !have3) continue;
                    switch (w) {
                        case 0: want = (A == B); scope = true; break;
                        case 1: want = (A != B); scope = true; break;
                        case 2: want = (A < B); scope = true; break;
                        case 3: want = (A <= B); scope = true; break;
                        case 4: want = (A > B); scope = true; break;
                        case 5: want = (A >= B); scope = true; break;
                        case 6: want = A + B; scope = (plo <= want && want <= phi); break;
                        case 7: want = A - B; scope = (plo <= want && want <= phi); break;
                        case 8: scope = (B != 0) && !(A == mlo && B == -1); if (scope) want = A % B; break;
                        default: want = (A < B) ? 0 : (A == B ? 1 : 2); scope = true; break;
                    }
                    if (!scope) continue;
                    dscope = (w < 8) ? true : fo;
                    Stat& s = st[w];
                    long ub0 = g_ub;
                    i128 r = 0;
                    if (!call_op(e, w, v1, v2, &r)) {
                        ++s.n;
                        if (dscope) { if (!s.badown++) s.firstown = s128(v1) + "," + s128(v2) + ",trap," + s128(want); }
                        else { if (!s.badout++) s.firstout = s128(v1) + "," + s128(v2) + ",trap," + s128(want); }
                        continue;
                    }
                    got[w] = r; have[w] = true;
                    ++s.n;
                    if (g_ub != ub0) {
                        if (dscope) { if (!s.ubown++) s.firstubown = s128(v1) + "," + s128(v2); }
                        else { if (!s.ubout++) s.firstubout = s128(v1) + "," + s128(v2); }
                    }
                    if (r != want) {
                        if (dscope) { if (!s.badown++) s.firstown = s128(v1) + "," + s128(v2) + "," + s128(r) + "," + s128(want); }
                        else { if (!s.badout++) s.firstout = s128(v1) + "," + s128(v2) + "," + s128(r) + "," + s128(want); }
                    }
                    if (dscope) { ++s.dn; s.h = digest_add(s.h, r, wt); }
                }
                // mutual consistency of the six comparisons on the implementation's own answers, and mirror forms
                if (e->common_ok && have[0] && have[1] && have[2] && have[3] && have[4] && have[5]) {
                    bool ok = true;
                    const bool eq = got[0], ne = got[1], lt = got[2], le = got[3], gt = got[4], ge = got[5];
                    ok = ok && (int(lt) + int(eq) + int(gt) == 1) && (ne == !eq) && (le == (lt || eq)) && (ge == (gt || eq));
                    ok = ok && (e->op(10, v1, v2) == got[0]) && (e->op(11, v1, v2) == got[1]) && (e->op(12, v1, v2) == got[2])
                            && (e->op(13, v1, v2) == got[3]) && (e->op(14, v1, v2) == got[4]) && (e->op(15, v1, v2) == got[5]);
                    if (have[6]) ok = ok && (e->op(16, v1, v2) == got[6]);
                    if (have[9] && fo) ok = ok && (got[9] == (lt ? 0 : (eq ? 1 : 2)));
                    // mirror forms of -, %, <=> (judged against the exact oracle, trap-safe)
                    i128 rr = 0;
                    if (plo <= B - A && B - A <= phi) ok = ok && call_op(e, 17, v1, v2, &rr) && rr == B - A;
                    if (e->own_ok && A != 0 && !(B == mlo && A == -1)) ok = ok && call_op(e, 18, v1, v2, &rr) && rr == B % A;
                    if (e->own_ok && have3) ok = ok && call_op(e, 19, v1, v2, &rr) && rr == (B < A ? 0 : (B == A ? 1 : 2));
                    if (!ok) { if (!cons_bad++) cons_first = s128(v1) + "," + s128(v2); }
                }
            }
            printf("S %d cells=%ld cons_bad=%ld cons_first=%s", id, cells, cons_bad, cons_first.c_str());
            for (int w = 0; w < 10; ++w)
                printf(" %s=%ld:%ld:%ld:%ld:%ld:%ld:%llu:%s:%s:%s:%s", OPN[w], st[w].n, st[w].badout, st[w].badown, st[w].ubout, st[w].ubown, st[w].dn,
                       (unsigned long long)st[w].h, st[w].firstout.c_str(), st[w].firstown.c_str(), st[w].firstubout.c_str(), st[w].firstubown.c_str());
            printf("\n");
        } else { puts("bad"); }
        fflush(stdout);
    }
    return 0;
}
'''


def unit_expr(n, d):
    return f"VUNIT({n}ull, {d}ull)"


def ctype(r):
    return CTYPE[r] if r in CTYPE else FTYPES[r][0]


def ctype_of(ins, side):
    """C++ spelling of the rep of operand `side` ("1"/"2"): an instance may override it (long long vs long)."""
    return ins.get("ct" + side) or ctype(ins["r" + side])


def write_table(path, name, ch, gates):
    with open(path, "w") as f:
        f.write(HARNESS_COMMON)
        for ins in ch:
            for s in ("1", "2"):
                if ins.get("named" + s):
                    f.write(f"struct Named{ins['id']}_{s} : {unit_expr(ins['n' + s], ins['d' + s])} {{}};\n")
        f.write(f"extern const Entry {name}[] = {{\n")
        for ins in ch:
            u = [f"Named{ins['id']}_{s}" if ins.get("named" + s) else unit_expr(ins["n" + s], ins["d" + s]) for s in ("1", "2")]
            if ins["r1"] in FTYPES or ins["r2"] in FTYPES:
                f.write(f"  FENTRY({ins['id']}, {ctype_of(ins, '1')}, {ctype_of(ins, '2')}, {u[0]}, {u[1]}),\n")
            else:
                co, oo = gates[ins["id"]]
                f.write(f"  ENTRY({ins['id']}, {ctype_of(ins, '1')}, {ctype_of(ins, '2')}, {u[0]}, {u[1]}, "
                        f"{'true' if co else 'false'}, {'true' if oo else 'false'}),\n")
        f.write("};\n")


def write_harness(wd, insts, gates, nchunks=16):
    """gates: id -> (common_ok, own_ok) as predicted by the model.  Returns the list of (file, table name, instances)."""
    chunks = [insts[i::nchunks] for i in range(nchunks)]
    chunks = [c for c in chunks if c]
    tables = []
    for ci, ch in enumerate(chunks):
        p = os.path.join(wd, f"chunk{ci}.cc")
        write_table(p, f"table{ci}", ch, gates)
        tables.append((p, f"table{ci}", ch))
    return {"tables": tables, "gates": gates}


def write_main(wd, live, tag=""):
    p = os.path.join(wd, f"main{tag}.cc")
    with open(p, "w") as f:
        f.write(HARNESS_COMMON)
        for (_, name, ch) in live:
            f.write(f"extern const Entry {name}[];\n")
        f.write("const Entry* const chunks[] = {" + ", ".join(name for (_, name, _) in live) + "};\n")
        f.write("const int chunk_sizes[] = {" + ", ".join(str(len(ch)) for (_, _, ch) in live) + "};\n")
        f.write(f"const int n_chunks = {len(live)};\n")
        f.write(HARNESS_MAIN)
    return p


def build_harness(wd, files, compiler, std, tag, san=True):
    """Returns (exe, failures, dead_ids).  A table that does not compile is split into one TU per instance; the
    instances that still do not compile are dropped from this configuration (and reported by the caller), so
    that the surviving instances can still produce concrete failing inputs."""
    def comp(t):
        src = t[0]
        obj = src[:-3] + f".{tag}.o"
        rc, out = cxx(src, obj, compiler=compiler, std=std, extra=["-c"], san=san)
        return (t, obj, rc, out)
    res = pmap(comp, files["tables"])
    live, objs, failures, dead = [], [], [], []
    retry = []
    for t, obj, rc, out in res:
        if rc == 0:
            live.append(t)
            objs.append(obj)
        else:
            for ins in t[2]:
                p = os.path.join(wd, f"inst{ins['id']}_{tag}.cc")
                write_table(p, f"tableI{ins['id']}", [ins], files["gates"])
                retry.append((p, f"tableI{ins['id']}", [ins]))
    for t, obj, rc, out in pmap(comp, retry):
        if rc == 0:
            live.append(t)
            objs.append(obj)
        else:
            dead.append(t[2][0]["id"])
            failures.append({"src": t[0], "instance": t[2][0], "output": out[-3000:]})
    if not live:
        return None, failures or [{"src": "all", "output": "no table compiles"}], dead
    mainp = write_main(wd, live, tag)
    t, obj, rc, out = comp((mainp, "main", []))
    if rc != 0:
        return None, [{"src": mainp, "output": out[-4000:]}], dead
    objs.append(obj)
    exe = os.path.join(wd, f"harness_{tag}")
    rc, out, err = run(link_cmd(compiler, objs, exe) if san else [compiler] + objs + ["-o", exe])
    if rc != 0:
        return None, [{"src": "link", "output": (out + err)[-4000:]}], dead
    return exe, failures, dead


def run_harness(exe, lines, shards=16):
    if not lines:
        return [], []
    order = sorted(range(len(lines)), key=lambda i: (0 if lines[i][0] == "S" else 1))
    buckets = [[] for _ in range(shards)]
    for k, i in enumerate(order):
        buckets[k % shards].append(i)

    def work(idx):
        if not idx:
            return [], ""
        rc, out, err = run([exe], inp="\n".join(lines[i] for i in idx) + "\n", env=UBSAN_ENV, timeout=7200)
        res = [l for l in out.split("\n") if l]
        if len(res) != len(idx):
            raise RuntimeError(f"harness: rc={rc}, {len(res)} answers for {len(idx)} requests; stderr tail:\n{err[-3000:]}")
        return res, err
    outs = pmap(work, buckets, workers=shards)
    answers = [None] * len(lines)
    errs = []
    for idx, (res, err) in zip(buckets, outs):
        errs.append(err)
        for i, r in zip(idx, res):
            answers[i] = r
    return answers, errs


def ask_parallel(drv, lines, shards=16):
    """The driver is single-threaded; sweeps are heavy, so spread the requests over processes."""
    if len(lines) < 4:
        return drv.ask(lines)
    order = sorted(range(len(lines)), key=lambda i: (0 if lines[i].startswith("c08sweep") else 1))
    buckets = [[] for _ in range(shards)]
    for k, i in enumerate(order):
        buckets[k % shards].append(i)
    outs = pmap(lambda idx: drv.ask([lines[i] for i in idx]), buckets, workers=shards)
    answers = [None] * len(lines)
    for idx, res in zip(buckets, outs):
        for i, r in zip(idx, res):
            answers[i] = r
    return answers


# ------------------------------------------------------------------------------------------------
# Inputs: rectangles ("windows") and points, directed at the guards of the model
# ------------------------------------------------------------------------------------------------

def clip(t, v):
    return max(ty_lo(t), min(ty_hi(t), v))


def interesting(t, c, k, rng):
    """Values of an operand of rep t whose scaled value v*k sits at a guard: limits of the common rep,
    of its promoted type, of the own rep, zero."""
    p = promote(c)
    vs = {0, 1, -1, ty_hi(t), ty_lo(t), ty_hi(c) // k, ty_hi(t) // k, ty_hi(p) // k, ty_hi(p) // (2 * k), ty_hi(c) // (2 * k)}
    if ty_lo(t) < 0:
        vs |= {-(-ty_lo(c) // k), -(-ty_lo(t) // k), -(-ty_lo(p) // k), -(-ty_lo(p) // (2 * k))}
    return sorted({clip(t, v) for v in vs})


def directed(t, c, k):
    """Directed operand values (each becomes the centre of a 3-wide span): min, zero, max of the own rep, the
    largest/smallest value whose scaled image fits the common rep, and half of the promoted limit (sum boundary)."""
    p = promote(c)
    vs = {ty_lo(t), 0, ty_hi(t), ty_hi(c) // k, ty_hi(p) // (2 * k)}
    if ty_lo(t) < 0:
        vs |= {-(-ty_lo(c) // k), -(-ty_lo(p) // (2 * k))}
    return sorted({clip(t, v) for v in vs})


def gen_directed_windows(ins, k1, k2):
    """3x3 rectangles around the cross product of the directed values of both operands: judged in EVERY run."""
    r1, r2 = ins["r1"], ins["r2"]
    c = common_ty(r1, r2)
    out, seen = [], set()
    for a in directed(r1, c, k1):
        for b in directed(r2, c, k2):
            key = (clip(r1, a - 1), clip(r1, a + 1), clip(r2, b - 1), clip(r2, b + 1))
            if key not in seen:
                seen.add(key)
                out.append(key)
    return out


def gen_windows(rng, ins, k1, k2, tier):
    r1, r2 = ins["r1"], ins["r2"]
    c = common_ty(r1, r2)
    b1, b2 = INT_TYPES[r1][1], INT_TYPES[r2][1]
    w = 40 if tier == "quick" else 64
    nwin = 3 if tier == "quick" else 10
    if b1 == 8 and b2 == 8:
        return [(ty_lo(r1), ty_hi(r1), ty_lo(r2), ty_hi(r2))]

    def span(t, centre, width):
        lo = clip(t, centre - width // 2)
        hi = clip(t, lo + width - 1)
        lo = clip(t, hi - width + 1)
        return lo, hi
    c1 = interesting(r1, c, k1, rng)
    c2 = interesting(r2, c, k2, rng)
    cand = [(0, 0)]
    cand += [(a, b) for a in c1 for b in c2]
    # points on the equality line v1*k1 == v2*k2
    for _ in range(6):
        lim = min(ty_hi(r1) // k2, ty_hi(r2) // k1)
        if lim >= 1:
            t = rng.randrange(-lim if ty_lo(r1) < 0 else 0, lim + 1)
            cand.append((t * k2, t * k1))
    head = cand[:1]
    tail = cand[1:]
    rng.shuffle(tail)
    # always one corner of the common-rep limit and one equality point, if available
    pri = [(ty_hi(c) // k1, ty_hi(c) // k2)]
    sel = head + [x for x in pri if x not in head] + tail
    wins, seen = [], set()
    for (a, b) in sel:
        a, b = clip(r1, a), clip(r2, b)
        if b1 == 8:
            s1 = (ty_lo(r1), ty_hi(r1))
            s2 = span(r2, b, w)
        elif b2 == 8:
            s1 = span(r1, a, w)
            s2 = (ty_lo(r2), ty_hi(r2))
        else:
            s1, s2 = span(r1, a, w), span(r2, b, w)
        key = s1 + s2
        if key in seen:
            continue
        seen.add(key)
        wins.append(key)
        if len(wins) >= nwin:
            break
    return wins


def gen_points(rng, ins, k1, k2, count):
    r1, r2 = ins["r1"], ins["r2"]
    c = common_ty(r1, r2)
    c1 = interesting(r1, c, k1, rng)
    c2 = interesting(r2, c, k2, rng)
    pts = set()
    for _ in range(count):
        z = rng.random()
        if z < 0.25:
            a, b = rng.choice(c1) + rng.randrange(-2, 3), rng.choice(c2) + rng.randrange(-2, 3)
        elif z < 0.5:
            # near-ties: v1*k1 vs v2*k2 differing by a small amount
            lim = max(1, min(ty_hi(c) // (k1 * k2), ty_hi(r1) // k2, ty_hi(r2) // k1))
            t = rng.randrange(-lim if ty_lo(r1) < 0 else 0, lim + 1)
            if rng.random() < 0.5:
                t = rng.randrange(-min(lim, 50) if ty_lo(r1) < 0 else 0, min(lim, 50) + 1)
            a, b = t * k2 + rng.choice([0, 0, 1, -1]), t * k1 + rng.choice([0, 0, 1, -1])
        elif z < 0.8:
            # values whose scaled image stays inside the common rep (so the case is in scope)
            m1, m2 = ty_hi(c) // k1, ty_hi(c) // k2
            e1, e2 = rng.randrange(0, max(1, m1.bit_length()) + 1), rng.randrange(0, max(1, m2.bit_length()) + 1)
            a = rng.randrange(0, min(m1, (1 << e1)) + 1)
            b = rng.randrange(0, min(m2, (1 << e2)) + 1)
            if ty_lo(r1) < 0:
                a, b = a * rng.choice([1, -1]), b * rng.choice([1, -1])
        else:
            a, b = rng.randrange(ty_lo(r1), ty_hi(r1) + 1), rng.randrange(ty_lo(r2), ty_hi(r2) + 1)
        pts.add((clip(r1, a), clip(r2, b)))
    return sorted(pts)


# ------------------------------------------------------------------------------------------------
# Statement-level oracle (Fraction arithmetic on value x unit)
# ------------------------------------------------------------------------------------------------

def trunc_frac(q):
    return -((-q.numerator) // q.denominator) if q < 0 else q.numerator // q.denominator


def oracle(ins, op, v1, v2, k1lib, k2lib):
    """Returns dict(scope=bool, fits_common, fits_own, want) for the literal statement.  The common unit
    is the library's own (r1/k1lib), checked elsewhere to be the rational gcd."""
    r1, r2 = ins["r1"], ins["r2"]
    u1, u2 = Fraction(ins["n1"], ins["d1"]), Fraction(ins["n2"], ins["d2"])
    g = u1 / k1lib
    x, y = Fraction(v1) * u1, Fraction(v2) * u2
    A, B = x / g, y / g
    c = common_ty(r1, r2)
    fc = A.denominator == 1 and B.denominator == 1 and in_range(c, A.numerator) and in_range(c, B.numerator)
    fo = A.denominator == 1 and B.denominator == 1 and in_range(r1, A.numerator) and in_range(r2, B.numerator)
    res = {"fits_common": fc, "fits_own": fo, "scope": fc, "want": None}
    if not fc:
        return res
    if op in ("eq", "ne", "lt", "le", "gt", "ge"):
        res["want"] = int({"eq": x == y, "ne": x != y, "lt": x < y, "le": x <= y, "gt": x > y, "ge": x >= y}[op])
    elif op in ("add", "sub"):
        z = (x + y) / g if op == "add" else (x - y) / g
        if z.denominator != 1 or not in_range(promote(c), z.numerator):
            res["scope"] = False
        else:
            res["want"] = z.numerator
    elif op == "mod":
        m = promote(c)          # decltype(R{} % R{}), R the common rep
        if y == 0 or (A == ty_lo(m) and B == -1):
            res["scope"] = False
        else:
            rem = (x - y * trunc_frac(x / y)) / g
            res["want"] = rem.numerator if rem.denominator == 1 else None
    elif op == "cmp3":
        res["want"] = 0 if x < y else (1 if x == y else 2)
    return res


# ------------------------------------------------------------------------------------------------
# The exploration
# ------------------------------------------------------------------------------------------------

def inst_key(ins):
    return f"{ins['r1']} {ins['r2']} {ins['n1']} {ins['d1']} {ins['n2']} {ins['d2']}"


def base_rec(ins, cfg):
    rec = {"r1": ins["r1"], "r2": ins["r2"], "n1": ins["n1"], "d1": ins["d1"], "n2": ins["n2"], "d2": ins["d2"],
           "named1": ins.get("named1", False), "named2": ins.get("named2", False), "config": cfg}
    for k in ("ct1", "ct2", "same_unit"):
        if ins.get(k):
            rec[k] = ins[k]
    return rec


def model_units(drv, insts):
    ans = drv.ask([f"c08unit {i['n1']} {i['d1']} {i['n2']} {i['d2']}" for i in insts])
    return {i["id"]: kv(a) for i, a in zip(insts, ans)}


def model_gates(drv, insts, mu):
    """(commonCompiles, ownCompiles) of the model for every instance."""
    ans = [kv(a) for a in drv.ask([f"c08gates {inst_key(i)}" for i in insts])]
    return {i["id"]: (a["common"] == "1", a["own"] == "1") for i, a in zip(insts, ans)}


def neg_probe_src(ins, which):
    u = [unit_expr(ins["n" + s], ins["d" + s]) for s in ("1", "2")]
    named = "".join(f"struct NamedP_{s} : {unit_expr(ins['n' + s], ins['d' + s])} {{}};\n" for s in ("1", "2") if ins.get("named" + s))
    u = [f"NamedP_{s}" if ins.get("named" + s) else u[j] for j, s in enumerate(("1", "2"))]
    tmpl, opn = ("CommonOps", 2) if which == "common" else ("OwnOps", 8)
    return (HARNESS_COMMON + named + f"int main() {{ return int({tmpl}<{ctype_of(ins, '1')}, {ctype_of(ins, '2')}, {u[0]}, {u[1]}, true>::op({opn}, 1, 1)); }}\n")


PROBE_ALLOW = ("Dangerous conversion", "static assertion failed", "static_assert failed")


def parse_sweep(ans):
    f = ans.split()
    head = kv(" ".join(f[:5]))
    ops = {}
    for tok in f[5:]:
        name, rest = tok.split("=", 1)
        p = rest.split(":")
        ops[name] = {"n": int(p[0]), "badout": int(p[1]), "badown": int(p[2]), "ubout": int(p[3]), "ubown": int(p[4]), "dn": int(p[5]),
                     "h": p[6], "firstout": p[7], "firstown": p[8], "firstubout": p[9], "firstubown": p[10]}
    return head, ops


def explore(prop, tier, seed, rng, wd):
    t0 = time.time()
    drv = RetryDriver()
    insts = gen_instances(rng, tier)
    # triangles for transitivity across three units
    tri = gen_triangles(rng, tier, len(insts))
    insts += [x for t in tri for x in t["insts"]]
    finsts = gen_float_instances(rng, tier)
    violations = []
    mu = model_units(drv, insts + finsts)
    gates = model_gates(drv, insts, mu)
    files = write_harness(wd, insts + finsts, gates)
    # "exact" = clang++-14 with the exact-count UBSan handlers (vlib.SAN_EXACT): EVERY undefined operation / unsigned
    # wrap calls __ubsan_on_report, so the per-input `ub` counts are reliable there (the full runtimes report a source
    # location once per process, and g++'s libubsan never calls the executable's hook).  C++20 so that <=> runs.
    # The remaining compiler x standard combinations run a reduced harness in the quick tier ("mini": a fixed-size subset
    # of instances of every class, no sanitizers, directed windows + points), so that every run judges the operators
    # under C++14/17/20 on both compilers (overload resolution differs: rewritten candidates in C++20).
    configs = [("g++", "c++14", "g14", False), ("exact", "c++20", "x20", False),
               ("g++", "c++20", "mg20", True), ("g++", "c++17", "mg17", True),
               ("clang++-14", "c++14", "mc14", True), ("clang++-14", "c++17", "mc17", True)]
    if tier == "thorough":
        configs = [("g++", "c++14", "g14", False), ("g++", "c++17", "g17", False), ("g++", "c++20", "g20", False),
                   ("clang++-14", "c++14", "c14", False), ("clang++-14", "c++17", "c17", False), ("clang++-14", "c++20", "c20", False),
                   ("exact", "c++20", "x20", False), ("exact", "c++14", "x14", False)]
    by_id = {i["id"]: i for i in insts + finsts}
    stats = {"instances": len(insts), "float_instances": len(finsts), "triangles": len(tri), "configs": [], "rep_pairs": {},
             "ratio_classes": {}, "gate": {"common_ok": 0, "common_rejected": 0, "own_ok": 0, "own_rejected": 0},
             "windows": 0, "window_cells": 0, "window_op_evals": 0, "digest_cells": 0, "points": 0, "point_op_evals": 0,
             "skipped_out_of_scope": 0, "float_op_evals": 0, "float_ambiguous": 0, "float_max_err_u": 0.0,
             "neg_probes": 0, "transitivity_checks": 0, "sanitizer_reports": 0,
             "ops": {o: 0 for o in OPS}}
    for i in insts:
        stats["rep_pairs"][i["r1"] + "x" + i["r2"]] = stats["rep_pairs"].get(i["r1"] + "x" + i["r2"], 0) + 1
        stats["ratio_classes"][i["why"]] = stats["ratio_classes"].get(i["why"], 0) + 1
        co, oo = gates[i["id"]]
        stats["gate"]["common_ok" if co else "common_rejected"] += 1
        stats["gate"]["own_ok" if oo else "own_rejected"] += 1
    # inputs (shared by all configurations)
    npts = 30 if tier == "quick" else 150
    wins, pts, dwins = {}, {}, {}
    for i in insts:
        k1, k2 = int(mu[i["id"]]["k1"]), int(mu[i["id"]]["k2"])
        co, oo = gates[i["id"]]
        wins[i["id"]] = gen_windows(rng, i, k1, k2, tier) if (co or oo) else []
        dwins[i["id"]] = [w for w in gen_directed_windows(i, k1, k2) if w not in wins[i["id"]]] if (co or oo) else []
        if INT_TYPES[i["r1"]][1] == 8 and INT_TYPES[i["r2"]][1] == 8:
            dwins[i["id"]] = []          # already exhaustive
        wins[i["id"]] = wins[i["id"]] + dwins[i["id"]]
        pts[i["id"]] = gen_points(rng, i, k1, k2, npts) if (co or oo) else []
    # model digests for the windows (independent of the configuration)
    sreq, skeys = [], []
    for i in insts:
        for wdw in wins[i["id"]]:
            sreq.append(f"c08sweep {inst_key(i)} {wdw[0]} {wdw[1]} {wdw[2]} {wdw[3]}")
            skeys.append((i["id"], wdw))
    sans = ask_parallel(drv, sreq)
    mdig = {}
    for key, a in zip(skeys, sans):
        mdig[key] = {tok.split("=")[0]: tok.split("=")[1] for tok in a.split()} if a != "bad-op" else None
    stats["model_sweep_s"] = round(time.time() - t0, 1)
    samples, distinct = [], set()
    fpts = {i["id"]: gen_float_points(rng, i, 30 if tier == "quick" else 120) for i in finsts}
    tvals = {t["idx"]: gen_triangle_values(rng, t, mu, 40 if tier == "quick" else 200) for t in tri}
    # the reduced harness: one instance of every ratio class / special shape, spread over the rep pairs, + floats
    mini_ids, seen_cls = [], {}
    for i in insts:
        co, oo = gates[i["id"]]
        cls = i["why"]
        if co and oo and seen_cls.get(cls, 0) < (3 if cls in ("integer", "reciprocal", "general", "equal-scale twin") else 2):
            # prefer different rep pairs within a class
            if any(by_id[j]["why"] == cls and (by_id[j]["r1"], by_id[j]["r2"]) == (i["r1"], i["r2"]) for j in mini_ids):
                continue
            seen_cls[cls] = seen_cls.get(cls, 0) + 1
            mini_ids.append(i["id"])
    mini_set = set(mini_ids) | {i["id"] for i in finsts[:4]}
    stats["mini_instances"] = len(mini_set)
    mini_files = None
    if any(c[3] for c in configs):
        mwd = os.path.join(wd, "mini")
        os.makedirs(mwd, exist_ok=True)
        mini_files = (mwd, write_harness(mwd, [i for i in insts + finsts if i["id"] in mini_set], gates, nchunks=4))
    # all builds are started at once (the machine has 16 cores; the reduced builds are small)
    from concurrent.futures import ThreadPoolExecutor
    pool = ThreadPoolExecutor(max_workers=len(configs))
    builds = {}
    for (compiler, std, tag, mini) in configs:
        if mini:
            builds[tag] = pool.submit(build_harness, mini_files[0], mini_files[1], compiler, std, tag, False)
        else:
            builds[tag] = pool.submit(build_harness, wd, files, compiler, std, tag)
    for (compiler, std, tag, mini) in configs:
        cfg = f"{compiler} -std={std}"
        exe, fails, dead = builds[tag].result()
        for fl in (fails or [])[:3]:
            violations.append({
                "what": f"harness does not compile under {cfg}: an operation the model's policy gate admits is rejected "
                        f"by the headers (or the public operator API changed)" + (f" [{len(dead)} instance(s) dropped]" if dead else ""),
                "class": "harness-build", "rec": dict(base_rec(fl["instance"], cfg) if "instance" in fl else {"config": cfg}, kind="build"),
                "no_input": True,
                "broken": "correspondence: Au.Mixed.commonCompiles / ownCompiles vs the policy static_assert", "detail": fl})
        if exe is None:
            continue
        dead = set(dead)
        stats["dropped_instances"] = stats.get("dropped_instances", 0) + len(dead)
        stats["configs"].append(cfg + (" (reduced harness)" if mini else ""))
        cpp20 = std == "c++20"
        lines = []
        linsts = [i for i in insts if i["id"] not in dead and (not mini or i["id"] in mini_set)]
        lfinsts = [i for i in finsts if i["id"] not in dead and (not mini or i["id"] in mini_set)]
        for i in linsts + lfinsts:
            lines.append(f"I {i['id']}")
        for i in linsts:
            c = common_ty(i["r1"], i["r2"])
            k1, k2 = mu[i["id"]]["k1"], mu[i["id"]]["k2"]
            for wdw in (dwins[i["id"]] or wins[i["id"]][:1]) if mini else wins[i["id"]]:
                lines.append(f"S {i['id']} {k1} {k2} {wdw[0]} {wdw[1]} {wdw[2]} {wdw[3]} {INT_TYPES[c][1]} {int(INT_TYPES[c][2])}")
        # points: pre-filtered by the oracle (out-of-scope cases are counted, never executed)
        preq = []
        for i in linsts:
            co, oo = gates[i["id"]]
            k1, k2 = int(mu[i["id"]]["k1"]), int(mu[i["id"]]["k2"])
            for (v1, v2) in pts[i["id"]]:
                for op in OPS:
                    if (op in OPS_COMMON and not co) or (op in OPS_OWN and not oo) or (op == "cmp3" and not cpp20):
                        continue
                    o = oracle(i, op, v1, v2, k1, k2)
                    if not o["scope"]:
                        stats["skipped_out_of_scope"] += 1
                        continue
                    preq.append((i["id"], op, v1, v2, o))
        treq = [] if mini else triangle_requests([t for t in tri if not any(x["id"] in dead for x in t["insts"])], tvals, mu, gates, preq, stats)
        for (iid, op, v1, v2, o) in preq:
            lines.append(f"P {iid} {OPCODE[op]} {v1} {v2}")
        pres = {}
        freq = []
        for i in lfinsts:
            for (v1, v2) in fpts[i["id"]]:
                for op in OPS_COMMON + (["cmp3"] if cpp20 else []):
                    freq.append((i["id"], op, v1, v2))
                    lines.append(f"F {i['id']} {OPCODE[op]} {float(v1).hex()} {float(v2).hex()}")
        answers, errs = run_harness(exe, lines)
        stats["sanitizer_reports"] += sum(e.count("runtime error") for e in errs)
        with open(os.path.join(wd, f"stderr_{tag}.txt"), "w") as ef:
            ef.write("\n".join(errs))
        mans = ask_parallel(drv, [f"c08op {op} {inst_key(by_id[iid])} {v1} {v2}" for (iid, op, v1, v2, o) in preq])
        pi = fi = 0
        for l, a in zip(lines, answers):
            f = a.split()
            ins = by_id[int(f[1])]
            base = base_rec(ins, cfg)
            if l[0] == "I":
                check_info(ins, kv(a), mu[ins["id"]], gates.get(ins["id"]), base, violations)
            elif l[0] == "S":
                lf = l.split()
                wdw = (int(lf[4]), int(lf[5]), int(lf[6]), int(lf[7]))
                head, ops = parse_sweep(a)
                stats["windows"] += 1
                stats["window_cells"] += int(head["cells"])
                if len(samples) < 2:
                    samples.append({"request": l, "harness": a[:400], "model": sreq[skeys.index((ins["id"], wdw))]})
                check_sweep(ins, wdw, head, ops, mdig.get((ins["id"], wdw)), cpp20, gates[ins["id"]], base, int(lf[2]), int(lf[3]), violations, stats)
                distinct.add(inst_key(ins))
            elif l[0] == "P":
                iid, op, v1, v2, o = preq[pi]
                m = kv(mans[pi])
                pi += 1
                r = kv(a)
                pres[(iid, op, v1, v2)] = r["val"]
                stats["points"] += 1 if op == "eq" else 0
                stats["point_op_evals"] += 1
                stats["ops"][op] += 1
                distinct.add(inst_key(ins))
                rec = dict(base, kind="oracle", op=op, v1=v1, v2=v2, k1=int(m.get("k1", 0)), k2=int(m.get("k2", 0)),
                           fits_common=o["fits_common"], fits_own=o["fits_own"], got=r["val"], want=o["want"], ub=int(r["ub"]))
                if len(samples) < 10 and op in ("add", "mod", "lt", "cmp3") and abs(v1) > 1 and abs(v2) > 1 and len(samples) % 4 == OPS.index(op) % 4:
                    samples.append({"request": f"c08op {op} {inst_key(ins)} {v1} {v2}", "model": mans[pi - 1], "harness": a, "oracle_want": o["want"]})
                # correspondence (what the property constrains: the value; and UB-freedom)
                mval = {"less": "0", "equal": "1", "greater": "2"}.get(m["val"], m["val"])
                if mval == "ub":
                    # (UBSan reports each source location once per process, so silence proves nothing; the value
                    # after UB is meaningless: nothing to compare.  The oracle below still judges the case.)
                    stats["model_ub_cases"] = stats.get("model_ub_cases", 0) + 1
                elif mval != r["val"]:
                    violations.append({"what": f"model and implementation differ for {op} at ({v1}, {v2})", "class": "corr-point",
                                       "no_input": True, "broken": "correspondence: c08op line protocol",
                                       "rec": dict(rec, kind="corr", model=mans[pi - 1], impl=a)})
                # oracle
                bad = (o["want"] is None) or r["val"] == "trap" or int(r["val"]) != o["want"] or r["ub"] != "0"
                if bad:
                    v = {"what": f"{op} on ({v1} [{ins['n1']}/{ins['d1']}] {ins['r1']}, {v2} [{ins['n2']}/{ins['d2']}] {ins['r2']}) "
                                 f"returns {r['val']} (sanitizer reports: {r['ub']}), exact answer {o['want']}",
                         "class": f"oracle-{op}-{ins['r1']}-{ins['r2']}", "rec": rec}
                    violations.append(v)
            elif l[0] == "F":
                iid, op, v1, v2 = freq[fi]
                fi += 1
                check_float(ins, op, v1, v2, kv(a), mu[ins["id"]], base, violations, stats)
        check_triangles(tri, treq, pres, cfg, violations, stats)
    # negative probes: what the model's gate rejects must be rejected by the compiler, for an Au reason
    negs = [(i, "common") for i in insts if not gates[i["id"]][0]] + [(i, "own") for i in insts if not gates[i["id"]][1]]
    rng.shuffle(negs)
    negs = negs[: (24 if tier == "quick" else 96)]

    def probe(x):
        ins, which = x
        p = os.path.join(wd, f"neg{ins['id']}_{which}.cc")
        open(p, "w").write(neg_probe_src(ins, which))
        rc, out = cxx(p, None, san=False, syntax_only=True)
        return ins, which, rc, out
    for ins, which, rc, out in pmap(probe, negs):
        stats["neg_probes"] += 1
        base = dict(base_rec(ins, "g++ -std=c++14"), kind="corr", observable="compiles", which=which)
        if rc == 0:
            violations.append({"what": f"{which}-rep operation compiles although the model's policy gate rejects it",
                               "class": "corr-gate", "no_input": True, "broken": "correspondence: Au.Mixed.implicitOk", "rec": base})
        elif not any(s in out for s in PROBE_ALLOW):
            violations.append({"what": "negative probe rejected for an unexpected reason", "class": "corr-probe", "no_input": True,
                               "broken": "probe allow-list", "rec": dict(base, out=out[-800:])})
    stats["window_op_evals"] = stats.get("window_op_evals", 0)
    total = stats["window_op_evals"] + stats["point_op_evals"] + stats["float_op_evals"]
    coverage = {
        "evaluations": total,
        "distinct_nontrivial": len(distinct),
        "rule": "case = (R1, R2, unit pair, op, v1, v2) executed on the real operators and inside the statement's scope. "
                "Instances: every ordered rep pair of equal signedness x {equal-scale twin, integer, reciprocal, general "
                "rational ratio, policy guard k = kmax(common rep) / kmax+1 / kmax(own rep)} x scale of the common unit; "
                "values: exhaustive rectangles (8-bit x 8-bit: all 65536 pairs; otherwise windows centred at the model's "
                "guards: limits of the common rep, of its promoted type and of the own reps divided by k, zero, points on "
                "the equality line) + boundary-directed and random points. distinct_nontrivial = distinct instances "
                "(rep pair + unit pair) with at least one in-scope case executed",
        "samples": samples,
        "exhaustive": False,
        "distribution": stats,
        "explore_s": round(time.time() - t0, 2),
    }
    return coverage, violations


def check_info(ins, r, m, gate, base, violations):
    """The tie between the rational-gcd model and the library's CommonUnitT, and the result reps."""
    u1, u2 = Fraction(ins["n1"], ins["d1"]), Fraction(ins["n2"], ins["d2"])
    g = rat_gcd(u1, u2)
    want = (u1 / g, u2 / g)
    got = (int(r["k1"]), int(r["k2"]))
    if (Fraction(got[0]), Fraction(got[1])) != want:
        violations.append({"what": f"unit_ratio(U_i, CommonUnitT<U1,U2>) = {got}, the rational gcd gives {want}",
                           "class": "oracle-commonunit", "rec": dict(base, kind="oracle", observable="common-unit", got=list(got), want=[str(w) for w in want])})
    if (r["k1"], r["k2"]) != (m["k1"], m["k2"]):
        violations.append({"what": "model and library disagree on the ratios to the common unit", "class": "corr-commonunit", "no_input": True,
                           "broken": "correspondence: URat.ratioL/ratioR vs CommonUnitT", "rec": dict(base, kind="corr", impl=r, model=m)})
    if r.get("twin") == "1" and not ins.get("same_unit"):
        violations.append({"what": "generator produced identical unit types (not a mixed-unit case)", "class": "gen-twin", "no_input": True,
                           "broken": "generator", "rec": dict(base, kind="corr")})
    if "flt" in r or gate is None:
        return
    c = common_ty(ins["r1"], ins["r2"])
    exp = {"common": c, "sum": promote(c), "mod": uac(ins["r1"], ins["r2"])}
    for key, t in exp.items():
        if r.get(key, "-,-") == "-,-":
            continue
        b, s = r[key].split(",")
        if (int(b), bool(int(s))) != (INT_TYPES[t][1], INT_TYPES[t][2]):
            violations.append({"what": f"rep of the {key} result is {r[key]} (bits,signed), expected {t}", "class": f"oracle-rep-{key}",
                               "rec": dict(base, kind="oracle", observable="rep-" + key, got=r[key], want=t)})


def check_sweep(ins, wdw, head, ops, mdig, cpp20, gate, base, k1, k2, violations, stats):
    r1, r2 = ins["r1"], ins["r2"]
    if int(head["cons_bad"]):
        v1, v2 = head["cons_first"].split(",")
        violations.append({"what": f"the comparisons are not mutually consistent, or a mirror form (q2 op' q1, q2+q1, q2-q1, q2%q1, q2<=>q1) is not exact, at ({v1}, {v2})",
                           "class": f"oracle-consistency-{r1}-{r2}", "rec": dict(base, kind="oracle", op="consistency", v1=int(v1), v2=int(v2), window=list(wdw))})
    for op, s in ops.items():
        stats["window_op_evals"] += s["n"]
        stats["ops"][op] += s["n"]
        stats["digest_cells"] += s["dn"]
        for (cnt, first, own) in ((s["badown"], s["firstown"], True), (s["badout"], s["firstout"], False)):
            if cnt <= 0:
                continue
            f = first.split(",")
            v1, v2 = int(f[0]), int(f[1])
            rec = dict(base, kind="oracle", op=op, v1=v1, v2=v2, k1=k1, k2=k2, fits_common=True,
                       fits_own=(in_range(r1, v1 * k1) and in_range(r2, v2 * k2)), got=f[2], want=f[3], count=cnt, window=list(wdw))
            v = {"what": f"{op} on ({v1} [{ins['n1']}/{ins['d1']}] {r1}, {v2} [{ins['n2']}/{ins['d2']}] {r2}) returns {f[2]}, exact answer {f[3]} "
                         f"({cnt} such case(s) in window {wdw})", "class": f"oracle-{op}-{r1}-{r2}", "rec": rec}
            violations.append(v)
        for (cnt, first, own) in ((s["ubown"], s["firstubown"], True), (s["ubout"], s["firstubout"], False)):
            if cnt <= 0:
                continue
            f = first.split(",")
            v1, v2 = int(f[0]), int(f[1])
            rec = dict(base, kind="oracle", op=op, observable="ub", v1=v1, v2=v2, k1=k1, k2=k2, fits_common=True,
                       fits_own=(in_range(r1, v1 * k1) and in_range(r2, v2 * k2)), count=cnt, window=list(wdw))
            v = {"what": f"{op} executes undefined behaviour / unsigned wrap-around (sanitizer report) inside the statement's scope at ({v1}, {v2})",
                 "class": f"ub-{op}-{r1}-{r2}", "rec": rec}
            violations.append(v)
        # digest: model vs implementation on the scope of the theorems
        if mdig is None:
            violations.append({"what": "the driver rejected a sweep request", "class": "corr-driver", "no_input": True,
                               "broken": "driver protocol", "rec": dict(base, kind="corr", window=list(wdw))})
            return
        if op == "cmp3" and not cpp20:
            continue
        if not gate[0 if op in OPS_COMMON else 1]:
            continue        # operation gated off in the harness (does not compile): nothing to compare
        if mdig[op] != f"{s['dn']}:{s['h']}":
            violations.append({"what": f"digest of {op} over window {wdw} differs between model ({mdig[op]}) and implementation ({s['dn']}:{s['h']})",
                               "class": f"corr-digest-{op}", "no_input": True, "broken": "correspondence: c08sweep digest (Au.Mixed vs operators)",
                               "rec": dict(base, kind="corr", op=op, window=list(wdw), model=mdig[op], impl=f"{s['dn']}:{s['h']}")})


# ------------------------------------------------------------------------------------------------
# Transitivity across three units
# ------------------------------------------------------------------------------------------------

def gen_triangles(rng, tier, first_id):
    n = 6 if tier == "quick" else 24
    fams = [["i16", "i32", "i64", "i32", "i64"], ["u16", "u32", "u64", "u32", "u64"]]
    out = []
    nid = first_id
    for t in range(n):
        fam = fams[t % 2]
        reps = [rng.choice(fam) for _ in range(3)]
        # three units with pairwise small integer ratios to their pairwise common units
        base = rng.choice(G_CHOICES)
        ks = rng.sample([1, 2, 3, 4, 5, 6, 7, 9, 10, 12, 15], 3)
        units = [Fraction(k * base[0], base[1]) for k in ks]
        insts = []
        ok = True
        for (a, b) in ((0, 1), (1, 2), (0, 2)):
            ins = {"r1": reps[a], "r2": reps[b], "n1": units[a].numerator, "d1": units[a].denominator,
                   "n2": units[b].numerator, "d2": units[b].denominator, "named1": False, "named2": False, "why": "triangle"}
            ok = ok and units_ok(ins)
            insts.append(ins)
        if not ok:
            continue
        for ins in insts:
            ins["id"] = nid
            nid += 1
        out.append({"idx": len(out), "reps": reps, "units": units, "insts": insts})
    return out


def gen_triangle_values(rng, t, mu, count):
    """Triples (va, vb, vc) with many ties and near-ties of the exact values."""
    vals = []
    u = t["units"]
    L = 1
    for x in u:
        L = L * x.denominator // math.gcd(L, x.denominator)
    iu = [int(x * L) for x in u]
    m = 1
    for x in iu:
        m = m * x // math.gcd(m, x)
    for _ in range(count):
        lo_signed = ty_lo(t["reps"][0]) < 0
        tt = rng.randrange(-40 if lo_signed else 0, 41)
        trip = []
        for j in range(3):
            v = tt * (m // iu[j]) + rng.choice([0, 0, 0, 1, -1, 2])
            if not lo_signed:
                v = max(v, 0)
            trip.append(clip(t["reps"][j], v))
        vals.append(tuple(trip))
    return vals


def triangle_requests(tri, tvals, mu, gates, preq, stats):
    """Adds the P requests the triangles need (in scope for all three pairs only); returns the triples kept."""
    kept = []
    have = {(iid, op, v1, v2) for (iid, op, v1, v2, o) in preq}
    for t in tri:
        if not all(gates[i["id"]][0] for i in t["insts"]):
            continue
        for trip in tvals[t["idx"]]:
            pairs = [(t["insts"][0], trip[0], trip[1]), (t["insts"][1], trip[1], trip[2]), (t["insts"][2], trip[0], trip[2])]
            os_ = []
            for (ins, a, b) in pairs:
                k1, k2 = int(mu[ins["id"]]["k1"]), int(mu[ins["id"]]["k2"])
                os_.append([oracle(ins, op, a, b, k1, k2) for op in ("eq", "lt", "le")])
            if not all(o["scope"] for ol in os_ for o in ol):
                continue
            kept.append((t["idx"], trip))
            for (ins, a, b), ol in zip(pairs, os_):
                for op, o in zip(("eq", "lt", "le"), ol):
                    key = (ins["id"], op, a, b)
                    if key not in have:
                        have.add(key)
                        preq.append((ins["id"], op, a, b, o))
    return kept


def check_triangles(tri, treq, pres, cfg, violations, stats):
    for (ti, trip) in treq:
        t = tri[ti]
        ab, bc, ac = t["insts"]

        def g(ins, op, a, b):
            return pres.get((ins["id"], op, a, b)) == "1"
        a, b, c = trip
        stats["transitivity_checks"] += 1
        bad = None
        if g(ab, "le", a, b) and g(bc, "le", b, c) and not g(ac, "le", a, c):
            bad = "a <= b and b <= c but not a <= c"
        elif g(ab, "lt", a, b) and g(bc, "le", b, c) and not g(ac, "lt", a, c):
            bad = "a < b and b <= c but not a < c"
        elif g(ab, "le", a, b) and g(bc, "lt", b, c) and not g(ac, "lt", a, c):
            bad = "a <= b and b < c but not a < c"
        elif g(ab, "eq", a, b) and g(bc, "eq", b, c) and not g(ac, "eq", a, c):
            bad = "a == b and b == c but not a == c"
        if bad:
            violations.append({"what": f"comparison is not transitive across three units: {bad} for values {trip} of units "
                                       f"{[str(x) for x in t['units']]} reps {t['reps']}",
                               "class": "oracle-transitivity",
                               "rec": {"kind": "oracle", "op": "transitivity", "reps": t["reps"], "units": [str(x) for x in t["units"]],
                                       "values": list(trip), "config": cfg}})


# ------------------------------------------------------------------------------------------------
# Floating-point reps: tolerance relation against the exact value (no Lean model)
# ------------------------------------------------------------------------------------------------

def to_f32(x):
    import struct
    return struct.unpack("f", struct.pack("f", x))[0]


def gen_float_points(rng, ins, count):
    def val(r):
        if r in INT_TYPES:
            b = min(INT_TYPES[r][1] - 1, 40)
            return rng.randrange(-(1 << rng.randrange(1, b)), (1 << rng.randrange(1, b)) + 1)
        z = rng.random()
        if z < 0.35:
            v = float(rng.randrange(-2000, 2001))
        elif z < 0.55:
            v = rng.randrange(-2000, 2001) / rng.choice([2, 4, 8, 16])
        elif z < 0.8:
            v = rng.uniform(-1, 1) * 10.0 ** rng.randrange(-6, 7)
        else:
            v = rng.uniform(-1e3, 1e3)
        return to_f32(v) if r == "f32" else v
    pts = []
    u1, u2 = Fraction(ins["n1"], ins["d1"]), Fraction(ins["n2"], ins["d2"])
    # directed special values (every run): signed zeros, smallest subnormal, a huge finite value, infinities, NaN
    def special(r, other_k):
        if r in INT_TYPES:
            return [0, 1, -1 if ty_lo(r) < 0 else 2]
        tiny = 2.0 ** -149 if r == "f32" else 5e-324
        big = (3.0e38 if r == "f32" else 1.0e308) / (4 * other_k)
        big = to_f32(big) if r == "f32" else big
        return [0.0, -0.0, tiny, -tiny, big, -big, float("inf"), float("-inf"), float("nan"), 1.5]
    kk = rat_gcd(u1, u2)
    ka, kb = int(u1 / kk), int(u2 / kk)
    s1, s2 = special(ins["r1"], ka), special(ins["r2"], kb)
    for j in range(max(len(s1), len(s2))):
        pts.append((s1[j % len(s1)], s2[(j + 1) % len(s2)]))
        pts.append((s1[j % len(s1)], s2[j % len(s2)]))
    for _ in range(count):
        a = val(ins["r1"])
        if rng.random() < 0.4:
            # a near-tie: v2 ~ v1*u1/u2 rounded into R2
            y = Fraction(a) * u1 / u2
            b = int(y) if ins["r2"] in INT_TYPES else (to_f32(float(y)) if ins["r2"] == "f32" else float(y))
            if ins["r2"] in INT_TYPES:
                b = clip(ins["r2"], b)
        else:
            b = val(ins["r2"])
        pts.append((a, b))
    return pts


def hex_to_fraction(t):
    """Exact value of a printf("%La") string (64-bit mantissas do not fit a Python float); None for inf/nan."""
    t = t.strip().lower()
    neg = t.startswith("-")
    t = t.lstrip("+-")
    if "nan" in t:
        return "nan"
    if "inf" in t:
        return "-inf" if neg else "inf"
    mant, _, ex = t[2:].partition("p")
    ip, _, fp = mant.partition(".")
    v = Fraction(int((ip + fp) or "0", 16), 16 ** len(fp)) * (Fraction(2) ** int(ex or "0"))
    return -v if neg else v


def check_float_special(ins, op, v1, v2, r, got, rec, violations, stats):
    """Operands with an infinity or a NaN have no exact rational value: judged by IEEE semantics of the scaled operands
    (inf * k = inf, NaN * k = NaN)."""
    import math as _m
    a, b = float(v1), float(v2)
    stats["float_special_evals"] = stats.get("float_special_evals", 0) + 1
    if op in ("add", "sub"):
        want = a + b if op == "add" else a - b      # finite partners cannot change an infinity; inf - inf = NaN
        if _m.isnan(want):
            ok = got == "nan"
        elif _m.isinf(want):
            ok = got == ("inf" if want > 0 else "-inf")
        else:
            ok = False
    elif op == "cmp3":
        want = 3 if (_m.isnan(a) or _m.isnan(b)) else (0 if a < b else (1 if a == b else 2))
        ok = got == Fraction(want)
    else:
        want = int({"eq": a == b, "ne": a != b, "lt": a < b, "le": a <= b, "gt": a > b, "ge": a >= b}[op])
        ok = got == Fraction(want)
    if not ok:
        violations.append({"what": f"floating {op} on a non-finite operand ({a!r}, {b!r}): answered {r['val']}, IEEE semantics give {want!r}",
                           "class": f"oracle-float-special-{op}", "rec": dict(rec, want=str(want))})


def check_float(ins, op, v1, v2, r, m, base, violations, stats):
    fl = [x for x in (ins["r1"], ins["r2"]) if x in FTYPES]
    p = max(FTYPES[x][1] for x in fl)              # precision of the common floating rep
    u = Fraction(1, 1 << p)
    u1, u2 = Fraction(ins["n1"], ins["d1"]), Fraction(ins["n2"], ins["d2"])
    k1 = int(m["k1"])
    g = u1 / k1
    stats["float_op_evals"] += 1
    got = hex_to_fraction(r["val"])
    rec = dict(base, kind="oracle", op=op, v1=float(v1).hex(), v2=float(v2).hex(), got=r["val"], flt=True)
    if r["ub"] != "0":
        violations.append({"what": f"floating {op}: sanitizer report", "class": f"ub-float-{op}", "rec": rec})
    if any(isinstance(v, float) and (v != v or v in (float("inf"), float("-inf"))) for v in (v1, v2)):
        check_float_special(ins, op, v1, v2, r, got, rec, violations, stats)
        return
    if isinstance(got, str):
        violations.append({"what": f"floating {op}: non-finite answer {r['val']} on finite operands", "class": f"oracle-float-{op}", "rec": rec})
        return
    x, y = Fraction(v1) * u1, Fraction(v2) * u2
    A, B = x / g, y / g
    if op in ("add", "sub"):
        exact = A + B if op == "add" else A - B
        scale = abs(A) + abs(B)
        err = abs(got - exact)
        if scale > 0:
            stats["float_max_err_u"] = max(stats["float_max_err_u"], float(err / (u * scale)))
        if err > 3 * u * scale:
            violations.append({"what": f"floating {op}: result {float(got)!r} differs from the exact value {float(exact)!r} by more than 3 units of "
                                       f"roundoff of the operands", "class": f"oracle-float-{op}", "rec": dict(rec, want=float(exact))})
        return
    amb = abs(A - B) <= 2 * u * (abs(A) + abs(B)) and A != B
    if amb:
        stats["float_ambiguous"] += 1
    code = int(got)
    if op == "cmp3":
        want = 0 if A < B else (1 if A == B else 2)
        ok = code == want or (amb and code in (0, 1, 2))
        # rounding is monotone: the order can collapse to a tie, never invert
        if amb and ((A < B and code == 2) or (A > B and code == 0)):
            ok = False
    else:
        truth = {"eq": A == B, "ne": A != B, "lt": A < B, "le": A <= B, "gt": A > B, "ge": A >= B}[op]
        ok = code == int(truth)
        if not ok and amb:
            # allowed only as a collapse to a tie (a == b): then eq/le/ge true, ne/lt/gt false
            tie = {"eq": 1, "ne": 0, "lt": 0, "le": 1, "gt": 0, "ge": 1}[op]
            ok = code == tie
    if not ok:
        violations.append({"what": f"floating {op}: answered {code} on exact values {float(A)!r} vs {float(B)!r} (common units)",
                           "class": f"oracle-float-{op}", "rec": rec})


# ------------------------------------------------------------------------------------------------
# Replay
# ------------------------------------------------------------------------------------------------

def replay(prop, rec):
    from vlib import workdir
    r = rec.get("rec", {})
    if not all(k in r for k in ("r1", "r2", "n1", "d1", "n2", "d2", "op", "v1", "v2")) or r.get("flt"):
        print("replay: record has no integral (instance, op, v1, v2); it names:", rec.get("what"), "/", rec.get("broken"))
        return 1
    wd = workdir(prop + "_replay")
    drv = RetryDriver()
    ins = {"id": 0, "r1": r["r1"], "r2": r["r2"], "n1": int(r["n1"]), "d1": int(r["d1"]), "n2": int(r["n2"]), "d2": int(r["d2"]),
           "named1": r.get("named1", False), "named2": r.get("named2", False), "why": "replay"}
    for k in ("ct1", "ct2", "same_unit"):
        if r.get(k):
            ins[k] = r[k]
    mu = model_units(drv, [ins])
    gates = model_gates(drv, [ins], mu)
    files = write_harness(wd, [ins], gates, nchunks=1)
    cfg = r.get("config", "g++ -std=c++14").split()
    op = r["op"]
    if op == "cmp3":
        cfg = [cfg[0], "-std=c++20"]
    exe, fails, _dead = build_harness(wd, files, cfg[0], cfg[1].replace("-std=", ""), "rp")
    if exe is None:
        print("replay: harness does not build:", fails[0]["output"][-1500:])
        print(f"VIOLATION property={prop} replay={rec.get('_path', '<given>')} no-failing-input-found")
        return 1
    v1, v2 = int(r["v1"]), int(r["v2"])
    cpp20 = cfg[1].endswith("c++20")
    ops = (["eq", "ne", "lt", "le", "gt", "ge"] + (["cmp3"] if cpp20 else [])) if op in ("consistency",) else [op]
    code = 0
    got = {}
    for o in ops:
        if o not in OPCODE:
            continue
        if (o in OPS_COMMON and not gates[0][0]) or (o in OPS_OWN and not gates[0][1]):
            print(f"{o}: does not compile (model gate)")
            continue
        ans, _ = run_harness(exe, ["I 0", f"P 0 {OPCODE[o]} {v1} {v2}"], shards=1)
        info = kv(ans[0])
        m = drv.ask([f"c08op {o} {inst_key(ins)} {v1} {v2}"])[0]
        orc = oracle(ins, o, v1, v2, int(info["k1"]), int(info["k2"]))
        a = kv(ans[1])
        got[o] = a["val"]
        print("impl  :", ans[0], "|", ans[1])
        print("model :", m)
        print("oracle:", orc)
        if orc["scope"] and (orc["want"] is None or a["val"] == "trap" or int(a["val"]) != orc["want"] or a["ub"] != "0"):
            print(f"VIOLATION property={prop} replay={rec.get('_path', '<given>')}")
            code = 1
        else:
            mk = kv(m)
            mval = {"less": "0", "equal": "1", "greater": "2"}.get(mk["val"], mk["val"])
            if orc["scope"] and mval != a["val"]:
                print(f"VIOLATION property={prop} replay={rec.get('_path', '<given>')} no-failing-input-found")
                code = 1
    if op == "consistency" and all(o in got for o in ("eq", "ne", "lt", "le", "gt", "ge")):
        b = {o: got[o] == "1" for o in got if o != "cmp3"}
        ok = (int(b["lt"]) + int(b["eq"]) + int(b["gt"]) == 1 and b["ne"] == (not b["eq"]) and b["le"] == (b["lt"] or b["eq"])
              and b["ge"] == (b["gt"] or b["eq"]))
        if not ok and code == 0:
            print(f"VIOLATION property={prop} replay={rec.get('_path', '<given>')}")
            code = 1
    if code == 0:
        print("replay: property holds on this case")
    return code

#!/usr/bin/env python3
"""mkmutprompt.py <ID>...: create a detached worktree /tmp/mut/<ID> of /repo and the task text /tmp/mut/prompt_<ID>.txt for a
fresh mutation sub-agent (the agent sees only the property text and its worktree, nothing from /verif)."""
import json
import os
import subprocess
import sys

props = {}
for l in open('/verif/properties.jsonl'):
    p = json.loads(l)
    props[p['id']] = p
TMPL = '''You are a software engineer testing how robust a C++ library's quality gates are. The library is aurora-opensource/au (header-only C++14 physical-units library). You have your own private git worktree of it at {wt} (work ONLY there; never touch /repo or /verif or any other directory; you may create files under {wt} and under /tmp/mutwork_{pid} only).

Here is a semantic property the library is supposed to satisfy:

  {pid}: {title}
  {statement}
  (Scope: {qtext})

Your job: make ONE small, realistic change to the library's source (under {wt}/au/code/au/ or, if the property is about it, the scripts under {wt}/tools — not the tests) that BREAKS this property, such that
  (a) the library and its whole existing test suite still compile, and every existing test still passes, and
  (b) the breakage needs something specific to manifest — an unusual input value, a particular combination of types / units / scale factors, a boundary, or two code sites that each look fine alone — rather than something any ordinary use would expose at once. Think of a plausible bug a maintainer could introduce in a refactoring or "optimisation" (off-by-one at a limit, wrong type in one branch, missing promotion, swapped operands in a rarely-taken branch, a dropped guard, > vs >=, a special case mishandled).
Then write a small demonstration (a stand-alone C++ program `demo.cc`, compiled with `g++ -std=c++14 -I {wt}/au/code demo.cc`, that returns 0 / prints PASS when the property holds on the input(s) it checks and returns non-zero / prints FAIL otherwise; for compile-time properties a demo that must compile, or must fail to compile, is fine — say which; for a property about a script, a shell demo is fine) that FAILS with your change and PASSES on the unmodified tree.

How to verify (a): configure and build the test suite in your worktree once: `cmake -G Ninja -S {wt} -B {wt}/_build -DCMAKE_BUILD_TYPE=RelWithDebInfo -DCMAKE_CXX_FLAGS=-Wno-error >/dev/null && cmake --build {wt}/_build -j8 2>&1 | tail -3 && ctest --test-dir {wt}/_build -j8 --timeout 900 2>&1 | tail -3` (the machine is shared and busy: the first build may take 10+ minutes; rebuilds after a header change also rebuild most tests). Expect "100% tests passed, 0 tests failed out of 991". If your change breaks a test, choose a different / narrower change.
How to verify the demo on the unmodified tree: `git -C {wt} stash` (or `git -C {wt} diff > /tmp/mutwork_{pid}/patch.diff && git -C {wt} checkout -- .`), run the demo, then re-apply.

Deliver, in /tmp/mutwork_{pid}/: `patch.diff` (output of `git -C {wt} diff`, applies with `git apply` at the repository root), `demo.cc` (and `demo.sh` saying exactly how to build/run it and what output means PASS/FAIL), and `notes.txt` (what the change is, why it breaks the property, what specific input/condition is needed for it to manifest, and the evidence that the full test suite still passes with it). Leave the patch APPLIED in the worktree when you finish. Do not look for or read anything under /verif. Your final message: a short summary (the change, the manifesting condition, test-suite result, demo result with and without the patch).'''
os.makedirs('/tmp/mut', exist_ok=True)
for pid in sys.argv[1:]:
    p = props[pid]
    wt = f'/tmp/mut/{pid}'
    if not os.path.exists(wt):
        subprocess.run(['git', '-C', '/repo', 'worktree', 'add', '--detach', wt, 'HEAD', '-q'], check=True)
    open(f'/tmp/mut/prompt_{pid}.txt', 'w').write(TMPL.format(wt=wt, pid=pid, title=p['title'], statement=p['statement'], qtext=p['quantifier']['text']))
    print(pid, wt)

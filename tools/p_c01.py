"""C01 — dimension mismatches are rejected at compile time."""
import json
import os
import time

import aulib
import uexpr
from vlib import CONFIGS, Driver, cxx, finish, pmap, prove, rng_for, run, workdir

PROP = "C01"
ASSUME = [
    "the Lean theorems are about the gate table (AuModel.Outcome); that the library follows the table is validated by compile "
    "probes (one -fsyntax-only TU per negative case, rejected only with an allow-listed Au / type-system diagnostic)",
    "overload resolution is not modelled; positive cases use reps for which the conversion policy certainly allows the operation "
    "(floating reps, or equal units)",
    "QuantityPoint units with origins are exercised by a directed probe (finding F7, fixed) and by C09/C10",
]
CT = {"i8": "int8_t", "u8": "uint8_t", "i16": "int16_t", "u16": "uint16_t", "i32": "int32_t", "u32": "uint32_t", "i64": "int64_t", "u64": "uint64_t",
      "f32": "float", "f64": "double", "f80": "long double"}
ALL_INT = ["i8", "u8", "i16", "u16", "i32", "u32", "i64", "u64"]
ALL_FLT = ["f32", "f64", "f80"]

PRELUDE = '''#include <cstdint>
#include <type_traits>
#include <cstdio>
#include "au/au.hh"
#include "au/math.hh"
#include "au/prefix.hh"
%s
using au::pow; using au::root;
#define UT(...) au::AssociatedUnitT<std::decay_t<decltype(__VA_ARGS__)>>
template <typename... Ts> struct make_void { using type = void; };
template <typename A, typename B, typename = void> struct HasCommon : std::false_type {};
template <typename A, typename B> struct HasCommon<A, B, typename make_void<typename std::common_type<A, B>::type>::type> : std::true_type {};
'''

# op -> (code template using Q1 q1, Q2 q2 (quantities) or P1 p1, P2 p2 (points); needs: 'int' = integral reps, 'flt' = floating reps, 'cxx20')
OPS = {
    "add": ("auto r = q1 + q2; (void)r;", None), "sub": ("auto r = q1 - q2; (void)r;", None),
    "eq": ("bool r = (q1 == q2); (void)r;", None), "ne": ("bool r = (q1 != q2); (void)r;", None),
    "lt": ("bool r = (q1 < q2); (void)r;", None), "le": ("bool r = (q1 <= q2); (void)r;", None),
    "gt": ("bool r = (q1 > q2); (void)r;", None), "ge": ("bool r = (q1 >= q2); (void)r;", None),
    "spaceship": ("auto r = (q1 <=> q2); (void)r;", "cxx20"),
    "mod": ("auto r = q1 % q2; (void)r;", "int"),
    "addAssign": ("q1 += q2;", None), "subAssign": ("q1 -= q2;", None),
    "implicitCtor": ("Q1 x = q2; (void)x;", None), "explicitCtor": ("Q1 x(q2); (void)x;", None), "assign": ("q1 = q2;", None),
    "as_": ("auto r = q2.as(U1{}); (void)r;", None), "in_": ("auto r = q2.in(U1{}); (void)r;", None),
    "asRep": ("auto r = q2.as<R1>(U1{}); (void)r;", None), "inRep": ("auto r = q2.in<R1>(U1{}); (void)r;", None),
    "coerceAs": ("auto r = q2.coerce_as(U1{}); (void)r;", None), "coerceIn": ("auto r = q2.coerce_in(U1{}); (void)r;", None),
    "dataIn": ("auto& r = q2.data_in(U1{}); (void)r;", "equiv"),
    "min2": ("auto r = min(q1, q2); (void)r;", None), "max2": ("auto r = max(q1, q2); (void)r;", None),
    "clamp3": ("auto r = clamp(q1, q2, q2); (void)r;", None),
    "hypot": ("auto r = hypot(q1, q2); (void)r;", None), "fmod": ("auto r = fmod(q1, q2); (void)r;", None),
    "remainder": ("auto r = remainder(q1, q2); (void)r;", None), "arctan2": ("auto r = arctan2(q1, q2); (void)r;", None),
    "inverseAs": ("auto r = au::inverse_as(au::UnitInverseT<U1>{}, q2); (void)r;", None),
    "inverseIn": ("auto r = au::inverse_in(au::UnitInverseT<U1>{}, q2); (void)r;", None),
    "roundAs": ("auto r = au::round_as(U1{}, q2); (void)r;", None), "roundIn": ("auto r = au::round_in(U1{}, q2); (void)r;", None),
    "floorAs": ("auto r = au::floor_as(U1{}, q2); (void)r;", None), "ceilAs": ("auto r = au::ceil_as(U1{}, q2); (void)r;", None),
    "ptSub": ("auto r = p1 - p2; (void)r;", None), "ptEq": ("bool r = (p1 == p2); (void)r;", None), "ptLt": ("bool r = (p1 < p2); (void)r;", None),
    "ptImplicitCtor": ("P1 x = p2; (void)x;", None), "ptAs": ("auto r = p2.as(U1{}); (void)r;", None),
    "ptPlusQuantity": ("auto r = p1 + q2; (void)r;", None), "ptMinusQuantity": ("auto r = p1 - q2; (void)r;", None),
    "floorIn": ("auto r = au::floor_in(U1{}, q2); (void)r;", None), "ceilIn": ("auto r = au::ceil_in(U1{}, q2); (void)r;", None),
    "roundAsRep": ("auto r = au::round_as<int>(U1{}, q2); (void)r;", None),
    "coerceAsRep": ("auto r = q2.coerce_as<R1>(U1{}); (void)r;", None), "coerceInRep": ("auto r = q2.coerce_in<R1>(U1{}); (void)r;", None),
    "ptNe": ("bool r = (p1 != p2); (void)r;", None), "ptLe": ("bool r = (p1 <= p2); (void)r;", None),
    "ptGt": ("bool r = (p1 > p2); (void)r;", None), "ptGe": ("bool r = (p1 >= p2); (void)r;", None),
    "ptExplicitCtor": ("P1 x(p2); (void)x;", None), "ptAssign": ("p1 = p2;", None), "ptIn": ("auto r = p2.in(U1{}); (void)r;", None),
    "ptCoerceAs": ("auto r = p2.coerce_as(U1{}); (void)r;", None), "ptCoerceIn": ("auto r = p2.coerce_in(U1{}); (void)r;", None),
    "ptPlusAssign": ("p1 += q2;", None), "ptMinusAssign": ("p1 -= q2;", None), "quantityPlusPt": ("auto r = q1 + p2; (void)r;", None),
}
TRAITS = {
    "commonType": "HasCommon<Q1, Q2>::value", "isConvertible": "std::is_convertible<Q2, Q1>::value",
    "isConstructible": "std::is_constructible<Q1, Q2>::value",
    "ptIsConvertible": "std::is_convertible<P2, P1>::value",
    "ptIsConstructible": "std::is_constructible<P1, P2>::value", "ptCommonType": "HasCommon<P1, P2>::value",
}
ALLOW = ["Can only compute ratio of same-dimension units", "Common unit only meaningful if units have same dimension",
         "Common dimension only defined when all dimensions are identical", "Can only convert same-dimension units",
         "Can only access value via Quantity-equivalent unit", "static assertion failed", "static_assert failed",
         "deleted function", "deleted constructor", "no match for", "invalid operands", "no matching", "no viable", "no type named",
         "could not convert", "conversion from", "no known conversion", "cannot convert", "Dangerous", "is ambiguous", "incomplete type"]


def block(u1, u2, r1, r2, code):
    return (f"using U1 = UT({u1}); using U2 = UT({u2}); using R1 = {CT[r1]}; using R2 = {CT[r2]};\n"
            "using Q1 = au::Quantity<U1, R1>; using Q2 = au::Quantity<U2, R2>; using P1 = au::QuantityPoint<U1, R1>; using P2 = au::QuantityPoint<U2, R2>;\n"
            f"void probe() {{ Q1 q1 = au::make_quantity<U1>(R1{{1}}); Q2 q2 = au::make_quantity<U2>(R2{{1}}); "
            f"P1 p1 = au::make_quantity_point<U1>(R1{{1}}); P2 p2 = au::make_quantity_point<U2>(R2{{1}}); (void)q1; (void)q2; (void)p1; (void)p2;\n  {code}\n}}\nint main() {{ return 0; }}\n")


def main(tier, seed):
    t0 = time.time()
    wd = workdir(PROP)
    rng = rng_for(PROP, seed)
    proof = prove(PROP)
    drv = Driver()
    ops_model = drv.ask(["ops"])[0].split()
    violations = []
    missing = [o for o in ops_model if o not in OPS and o not in TRAITS]
    if missing or set(list(OPS) + list(TRAITS)) - set(ops_model):
        violations.append({"what": f"operation tables of model and check differ: {missing}", "class": "ops", "no_input": True, "broken": "Op.all",
                           "rec": {"kind": "ops"}})
    A = uexpr.Atoms(wd, rng, n_prefixed=16)
    inc = "\n".join(f'#include "{h}"' for h in A.headers())
    keys = [k for k in A.atoms if not A.atoms[k]["has_origin"]]
    # unit generator: library, prefixed, compound / scaled / powered
    def gen_unit():
        pool = uexpr.twin_free_pool(rng, A, 6)
        pool = [k for k in pool if not A.atoms[k]["has_origin"]] or [rng.choice(keys)]
        r = rng.random()
        if r < 0.5:
            return ("atom", rng.choice(pool))
        return uexpr.gen_tree(rng, A, 2, pool)
    n_neg = 240 if tier == "quick" else 3000
    n_pos = 100 if tier == "quick" else 800
    neg_cases, pos_cases, trait_cases = [], [], []
    rep_grid, int_grid = [], []
    near = [(("atom", "Meters"), ("pow", ("atom", "Meters"), 2)), (("atom", "Hertz"), ("div", ("atom", "Radians"), ("atom", "Seconds"))),
            (("atom", "Seconds"), ("pow", ("atom", "Seconds"), -1)), (("atom", "Joules"), ("atom", "Newtons")),
            (("atom", "Radians"), ("atom", "Unos")), (("atom", "Meters"), ("atom", "Liters")), (("atom", "Bits"), ("atom", "Unos"))]
    near = [(a, b) for a, b in near if all(k in A.atoms for k in uexpr.atoms_of(a) + uexpr.atoms_of(b))]
    opnames = list(OPS)
    F = uexpr.Fraction

    def near_mutate(t):
        """A unit whose dimension differs from t's only slightly: one exponent numerator changed or negated,
        an extra (fractional) power of one atom, or a mul turned into a div."""
        r = rng.random()
        if r < 0.35:
            q = rng.choice([F(1, 2), F(3, 2), F(2, 3), F(-1, 2), F(-3, 2), F(5, 2), F(-2, 3), F(4, 3)])
            q2 = rng.choice([x for x in (F(-q.numerator, q.denominator), F(q.numerator + q.denominator, q.denominator),
                                        F(1, q.denominator), F(q.numerator * 2, q.denominator)) if x != q])
            b = ("atom", rng.choice(uexpr.atoms_of(t)))
            rest = t if rng.random() < 0.6 else None
            mk = (lambda e: ("mul", rest, ("pow", b, e))) if rest else (lambda e: ("pow", b, e))
            return mk(q), mk(q2)
        if r < 0.55:
            return t, ("pow", t, rng.choice([F(2), F(1, 2), F(-1), F(3, 2), F(2, 3)]))
        if r < 0.8:
            b = ("atom", rng.choice(keys))
            return t, ("mul", t, ("pow", b, rng.choice([F(1), F(-1), F(1, 2), F(-1, 2), F(1, 3)])))
        a, b = t, ("atom", rng.choice(keys))
        return ("mul", a, b), ("div", a, b)

    while len(neg_cases) < n_neg:
        rr = rng.random()
        if near and rr < 0.2:
            u1, u2 = rng.choice(near)
            if rng.random() < 0.5:
                u1, u2 = u2, u1
        elif rr < 0.55:
            u1, u2 = near_mutate(gen_unit())
            if rng.random() < 0.5:
                u1, u2 = u2, u1
        else:
            u1, u2 = gen_unit(), gen_unit()
        d1, _ = uexpr.sem(u1, A)
        d2, _ = uexpr.sem(u2, A)
        if d1 == d2:
            continue
        op = opnames[len(neg_cases) % len(opnames)]
        need = OPS[op][1]
        if op in ("inverseAs", "inverseIn"):
            # mismatch for inverse: target·source not dimensionless, i.e. dim(U1) != dim(U2) again (target = 1/U1)
            pass
        # rejection must not depend on the reps: every rep (pair) of the grid is used before any repeats
        if need == "int":
            if not int_grid:
                int_grid.extend(ALL_INT)
                rng.shuffle(int_grid)
            r1 = r2 = int_grid.pop()
        else:
            if not rep_grid:
                rep_grid.extend((a, b) for a in ALL_INT + ALL_FLT for b in ALL_INT + ALL_FLT)
                rng.shuffle(rep_grid)
            r1, r2 = rep_grid.pop()
        neg_cases.append((op, u1, u2, r1, r2))
    while len(pos_cases) < n_pos:
        op = opnames[len(pos_cases) % len(opnames)]
        need = OPS[op][1]
        u2 = gen_unit()
        r = rng.random()
        if need == "equiv" or r < 0.4:
            u1 = u2
        elif need == "int":
            u1 = u2
        else:
            u1 = ("scale", u2, rng.choice(uexpr.SCALES[:6]))
        if op in ("inverseAs", "inverseIn"):
            r1 = r2 = "f64"
        elif need == "int":
            r1 = r2 = "i32"
        else:
            r1 = r2 = rng.choice(["f64", "f32"]) if u1 != u2 else rng.choice(["f64", "i32", "f32"])
        pos_cases.append((op, u1, u2, r1, r2))
    # trait questions: mismatched and matched, batched (must compile)
    n_trait = 60 if tier == "quick" else 600
    tries = 0
    while len(trait_cases) < n_trait and tries < 20 * n_trait:
        tries += 1
        u1, u2 = gen_unit(), gen_unit()
        if rng.random() < 0.3:
            u1 = ("scale", u2, rng.choice(uexpr.SCALES[:6]))
        # twin guard across the pair (documented exclusion: two distinct named units of identical dimension and magnitude, e.g. Hertz
        # and Becquerel, have no tiebreaker in the unit ordering; a common type of quantities built on them is a hard error by design)
        tk = set(uexpr.atoms_of(u1) + uexpr.atoms_of(u2))
        if len({A.sig(k) for k in tk}) != len(tk):
            continue
        trait_cases.append((u1, u2, rng.choice(ALL_INT + ALL_FLT), rng.choice(ALL_INT + ALL_FLT)))
    # mismatched dimensions with EQUAL magnitudes and integral reps (m vs s, km vs ks, N vs J): the scale factor between them is
    # Magnitude<>, the one value for which the policy has an integer-promotion carve-out; the dimension guard must still say no
    by_mag = {}
    for k in keys:
        by_mag.setdefault(tuple(sorted(A.atoms[k]["mag"].items())), []).append(k)
    groups = [g for g in by_mag.values() if len({tuple(sorted(A.atoms[k]["dim"].items())) for k in g}) > 1]
    for _ in range(40 if tier == "quick" else 400):
        if not groups:
            break
        g = rng.choice(groups)
        a, b = rng.sample(g, 2)
        if A.atoms[a]["dim"] == A.atoms[b]["dim"]:
            continue
        r1, r2 = rng.choice([("i32", "i32"), ("i32", "i64"), ("u8", "i32"), ("i64", "i64"), ("i16", "i32"), ("u8", "u8"), ("i32", "f64"), ("f32", "f64")])
        t1, t2 = ("atom", a), ("atom", b)
        if rng.random() < 0.3:
            sc = rng.choice(uexpr.SCALES[:4])
            t1, t2 = ("scale", t1, sc), ("scale", t2, sc)
        trait_cases.append((t1, t2, r1, r2))
    configs = [("g++", "c++14")]
    other = [c for c in CONFIGS if c != ("g++", "c++14") and c[1] != "c++20"]
    cfg2 = other[seed % len(other)]
    stats = {"negative_probes": 0, "positive_probes": 0, "trait_questions": 0, "ops_covered": len(opnames) + len(TRAITS), "configs": [],
             "rejected_as_expected": 0, "accepted_as_expected": 0, "near_miss_pairs": len(near)}

    def run_probe(it):
        kind, idx, case, compiler, std = it
        op, u1, u2, r1, r2 = case
        code, need = OPS[op]
        if need == "cxx20":
            std = "c++20"
        src = os.path.join(wd, f"{kind}_{idx}_{compiler[0]}{std[-2:]}.cc")
        open(src, "w").write(PRELUDE % inc + block(uexpr.cxx(u1, A, "unit"), uexpr.cxx(u2, A, "unit"), r1, r2, code))
        rc, out = cxx(src, None, compiler=compiler, std=std, san=False, syntax_only=True)
        return it, rc, out
    items = [("neg", i, c, "g++", "c++14") for i, c in enumerate(neg_cases)] + [("pos", i, c, "g++", "c++14") for i, c in enumerate(pos_cases)]
    sub = rng.sample(range(len(neg_cases)), min(len(neg_cases), 40 if tier == "quick" else len(neg_cases)))
    items += [("neg", i, neg_cases[i], cfg2[0], cfg2[1]) for i in sub]
    subp = rng.sample(range(len(pos_cases)), min(len(pos_cases), 20 if tier == "quick" else len(pos_cases)))
    items += [("pos", i, pos_cases[i], cfg2[0], cfg2[1]) for i in subp]
    if tier == "thorough":
        for c in CONFIGS:
            if c not in (("g++", "c++14"), cfg2):
                items += [("neg", i, neg_cases[i], c[0], c[1]) for i in sub[:400]]
    stats["configs"] = sorted({f"{i[3]} -std={i[4]}" for i in items})
    samples = []
    mreq = []
    for it, rc, out in pmap(run_probe, items):
        kind, idx, (op, u1, u2, r1, r2), compiler, std = it
        rec = {"kind": "probe", "op": op, "u1": uexpr.show(u1), "u2": uexpr.show(u2), "R1": r1, "R2": r2, "config": f"{compiler} -std={std}"}
        if kind == "neg":
            stats["negative_probes"] += 1
            if rc == 0:
                violations.append({"what": f"`{op}` between {rec['u1']} and {rec['u2']} (different dimensions) compiles under {rec['config']}",
                                   "class": f"accepts-{op}", "rec": dict(rec, expected="rejected")})
            elif not any(a in out for a in ALLOW):
                violations.append({"what": "negative probe rejected for an unexpected reason", "class": "diag", "no_input": True, "broken": "probe allow-list",
                                   "rec": dict(rec, out=out[-700:])})
            else:
                stats["rejected_as_expected"] += 1
                if len(samples) < 3:
                    samples.append(dict(rec, verdict="rejected", diagnostic=[l for l in out.split("\n") if "error" in l][:1]))
        else:
            stats["positive_probes"] += 1
            if rc != 0:
                violations.append({"what": f"`{op}` between same-dimension units {rec['u1']} and {rec['u2']} [{r1},{r2}] is rejected under {rec['config']} "
                                           "although the policy allows it", "class": f"rejects-{op}",
                                   "rec": dict(rec, expected="accepted", errors=[l for l in out.split("\n") if "error" in l][:3])})
            else:
                stats["accepted_as_expected"] += 1
                if len(samples) < 5:
                    samples.append(dict(rec, verdict="accepted"))
    # model verdicts for every op (table-level correspondence: mismatch -> hard/soft, match -> ok)
    for op in ops_model:
        mreq += [f"outcome {op} 0 1 1", f"outcome {op} 1 1 1"]
    mans = drv.ask(mreq)
    for j, op in enumerate(ops_model):
        want0 = "soft" if op in TRAITS else "hard"
        if mans[2 * j] != want0 or mans[2 * j + 1] != "ok":
            violations.append({"what": f"gate table: {op} gives {mans[2*j]} / {mans[2*j+1]}", "class": "table", "no_input": True, "broken": "C01_mismatch_never_ok",
                               "rec": {"kind": "table", "op": op}})
    # directed probe (finding F7, fixed): points whose units both declare origins of different dimensions
    f7 = os.path.join(wd, "f7.cc")
    open(f7, "w").write(PRELUDE % inc + '''struct LenP : au::Meters { static constexpr auto origin() { return au::meters(5); } };
static_assert(!std::is_convertible<au::QuantityPoint<au::Celsius, double>, au::QuantityPoint<LenP, double>>::value, "");
static_assert(!std::is_constructible<au::QuantityPoint<LenP, int>, au::QuantityPoint<au::Fahrenheit, int>>::value, "");
int main() { return 0; }
''')
    for (compiler, std) in (("g++", "c++14"), cfg2):
        rc, out = cxx(f7, None, compiler=compiler, std=std, san=False, syntax_only=True)
        stats["trait_questions"] += 2
        if rc != 0:
            violations.append({"what": "is_convertible between QuantityPoints whose units declare origins of different dimensions is a hard error / true",
                               "class": "traits-hard-points", "rec": {"kind": "traits", "probe": "F7", "config": f"{compiler} -std={std}",
                                                                      "errors": [l for l in out.split("\n") if "error" in l][:3]}})
    # trait TU
    tsrc = os.path.join(wd, "traits.cc")
    with open(tsrc, "w") as f:
        f.write(PRELUDE % inc)
        f.write("int main() {\n")
        for i, (u1, u2, r1, r2) in enumerate(trait_cases):
            f.write(f"  {{ using U1 = UT({uexpr.cxx(u1, A, 'unit')}); using U2 = UT({uexpr.cxx(u2, A, 'unit')}); using Q1 = au::Quantity<U1, {CT[r1]}>; "
                    f"using Q2 = au::Quantity<U2, {CT[r2]}>; using P1 = au::QuantityPoint<U1, {CT[r1]}>; using P2 = au::QuantityPoint<U2, {CT[r2]}>;\n"
                    f'    printf("T {i} ' + " ".join(f"{k}=%d" for k in TRAITS) + '\\n", ' + ", ".join(f"int({v})" for v in TRAITS.values()) + "); }\n")
        f.write("  return 0;\n}\n")
    for (compiler, std) in (("g++", "c++14"), cfg2):
        exe = os.path.join(wd, f"traits_{compiler[0]}{std[-2:]}")
        rc, out = cxx(tsrc, exe, compiler=compiler, std=std, san=False, opt="-O0")
        cfg = f"{compiler} -std={std}"
        if rc != 0:
            violations.append({"what": f"trait questions about dimension mismatches are a hard error under {cfg}", "class": "traits-hard",
                               "rec": {"kind": "traits", "config": cfg, "errors": [l for l in out.split("\n") if "error" in l][:3]}})
            continue
        for line in run([exe])[1].split("\n"):
            if not line.startswith("T "):
                continue
            i = int(line.split()[1])
            u1, u2, r1, r2 = trait_cases[i]
            d1, _ = uexpr.sem(u1, A)
            d2, _ = uexpr.sem(u2, A)
            vals = dict(tok.split("=") for tok in line.split()[2:])
            stats["trait_questions"] += len(vals)
            if d1 != d2 and any(v != "0" for v in vals.values()):
                violations.append({"what": f"a trait answers 'yes' across different dimensions ({uexpr.show(u1)} vs {uexpr.show(u2)}): {vals}", "class": "trait-yes",
                                   "rec": {"kind": "trait", "u1": uexpr.show(u1), "u2": uexpr.show(u2), "vals": vals, "config": cfg}})
            if d1 == d2 and vals["commonType"] != "1":
                violations.append({"what": f"std::common_type missing for same-dimension units {uexpr.show(u1)}, {uexpr.show(u2)}", "class": "trait-no",
                                   "rec": {"kind": "trait", "u1": uexpr.show(u1), "u2": uexpr.show(u2), "vals": vals, "config": cfg}})
    coverage = {"evaluations": stats["negative_probes"] + stats["positive_probes"] + stats["trait_questions"],
                "distinct_nontrivial": len(neg_cases) + len(pos_cases) + len(trait_cases),
                "rule": "case = (operation, U1, R1, U2, R2): every operation of the statement in rotation; unit pairs of different dimension "
                        "(library, prefixed, compound/scaled/powered units; near misses m vs m^2, Hz vs rad/s, J vs N, rad vs unitless, …) must be "
                        "rejected by an allow-listed diagnostic, same-dimension pairs with policy-safe reps must be accepted; trait questions batched "
                        "in one TU that must compile", "samples": samples, "distribution": stats}
    return finish(PROP, tier, seed, t0, proof, coverage, violations, ASSUME)


def replay(path):
    rec = json.load(open(path))
    print(json.dumps(rec.get("rec"), indent=1))
    return 1

"""C02 — unit algebra is exact and canonical."""
import json
import os
import re
import time
from fractions import Fraction

import aulib
import uexpr
from vlib import (CONFIGS, LEAN, Driver, cxx, finish, kv, pmap, prove, rng_for, run, workdir, VERIF)

PROP = "C02"
ASSUME = [
    "π is a formal base (the library treats it symbolically as well)",
    "spellings exercised: unit types, quantity makers, unit symbols, constants (make_constant), singular names (products, integer powers, maker / singular, singular * maker)",
    "expressions that put two units of identical dimension and magnitude into one product are excluded by construction "
    "(documented 'broken strict total ordering' limitation, applied conservatively)",
    "the Lean theorems hold for every strict total order on unit types; that the library's InOrderFor<UnitProduct> is one on "
    "the sampled units is the per-run obligation AuProofs.Gen.C02 over the regenerated order table",
]

SI_TRUTH = {
    "Quetta": (10, 30), "Ronna": (10, 27), "Yotta": (10, 24), "Zetta": (10, 21), "Exa": (10, 18), "Peta": (10, 15),
    "Tera": (10, 12), "Giga": (10, 9), "Mega": (10, 6), "Kilo": (10, 3), "Hecto": (10, 2), "Deka": (10, 1),
    "Deci": (10, -1), "Centi": (10, -2), "Milli": (10, -3), "Micro": (10, -6), "Nano": (10, -9), "Pico": (10, -12),
    "Femto": (10, -15), "Atto": (10, -18), "Zepto": (10, -21), "Yocto": (10, -24), "Ronto": (10, -27), "Quecto": (10, -30),
    "Yobi": (2, 80), "Zebi": (2, 70), "Exbi": (2, 60), "Pebi": (2, 50), "Tebi": (2, 40), "Gibi": (2, 30), "Mebi": (2, 20),
    "Kibi": (2, 10),
}

PRELUDE = '''#include <cstdio>
#include <string>
#include <type_traits>
#include "au/au.hh"
#include "au/prefix.hh"
#include "au/unit_symbol.hh"
%s
#include "%s"
#define UT(...) au::AssociatedUnitT<std::decay_t<decltype(__VA_ARGS__)>>
using au::pow;
using au::root;
// OriginOf<U>::value(): ZERO, or a quantity (count, unit) -- printed as "<count>|<magnitude of its unit>"
inline void print_origin(au::Zero) { printf("0|-"); }
template <typename OU, typename R> void print_origin(au::Quantity<OU, R> q) {
    printf("%%.25Lg|%%s", static_cast<long double>(q.in(OU{})), vser::mag_str<OU>().c_str());
}
'''


def equivalent_of(rng, t, A):
    """A tree with the same exact (dim, mag) but built from different unit types, or None."""
    keys = [k for k in uexpr.atoms_of(t) if A.atoms[k]["prefix"]]
    if not keys:
        return None
    k = rng.choice(keys)
    p = A.atoms[k]["prefix"]
    base = A.atoms[k]["base"]
    if p["base"] == 10:
        magd = {"p2": p["exp"], "p5": p["exp"]}
        cx = f"au::pow<{p['exp']}>(au::mag<10>())"
    else:
        magd = {"p2": p["exp"]}
        cx = f"au::pow<{p['exp']}>(au::mag<2>())"
    repl = ("scale", ("atom", base), (magd, cx))

    def sub(x):
        if x[0] == "atom":
            return repl if x[1] == k else x
        if x[0] in ("mul", "div"):
            return (x[0], sub(x[1]), sub(x[2]))
        return (x[0], sub(x[1]), x[2])
    return sub(t)


def tree_block(i, case, A):
    t0 = case["tree"]
    lines = ["  {"]
    lines.append(f"    using U0 = UT({uexpr.cxx(t0, A, 'unit')});")
    lines.append('    std::string same;')
    for (v, sp) in case["variants"]:
        e = uexpr.cxx(v, A, sp)
        lines.append(f"    same += std::is_same<U0, UT({e})>::value ? '1' : '0';")
    t2 = case["tree2"]
    lines.append(f"    using W = UT({uexpr.cxx(t2, A, 'unit')});")
    lines.append("    int qe = au::are_units_quantity_equivalent(U0{}, W{});")
    if case["same_dim"]:
        lines.append("    const char* r1 = std::is_same<decltype(au::unit_ratio(U0{}, W{})), au::Magnitude<>>::value ? \"1\" : \"0\";")
    else:
        lines.append('    const char* r1 = "-";')
    lines.append(f'    printf("T {i} dim=%s mag=%s same=%s qe=%d r1=%s dim2=%s mag2=%s\\n", vser::dim_str<U0>().c_str(), '
                 'vser::mag_str<U0>().c_str(), same.c_str(), qe, r1, vser::dim_str<W>().c_str(), vser::mag_str<W>().c_str());')
    lines.append("  }")
    return "\n".join(lines)


def write_tu(path, blocks, A):
    inc = "\n".join(f'#include "{h}"' for h in A.headers())
    with open(path, "w") as f:
        f.write(PRELUDE % (inc, os.path.join(aulib.HARNESS_INC, "serialize.hh")))
        f.write("int main() {\n")
        for b in blocks:
            f.write(b + "\n")
        f.write("  return 0;\n}\n")


def classify_compile_error(out):
    if "Broken strict total ordering" in out:
        return "broken-ordering"
    if "static assertion failed" in out or "static_assert failed" in out:
        return "static-assert"
    return "other"


def order_table(wd, rng, A, trees, tier):
    """Extract InOrderFor<UnitProduct, A, B> over a unit sample; returns (names, rows) or raises."""
    sample = []
    seen = set()
    for k, a in A.atoms.items():
        s = (A.sig(k), a["has_origin"], "named")
        if s in seen:
            continue
        seen.add(s)
        sample.append((k, a["cxx_type"], a["dim"], a["mag"], ("atom", k)))
    # generated units from this run's trees: scaled / powered / compound types
    extra = []
    for case in trees:
        t = case["tree"]
        d, m = uexpr.sem(t, A)
        s = (tuple(sorted(d.items())), tuple(sorted(m.items())), "gen")
        if t[0] == "atom" or s in seen:
            continue
        seen.add(s)
        extra.append((uexpr.show(t), f"UT({uexpr.cxx(t, A, 'unit')})", d, m, t))
    rng.shuffle(extra)
    limit = 80 if tier == "quick" else 200
    # half of the table for named units (those with an origin first: they exercise OrderByOrigin), half for generated scaled /
    # powered / compound types (avoidance classes 1, 3, 4, 5; OrderByScaleFactor; OrderAsUnitProduct)
    with_org = [x for x in sample if A.atoms[x[0]]["has_origin"]]
    others = [x for x in sample if not A.atoms[x[0]]["has_origin"]]
    rng.shuffle(others)
    n_named = max(limit // 2, limit - len(extra))
    sample = (with_org + others)[:n_named]
    sample += extra[:max(0, limit - len(sample))]
    n = len(sample)
    src = os.path.join(wd, "order.cc")
    inc = "\n".join(f'#include "{h}"' for h in A.headers())
    with open(src, "w") as f:
        f.write(PRELUDE % (inc, os.path.join(aulib.HARNESS_INC, "serialize.hh")))
        for i, (_, ty, _d, _m, _t) in enumerate(sample):
            f.write(f"using S{i} = {ty};\n")
        f.write("template <typename A> void row(int i) {\n  printf(\"R %d \", i);\n")
        for j in range(n):
            f.write(f"  putchar(au::InOrderFor<au::UnitProduct, A, S{j}>::value ? '1' : '0');\n")
        f.write("  putchar('\\n');\n")
        # the second and third keys of that ordering on their own: InStandardPackOrder of the dimensions / of the magnitudes
        f.write("  printf(\"D %d \", i);\n")
        for j in range(n):
            f.write(f"  putchar(au::InStandardPackOrder<au::detail::DimT<A>, au::detail::DimT<S{j}>>::value ? '1' : '0');\n")
        f.write("  putchar('\\n');\n  printf(\"M %d \", i);\n")
        for j in range(n):
            f.write(f"  putchar(au::InStandardPackOrder<au::detail::MagT<A>, au::detail::MagT<S{j}>>::value ? '1' : '0');\n")
        # two sampled expressions can denote one and the same type (products cancel: (Bars / W) * W is Bars); such a pair
        # is one unit, not two, and is merged below
        # the remaining inputs of the ordering: the unit's origin and its avoidance class
        f.write("  putchar('\\n');\n  printf(\"O %d %d \", i, int(au::detail::UnitAvoidance<A>::value));\n"
                "  print_origin(au::detail::OriginOf<A>::value());\n")
        f.write("  putchar('\\n');\n  printf(\"I %d \", i);\n")
        for j in range(n):
            f.write(f"  putchar(std::is_same<A, S{j}>::value ? '1' : '0');\n")
        f.write("  putchar('\\n');\n}\n")
        f.write("template <typename A> void atom_row(int id) {\n  printf(\"A %d %d \", id, int(au::detail::UnitAvoidance<A>::value));\n"
                "  print_origin(au::detail::OriginOf<A>::value());\n  putchar('\\n');\n}\nint main() {\n")
        for k, a in A.atoms.items():
            f.write(f"  atom_row<{a['cxx_type']}>({a['id']});\n")
        for i in range(n):
            f.write(f"  row<S{i}>({i});\n")
        f.write("  return 0;\n}\n")
    exe = os.path.join(wd, "order")
    rc, out = cxx(src, exe, san=False, opt="-O0")
    if rc != 0:
        return sample, None, out
    rc, o, e = run([exe])
    rows = [None] * n
    KEYROWS["D"], KEYROWS["M"] = [None] * n, [None] * n
    same = [None] * n
    KEYROWS["O"] = [None] * n
    KEYROWS["A"] = {}
    for line in o.split("\n"):
        if line.startswith("A "):
            _, i, av, org = line.split()
            KEYROWS["A"][int(i)] = (int(av),) + tuple(org.split("|"))
            continue
        if line.startswith("O "):
            _, i, av, org = line.split()
            cnt, omag = org.split("|")
            KEYROWS["O"][int(i)] = (int(av), cnt, omag)
            continue
        if line.startswith("R "):
            _, i, bits = line.split()
            rows[int(i)] = bits
        elif line.startswith("I "):
            _, i, bits = line.split()
            same[int(i)] = bits
        elif line[:2] in ("D ", "M "):
            k, i, bits = line.split()
            KEYROWS[k][int(i)] = bits
    if all(r is not None for r in same):
        keep = [i for i in range(n) if not any(same[i][j] == "1" for j in range(i))]
        if len(keep) < n:
            pick = lambda bits: None if bits is None else "".join(bits[j] for j in keep)
            sample = [sample[i] for i in keep]
            rows = [pick(rows[i]) for i in keep]
            for k in ("D", "M"):
                KEYROWS[k] = [pick(KEYROWS[k][i]) for i in keep]
            KEYROWS["O"] = [KEYROWS["O"][i] for i in keep]
    return sample, rows, ""


KEYROWS = {}      # InStandardPackOrder rows of the last order_table() call: {"D": [...], "M": [...]}


def write_order_lean(sample, rows):
    """Generated/OrderTable.lean: rank witness + rows as Nat bitmasks."""
    n = len(sample)
    ranks = [sum(1 for i in range(n) if rows[i][j] == "1") for j in range(n)]   # number of units before j
    masks = [sum(1 << j for j in range(n) if rows[i][j] == "1") for i in range(n)]
    body = ("/-! Regenerated by tools/p_c02.py on every run: `InOrderFor<UnitProduct, S_i, S_j>` over the unit sample,\n"
            "one Nat bitmask per row (bit j = S_i before S_j), and the rank witness (units before S_j). -/\n"
            "namespace Generated\n"
            f"def orderN : Nat := {n}\n"
            f"def orderRanks : List Nat := {ranks}\n"
            f"def orderRows : List Nat := {masks}\n"
            "end Generated\n")
    path = os.path.join(LEAN, "Generated", "OrderTable.lean")
    old = open(path).read() if os.path.exists(path) else None
    if old != body:
        open(path, "w").write(body)
    return ranks


def find_order_violation(sample, rows):
    n = len(sample)
    for i in range(n):
        if rows[i][i] == "1":
            return {"kind": "order", "why": "reflexive", "units": [sample[i][0]]}
    for i in range(n):
        for j in range(i + 1, n):
            if rows[i][j] == rows[j][i]:
                return {"kind": "order", "why": "not antisymmetric/total", "units": [sample[i][0], sample[j][0]],
                        "values": [rows[i][j], rows[j][i]]}
    for i in range(n):
        for j in range(n):
            if rows[i][j] == "1":
                for k in range(n):
                    if rows[j][k] == "1" and rows[i][k] != "1":
                        return {"kind": "order", "why": "not transitive", "units": [sample[i][0], sample[j][0], sample[k][0]]}
    return None


def main(tier, seed):
    t0 = time.time()
    wd = workdir(PROP)
    rng = rng_for(PROP, seed)
    violations = []
    A = uexpr.Atoms(wd, rng)
    # --- SI / binary prefix table (source scan vs the SI brochure values)
    pref_bad = []
    for p in A.prefixes:
        if SI_TRUTH.get(p["name"]) != (p["base"], p["exp"]):
            pref_bad.append(p["name"])
            violations.append({"what": f"prefix {p['name']} is defined as {p['base']}^{p['exp']}, SI/IEC value is {SI_TRUTH.get(p['name'])}",
                               "class": "prefix-" + p["name"], "rec": {"kind": "prefix", "prefix": p["name"], "got": [p["base"], p["exp"]]}})
    # --- trees
    ntrees = 320 if tier == "quick" else 3000
    depth = 4 if tier == "quick" else 6
    cases = []
    for i in range(ntrees):
        pool = uexpr.twin_free_pool(rng, A, rng.choice([3, 5, 8, 12]))
        t = uexpr.gen_tree(rng, A, rng.randrange(1, depth + 1), pool)
        if uexpr.size(t) > 40:
            continue
        variants = []
        for sp in ("maker", "symbol", "constant", "singular", "mixed"):
            if uexpr.cxx(t, A, sp) is not None:
                variants.append((t, sp))
        for _ in range(5):
            v = t
            for _ in range(rng.randrange(1, 4)):
                v = uexpr.rewrite(rng, v)
            sp = rng.choice(["unit", "unit", "maker", "symbol", "constant", "singular", "mixed"])
            if uexpr.cxx(v, A, sp) is None:
                sp = "unit"
            variants.append((v, sp))
        t2 = equivalent_of(rng, t, A) if rng.random() < 0.5 else None
        if t2 is None:
            t2 = uexpr.gen_tree(rng, A, rng.randrange(0, 3), pool) if rng.random() < 0.6 else uexpr.rewrite(rng, t)
        d1, m1 = uexpr.sem(t, A)
        d2, m2 = uexpr.sem(t2, A)
        cases.append({"tree": t, "variants": variants, "tree2": t2, "dim": d1, "mag": m1, "dim2": d2, "mag2": m2,
                      "same_dim": d1 == d2})
    # --- order table + Lean obligations
    sample, rows, oerr = order_table(wd, rng, A, cases, tier)
    order_stats = {"units": len(sample)}
    if rows is None:
        diag = classify_compile_error(oerr)
        violations.append({"what": "order-table extraction does not compile: InOrderFor<UnitProduct,·,·> hard error on a sampled pair",
                           "class": "order-extract", "no_input": diag != "broken-ordering",
                           "broken": "AuProofs.Gen.C02 (order table)", "rec": {"kind": "order-extract", "diag": diag, "out": oerr[-1500:]}})
    else:
        ov = find_order_violation(sample, rows)
        if ov:
            violations.append({"what": f"InOrderFor<UnitProduct> is not a strict total order on the sample: {ov['why']} on {ov['units']}",
                               "class": "order-table", "rec": ov})
        write_order_lean(sample, rows)
    proof = prove(PROP)
    # --- harness
    blocks = [tree_block(i, c, A) for i, c in enumerate(cases)]
    nchunks = max(16, -(-len(cases) // 20))      # bounded translation units: ~20 cases per TU in every tier
    chunk_ids = [list(range(k, len(cases), nchunks)) for k in range(nchunks)]
    configs = [("g++", "c++14")]
    other = [c for c in CONFIGS if c != ("g++", "c++14")]
    configs.append(other[seed % len(other)])
    if tier == "thorough":
        configs = CONFIGS
    results = {}
    stats = {"trees": len(cases), "configs": [], "variants": sum(len(c["variants"]) for c in cases), "compile_failures": 0,
             "spellings": {}, "qe_true": 0, "qe_false": 0, "sizes": {}, "with_scale": 0, "order_table": order_stats,
             "prefixes_checked": len(A.prefixes)}
    for c in cases:
        for _, sp in c["variants"]:
            stats["spellings"][sp] = stats["spellings"].get(sp, 0) + 1
        s = uexpr.size(c["tree"])
        stats["sizes"][str(s)] = stats["sizes"].get(str(s), 0) + 1
        stats["with_scale"] += 1 if uexpr.has_scale(c["tree"]) else 0
    for ci, (compiler, std) in enumerate(configs):
        cfg = f"{compiler} -std={std}"
        if ci > 0 and tier == "quick":
            ids_all = set(rng.sample(range(len(cases)), min(len(cases), 80)))
        else:
            ids_all = set(range(len(cases)))

        def build(k):
            ids = [i for i in chunk_ids[k] if i in ids_all]
            if not ids:
                return k, ids, 0, "", ""
            src = os.path.join(wd, f"t{ci}_{k}.cc")
            write_tu(src, [blocks[i] for i in ids], A)
            exe = os.path.join(wd, f"t{ci}_{k}")
            rc, out = cxx(src, exe, compiler=compiler, std=std, san=False, opt="-O0")
            if rc != 0:
                return k, ids, rc, out, ""
            rc2, o, e = run([exe])
            return k, ids, 0, "", o
        stats["configs"].append(cfg)
        for k, ids, rc, out, o in pmap(build, range(nchunks)):
            if rc != 0:
                # localise: compile each tree of the chunk alone
                def one(i):
                    src = os.path.join(wd, f"single{ci}_{i}.cc")
                    write_tu(src, [blocks[i]], A)
                    exe = os.path.join(wd, f"single{ci}_{i}")
                    rc1, out1 = cxx(src, exe, compiler=compiler, std=std, san=False, opt="-O0")
                    o1 = run([exe])[1] if rc1 == 0 else ""
                    return i, rc1, out1, o1
                for i, rc1, out1, o1 in pmap(one, ids):
                    if rc1 != 0:
                        stats["compile_failures"] += 1
                        diag = classify_compile_error(out1)
                        m = re.findall(r"error: (.*)", out1)
                        violations.append({
                            "what": f"valid unit expression rejected by {cfg}: {uexpr.show(cases[i]['tree'])} [{diag}]",
                            "class": f"compile-{diag}", "rec": {"kind": "compile", "diag": diag, "config": cfg,
                                                                "tree": uexpr.show(cases[i]["tree"]), "errors": m[:3],
                                                                "tu": open(os.path.join(wd, f"single{ci}_{i}.cc")).read()[-3000:]}})
                    else:
                        o += o1
            for line in o.split("\n"):
                if line.startswith("T "):
                    i = int(line.split()[1])
                    results.setdefault(i, {})[cfg] = kv(line)
    # --- model
    drv = Driver()
    # the two pack-order keys of the unit ordering (OrderByDim, OrderByMag = InStandardPackOrder on DimT / MagT) against the model's
    # packLt, which is PROVED to be a strict total order (Lemmas/PackOrder.lean): every ordered pair of the unit sample
    if rows is not None and KEYROWS.get("D") and all(KEYROWS["D"]) and all(KEYROWS["M"]):
        n_ = len(sample)
        preq = []
        for i in range(n_):
            for j in range(n_):
                preq.append(f"packlt dim {aulib.pack_str(sample[i][2], 'dim')} {aulib.pack_str(sample[j][2], 'dim')}")
                preq.append(f"packlt mag {aulib.pack_str(sample[i][3], 'mag')} {aulib.pack_str(sample[j][3], 'mag')}")
        pans = drv.ask(preq)
        bad = 0
        for i in range(n_):
            for j in range(n_):
                md, mm = pans[2 * (i * n_ + j)], pans[2 * (i * n_ + j) + 1]
                if md != KEYROWS["D"][i][j] or mm != KEYROWS["M"][i][j]:
                    bad += 1
                    if bad <= 3:
                        which = "dimensions" if md != KEYROWS["D"][i][j] else "magnitudes"
                        violations.append({"what": f"InStandardPackOrder of the {which} of {sample[i][0]} and {sample[j][0]} is "
                                                   f"{KEYROWS['D' if which == 'dimensions' else 'M'][i][j]}, the model's packLt says {md if which == 'dimensions' else mm}",
                                           "class": "corr-packorder", "no_input": True, "broken": "correspondence: Pack.packLt vs InStandardPackOrder",
                                           "rec": {"kind": "packorder", "a": sample[i][0], "b": sample[j][0], "key": which}})
        order_stats["pack_order_pairs"] = 2 * n_ * n_
        order_stats["pack_order_mismatches"] = bad
    # the WHOLE unit ordering against its model (AuModel.UnitOrder: the six keys of InOrderFor<UnitProduct>, transcribed): every
    # sampled expression is evaluated by the model with the model's order, then every ordered pair is compared with the headers
    if rows is not None and all(KEYROWS.get("O") or [None]) and KEYROWS.get("A"):
        def origin_pos(cnt, omag):
            v = Fraction(cnt)                                    # the count printed with %.25Lg (integers in the library)
            for b, e in aulib.parse_pack(omag).items():
                e = Fraction(e)
                if b == "pi" or e.denominator != 1:
                    return None
                v *= Fraction(int(b[1:])) ** int(e)
            return v
        ainfo = {}
        for aid, (av, cnt, omag) in KEYROWS["A"].items():
            try:
                ainfo[aid] = (av, origin_pos(cnt, omag))
            except (ValueError, ZeroDivisionError):
                ainfo[aid] = (av, None)

        def sexpr_o(t):
            k = t[0]
            if k == "atom":
                a = A.atoms[t[1]]
                av, op = ainfo[a["id"]]
                if op is None:
                    raise KeyError(t[1])
                return (f"( no {a['id']} {aulib.pack_str(a['dim'], 'dim')} {aulib.pack_str(a['mag'], 'mag')} "
                        f"{op.numerator}/{op.denominator} {av} )")
            if k in ("mul", "div"):
                return f"( {k} {sexpr_o(t[1])} {sexpr_o(t[2])} )"
            if k == "pow":
                q = Fraction(t[2])
                return f"( pow {sexpr_o(t[1])} {q.numerator}/{q.denominator} )"
            if k == "scale":
                m = {b: Fraction(e) for b, e in t[2][0].items()}
                return f"( scale {sexpr_o(t[1])} {aulib.pack_str(m, 'mag')} )"
            raise ValueError(k)
        try:
            oreq = "unitorder " + " ; ".join(sexpr_o(smp[4]) for smp in sample)
        except KeyError as ex:
            oreq = None
            order_stats["unit_order_skipped"] = f"origin of {ex} is not an integer count of a rational unit"
        if oreq:
            oans = drv.ask([oreq])[0]
            n_ = len(sample)
            if oans.startswith("bad-op") or " av=" not in oans:
                violations.append({"what": "the model could not evaluate the unit-order request", "class": "corr-unitorder", "no_input": True,
                                   "broken": "correspondence: U.libLt (driver rejected the request)", "rec": {"kind": "unitorder", "answer": oans[:200]}})
            else:
                body, avs = oans.split(" av=")
                mrows = body.split()
                mav = [int(x) for x in avs.split(",")]
                bad = 0
                for i in range(n_):
                    if mav[i] != KEYROWS["O"][i][0]:
                        bad += 1
                        if bad <= 3:
                            violations.append({"what": f"UnitAvoidance<{sample[i][0]}> is {KEYROWS['O'][i][0]}, the model says {mav[i]}",
                                               "class": "corr-unitorder", "no_input": True, "broken": "correspondence: U.avoidance vs UnitAvoidance",
                                               "rec": {"kind": "avoidance", "unit": sample[i][0]}})
                    for j in range(n_):
                        if mrows[i][j] != rows[i][j]:
                            bad += 1
                            if bad <= 3:
                                violations.append({"what": f"InOrderFor<UnitProduct, {sample[i][0]}, {sample[j][0]}> is {rows[i][j]}, the model of the "
                                                           f"library's unit order (U.libLt) says {mrows[i][j]}",
                                                   "class": "corr-unitorder", "no_input": True, "broken": "correspondence: U.libLt vs InOrderFor<UnitProduct>",
                                                   "rec": {"kind": "unitorder", "a": sample[i][0], "b": sample[j][0],
                                                           "impl": rows[i][j], "model": mrows[i][j]}})
                order_stats["unit_order_pairs"] = n_ * n_
                order_stats["unit_order_mismatches"] = bad
    req = []
    for c in cases:
        req.append("unit " + uexpr.sexpr(c["tree"], A))
        req.append("unit " + uexpr.sexpr(c["tree2"], A))
        for v, _ in c["variants"][:3]:
            req.append("unit " + uexpr.sexpr(v, A))
    ans = drv.ask(req)
    ai = 0
    samples = []
    distinct = set()
    evaluations = 0
    for i, c in enumerate(cases):
        m1 = kv(ans[ai]); m2 = kv(ans[ai + 1]); mv = [kv(a) for a in ans[ai + 2: ai + 2 + min(3, len(c["variants"]))]]
        ai += 2 + min(3, len(c["variants"]))
        odim, omag = aulib.pack_str(c["dim"], "dim"), aulib.pack_str(c["mag"], "mag")
        odim2, omag2 = aulib.pack_str(c["dim2"], "dim"), aulib.pack_str(c["mag2"], "mag")
        oqe = (c["dim"] == c["dim2"] and c["mag"] == c["mag2"])
        shown = uexpr.show(c["tree"])
        # model vs oracle (the Lean theorem says these agree; a disagreement means the driver/parse is off)
        for mm, od, om, which in [(m1, odim, omag, "tree"), (m2, odim2, omag2, "tree2")] + [(x, odim, omag, "variant") for x in mv]:
            if mm.get("dim") != od or mm.get("mag") != om:
                violations.append({"what": f"Lean model disagrees with exact exponent algebra on {which} of {shown}", "class": "model-oracle",
                                   "no_input": True, "broken": "C02_dim_mag_exact / driver",
                                   "rec": {"kind": "model", "tree": shown, "model": mm, "oracle": [od, om]}})
        for cfg, r in results.get(i, {}).items():
            evaluations += 1 + len(c["variants"]) + 1
            distinct.add(shown)
            if oqe:
                stats["qe_true"] += 1
            else:
                stats["qe_false"] += 1
            if len(samples) < 5 and uexpr.size(c["tree"]) > 4:
                samples.append({"tree": shown, "tree2": uexpr.show(c["tree2"]), "impl": r, "model": m1,
                                "variants": [uexpr.show(v) + " [" + sp + "]" for v, sp in c["variants"]]})
            base = {"config": cfg, "tree": shown}
            if r["dim"] != odim or r["mag"] != omag:
                violations.append({"what": f"unit expression {shown}: dimension/magnitude differ from the exact algebraic result",
                                   "class": "dimmag", "rec": dict(base, kind="dimmag", impl=[r["dim"], r["mag"]], exact=[odim, omag],
                                                                   model=[m1.get("dim"), m1.get("mag")])})
            if r["dim2"] != odim2 or r["mag2"] != omag2:
                violations.append({"what": f"unit expression {uexpr.show(c['tree2'])}: dimension/magnitude differ from the exact algebraic result",
                                   "class": "dimmag", "rec": dict(base, kind="dimmag", tree=uexpr.show(c["tree2"]),
                                                                   impl=[r["dim2"], r["mag2"]], exact=[odim2, omag2])})
            if "0" in r["same"]:
                j = r["same"].index("0")
                v, sp = c["variants"][j]
                violations.append({"what": f"algebraically equal expressions give different types: {shown} vs {uexpr.show(v)} [{sp}]",
                                   "class": "identical-type", "rec": dict(base, kind="is_same", variant=uexpr.show(v), spelling=sp)})
            if (r["qe"] == "1") != oqe:
                violations.append({"what": f"are_units_quantity_equivalent({shown}, {uexpr.show(c['tree2'])}) = {r['qe']} but exact dim/mag "
                                           f"{'coincide' if oqe else 'differ'}", "class": "qequiv",
                                   "rec": dict(base, kind="qequiv", tree2=uexpr.show(c["tree2"]), impl=r["qe"], exact=oqe)})
            if r["r1"] != "-" and (r["r1"] == "1") != (c["mag"] == c["mag2"]):
                violations.append({"what": f"unit_ratio({shown}, {uexpr.show(c['tree2'])}) == ONE is {r['r1']} but exact magnitudes "
                                           f"{'coincide' if c['mag'] == c['mag2'] else 'differ'}", "class": "ratio-one",
                                   "rec": dict(base, kind="ratio", tree2=uexpr.show(c["tree2"]))})
    coverage = {
        "evaluations": evaluations, "distinct_nontrivial": len(distinct),
        "rule": "case = (expression tree over library units/prefixed units/scalings, 5-10 rewritings in 6 spellings, a second tree); "
                "trees generated from the seed, depth <= 4 (quick) / 6 (thorough); distinct_nontrivial = distinct trees that compiled "
                "and were compared in at least one configuration",
        "samples": samples, "distribution": stats,
    }
    return finish(PROP, tier, seed, t0, proof, coverage, violations, ASSUME)


def replay(path):
    rec = json.load(open(path))
    r = rec.get("rec", {})
    print(json.dumps({k: v for k, v in r.items() if k != "tu"}, indent=1))
    if "tu" in r:
        wd = workdir(PROP + "_replay")
        src = os.path.join(wd, "replay.cc")
        tu = r["tu"]
        open(src, "w").write(tu)
        cfg = r.get("config", "g++ -std=c++14").split()
        rc, out = cxx(src, os.path.join(wd, "replay"), compiler=cfg[0], std=cfg[1].replace("-std=", ""), san=False, opt="-O0")
        print(out[-2000:])
        if rc != 0:
            print(f"VIOLATION property={PROP} replay={path}")
            return 1
        return 0
    print("replay: re-run `./check C02` with the same VERIF_SEED to regenerate this case")
    return 1

"""C04 — same-rep runtime conversion checkers are exact."""
import json
import time

import intconv
from vlib import finish, prove, rng_for, workdir

PROP = "C04"
ASSUME = [
    "the factor's integer numerator/denominator have no prime base >= 2^63 (that region is finding F1, property C11)",
    "floating-point clauses of C04 are covered by tools/p_c04.py float section when present; otherwise not claimed",
]


def main(tier, seed):
    t0 = time.time()
    wd = workdir(PROP)
    proof = prove(PROP)
    cov, viol = intconv.explore(PROP, tier, seed, rng_for("intconv", seed), wd)
    return finish(PROP, tier, seed, t0, proof, cov, viol, ASSUME)


def replay(path):
    rec = json.load(open(path))
    print(json.dumps(rec.get("rec"), indent=1))
    return intconv.replay(PROP, rec)

"""C05 — rep-changing conversions and their checkers are sound.

Correspondence between the Lean model (AuModel.Flt, AuModel.StaticCast, AuModel.ApplyMag) and the real
headers, over all 121 ordered (source rep, target rep) pairs, plus the statement-level oracle.

Instances are (S, T, N, D), N/D in lowest terms.  Per instance the harness (real headers, public
API, ASan + UBSan incl. float-cast-overflow) answers
  * `P id x`   one value: the three `<T>` checkers, the value computed in the common type
               (`coerce_in<Common>`, floating common types only) and — when not reported lossy — the
               result of `coerce_in<T>` / `as<T>` (/ `rep_cast<T>` for the factor 1), with the number
               of sanitizer reports raised inside the checkers and inside the conversion;
  * `S id …`   every value of an 8/16-bit integral S: a digest (FNV-1a over flags and results) that
               the Lean driver recomputes from the model (integral targets), and exact __int128 /
               __float128 oracle counters;
  * `K S T x`  `detail::will_static_cast_overflow/truncate<T>(S x)` and the cast itself;
  * `G id`     `get_value<Common>(magnitude)` as the operator uses it (floating common types).
Every P/K answer is compared with the Lean driver and, independently, judged by the oracle below
(exact `Fraction` arithmetic on the bit pattern of the input; own round-to-nearest-even)."""
import json
import math
import os
import sys
import time
from fractions import Fraction

import intconv
from vlib import (INT_TYPES, UBSAN_ENV, Driver, cxx, finish, kv, pmap, promote, prove, rng_for, run, ty_hi, ty_lo,
                  workdir, LEAN, link_cmd)

PROP = "C05"
if hasattr(sys, "set_int_max_str_digits"):
    sys.set_int_max_str_digits(0)
ASSUME = [
    "factors are positive rationals N/D with N, D < 2^63 whose prime factors the library can find at compile time "
    "(no prime base >= 2^63: finding F1, property C11)",
    "x86-64 SysV: float/double arithmetic in SSE, long double = x87 extended (64-bit significand), round-to-nearest; "
    "compiled with -ffp-contract=off",
    "signed zeros are identified (the model and the comparison work on values)",
    "the property takes 'the computed floating result' as given for floating sources: its accuracy is C04's float "
    "clause; here it is tied bit-exactly to the model by correspondence, not bounded by a theorem",
]

# Known findings of this property live in /verif/known_findings.json (F9: integral -> floating results are rounded and
# never reported — library convention; F18: the floating overflow check compares against a rounded quotient).  Their
# violation records carry the fields those entries match on: F9 {"observable": "value-inexact", "within_4ulp": true};
# F18 {"observable": "cleared-unsound", "mid_is_inf": true, "exact_product_within_one_rounding_of_max": true,
# "target_is_common": true}.  vlib.finish / vlib.classify do the matching.
#
# Observation kept outside the findings (it is outside the statement of C05, which only constrains inputs for which
# is_conversion_lossy<T> is false): will_conversion_truncate<T> evaluates coerce_in on the common-type value without an
# overflow check first, so the checker itself executes signed overflow on inputs that will_conversion_overflow<T> then
# reports (e.g. int32 2^30 x 3/2 -> int32; Lean: C05_checkers_ub_only_if_overflow).  It is counted in
# coverage.distribution.observations.  A sanitizer report inside a checker for an input that is NOT reported lossy would
# still be a violation (the verdict the property relies on would come from an undefined evaluation).

FLT = {"f32": ("float", 24, 127), "f64": ("double", 53, 1023), "f80": ("long double", 64, 16383)}
ALL = list(INT_TYPES) + list(FLT)
CT = {**{k: v[0] for k, v in INT_TYPES.items()}, **{k: v[0] for k, v in FLT.items()}}


def is_int(t):
    return t in INT_TYPES


def common(a, b):
    if is_int(a) and is_int(b):
        if a == b:
            return a
        pa, pb = promote(a), promote(b)
        if pa == pb:
            return pa
        (_, ba, sa), (_, bb, sb) = INT_TYPES[pa], INT_TYPES[pb]
        if sa == sb:
            return pa if ba >= bb else pb
        s, u = (pa, pb) if sa else (pb, pa)
        return u if INT_TYPES[s][1] <= INT_TYPES[u][1] else s
    if is_int(a):
        return b
    if is_int(b):
        return a
    return a if FLT[a][1] >= FLT[b][1] else b


# ------------------------------------------------------------------------------------------------
# Exact floating point in Python (independent of the Lean model): values are Fraction | "nan" |
# "inf" | "-inf".
# ------------------------------------------------------------------------------------------------

_FMAX = {}


def fmax(f):
    if f not in _FMAX:
        _, p, emax = FLT[f]
        _FMAX[f] = Fraction((2 ** p - 1) * 2 ** (emax + 1 - p))
    return _FMAX[f]


def _pow2(k):
    return Fraction(2) ** k


def _ilog2(n, d):
    """floor(log2(n/d)) for positive integers."""
    e = n.bit_length() - d.bit_length()
    ok = (d << e) <= n if e >= 0 else d <= (n << -e)
    return e if ok else e - 1


def rne(f, q):
    """Round the Fraction q to format f, ties to even, overflow to inf."""
    if isinstance(q, str):
        return q
    if q == 0:
        return Fraction(0)
    _, p, emax = FLT[f]
    n, d = abs(q.numerator), q.denominator
    e = max(_ilog2(n, d), 1 - emax)
    k = e - p + 1                      # exponent of the spacing
    if k >= 0:
        d <<= k
    else:
        n <<= -k
    r, rem = divmod(n, d)
    if 2 * rem > d or (2 * rem == d and r % 2 == 1):
        r += 1
    v = Fraction(r << k) if k >= 0 else Fraction(r, 1 << -k)
    if v > fmax(f):
        return "-inf" if q < 0 else "inf"
    return -v if q < 0 else v


def representable(f, q):
    return isinstance(q, str) or rne(f, q) == q


def f_ord(f, v):
    """Ordinal of a finite representable value (monotone bijection onto the integers)."""
    _, p, emax = FLT[f]
    if v == 0:
        return 0
    emin = 1 - emax
    n, d = abs(v.numerator), v.denominator
    e = max(_ilog2(n, d), emin)
    k = e - p + 1
    m, rem = divmod(n << max(0, -k), d << max(0, k))
    assert rem == 0
    o = (e - emin) * 2 ** (p - 1) + m
    return -o if v < 0 else o


def f_from_ord(f, o):
    _, p, emax = FLT[f]
    emin = 1 - emax
    a = abs(o)
    if a < 2 ** p:
        e, m = emin, a
    else:
        e = emin + (a >> (p - 1)) - 1
        m = (a & (2 ** (p - 1) - 1)) + 2 ** (p - 1)
    k = e - p + 1
    v = Fraction(m << k) if k >= 0 else Fraction(m, 1 << -k)
    if v > fmax(f):
        return "-inf" if o < 0 else "inf"
    return -v if o < 0 else v


def neighbours(f, q, k=8):
    """Representable values within k nextafter steps of the (rounded) rational q."""
    c = rne(f, q)
    if isinstance(c, str):
        c = fmax(f) if c == "inf" else -fmax(f)
    o = f_ord(f, c)
    return [f_from_ord(f, o + d) for d in range(-k, k + 1)]


def parse_hex(s):
    """glibc %a / %La output → Fraction | 'nan' | 'inf' | '-inf'."""
    s = s.strip().lower()
    if "nan" in s:
        return "nan"
    if s in ("inf", "+inf"):
        return "inf"
    if s == "-inf":
        return "-inf"
    neg = s.startswith("-")
    s = s.lstrip("+-")
    assert s.startswith("0x"), s
    mant, _, ex = s[2:].partition("p")
    ip, _, fp = mant.partition(".")
    m = int((ip or "0") + fp, 16)
    v = Fraction(m) * _pow2(int(ex or "0") - 4 * len(fp))
    return -v if neg else v


def to_hex(v):
    """Value → text accepted by strtold (exact)."""
    if isinstance(v, str):
        return v
    if v == 0:
        return "0x0p0"
    d = v.denominator
    assert d & (d - 1) == 0, v
    m, e = abs(v.numerator), -(d.bit_length() - 1)
    tz = (m & -m).bit_length() - 1
    m >>= tz
    e += tz
    return f"{'-' if v < 0 else ''}0x{m:x}p{e}"


def to_me(v):
    """Value → the driver's `m:e` form (odd m)."""
    if isinstance(v, str):
        return v
    if v == 0:
        return "0:0"
    d = v.denominator
    assert d & (d - 1) == 0, v
    m, e = abs(v.numerator), -(d.bit_length() - 1)
    tz = (m & -m).bit_length() - 1
    m >>= tz
    e += tz
    return f"{'-' if v < 0 else ''}{m}:{e}"


def from_me(s):
    if s in ("nan", "inf", "-inf"):
        return s
    m, e = s.split(":")
    return Fraction(int(m)) * _pow2(int(e))


def fstr(v):
    """Compact exact text of a value for records (hex float when dyadic)."""
    if isinstance(v, str) or v is None:
        return str(v)
    if isinstance(v, int):
        return str(v) if abs(v) < 1 << 200 else hex(v)
    d = v.denominator
    if d & (d - 1) == 0:
        return to_hex(v) if (abs(v.numerator) >= 1 << 64 or d > 1) else str(v.numerator)
    return f"{v.numerator:#x}/{d:#x}" if max(abs(v.numerator), d) >= 1 << 200 else f"{v.numerator}/{d}"


def trunc_frac(q):
    n = abs(q.numerator) // q.denominator
    return -n if q < 0 else n


def lo_hi(t):
    return ty_lo(t), ty_hi(t)


# ------------------------------------------------------------------------------------------------
# Instances
# ------------------------------------------------------------------------------------------------

def _pollard_rho(n):
    """A non-trivial factor of the odd composite n (Brent's variant, deterministic start values)."""
    if n % 2 == 0:
        return 2
    for c in range(1, 200):
        y, r, q, g = 2, 1, 1, 1
        f = lambda v: (v * v + c) % n      # noqa: E731
        x = ys = y
        while g == 1:
            x = y
            for _ in range(r):
                y = f(y)
            k = 0
            while k < r and g == 1:
                ys = y
                for _ in range(min(128, r - k)):
                    y = f(y)
                    q = q * abs(x - y) % n
                g = math.gcd(q, n)
                k += 128
            r *= 2
        if g == n:
            g = 1
            while g == 1:
                ys = f(ys)
                g = math.gcd(abs(x - ys), n)
        if g != n:
            return g
    raise RuntimeError(f"cannot factor {n}")


def _split(n, acc):
    if n == 1:
        return
    if intconv.is_prime_mr(n):
        acc[n] = acc.get(n, 0) + 1
        return
    g = _pollard_rho(n)
    _split(g, acc)
    _split(n // g, acc)


def factorize(n):
    """COMPLETE prime factorisation [(p, e)…], ascending — the library stores a magnitude as its prime-power pack and
    get_value rounds once per base power, so a composite left unsplit would describe a different computation."""
    acc = {}
    tz = (n & -n).bit_length() - 1
    if tz:
        acc[2] = tz
        n >>= tz
    for p in intconv._small_primes():
        if p * p > n:
            break
        while n % p == 0:
            n //= p
            acc[p] = acc.get(p, 0) + 1
    _split(n, acc)
    out = sorted(acc.items())
    assert all(intconv.is_prime_mr(q) for q, _ in out)
    return out


def pf_text(n, d):
    fs = [(p, e) for p, e in factorize(n)] + [(p, -e) for p, e in factorize(d)]
    fs.sort()
    return ",".join(f"{p}^{e}" for p, e in fs) if fs else "-"


def gen_factors_float(rng, s, t, n):
    """Factors for a floating common type: identity, library ratios, powers of two/ten, ratios that put
    the limits of an integral side near small inputs, random pairs."""
    cand = [(1, 1), (2, 1), (1, 2), (3, 1), (1, 3), (3, 2), (2, 3), (1000, 1), (1, 1000), (5, 9), (9, 5)]
    cand += rng.sample(intconv.LIB_RATIOS, 5)
    for it in (s, t):
        if is_int(it):
            hi = ty_hi(it)
            for v in (hi, hi + 1, (hi + 1) // 2):
                cand += [(v, 1), (1, v), (v, rng.choice([3, 7, 10])), (rng.choice([3, 7, 10]), v)]
    for _ in range(4):
        a = rng.choice([2, 10]) ** rng.randrange(1, 19)
        b = rng.choice([1, 3, 7, 3 ** rng.randrange(1, 8)])
        cand.append((a, b) if rng.random() < 0.5 else (b, a))
    for _ in range(2 * n + 10):
        ka, kb = rng.choice([2, 3, 4, 6, 8, 12, 16, 24, 31, 40]), rng.choice([2, 3, 4, 6, 8, 12, 16, 24, 31, 40])
        cand.append((rng.randrange(1, 1 << ka), rng.randrange(1, 1 << kb)))
    out, seen = [], set()
    for a, d in cand:
        g = math.gcd(a, d)
        a, d = a // g, d // g
        if (a, d) in seen or a >= 1 << 63 or d >= 1 << 63:
            continue
        if any(v > (1 << 40) and not intconv._cheap(v) for v in (a, d)):
            continue
        seen.add((a, d))
        out.append((a, d))
    head = directed_factors(rng)
    tail = [f for f in out if f not in head]
    rng.shuffle(tail)
    return (head + tail)[:max(n, len(head))]


SMALL_MUL = [(2, 1), (3, 1), (7, 1), (10, 1)]
SMALL_DIV = [(1, 2), (1, 3), (1, 7), (1, 10)]
SMALL_RAT = [(3, 2), (2, 3), (5, 3), (3, 5), (7, 4), (5, 9), (9, 5)]


def directed_factors(rng):
    """Every rep pair gets, in every run, the identity and one small factor of each ApplyAs category (integer multiply,
    integer divide, rational), small enough that 8-bit sources keep checker-cleared values."""
    return [(1, 1), rng.choice(SMALL_MUL), rng.choice(SMALL_DIV), rng.choice(SMALL_RAT)]


def gen_instances(rng, tier):
    per_ii = 6 if tier == "quick" else 14
    per_f = 5 if tier == "quick" else 10
    inst = []
    for s in ALL:
        for t in ALL:
            c = common(s, t)
            if is_int(c):
                # directed: identity + one small factor per category; then guard-directed factors of the common type
                # (gen_factors puts its must-list first) and random ones
                direct = directed_factors(rng)
                fs = [f for f in intconv.gen_factors(rng, c, 60) if f not in direct]
                head, tail = fs[:40], fs[40:]
                k = per_ii - len(direct)
                pick = direct + rng.sample(head, min(len(head), max(k - 1, 1))) + rng.sample(tail, min(len(tail), 1 if k > 1 else 0))
                fs = pick[:max(per_ii, len(direct))]
            else:
                fs = gen_factors_float(rng, s, t, per_f)
            for (n, d) in fs:
                inst.append({"id": len(inst), "S": s, "T": t, "C": c, "N": n, "D": d, "pf": pf_text(n, d)})
    # Directed, in every run: integral source -> floating target with factors so large that the SCALING step (done in the
    # floating type) leaves the target's finite range for some source values and not for others; factors the target
    # cannot represent at all (the conversion must not compile); and the reciprocal direction (tiny results).
    for (s, t) in POW2_NUM_PAIRS:
        for (n, d) in POW2_NUM_FACTORS:
            if not any(i["S"] == s and i["T"] == t and (i["N"], i["D"]) == (n, d) for i in inst):
                inst.append({"id": len(inst), "S": s, "T": t, "C": common(s, t), "N": n, "D": d, "pf": pf_text(n, d), "directed": True})
    for (s, t, n, d) in TWO_PRIME_INSTANCES:
        inst.append({"id": len(inst), "S": s, "T": t, "C": common(s, t), "N": n, "D": d, "pf": pf_text(n, d), "directed": True})
    for s in HUGE_SOURCES:
        for t, facs in HUGE_FACTORS.items():
            for (n, d) in facs:
                inst.append({"id": len(inst), "S": s, "T": t, "C": t, "N": n, "D": d, "pf": pf_text(n, d), "directed": True})
    return inst


# factors whose numerator / denominator has two prime factors above the library's trial-division table (get_value rounds
# once per prime base, so 9/(142903*169583) is 9 * fl(1/142903) * fl(1/169583), not 9 * fl(1/24233919449))
TWO_PRIME_INSTANCES = [("f80", "f64", 9, 142903 * 169583), ("f64", "f64", 142903 * 169583, 7),
                       ("i32", "f32", 1000003 * 999983, 1000033 * 1000037), ("f32", "i64", 5, 142903 * 169583),
                       ("u16", "f80", 1, 142903 * 169583)]
# rational factors > 1 whose numerator is a power of two: only for them lowest(P)/N (resp. (max(P)+1)/N) is an integer, so
# that x*N lands EXACTLY on the limit of the promoted type — the guard boundary of Min/MaxNonOverflowingValue
POW2_NUM_FACTORS = [(4, 3), (8, 5), (128, 125), (2 ** 20, 3 ** 11)]
POW2_NUM_PAIRS = [("i32", "i32"), ("i64", "i64"), ("i16", "i32"), ("i32", "i16"), ("u32", "u32"), ("u64", "u64"), ("u16", "u32"), ("u32", "u16"),
                  ("i64", "i32"), ("i32", "u32"), ("i8", "i64")]
HUGE_SOURCES = ["i8", "u8", "i32", "i64", "u64"]
HUGE_FACTORS = {
    "f32": [(10 ** 20, 1), (10 ** 24, 1), (10 ** 30, 1), (10 ** 37, 1), (2 ** 100, 1), (3 * 10 ** 36, 7),
            (10 ** 40, 1), (2 ** 130, 1),                      # not representable in float: must not compile
            (1, 10 ** 30), (1, 10 ** 37)],
    "f64": [(10 ** 300, 1), (10 ** 306, 1), (2 ** 1000, 1), (1, 10 ** 300)],
    # long double: powers of two only — checked_int_pow<long double> is exact on them; for other huge bases
    # get_value<long double> is tens of ulps off (finding F12 of C11/C16), which is not C05's subject
    "f80": [(2 ** 16330, 1), (2 ** 16378, 1), (1, 2 ** 16330)],
}


# ------------------------------------------------------------------------------------------------
# Input values
# ------------------------------------------------------------------------------------------------

def int_points(rng, ins, count):
    s, t, c, n, d = ins["S"], ins["T"], ins["C"], ins["N"], ins["D"]
    lo, hi = lo_hi(s)
    pts = {lo, lo + 1, lo + 2, -2, -1, 0, 1, 2, hi - 2, hi - 1, hi, d, -d, n, -n, d - 1, d + 1, -d - 1, 1 - d}
    bounds = []
    if is_int(c):
        p = promote(c)
        for ty in (c, t):
            l, h = lo_hi(ty)
            bounds += [l, h, h + 1, l - 1, Fraction(l * d, n), Fraction(h * d, n), Fraction((h + 1) * d, n), Fraction((l - 1) * d, n)]
        pl, ph = lo_hi(p)
        bounds += [Fraction(pl, n), Fraction(ph, n), Fraction(ph + 1, n), Fraction(pl - 1, n)]
        # both limits of the overflow checker as the MODEL computes them (Min/MaxNonOverflowingValue of the common type)
        for key in ("cert_lo", "cert_hi"):
            if key in ins:
                bounds.append(ins[key])
    else:
        _, p, _ = FLT[c]
        bounds += [2 ** p, -(2 ** p), 2 ** (p - 1), Fraction(2 ** p * d, n), 2 ** p + 2 ** (p - 24) if p > 24 else 2 ** p]
        m = fmax(c) * d / n                     # the scaling step leaves the finite range beyond ±max(C)/factor
        bounds += [m, -m, m / 2, 2 * m]
        for sgn in (1, -1):                     # … and the integers around the floating values adjacent to that threshold
            for v in neighbours(c, sgn * m, 4):
                if not isinstance(v, str) and abs(v) < 1 << 70:
                    pts.update({int(v) - 1, int(v), int(v) + 1})
        if is_int(t):
            l, h = lo_hi(t)
            bounds += [Fraction(l * d, n), Fraction(h * d, n), Fraction((h + 1) * d, n)]
    for b in bounds:
        b0 = b.numerator // b.denominator if isinstance(b, Fraction) else b
        for k in range(-3, 4):
            pts.add(b0 + k)
        if d > 1:
            m = (b0 // d) * d
            pts.update({m - d, m, m + d})
    nb = INT_TYPES[s][1]
    for _ in range(count):
        r = rng.random()
        if r < 0.35:
            pts.add(rng.randrange(lo, hi + 1))
        elif r < 0.65:
            v = rng.randrange(0, (1 << rng.randrange(0, nb)) + 1)
            pts.add(v if rng.random() < 0.5 else -v)
        elif d <= hi:
            pts.add(rng.randrange(lo // d, hi // d + 1) * d)
        else:
            pts.add(rng.randrange(lo, hi + 1))
    return sorted(p for p in pts if lo <= p <= hi)


def float_points(rng, ins, count):
    """Representable values of the floating source S: ±8 nextafter steps around every value that the
    scaling maps onto a limit of the target (and onto 2^digits), powers of two, zeros, denormals,
    infinities, NaN, random patterns, random integers and multiples of D."""
    s, t, c, n, d = ins["S"], ins["T"], ins["C"], ins["N"], ins["D"]
    _, p, emax = FLT[s]
    mag = Fraction(n, d)
    pts = []
    targets = []
    if is_int(t):
        l, h = lo_hi(t)
        targets += [l, l - 1, h, h + 1, 0, 1, -1]
    else:
        m = fmax(t)
        targets += [m, -m]
    targets += [fmax(c), -fmax(c), 2 ** p, -(2 ** p), 2 ** FLT[c][1], 2 ** (p - 1), 2 ** 24, 2 ** 53]
    for tv in targets:
        pts += neighbours(s, Fraction(tv) / mag, 8)
        pts += neighbours(s, Fraction(tv), 2)
    for k in range(-12, 70, 1 if is_int(t) else 5):
        pts += [_pow2(k), -_pow2(k)]
    emin = 1 - emax
    pts += ["nan", "inf", "-inf", Fraction(0), _pow2(emin - p + 1), -_pow2(emin - p + 1), _pow2(emin), _pow2(emin) - _pow2(emin - p + 1),
            fmax(s), -fmax(s), _pow2(emax), Fraction(1, 2), Fraction(3, 2), Fraction(-5, 2), Fraction(7, 4)]
    maxo = f_ord(s, fmax(s))
    for _ in range(count):
        r = rng.random()
        if r < 0.2:
            pts.append(f_from_ord(s, rng.randrange(-maxo, maxo + 1)))        # random bit pattern
        elif r < 0.5:
            b = rng.randrange(1, 66)
            v = rng.randrange(0, 1 << b)
            pts.append(rne(s, Fraction(v if rng.random() < 0.5 else -v)))     # integers
        elif r < 0.8:
            b = rng.randrange(1, 40)
            v = rng.randrange(-(1 << b), 1 << b) * d
            pts.append(rne(s, Fraction(v)))                                   # multiples of D
        else:
            b = rng.randrange(1, 40)
            pts.append(rne(s, Fraction(rng.randrange(-(1 << b), 1 << b), 1 << rng.randrange(0, 8))))
    pts += [Fraction(k) for k in (1, -1, 2, -2, 3, d, -d, n, 2 * d, -3 * d)]
    out, seen = [], set()
    for v in pts:
        if not isinstance(v, str) and not representable(s, v):
            v = rne(s, v)
        if v not in seen:
            seen.add(v)
            out.append(v)
    out.append(NEG_ZERO)
    return out


class NegZero(Fraction):
    """-0.0: the value 0 (all arithmetic and comparisons are those of Fraction(0)); sent to the harness as -0x0p0."""
    def __new__(cls):
        return super().__new__(cls, 0)


NEG_ZERO = NegZero()


# ------------------------------------------------------------------------------------------------
# Harness
# ------------------------------------------------------------------------------------------------

HARNESS_COMMON = r'''
#include <cmath>
#include <cstdint>
#include <cstdio>
#include <cstdlib>
#include <cstring>
#include <limits>
#include <string>
#include <type_traits>
#include "au/quantity.hh"
#include "au/unit_of_measure.hh"
#include "au/magnitude.hh"
typedef __int128 i128;
struct VBase : au::UnitImpl<au::Length> {};
struct VTwin : au::UnitImpl<au::Length> {};      // quantity-equivalent to VBase, but a different type
extern volatile long g_ub; extern volatile long g_uwrap;
struct In { i128 i; long double f; };
struct Out {
    int ovf, tr, lossy; long ub_chk; int chk_agree;
    int has_val; i128 vi; long double vf; long ub_val; int val_agree;
    int has_mid; long double mid;
};
template <class S> inline S in_get(const In& in, std::true_type) { return static_cast<S>(in.i); }
template <class S> inline S in_get(const In& in, std::false_type) { return static_cast<S>(in.f); }
template <class T> inline void out_set(Out& o, T v, std::true_type) { o.vi = static_cast<i128>(v); o.vf = 0; }
template <class T> inline void out_set(Out& o, T v, std::false_type) { o.vf = static_cast<long double>(v); o.vi = 0; }
template <class T> inline bool same_val(T a, T b) { return a == b || (a != a && b != b); }

struct Entry {
    int id; int s_int; int t_int; int c_flt; int s_bits; int s_signed;
    void (*check)(const In&, Out&);
    void (*conv)(const In&, Out&);
    void (*mid)(const In&, Out&);
    long double (*gv)();
};

template <class C, class NumMag, class DenMag, bool CFloat, bool IntDiv> struct Gv { static long double get() { return 0; } };
template <class C, class NumMag, class DenMag> struct Gv<C, NumMag, DenMag, true, false> {
    static long double get() { return static_cast<long double>(au::get_value<C>(NumMag{} / DenMag{})); }
};
template <class C, class NumMag, class DenMag> struct Gv<C, NumMag, DenMag, true, true> {
    static long double get() { return static_cast<long double>(au::get_value<C>(DenMag{} / NumMag{})); }
};
template <class C, class Q, class Target, bool CFloat> struct Mid { static void get(Q, Out& o) { o.has_mid = 0; o.mid = 0; } };
template <class C, class Q, class Target> struct Mid<C, Q, Target, true> {
    static void get(Q q, Out& o) { o.has_mid = 1; o.mid = static_cast<long double>(q.template coerce_in<C>(Target{})); }
};
// Factor 1: rep_cast<T>, and the same conversion / checkers addressed through an equivalent but differently typed unit.
template <class T, class Q, bool Identity> struct RepCast {
    static bool agree(Q, T) { return true; }
    static bool chk_agree(Q, int, int, int) { return true; }
};
template <class T, class Q> struct RepCast<T, Q, true> {
    static bool agree(Q q, T v) {
        constexpr bool types_ok = std::is_same<decltype(au::rep_cast<T>(q)), au::Quantity<VBase, T>>::value &&
                                  std::is_same<decltype(au::rep_cast<T>(au::ZERO)), au::Zero>::value;
        return types_ok && same_val<T>(au::rep_cast<T>(q).in(VBase{}), v) && same_val<T>(q.template in<T>(VTwin{}), v) &&
               same_val<T>(q.template coerce_in<T>(VTwin{}), v) && same_val<T>(q.template as<T>(VTwin{}).in(VTwin{}), v) &&
               same_val<T>(q.template coerce_as<T>(au::QuantityMaker<VTwin>{}).in(VBase{}), v);
    }
    static bool chk_agree(Q q, int tr, int ovf, int lossy) {
        return au::will_conversion_truncate<T>(q, VTwin{}) == bool(tr) && au::will_conversion_overflow<T>(q, VTwin{}) == bool(ovf) &&
               au::is_conversion_lossy<T>(q, VTwin{}) == bool(lossy);
    }
};

template <class S, class T, class NumMag, class DenMag, bool Identity, bool IntDiv>
struct Inst {
    using Target = decltype(VBase{} * (DenMag{} / NumMag{}));
    using C = std::common_type_t<S, T>;
    using Q = au::Quantity<VBase, S>;
    static Q mk(const In& in) { return au::make_quantity<VBase>(in_get<S>(in, std::is_integral<S>{})); }
    static void check(const In& in, Out& o) {
        Q q = mk(in);
        long u0 = g_ub;
        o.tr = au::will_conversion_truncate<T>(q, Target{});
        o.ovf = au::will_conversion_overflow<T>(q, Target{});
        o.lossy = au::is_conversion_lossy<T>(q, Target{});
        o.ub_chk = g_ub - u0;
        // the same questions with a QuantityMaker in the unit slot (and, for the factor 1, an equivalent unit of another type)
        au::QuantityMaker<Target> mk_slot{};
        o.chk_agree = au::will_conversion_truncate<T>(q, mk_slot) == bool(o.tr) && au::will_conversion_overflow<T>(q, mk_slot) == bool(o.ovf) &&
                      au::is_conversion_lossy<T>(q, mk_slot) == bool(o.lossy) && RepCast<T, Q, Identity>::chk_agree(q, o.tr, o.ovf, o.lossy);
    }
    static void conv(const In& in, Out& o) {
        Q q = mk(in);
        long u0 = g_ub + g_uwrap;
        T v = q.template coerce_in<T>(Target{});
        o.ub_val = g_ub + g_uwrap - u0;
        T v2 = q.template as<T>(Target{}).in(Target{});
        T v3 = q.template coerce_as<T>(Target{}).in(Target{});
        T v4 = q.template in<T>(Target{});
        au::QuantityMaker<Target> mk_slot{};
        T v5 = q.template coerce_in<T>(mk_slot);
        T v6 = q.template as<T>(mk_slot).in(mk_slot);
        // result types: the explicit rep is the rep of the result, the target unit its unit
        constexpr bool types_ok =
            std::is_same<decltype(q.template as<T>(Target{})), au::Quantity<Target, T>>::value &&
            std::is_same<decltype(q.template coerce_as<T>(Target{})), au::Quantity<Target, T>>::value &&
            std::is_same<decltype(q.template as<T>(mk_slot)), au::Quantity<Target, T>>::value &&
            std::is_same<decltype(q.template in<T>(Target{})), T>::value &&
            std::is_same<decltype(q.template coerce_in<T>(Target{})), T>::value;
        o.val_agree = types_ok && same_val<T>(v, v2) && same_val<T>(v, v3) && same_val<T>(v, v4) && same_val<T>(v, v5) && same_val<T>(v, v6) &&
                      RepCast<T, Q, Identity>::agree(q, v);
        o.has_val = 1;
        out_set<T>(o, v, std::is_integral<T>{});
    }
    static void mid(const In& in, Out& o) { Mid<C, Q, Target, std::is_floating_point<C>::value>::get(mk(in), o); }
    static long double gv() { return Gv<C, NumMag, DenMag, std::is_floating_point<C>::value, IntDiv>::get(); }
};
#define ENTRY(ID, S, T, NM, DM, IDENT, INTDIV) \
    { ID, int(std::is_integral<S>::value), int(std::is_integral<T>::value), \
      int(std::is_floating_point<std::common_type_t<S, T>>::value), int(sizeof(S) * 8), int(std::numeric_limits<S>::is_signed), \
      &Inst<S, T, decltype(NM), decltype(DM), IDENT, INTDIV>::check, &Inst<S, T, decltype(NM), decltype(DM), IDENT, INTDIV>::conv, \
      &Inst<S, T, decltype(NM), decltype(DM), IDENT, INTDIV>::mid, &Inst<S, T, decltype(NM), decltype(DM), IDENT, INTDIV>::gv }
'''

HARNESS_CAST = r'''
struct CastEntry { const char* s; const char* t; void (*f)(const In&, Out&); };
template <class S, class T>
struct CastInst {
    static void f(const In& in, Out& o) {
        S x = in_get<S>(in, std::is_integral<S>{});
        long u0 = g_ub;
        o.ovf = au::detail::will_static_cast_overflow<T>(x);
        o.tr = au::detail::will_static_cast_truncate<T>(x);
        o.ub_chk = g_ub - u0;
        o.lossy = o.ovf || o.tr;
        o.has_val = 0;
        if (!o.lossy) {
            u0 = g_ub;
            T v = static_cast<T>(x);
            o.ub_val = g_ub - u0;
            o.has_val = 1;
            out_set<T>(o, v, std::is_integral<T>{});
        }
    }
};
#define CENTRY(SN, TN, S, T) { SN, TN, &CastInst<S, T>::f }
'''

HARNESS_MAIN = r'''
#include <sys/mman.h>
#include <sys/wait.h>
#include <unistd.h>
#include <vector>
extern const Entry* const chunks[]; extern const int chunk_sizes[]; extern const int n_chunks;
extern const CastEntry cast_table[]; extern const int n_cast;
volatile long g_ub = 0;        // sanitizer reports other than unsigned wrap-around
volatile long g_uwrap = 0;     // unsigned-integer-overflow reports (clang builds only): not UB, but forbidden in cleared conversions
extern "C" void __ubsan_get_current_report_data(const char**, const char**, const char**, unsigned*, unsigned*, char**) __attribute__((weak));
extern "C" void __ubsan_on_report(void) {
    const char *kind = "", *msg = "", *file = ""; unsigned l = 0, c = 0; char* addr = nullptr;
    if (__ubsan_get_current_report_data) __ubsan_get_current_report_data(&kind, &msg, &file, &l, &c, &addr);
    if (kind && !strcmp(kind, "unsigned-integer-overflow")) g_uwrap = g_uwrap + 1; else g_ub = g_ub + 1;
}
static std::string s128(i128 v) {
    if (v == 0) return "0";
    bool neg = v < 0; unsigned __int128 u = neg ? (unsigned __int128)(-(v + 1)) + 1u : (unsigned __int128)v;
    std::string s; while (u) { s.insert(s.begin(), char('0' + int(u % 10))); u /= 10; }
    return neg ? "-" + s : s;
}
static i128 p128(const char* s) {
    bool neg = false; if (*s == '-') { neg = true; ++s; }
    unsigned __int128 u = 0; while (*s >= '0' && *s <= '9') { u = u * 10 + unsigned(*s - '0'); ++s; }
    return neg ? -(i128)u : (i128)u;
}
static std::string sld(long double v) { char b[96]; snprintf(b, sizeof b, "%La", v); return b; }
static const Entry* find(int id) {
    for (int c = 0; c < n_chunks; ++c) for (int i = 0; i < chunk_sizes[c]; ++i) if (chunks[c][i].id == id) return &chunks[c][i];
    return nullptr;
}
static void parse_in(bool is_int, const char* s, In& in) {
    in.i = 0; in.f = 0;
    if (is_int) in.i = p128(s); else in.f = strtold(s, nullptr);
}
static std::string val_str(bool t_int, const Out& o) { return t_int ? s128(o.vi) : sld(o.vf); }
#if defined(__clang__)
#define NOSAN __attribute__((no_sanitize("integer")))
#else
#define NOSAN
#endif
NOSAN static inline unsigned long long fnv_byte(unsigned long long h, unsigned b) { return (h ^ (unsigned long long)(b & 0xff)) * 1099511628211ull; }
NOSAN static inline unsigned long long fnv_u64(unsigned long long h, unsigned long long v) { for (int i = 0; i < 8; ++i) h = fnv_byte(h, unsigned(v >> (8 * i))); return h; }
static i128 lo_of(int bits, int sg) { return sg ? -((i128)1 << (bits - 1)) : 0; }
static i128 hi_of(int bits, int sg) { return sg ? ((i128)1 << (bits - 1)) - 1 : ((i128)1 << bits) - 1; }

// The checkers run in a forked child, the conversions in the parent: UBSan reports a source location only
// once per process, and the <T> checkers themselves overflow on some inputs (see the observation note at the top of tools/p_c05.py); a report raised
// inside a checker must not mask a later report inside a checker-cleared conversion.
struct Flags { unsigned char ovf, tr, lossy, ub, agree, trap; };
static Flags* g_shared = nullptr; static const size_t SHARED_N = 70000;
// Traps (SIGFPE, SIGILL, SIGSEGV, SIGBUS, SIGABRT) inside the code under test are caught per input and named.
#include <csetjmp>
#include <csignal>
#include <sys/resource.h>
static sigjmp_buf g_jb; static volatile sig_atomic_t g_armed = 0;
static void on_trap(int sig) { if (g_armed) { g_armed = 0; siglongjmp(g_jb, sig); } signal(sig, SIG_DFL); raise(sig); }
static void install_traps() {
    struct sigaction sa; memset(&sa, 0, sizeof sa); sa.sa_handler = on_trap; sigemptyset(&sa.sa_mask); sa.sa_flags = SA_NODEFER;
    int sigs[] = {SIGFPE, SIGILL, SIGSEGV, SIGBUS, SIGABRT};
    for (int sg : sigs) sigaction(sg, &sa, nullptr);
    struct rlimit rl; rl.rlim_cur = 3600; rl.rlim_max = 3700; setrlimit(RLIMIT_CPU, &rl);      // CPU-time watchdog
}
#define GUARDED(trapvar, stmt) do { int sg_ = sigsetjmp(g_jb, 1); if (sg_ == 0) { g_armed = 1; stmt; g_armed = 0; trapvar = 0; } else { trapvar = sg_; } } while (0)
template <class GetIn>
static bool run_checks(const Entry* e, long count, GetIn get) {
    fflush(stdout);
    pid_t pid = fork();
    if (pid < 0) return false;
    if (pid == 0) {
        for (long k = 0; k < count; ++k) {
            In in = get(k); Out o; memset(&o, 0, sizeof o);
            int trap = 0;
            GUARDED(trap, e->check(in, o));
            g_shared[k].ovf = o.ovf; g_shared[k].tr = o.tr; g_shared[k].lossy = o.lossy; g_shared[k].ub = o.ub_chk ? 1 : 0;
            g_shared[k].agree = trap ? 1 : o.chk_agree; g_shared[k].trap = (unsigned char)trap;
        }
        _exit(0);
    }
    int st = 0; waitpid(pid, &st, 0);
    return WIFEXITED(st) && WEXITSTATUS(st) == 0;
}
int main() {
    install_traps();
    g_shared = (Flags*)mmap(nullptr, SHARED_N * sizeof(Flags), PROT_READ | PROT_WRITE, MAP_SHARED | MAP_ANONYMOUS, -1, 0);
    static char line[1024];
    while (fgets(line, sizeof line, stdin)) {
        char a[8][200] = {{0}};
        int n = sscanf(line, "%199s %199s %199s %199s %199s %199s %199s %199s", a[0], a[1], a[2], a[3], a[4], a[5], a[6], a[7]);
        if (n < 2) { puts("bad"); fflush(stdout); continue; }
        if (a[0][0] == 'B' && n >= 3) {
            // B id count, followed by `count` lines holding one input each
            const Entry* e = find(atoi(a[1])); long count = atol(a[2]);
            std::vector<In> ins; std::vector<std::string> txt;
            for (long k = 0; k < count; ++k) {
                if (!fgets(line, sizeof line, stdin)) break;
                char xs[200] = {0}; sscanf(line, "%199s", xs);
                In in; parse_in(e ? e->s_int : 1, xs, in); ins.push_back(in); txt.push_back(xs);
            }
            if (!e || (long)ins.size() != count || count > (long)SHARED_N) { for (long k = 0; k < count; ++k) puts("bad"); fflush(stdout); continue; }
            bool okc = run_checks(e, count, [&](long k) { return ins[k]; });
            for (long k = 0; k < count; ++k) {
                if (!okc) { printf("P %s %s crashed\n", a[1], txt[k].c_str()); continue; }
                Flags fl = g_shared[k];
                Out o; memset(&o, 0, sizeof o);
                int trap_m = 0, trap_v = 0;
                GUARDED(trap_m, e->mid(ins[k], o));
                std::string v = "-";
                if (!fl.lossy && !fl.trap) { GUARDED(trap_v, e->conv(ins[k], o)); v = trap_v ? "trap" : val_str(e->t_int, o); }
                printf("P %s %s ovf=%d trunc=%d lossy=%d ubc=%d val=%s agree=%d ubv=%ld mid=%s cagree=%d trapc=%d trapv=%d\n", a[1], txt[k].c_str(),
                       fl.ovf, fl.tr, fl.lossy, fl.ub, v.c_str(), o.has_val ? o.val_agree : 1, o.ub_val,
                       (o.has_mid && !trap_m) ? sld(o.mid).c_str() : "-", fl.agree, fl.trap, trap_v ? trap_v : trap_m);
            }
        } else if (a[0][0] == 'G') {
            const Entry* e = find(atoi(a[1])); if (!e) { puts("bad"); fflush(stdout); continue; }
            printf("G %s gv=%s\n", a[1], sld(e->gv()).c_str());
        } else if (a[0][0] == 'K' && n >= 4) {
            const CastEntry* ce = nullptr;
            for (int i = 0; i < n_cast; ++i) if (!strcmp(cast_table[i].s, a[1]) && !strcmp(cast_table[i].t, a[2])) ce = &cast_table[i];
            if (!ce) { puts("bad"); fflush(stdout); continue; }
            bool s_int = a[1][0] != 'f', t_int = a[2][0] != 'f';
            In in; parse_in(s_int, a[3], in);
            Out o; memset(&o, 0, sizeof o);
            int trap = 0;
            GUARDED(trap, ce->f(in, o));
            printf("K %s %s %s ovf=%d trunc=%d ubc=%ld val=%s ubv=%ld trap=%d\n", a[1], a[2], a[3], o.ovf, o.tr, o.ub_chk,
                   (o.has_val && !trap) ? val_str(t_int, o).c_str() : "-", o.ub_val, trap);
        } else if (a[0][0] == 'S' && n >= 8) {
            // S id N D cbits csigned tbits tsigned      (integral S of <= 16 bits, integral T; C = common type)
            const Entry* e = find(atoi(a[1])); if (!e || !e->s_int || !e->t_int || e->s_bits > 16) { puts("bad"); fflush(stdout); continue; }
            i128 N = p128(a[2]), D = p128(a[3]);
            int cb = atoi(a[4]), cs = atoi(a[5]), tb = atoi(a[6]), ts = atoi(a[7]);
            int pb = cb < 32 ? 32 : cb, ps = cb < 32 ? 1 : cs;
            i128 slo = lo_of(e->s_bits, e->s_signed), shi = hi_of(e->s_bits, e->s_signed);
            i128 clo = lo_of(cb, cs), chi = hi_of(cb, cs), tlo = lo_of(tb, ts), thi = hi_of(tb, ts), plo = lo_of(pb, ps), phi = hi_of(pb, ps);
            long total = (long)(shi - slo + 1);
            if (!run_checks(e, total, [&](long k) { In in; in.i = slo + k; in.f = 0; return in; })) { printf("S %s crashed\n", a[1]); fflush(stdout); continue; }
            unsigned long long h = 14695981039346656037ull;
            long cnt = 0, novf = 0, ntr = 0, nlossy = 0, nub = 0, ncleared = 0;
            long bad_ovf = 0, bad_clear = 0, bad_lossy = 0, bad_agree = 0, ub_unexplained = 0, clear_ub = 0, ntrap = 0;
            std::string f_ovf = "-", f_clear = "-", f_ub = "-", f_chkub = "-", f_clearub = "-", f_trap = "-", f_agree = "-";
            for (long k = 0; k < total; ++k) {
                i128 x = slo + k;
                ++cnt;
                Flags fl = g_shared[k];
                In in; in.i = x; in.f = 0;
                // exact stage values: x in C; x*N in the promoted type; x*N/D (rational) in C; the truncated quotient in T
                i128 y = x * N, q = y / D;
                bool ok1 = clo <= x && x <= chi, ok2 = plo <= y && y <= phi, ok3 = clo * D <= y && y <= chi * D, ok4 = tlo <= q && q <= thi;
                bool stages = ok1 && ok2 && ok3 && ok4, exact = (y % D == 0);
                if (fl.trap) { if (!ntrap++) f_trap = s128(x); }
                if (!fl.agree) { if (!bad_agree++) f_agree = s128(x); }
                if (fl.ub) {
                    ++nub; if (f_chkub == "-") f_chkub = s128(x);
                    if (stages || !fl.ovf || !fl.lossy) { if (!ub_unexplained++) f_ub = s128(x); }
                }
                if (fl.ovf) ++novf; if (fl.tr) ++ntr; if (fl.lossy) ++nlossy;
                h = fnv_byte(h, (fl.ovf ? 1u : 0u) + (fl.tr ? 2u : 0u) + (fl.lossy ? 4u : 0u));
                if (fl.ovf && stages) { if (!bad_ovf++) f_ovf = s128(x); }
                if (fl.lossy != (fl.ovf || fl.tr)) ++bad_lossy;
                if (!fl.lossy) {
                    ++ncleared;
                    Out o; memset(&o, 0, sizeof o);
                    int trap = 0;
                    GUARDED(trap, e->conv(in, o));
                    if (trap) { if (!ntrap++) f_trap = s128(x); }
                    h = fnv_u64(h, (unsigned long long)o.vi);
                    if (!stages || !exact || o.vi != q || trap) { if (!bad_clear++) f_clear = s128(x); }
                    if (o.ub_val) { if (!clear_ub++) f_clearub = s128(x); }
                    if (!trap && !o.val_agree) { if (!bad_agree++) f_agree = s128(x); }
                }
            }
            printf("S %s n=%ld hash=%llu novf=%ld ntrunc=%ld nlossy=%ld ubseen=%d ncleared=%ld bad_ovf=%ld first_ovf=%s bad_clear=%ld first_clear=%s "
                   "bad_lossy=%ld bad_agree=%ld first_agree=%s ub_unexplained=%ld first_ub=%s firstub=%s nubv=%ld clear_ub=%ld first_clearub=%s ntrap=%ld first_trap=%s\n",
                   a[1], cnt, h, novf, ntr, nlossy, nub ? 1 : 0, ncleared,
                   bad_ovf, f_ovf.c_str(), bad_clear, f_clear.c_str(), bad_lossy, bad_agree, f_agree.c_str(), ub_unexplained, f_ub.c_str(), f_chkub.c_str(), nub,
                   clear_ub, f_clearub.c_str(), ntrap, f_trap.c_str());
        } else if (a[0][0] == 'F' && n >= 5) {
            // F id N D p     (integral S of <= 16 bits, floating T = common type with p significand bits)
            const Entry* e = find(atoi(a[1])); if (!e || !e->s_int || e->t_int || e->s_bits > 16) { puts("bad"); fflush(stdout); continue; }
            i128 N = p128(a[2]), D = p128(a[3]); int p = atoi(a[4]);
            i128 slo = lo_of(e->s_bits, e->s_signed), shi = hi_of(e->s_bits, e->s_signed);
            long total = (long)(shi - slo + 1);
            if (!run_checks(e, total, [&](long k) { In in; in.i = slo + k; in.f = 0; return in; })) { printf("F %s crashed\n", a[1]); fflush(stdout); continue; }
            long cnt = 0, flagged = 0, bad_val = 0, inexact = 0, ub = 0, bad_mid = 0, bad_agree = 0;
            std::string f_flag = "-", f_val = "-";
            __float128 tol = 4; for (int i = 0; i < p; ++i) tol /= 2;
            for (long k = 0; k < total; ++k) {
                i128 x = slo + k;
                ++cnt;
                Flags fl = g_shared[k];
                In in; in.i = x; in.f = 0;
                Out o; memset(&o, 0, sizeof o);
                if (fl.ub) ++ub;
                if (fl.trap) { if (!bad_val++) f_val = s128(x); continue; }
                if (!fl.agree) ++bad_agree;
                if (fl.ovf || fl.tr || fl.lossy) { if (!flagged++) f_flag = s128(x); continue; }   // |x*N/D| < 2^79: never out of range
                int trap = 0;
                GUARDED(trap, (e->conv(in, o), e->mid(in, o)));
                if (trap) { if (!bad_val++) f_val = s128(x); continue; }
                if (o.ub_val) ++ub;
                if (!o.val_agree) ++bad_agree;
                if (!(o.mid == o.vf)) ++bad_mid;
                __float128 ex = (__float128)(long double)x * (__float128)(long double)N / (__float128)(long double)D;   // |err| <= 2^-112 |ex|
                __float128 v = o.vf, diff = v > ex ? v - ex : ex - v, aex = ex < 0 ? -ex : ex;
                if (!(o.vf == o.vf) || std::isinf(o.vf) || diff > tol * aex) { if (!bad_val++) f_val = s128(x); }
                else if (diff != 0) ++inexact;
            }
            printf("F %s n=%ld flagged=%ld first_flag=%s bad_val=%ld first_val=%s inexact=%ld ub=%ld bad_mid=%ld bad_agree=%ld\n", a[1], cnt, flagged,
                   f_flag.c_str(), bad_val, f_val.c_str(), inexact, ub, bad_mid, bad_agree);
        } else { puts("bad"); }
        fflush(stdout);
    }
    return 0;
}
'''


def nd_text(v):
    """Factor component for records and messages: the integer itself, or its factorisation when it is huge."""
    return v if v < 1 << 63 else "*".join(f"{q}^{e}" for q, e in factorize(v))


def nd_parse(v):
    if isinstance(v, int):
        return v
    r = 1
    for tok in str(v).split("*"):
        q, _, e = tok.partition("^")
        r *= int(q) ** int(e or 1)
    return r


def mag_expr(v):
    """C++ expression for the magnitude of the positive integer v; beyond 2^63 as a product of prime powers."""
    if v < 1 << 63:
        return f"au::mag<{v}ull>()"
    return "(" + " * ".join(f"au::pow<{e}>(au::mag<{q}ull>())" for q, e in factorize(v)) + ")"


def _entry_line(ins):
    ident = "true" if (ins["N"], ins["D"]) == (1, 1) else "false"
    intdiv = "true" if (ins["N"] == 1 and ins["D"] != 1) else "false"
    return f"  ENTRY({ins['id']}, {CT[ins['S']]}, {CT[ins['T']]}, {mag_expr(ins['N'])}, {mag_expr(ins['D'])}, {ident}, {intdiv}),\n"


def _write_chunk(wd, name, ch):
    p = os.path.join(wd, f"{name}.cc")
    with open(p, "w") as f:
        f.write(HARNESS_COMMON)
        f.write(f"extern const Entry table_{name}[] = {{\n")
        for ins in ch:
            f.write(_entry_line(ins))
        f.write("};\n")
    return p


XFLAGS = ["-fsanitize=float-cast-overflow", "-fsanitize-recover=float-cast-overflow"]


def build_harness(wd, insts, compiler, std, tag, nchunks=16):
    """Compile the harness for `insts`.  Returns (exe | None, failed instances, error detail).  A chunk that does not
    compile is split into single-instance translation units so that the instances the compiler rejects are identified
    and the exploration continues on the others."""
    def comp(job):
        name, src = job
        obj = src[:-3] + f".{tag}.o"
        rc, out = cxx(src, obj, compiler=compiler, std=std, extra=XFLAGS + ["-c"])
        return (name, obj, rc, out)
    chunks = {f"c{ci}": insts[ci::nchunks] for ci in range(nchunks) if insts[ci::nchunks]}
    jobs = [(name, _write_chunk(wd, name, ch)) for name, ch in chunks.items()]
    p = os.path.join(wd, "casts.cc")
    with open(p, "w") as f:
        f.write(HARNESS_COMMON + HARNESS_CAST)
        f.write("extern const CastEntry cast_table[] = {\n")
        for s in ALL:
            for t in ALL:
                f.write(f'  CENTRY("{s}", "{t}", {CT[s]}, {CT[t]}),\n')
        f.write("};\nextern const int n_cast = %d;\n" % (len(ALL) ** 2))
    jobs.append(("casts", p))
    good, failed, detail = {}, [], None
    retry = []
    for name, obj, rc, out in pmap(comp, jobs):
        if rc == 0:
            good[name] = obj
        elif name == "casts":
            return None, [], {"src": "casts.cc", "output": out[-4000:]}
        else:
            detail = detail or {"src": name, "output": out[-3000:]}
            for ins in chunks[name]:
                nm = f"s{ins['id']}"
                chunks[nm] = [ins]
                retry.append((nm, _write_chunk(wd, nm, [ins])))
            del chunks[name]
    for name, obj, rc, out in pmap(comp, retry):
        if rc == 0:
            good[name] = obj
        else:
            failed.append(chunks[name][0])
            del chunks[name]
    names = [n for n in chunks if n in good]
    p = os.path.join(wd, "main.cc")
    with open(p, "w") as f:
        f.write(HARNESS_COMMON + HARNESS_CAST)
        for n in names:
            f.write(f"extern const Entry table_{n}[];\n")
        f.write("const Entry* const chunks[] = {" + ", ".join(f"table_{n}" for n in names) + (", " if names else "") + "nullptr};\n")
        f.write("const int chunk_sizes[] = {" + ", ".join(str(len(chunks[n])) for n in names) + (", " if names else "") + "0};\n")
        f.write(f"const int n_chunks = {len(names)};\n")
        f.write(HARNESS_MAIN)
    name, obj, rc, out = comp(("main", p))
    if rc != 0:
        return None, failed, {"src": "main.cc", "output": out[-4000:]}
    exe = os.path.join(wd, f"harness_{tag}")
    rc, out, err = run(link_cmd(compiler, [good[n] for n in names] + [good["casts"], obj], exe, extra=XFLAGS))
    if rc != 0:
        return None, failed, {"src": "link", "output": (out + err)[-4000:]}
    return exe, failed, detail


def run_sharded(fn_one, reqs, shards=16):
    """reqs: list of (lines, n_answers, weight).  Distributes whole requests over processes (heaviest first,
    greedy), returns for every request its list of answer lines."""
    if not reqs:
        return []
    order = sorted(range(len(reqs)), key=lambda i: -reqs[i][2])
    buckets = [[] for _ in range(shards)]
    load = [0] * shards
    for i in order:
        k = load.index(min(load))
        buckets[k].append(i)
        load[k] += reqs[i][2]

    def work(idx):
        if not idx:
            return []
        lines = [l for i in idx for l in reqs[i][0]]
        want = sum(reqs[i][1] for i in idx)
        res = fn_one(lines, want)
        out, pos = [], 0
        for i in idx:
            out.append(res[pos:pos + reqs[i][1]])
            pos += reqs[i][1]
        return out
    outs = pmap(work, buckets, workers=shards)
    answers = [None] * len(reqs)
    for idx, res in zip(buckets, outs):
        for i, r in zip(idx, res):
            answers[i] = r
    return answers


def harness_runner(exe, errs):
    def one(ls, want):
        rc, out, err = run([exe], inp="\n".join(ls) + "\n", env=UBSAN_ENV, timeout=7200)
        res = [l for l in out.split("\n") if l]
        if len(res) != want:
            open(exe + ".fail_in.txt", "w").write("\n".join(ls) + "\n")
            open(exe + ".fail_out.txt", "w").write(out)
            raise RuntimeError(f"harness: rc={rc}, {len(res)} answers for {want} expected; stderr tail:\n{err[-3000:]}")
        errs.append(err)
        return res
    return one


def driver_runner(drv):
    return lambda ls, want: drv.ask(ls)


# ------------------------------------------------------------------------------------------------
# Oracle (statement level, exact arithmetic, independent of the model)
# ------------------------------------------------------------------------------------------------

def parse_impl_val(t, s):
    if s in ("-", "trap"):
        return None
    return int(s) if is_int(t) else parse_hex(s)


def parse_model_val(t, s):
    if s in ("-", "ub"):
        return s
    return int(s) if is_int(t) else from_me(s)


def judge(ins, x, r):
    """Statement-level verdicts for one explored case.  `x` is int | Fraction | 'nan' | 'inf' | '-inf';
    `r` the harness answer (dict of strings).  Returns a list of (observable, message, extra-record)."""
    s, t, c, n, d = ins["S"], ins["T"], ins["C"], ins["N"], ins["D"]
    ovf, tr, lossy = r["ovf"] == "1", r["trunc"] == "1", r["lossy"] == "1"
    ubc, ubv = int(r["ubc"]), int(r["ubv"])
    val = parse_impl_val(t, r["val"])
    out = []
    if lossy != (ovf or tr) and ubc == 0:
        out.append(("lossy-or", "is_conversion_lossy<T> is not will_conversion_truncate<T> || will_conversion_overflow<T>", {}))
    if r.get("agree", "1") != "1":
        out.append(("api-agree", "coerce_in<T>, as<T>, coerce_as<T>, in<T> (unit, QuantityMaker and — for the factor 1 — equivalent-unit slots; "
                    "rep_cast<T>) do not return the same value, or a result does not have the type Quantity<unit, T> / T", {}))
    if r.get("cagree", "1") != "1":
        out.append(("api-agree", "the <T> checkers answer differently through a QuantityMaker slot (or, for the factor 1, an equivalent unit of "
                    "another type) than through the unit", {}))
    if r.get("trapc", "0") != "0":
        out.append(("trap", f"a <T> checker traps (signal {r['trapc']})", {"where": "checker"}))
        return out
    if r.get("trapv", "0") != "0":
        out.append(("trap", f"the conversion traps (signal {r['trapv']})", {"where": "conversion"}))
        return out
    if is_int(s) and is_int(t):
        stages, q, exact = stage_ok_int(ins, x)
        y = x * n
        if ubc:
            explained = (not stages) and ovf and lossy
            out.append(("checker-ub-observed" if explained else "checker-ub-unreported",
                        "a <T> checker executes undefined behaviour (sanitizer report inside the checker)"
                        + ("" if explained else " on an input it does not report as overflowing"),
                        {"reported_lossy": lossy, "reported_ovf": ovf, "exact_overflow": not stages}))
        if ovf and stages:
            out.append(("ovf-unreal", "overflow reported although the exact value of every stage is in that stage's range", {}))
        if not lossy:
            if not (stages and exact) or val != q or ubv:
                out.append(("cleared-unsound", "not reported lossy, but a stage leaves its range / the result is not the exact x*N/D / UB",
                            {"stages_in_range": stages, "exact_integer": exact, "want": fstr(Fraction(y, d)), "got": r["val"], "ub": ubv}))
        return out
    mid = parse_hex(r["mid"]) if r["mid"] != "-" else None
    xq = Fraction(x) if not isinstance(x, str) else x
    if not is_int(s) and is_int(t):
        tl, th = lo_hi(t)
        castable = not isinstance(mid, str) and tl <= trunc_frac(mid) <= th
        integer = not isinstance(mid, str) and mid.denominator == 1
        if not lossy:
            if not (castable and integer) or val != mid or ubv:
                out.append(("cleared-unsound", "not reported lossy, but the computed floating value cannot be cast to the integral target exactly",
                            {"mid": fstr(mid), "got": r["val"], "ub": ubv, "mid_is_hi_plus_1": (not isinstance(mid, str)) and mid == th + 1,
                             "castable": castable, "integer": integer}))
        return out
    if is_int(s) and not is_int(t):
        exact = Fraction(x * n, d)
        # the scaling step works on the source value cast to the floating type and on get_value<T>(factor) as the
        # implementation evaluates it (observed, G line): its exact value is their exact product (quotient for 1/D)
        gv = ins.get("_gv")
        xc = rne(t, Fraction(x))
        step = None if (gv is None or isinstance(gv, str)) else (xc / gv if (n == 1 and d != 1) else xc * gv)
        if ovf and abs(exact) <= fmax(t) and (step is None or abs(step) <= fmax(t)):
            out.append(("ovf-unreal", "overflow reported although the exact value x*N/D and the exact value of the scaling step are "
                        "within the floating target's finite range", {}))
        if not lossy:
            if isinstance(val, str) or ubv:
                _, pc, _ = FLT[t]
                out.append(("cleared-unsound", "integral source, floating target: not reported lossy, but the scaled value leaves the target's "
                            "finite range (result not finite) / UB",
                            {"got": r["val"], "ub": ubv, "want": fstr(exact), "mid": r.get("mid"), "mid_is_inf": val in ("inf", "-inf"),
                             "exact_product_within_one_rounding_of_max": fmax(t) * (1 - Fraction(4, 2 ** pc)) <= abs(exact) <= fmax(t) * (1 + Fraction(4, 2 ** pc)),
                             "target_is_common": True}))
            elif val != exact:
                _, p, emax = FLT[t]
                tol = max(abs(exact) * Fraction(4, 2 ** p), _pow2(1 - emax - p + 1))
                out.append(("value-inexact", "integral source, floating target: the result is not the exact value x*N/D",
                            {"want": fstr(exact), "got": r["val"], "within_4ulp": abs(val - exact) <= tol,
                             "x_exceeds_2^p": abs(x) > 2 ** p, "identity_factor": (n, d) == (1, 1)}))
        return out
    # floating source, floating target
    if not lossy and not isinstance(xq, str):
        want = rne(t, mid) if not isinstance(mid, str) else mid
        if isinstance(mid, str) or isinstance(val, str) or val != want or ubv:
            _, pc, _ = FLT[c]
            ex = abs(xq) * Fraction(n, d)
            out.append(("cleared-unsound", "not reported lossy (finite input), but the computed value or its cast to the target is not finite / "
                        "not the correctly rounded cast",
                        {"mid": fstr(mid), "want": fstr(want), "got": r["val"], "ub": ubv, "mid_is_inf": mid in ("inf", "-inf"),
                         "exact_product_within_one_rounding_of_max": fmax(c) * (1 - Fraction(4, 2 ** pc)) <= ex <= fmax(c) * (1 + Fraction(4, 2 ** pc)),   # both sides: fl(N/D) may be rounded up
                         "target_is_common": t == c}))
    return out


# ------------------------------------------------------------------------------------------------
# Exploration
# ------------------------------------------------------------------------------------------------

def x_text_impl(s, x):
    if isinstance(x, NegZero):
        return "-0x0p0"
    return str(x) if is_int(s) else to_hex(x)


def x_text_model(s, x):
    return str(x) if is_int(s) else to_me(x)


def model_req(ins, x):
    return f"c05 conv {ins['S']} {ins['T']} {ins['N']} {ins['D']} {ins['pf']} {x_text_model(ins['S'], x)}"


def cast_points(rng, s, t):
    """Inputs for the static_cast checkers of the pair (s, t)."""
    if is_int(s):
        lo, hi = lo_hi(s)
        pts = {lo, lo + 1, -1, 0, 1, hi - 1, hi}
        if is_int(t):
            tl, th = lo_hi(t)
            for b in (tl, th):
                pts.update(b + k for k in range(-2, 3))
        else:
            p = FLT[t][1]
            pts.update({2 ** p, 2 ** p + 1, -(2 ** p) - 1, 2 ** p - 1})
        for _ in range(6):
            pts.add(rng.randrange(lo, hi + 1))
        return sorted(v for v in pts if lo <= v <= hi)
    _, p, emax = FLT[s]
    pts = ["nan", "inf", "-inf", Fraction(0), Fraction(1, 2), Fraction(-1, 2), Fraction(3, 2), fmax(s), -fmax(s), _pow2(1 - emax - p + 1)]
    if is_int(t):
        tl, th = lo_hi(t)
        for b in (tl, tl - 1, th, th + 1):
            pts += neighbours(s, Fraction(b), 8)
        pts += neighbours(s, Fraction(2 ** p), 3) + neighbours(s, Fraction(-(2 ** p)), 3)
    else:
        pts += neighbours(s, fmax(t), 8) + neighbours(s, -fmax(t), 8)
    maxo = f_ord(s, fmax(s))
    for _ in range(8):
        pts.append(f_from_ord(s, rng.randrange(-maxo, maxo + 1)))
        pts.append(rne(s, Fraction(rng.randrange(-(1 << 40), 1 << 40), 1 << rng.randrange(0, 4))))
    out, seen = [], set()
    for v in pts:
        if v not in seen:
            seen.add(v)
            out.append(v)
    out.append(NEG_ZERO)
    return out


def judge_cast(s, t, x, r):
    """Oracle for detail::will_static_cast_overflow/truncate<T>(S x): not flagged ⇒ the cast is well-defined and
    (integral target) value-preserving; integral source: flagged ⇔ out of range."""
    ovf, tr = r["ovf"] == "1", r["trunc"] == "1"
    val = parse_impl_val(t, r["val"])
    ubv = int(r["ubv"])
    out = []
    if is_int(s) and is_int(t):
        tl, th = lo_hi(t)
        if ovf != (not tl <= x <= th) or tr:
            out.append(("cast-int", "integral static_cast checker is not exactly 'x outside the range of Dest' / reports truncation", {}))
        if not ovf and (val != x or ubv):
            out.append(("cast-unsound", "integral cast not flagged but not value-preserving", {}))
    elif is_int(s):
        if ovf or tr:
            out.append(("cast-int", "integral → floating cast flagged", {}))
    elif is_int(t):
        tl, th = lo_hi(t)
        ok = not isinstance(x, str) and x.denominator == 1 and tl <= x <= th
        if not (ovf or tr) and (not ok or val != x or ubv):
            out.append(("cast-unsound", "floating value not flagged by will_static_cast_overflow/truncate but not exactly castable",
                        {"x_is_hi_plus_1": (not isinstance(x, str)) and x == th + 1}))
        # (a flagged but exactly castable value is a false alarm; the property does not forbid it for floating sources —
        #  it shows up as a model/implementation difference)
    else:
        if not (ovf or tr) and not isinstance(x, str):
            if isinstance(val, str) or val != rne(t, x) or ubv:
                out.append(("cast-unsound", "finite floating value not flagged but the cast is not the finite correctly rounded value", {}))
    return out


def stage_ok_int(ins, x):
    """Exact stage predicate for integral S, T: x in C; x*N in the promoted type; x*N/D (rational) in C; the
    truncated quotient in T."""
    c, t, n, d = ins["C"], ins["T"], ins["N"], ins["D"]
    p = promote(c)
    y = x * n
    q = trunc_frac(Fraction(y, d))
    (cl, ch), (pl, ph), (tl, th) = lo_hi(c), lo_hi(p), lo_hi(t)
    return (cl <= x <= ch and pl <= y <= ph and cl * d <= y <= ch * d and tl <= q <= th), q, y % d == 0


def compare_point(ins, r, mm, b, exact=False):
    """Model vs implementation on one P answer, at the abstraction level of the property."""
    t = ins["T"]
    if b == "bad-op":
        return False
    # sanitizer reports inside the checkers must be explained by the model (truncCheckerEvent); in the exact-count build
    # they must coincide with it
    if int(r["ubc"]) > 0 and mm.get("chk") != "1":
        return False
    if exact and mm.get("chk") == "1" and int(r["ubc"]) == 0:
        return False
    if mm["ovf"] == "ub":
        return False                       # the model's overflow pipeline never evaluates anything undefined
    if mm["trunc"] == "ub":
        # UB inside the truncation checker (observation, see top): every non-trapping evaluation returns false for integral reps
        if (r["ovf"], r["trunc"], r["lossy"]) != (mm["ovf"], "0", "1" if mm["ovf"] == "1" else "0"):
            return False
    elif (r["ovf"], r["trunc"], r["lossy"]) != (mm["ovf"], mm["trunc"], mm["lossy"]):
        return False
    if r["mid"] != "-":
        if mm["mid"] == "-" or parse_hex(r["mid"]) != from_me(mm["mid"]):
            return False
    if r["val"] != "-":
        mv = parse_model_val(t, mm["val"])
        if mv == "-":
            return False
        if mv == "ub":
            return True     # undefined: any value; UBSan reports a location only once per process, so no report is required
        return parse_impl_val(t, r["val"]) == mv
    return True


def explore(tier, seed, rng, wd, only=None, only_casts=None):
    t0 = time.time()
    drv = Driver()
    insts = only if only is not None else gen_instances(rng, tier)
    by_id = {i["id"]: i for i in insts}
    violations = []
    observations = {"checker_ub": {"count": 0, "example": None,
                                   "what": "will_conversion_truncate<T> / is_conversion_lossy<T> execute signed overflow inside the checker on "
                                           "inputs that will_conversion_overflow<T> reports (outside the statement of C05)"}}
    stats = {"instances": len(insts), "pairs": len({(i["S"], i["T"]) for i in insts}), "points": 0, "sweeps": 0, "sweep_values": 0,
             "fsweeps": 0, "fsweep_values": 0, "cast_points": 0, "cleared": 0, "flagged": 0, "model_ub_checker": 0,
             "configs": [], "by_class": {}, "neg_probes": 0, "noncompiling": 0, "gv_compared": 0, "float_specials": 0,
             "inexact_int_to_float_in_sweeps": 0, "sweeps_with_checker_ub": 0, "timing": {}}

    def add_violation(v):
        ob = v.get("rec", {}).get("observable")
        if ob == "checker-ub-observed" or (ob == "checker-ub-sweep" and v["rec"].get("unexplained") == 0):
            o = observations["checker_ub"]
            o["count"] += 1
            if o["example"] is None:
                o["example"] = {k: x for k, x in v["rec"].items() if k not in ("impl", "model")}
            return
        violations.append(v)

    # which instances compile (model) — the others are negative probes only
    zero = {i["id"]: (0 if is_int(i["S"]) else Fraction(0)) for i in insts}
    comp_ans = run_sharded(driver_runner(drv), [([model_req(i, zero[i["id"]])], 1, 1) for i in insts])
    for i, a in zip(insts, comp_ans):
        if a[0] == "bad-op":
            raise RuntimeError(f"driver rejects instance {i}")
        i["compiles"] = kv(a[0])["compiles"] == "1"
    live = [i for i in insts if i["compiles"]]
    dead = [i for i in insts if not i["compiles"]]
    stats["noncompiling"] = len(dead)
    # g++ with ASan + UBSan (full runtime: a source location is reported once per process), and "exact" = clang++-14 with
    # the exact-count UBSan handlers of vlib (every undefined operation / unsigned wrap is counted, per input).
    std2 = ["c++14", "c++17", "c++20"][seed % 3]
    configs = [("g++", "c++14", "g14"), ("exact", std2, "x" + std2[-2:])]
    if tier == "thorough":
        configs += [("clang++-14", ["c++14", "c++17", "c++20"][(seed + 1) % 3], "cl")]
    if _REPLAY_CONFIG:
        configs = [_REPLAY_CONFIG]
    npts = 28 if tier == "quick" else 250     # random volume only; the directed points are always generated
    icom = [i for i in live if is_int(i["C"]) and "xs" not in i]
    for i, a in zip(icom, drv.ask([f"cert {i['C']} {i['N']} {i['D']}" for i in icom])):
        c = kv(a)
        if "lo" in c:
            i["cert_lo"], i["cert_hi"] = int(c["lo"]), int(c["hi"])
    pts = {}
    for i in live:
        if "xs" in i:
            pts[i["id"]] = i["xs"]
        elif is_int(i["S"]):
            if INT_TYPES[i["S"]][1] == 8 and not is_int(i["T"]):
                pts[i["id"]] = list(range(ty_lo(i["S"]), ty_hi(i["S"]) + 1))
            else:
                pts[i["id"]] = int_points(rng, i, npts if INT_TYPES[i["S"]][1] > 16 else npts // 3)
        else:
            pts[i["id"]] = float_points(rng, i, npts)
    cpts = {(s, t): cast_points(rng, s, t) for s in ALL for t in ALL} if only is None else (only_casts or {})
    stats["timing"]["generate"] = round(time.time() - t0, 1)
    samples = []
    distinct = set()
    all_reqs = []   # dicts: kind, ins, h (harness lines), hn, m (model lines), w (weight), xs
    for i in live:
        s, t, c = i["S"], i["T"], i["C"]
        if is_int(s) and INT_TYPES[s][1] <= 16 and "xs" not in i:
            cnt = 1 << INT_TYPES[s][1]
            if is_int(t):
                _, cb, cs = INT_TYPES[c]
                _, tb, ts = INT_TYPES[t]
                all_reqs.append({"kind": "S", "ins": i, "h": [f"S {i['id']} {i['N']} {i['D']} {cb} {int(cs)} {tb} {int(ts)}"], "hn": 1,
                             "m": [f"c05 sweep {s} {t} {i['N']} {i['D']}"], "w": cnt})
            elif i["N"] < 1 << 63 and i["D"] < 1 << 63:
                all_reqs.append({"kind": "F", "ins": i, "h": [f"F {i['id']} {i['N']} {i['D']} {FLT[t][1]}"], "hn": 1, "m": [], "w": cnt})
        if not is_int(c):
            pf = pf_text(i["D"], 1) if (i["N"] == 1 and i["D"] != 1) else i["pf"]
            all_reqs.append({"kind": "G", "ins": i, "h": [f"G {i['id']}"], "hn": 1, "m": [f"c05 gv {c} {pf}"], "w": 1})
        xs = pts[i["id"]]
        if xs:
            all_reqs.append({"kind": "B", "ins": i, "xs": xs, "h": [f"B {i['id']} {len(xs)}"] + [x_text_impl(s, x) for x in xs], "hn": len(xs),
                         "m": [model_req(i, x) for x in xs], "w": len(xs) * (3 if is_int(c) else 12)})
    for (s, t), xs in cpts.items():
        for x in xs:
            all_reqs.append({"kind": "K", "S": s, "T": t, "x": x, "h": [f"K {s} {t} {x_text_impl(s, x)}"], "hn": 1,
                         "m": [f"c05 cast {s} {t} {x_text_model(s, x)}"], "w": 1})
    tq = time.time()
    _m = run_sharded(driver_runner(drv), [(r["m"], len(r["m"]), r["w"]) for r in all_reqs])
    all_mans = {id(r): a for r, a in zip(all_reqs, _m)}
    stats["timing"]["driver"] = round(time.time() - tq, 1)
    for (compiler, std, tag) in configs:
        cfg = f"{compiler} -std={std}"
        tq = time.time()
        exe, rejected, err = build_harness(wd, live, compiler, std, tag)
        for ins in rejected[:5]:
            violations.append({"what": f"{ins['S']}->{ins['T']} x {ins['N']}/{ins['D']}: the conversion / its <T> checkers do not compile under {cfg} "
                               f"although the model (get_value static_asserts in the common type) says they do", "class": "corr-compiles-pos",
                               "no_input": True, "broken": "correspondence: Au.compilesT",
                               "rec": {"kind": "corr", "observable": "compiles", "S": ins["S"], "T": ins["T"], "N": nd_text(ins["N"]), "D": nd_text(ins["D"]),
                                       "config": cfg, "count": len(rejected)}, "detail": err})
        if exe is None:
            violations.append({"what": f"harness does not compile under {cfg}: the model's compilesT predicate or the public "
                               f"conversion API no longer matches the headers", "class": "harness-build", "no_input": True,
                               "rec": {"kind": "build", "config": cfg}, "broken": "correspondence: Au.compilesT", "detail": err})
            continue
        rej_ids = {i["id"] for i in rejected}
        stats["rejected_by_compiler"] = stats.get("rejected_by_compiler", 0) + len(rejected)
        stats["configs"].append(cfg + (" (clang++-14, exact-count UBSan handlers, no ASan)" if compiler == "exact" else ""))
        stats["timing"][f"build_{tag}"] = round(time.time() - tq, 1)
        reqs = [r for r in all_reqs if r.get("ins", {}).get("id") not in rej_ids]
        mans = [all_mans[id(r)] for r in reqs]
        errs = []
        tq = time.time()
        hans = run_sharded(harness_runner(exe, errs), [(r["h"], r["hn"], r["w"]) for r in reqs])
        stats["timing"][f"harness_{tag}"] = round(time.time() - tq, 1)
        tq = time.time()
        for rq, ha, ma in zip(reqs, hans, mans):
            kind = rq["kind"]
            if kind == "K":
                s, t, x = rq["S"], rq["T"], rq["x"]
                a, b = ha[0], ma[0]
                r, mm = kv(a), kv(b)
                if compiler != "exact":
                    stats["nonexact_reports"] = stats.get("nonexact_reports", 0) + int(r["ubc"]) + int(r["ubv"])
                    r["ubc"] = r["ubv"] = "0"
                stats["cast_points"] += 1
                if r.get("trap", "0") != "0":
                    add_violation({"what": f"static_cast checker / cast traps (signal {r['trap']}) for {s}->{t} at x={x_text_impl(s, x)}", "class": f"trap-{s}-{t}",
                                   "rec": {"kind": "cast", "S": s, "T": t, "x": x_text_impl(s, x), "config": cfg, "observable": "trap", "impl": a}})
                    continue
                base = {"kind": "cast", "S": s, "T": t, "x": x_text_impl(s, x), "config": cfg}
                same = b not in ("bad-op", "nocompile") and r["ovf"] == mm["ovf"] and r["trunc"] == mm["trunc"] and int(r["ubc"]) == 0
                if same and r["val"] != "-":
                    mval = parse_model_val(t, mm["val"])
                    same = mval == "ub" or parse_impl_val(t, r["val"]) == mval
                if not same:
                    add_violation({"what": f"static_cast checker: model and implementation differ for {s}->{t} at x={base['x']}", "class": "corr-cast",
                                   "no_input": True, "broken": "correspondence: c05 cast", "rec": dict(base, observable="corr", model=b, impl=a)})
                for ob, msg, extra in judge_cast(s, t, x, r):
                    add_violation({"what": f"{msg} ({s}->{t}, x={base['x']})", "class": f"{ob}-{s}-{t}", "rec": dict(base, observable=ob, impl=a, **extra)})
                continue
            ins = rq["ins"]
            s, t, c, N_, D_ = ins["S"], ins["T"], ins["C"], ins["N"], ins["D"]
            n, d = nd_text(N_), nd_text(D_)          # text form for records and messages (huge factors as factorisations)
            base = {"S": s, "T": t, "N": n, "D": d, "config": cfg}
            if kind == "G":
                a, b = ha[0], ma[0]
                stats["gv_compared"] += 1
                want = b.split()
                got = parse_hex(kv(a)["gv"])
                ins["_gv"] = got
                if want[0] != "ok" or from_me(want[1]) != got:
                    add_violation({"what": f"get_value<{c}> of the factor: model and implementation differ", "class": "corr-gv", "no_input": True,
                                   "broken": "correspondence: gvFlt", "rec": dict(base, kind="corr", observable="gv", model=b, impl=a)})
                ex = Fraction(D_, 1) if (N_ == 1 and D_ != 1) else Fraction(N_, D_)
                if isinstance(got, str) or abs(got - ex) > abs(ex) * Fraction(3, 2 ** FLT[c][1]):
                    add_violation({"what": f"get_value<{c}>({ex}) is not within 3 ulp of the exact value", "class": "gv-accuracy",
                                   "rec": dict(base, kind="oracle", observable="gv", impl=a)})
            elif kind == "S":
                a, b = ha[0], ma[0]
                r, mm = kv(a), kv(b)
                if "n" not in r:
                    add_violation({"what": f"harness crashed in the sweep of {s}->{t} x {n}/{d}", "class": "crash", "no_input": True,
                                   "broken": "harness", "rec": dict(base, kind="corr", observable="crash", impl=a)})
                    continue
                stats["sweeps"] += 1
                stats["sweep_values"] += int(r["n"])
                stats["cleared"] += int(r["ncleared"])
                stats["flagged"] += int(r["nlossy"])
                stats["sweeps_with_checker_ub"] += int(r["ubseen"])
                if len(samples) < 2:
                    samples.append({"request": rq["h"][0], "harness": a, "model": b})
                # A sanitizer report inside a checker must be explained by the model (it predicts UB there); the converse is
                # not required: g++ narrows `(uint16_t)(int * int)` to unsigned arithmetic before instrumenting it.
                # The exact-count build sees every signed overflow / unsigned wrap inside the checkers: it must coincide
                # with the model's truncCheckerEvent, value by value (count and first value).
                evt_bad = (compiler == "exact" and r["ubseen"] == "1" and mm["nevt"] == "0") or \
                    (compiler == "exact" and (r["nubv"] != mm["nevt"] or r["firstub"] != mm["firstevt"]))
                if any(r[k] != mm[k] for k in ("n", "hash", "novf", "ntrunc", "nlossy", "ncleared")) or evt_bad:
                    # locate the first differing value
                    first = None
                    lo_s = ty_lo(s)
                    sub = dict(ins, xs=list(range(lo_s, ty_hi(s) + 1)))
                    try:
                        hx = run_sharded(harness_runner(exe, []), [([f"B {ins['id']} {len(sub['xs'])}"] + [str(x) for x in sub["xs"]], len(sub["xs"]), 1)])[0]
                        mx = drv.ask([model_req(ins, x) for x in sub["xs"]])
                        for x, aa, bb in zip(sub["xs"], hx, mx):
                            if not compare_point(ins, kv(aa), kv(bb), bb, compiler == "exact"):
                                first = {"x": str(x), "impl": aa, "model": bb}
                                break
                    except Exception as ex:     # noqa: BLE001
                        first = {"error": str(ex)[:300]}
                    add_violation({"what": f"exhaustive sweep of {s}->{t} x {n}/{d}: digest of the implementation differs from the model's"
                                   + (f" (first differing value x={first.get('x')})" if first else ""),
                                   "class": "corr-sweep", "no_input": True, "broken": "correspondence: c05 sweep",
                                   "rec": dict(base, kind="corr", observable="sweep", model=b, impl=a, first=first, x=(first or {}).get("x"))})
                if int(r["bad_ovf"]):
                    add_violation({"what": f"overflow reported although every stage's exact value is in range ({s}->{t} x {n}/{d}, x={r['first_ovf']})",
                                   "class": f"ovf-unreal-{s}-{t}", "rec": dict(base, kind="oracle", observable="ovf-unreal", x=r["first_ovf"], count=int(r["bad_ovf"]))})
                if int(r["bad_clear"]):
                    add_violation({"what": f"not reported lossy but a stage leaves its range / result not exact / UB ({s}->{t} x {n}/{d}, x={r['first_clear']})",
                                   "class": f"cleared-{s}-{t}", "rec": dict(base, kind="oracle", observable="cleared-unsound", x=r["first_clear"], count=int(r["bad_clear"]))})
                if int(r["bad_lossy"]):
                    add_violation({"what": f"is_conversion_lossy<T> is not trunc || ovf ({s}->{t} x {n}/{d})", "class": "lossy-or",
                                   "rec": dict(base, kind="oracle", observable="lossy-or", impl=a)})
                if int(r["bad_agree"]):
                    add_violation({"what": f"entry points / unit-slot forms disagree or a result type is wrong ({s}->{t} x {n}/{d}, x={r['first_agree']})",
                                   "class": f"api-agree-{s}-{t}", "rec": dict(base, kind="oracle", observable="api-agree", x=r["first_agree"], count=int(r["bad_agree"]))})
                if int(r["ntrap"]):
                    add_violation({"what": f"a <T> checker or the conversion traps ({s}->{t} x {n}/{d}, x={r['first_trap']})",
                                   "class": f"trap-{s}-{t}", "rec": dict(base, kind="oracle", observable="trap", x=r["first_trap"], count=int(r["ntrap"]))})
                if compiler == "exact" and int(r["clear_ub"]):
                    add_violation({"what": f"not reported lossy, but the conversion executes UB / an unsigned wrap ({s}->{t} x {n}/{d}, x={r['first_clearub']})",
                                   "class": f"cleared-{s}-{t}", "rec": dict(base, kind="oracle", observable="cleared-unsound", x=r["first_clearub"],
                                                                         count=int(r["clear_ub"]), ub=1)})
                if compiler == "exact" and int(r["ubseen"]):
                    add_violation({"what": f"a <T> checker executes UB (sanitizer report inside the checker), first at x={r['firstub']} ({s}->{t} x {n}/{d})",
                                   "class": f"checker-ub-{s}-{t}", "rec": dict(base, kind="oracle", observable="checker-ub-sweep", x=r["firstub"],
                                                                               unexplained=int(r["ub_unexplained"]), first_unexplained=r["first_ub"])})
            elif kind == "F":
                a = ha[0]
                r = kv(a)
                if "n" not in r:
                    add_violation({"what": f"harness crashed in the sweep of {s}->{t} x {n}/{d}", "class": "crash", "no_input": True,
                                   "broken": "harness", "rec": dict(base, kind="corr", observable="crash", impl=a)})
                    continue
                stats["fsweeps"] += 1
                stats["fsweep_values"] += int(r["n"])
                stats["cleared"] += int(r["n"]) - int(r["flagged"])
                stats["inexact_int_to_float_in_sweeps"] += int(r["inexact"])
                if int(r["flagged"]):
                    add_violation({"what": f"{s}->{t} x {n}/{d}: a value of an 8/16-bit source is reported lossy although x*N/D is far inside the floating range, x={r['first_flag']}",
                                   "class": f"ovf-unreal-{s}-{t}", "rec": dict(base, kind="oracle", observable="ovf-unreal", x=r["first_flag"])})
                if int(r["bad_val"]) or (compiler == "exact" and int(r["ub"])) or int(r["bad_mid"]) or int(r["bad_agree"]):
                    add_violation({"what": f"{s}->{t} x {n}/{d}: cleared conversion is not within 4 ulp of x*N/D / UB / entry points disagree, x={r['first_val']}",
                                   "class": f"cleared-{s}-{t}", "rec": dict(base, kind="oracle", observable="cleared-unsound", x=r["first_val"], impl=a)})
            else:
                for x, a, b in zip(rq["xs"], ha, ma):
                    r, mm = kv(a), kv(b)
                    if compiler != "exact" and "ubc" in r:      # per-input UB verdicts only from the exact-count build
                        stats["nonexact_reports"] = stats.get("nonexact_reports", 0) + int(r["ubc"]) + int(r["ubv"])
                        r["ubc"] = r["ubv"] = "0"
                    xs = x_text_impl(s, x)
                    rec = dict(base, kind="point", x=xs)
                    if "ovf" not in r:
                        add_violation({"what": f"harness crashed on {s}->{t} x {n}/{d}", "class": "crash", "no_input": True, "broken": "harness",
                                       "rec": dict(rec, observable="crash", impl=a)})
                        continue
                    stats["points"] += 1
                    cls = ("i" if is_int(s) else "f") + ("i" if is_int(t) else "f")
                    stats["by_class"][cls] = stats["by_class"].get(cls, 0) + 1
                    if isinstance(x, str):
                        stats["float_specials"] += 1
                    if r["lossy"] == "0":
                        stats["cleared"] += 1
                    else:
                        stats["flagged"] += 1
                    if mm.get("trunc") == "ub":
                        stats["model_ub_checker"] += 1
                    distinct.add((s, t, n, d))
                    if len(samples) < 10 and r["lossy"] == "0" and x not in (0, 1, -1) and (len(samples) % 2 == 0) == is_int(s):
                        samples.append({"request": model_req(ins, x), "model": b, "harness": a})
                    if not compare_point(ins, r, mm, b, compiler == "exact"):
                        add_violation({"what": f"model and implementation differ: {s}->{t} x {n}/{d} at x={xs}", "class": "corr-point", "no_input": True,
                                       "broken": "correspondence: c05 conv", "rec": dict(rec, observable="corr", model=b, impl=a)})
                    for ob, msg, extra in judge(ins, x, r):
                        add_violation({"what": f"{msg} ({s}->{t} x {n}/{d}, x={xs})", "class": f"{ob}-{s}-{t}",
                                       "rec": dict(rec, observable=ob, impl=a, **extra)})
        stats["timing"][f"judge_{tag}"] = round(time.time() - tq, 1)
        with open(os.path.join(wd, f"stderr_{tag}.txt"), "w") as ef:
            ef.write("\n".join(errs))
        stats["sanitizer_reports"] = stats.get("sanitizer_reports", 0) + sum(e.count("runtime error") for e in errs)
    # negative probes: what the model says does not compile must be rejected with a static assertion
    rng.shuffle(dead)

    def probe(ins):
        p = os.path.join(wd, f"neg{ins['id']}.cc")
        ident = "true" if (ins["N"], ins["D"]) == (1, 1) else "false"
        intdiv = "true" if (ins["N"] == 1 and ins["D"] != 1) else "false"
        open(p, "w").write(HARNESS_COMMON + "volatile long g_ub = 0; volatile long g_uwrap = 0;\n" + f"int main() {{ In in{{}}; Out o{{}}; Inst<{CT[ins['S']]}, {CT[ins['T']]}, decltype({mag_expr(ins['N'])}), "
                           f"decltype({mag_expr(ins['D'])}), {ident}, {intdiv}>::conv(in, o); return int(o.vi); }}\n")
        rc, out = cxx(p, None, san=False, syntax_only=True)
        return ins, rc, out
    probes = [i for i in dead if i.get("directed")] + [i for i in dead if not i.get("directed")][: (6 if tier == "quick" else 24)]
    for ins, rc, out in pmap(probe, probes):
        stats["neg_probes"] += 1
        base = {"S": ins["S"], "T": ins["T"], "N": nd_text(ins["N"]), "D": nd_text(ins["D"]), "kind": "corr", "observable": "compiles"}
        if rc == 0:
            violations.append({"what": "conversion compiles although the model (get_value static_asserts) says it must not", "class": "corr-compiles",
                               "no_input": True, "broken": "correspondence: Au.compilesT", "rec": base})
        elif "static assertion failed" not in out and "static_assert failed" not in out:
            violations.append({"what": "negative probe rejected for an unexpected reason", "class": "corr-probe", "no_input": True,
                               "broken": "probe allow-list", "rec": dict(base, out=out[-800:])})
    total = stats["points"] + stats["sweep_values"] + stats["fsweep_values"] + stats["cast_points"]
    stats["observations"] = observations
    coverage = {
        "evaluations": total,
        "distinct_nontrivial": len(distinct),
        "rule": "case = (S, T, N, D, x) over all 121 ordered rep pairs; factors: identity + seeded grid (guard boundaries of the common type "
                "as in C03, library ratios, powers of 2/10, limits of the integral side, random coprime pairs); values: 8/16-bit integral "
                "sources exhaustive (digest compared with the model for integral targets, __float128 oracle for floating targets), wider "
                "integers: guard neighbourhoods + random; floating sources: ±8 nextafter steps around every pre-image of a target limit and of "
                "2^digits, powers of two, ±0, denormals, ±inf, NaN, random bit patterns, random integers / multiples of D; plus the bare "
                "static_cast checkers on all 121 pairs. distinct_nontrivial = distinct (S,T,N,D) instances with sampled points",
        "samples": samples,
        "exhaustive": False,
        "distribution": stats,
        "explore_s": round(time.time() - t0, 2),
    }
    return coverage, violations


# ------------------------------------------------------------------------------------------------
# Extraction: the cast constants as the compilers evaluate them → lean/Generated/CastConsts.lean
# ------------------------------------------------------------------------------------------------

EXTRACT_SRC = r'''
#include <cstdint>
#include <cstdio>
#include <limits>
template <class F, class D> void row(const char* fn, const char* dn) {
    constexpr F lo = static_cast<F>(std::numeric_limits<D>::lowest());
    constexpr F hi = static_cast<F>(std::numeric_limits<D>::max());
    volatile D vlo = std::numeric_limits<D>::lowest(), vhi = std::numeric_limits<D>::max();
    F rlo = static_cast<F>(vlo), rhi = static_cast<F>(vhi);      // the same casts at run time
    printf("%s %s %La %La %La %La\n", fn, dn, (long double)lo, (long double)hi, (long double)rlo, (long double)rhi);
}
template <class F> void ints(const char* fn) {
    row<F, int8_t>(fn, "i8"); row<F, uint8_t>(fn, "u8"); row<F, int16_t>(fn, "i16"); row<F, uint16_t>(fn, "u16");
    row<F, int32_t>(fn, "i32"); row<F, uint32_t>(fn, "u32"); row<F, int64_t>(fn, "i64"); row<F, uint64_t>(fn, "u64");
}
int main() {
    ints<float>("f32"); ints<double>("f64"); ints<long double>("f80");
    row<double, float>("f64", "f32"); row<long double, float>("f80", "f32"); row<long double, double>("f80", "f64");
    return 0;
}
'''


def extract_cast_consts(wd):
    """Returns (rows, problems).  rows: (F, dest, lo:int, hi:int)."""
    p = os.path.join(wd, "castconsts.cc")
    open(p, "w").write(EXTRACT_SRC)
    outs = {}
    problems = []
    for comp in ("g++", "clang++-14"):
        exe = os.path.join(wd, "castconsts_" + comp.replace("+", "p"))
        rc, out = cxx(p, exe, compiler=comp, std="c++14", san=False)
        if rc != 0:
            problems.append(f"{comp}: extraction program does not compile: {out[-500:]}")
            continue
        rc, o, e = run([exe])
        outs[comp] = o
    vals = list(outs.values())
    if not vals:
        return None, problems
    if any(v != vals[0] for v in vals):
        problems.append("g++ and clang++ disagree on static_cast<F>(numeric_limits<D>::max()/lowest())")
    rows = []
    for l in vals[0].strip().split("\n"):
        f, d, lo, hi, rlo, rhi = l.split()
        lo, hi, rlo, rhi = (parse_hex(v) for v in (lo, hi, rlo, rhi))
        if (lo, hi) != (rlo, rhi):
            problems.append(f"compile-time and run-time cast differ for {f} <- limits of {d}")
        if isinstance(lo, str) or isinstance(hi, str) or lo.denominator != 1 or hi.denominator != 1:
            problems.append(f"cast constant is not a finite integer: {l}")
            continue
        rows.append((f, d, int(lo), int(hi)))
    return rows, problems


def write_cast_consts(rows):
    def enc(f, d, lo, hi):
        _, sp, se = FLT[f]
        if is_int(d):
            _, b, sg = INT_TYPES[d]
            return f"({sp}, {se}, true, {b}, {1 if sg else 0}, {lo}, {hi})"
        _, dp, de = FLT[d]
        return f"({sp}, {se}, false, {dp}, {de}, {lo}, {hi})"
    txt = ("/-! Regenerated by tools/p_c05.py on every run (rewritten only when the content changes).\n"
           "Rows: (source digits, source emax, destination is integral, destination bits | digits,\n"
           "destination signed (0/1) | emax, static_cast<Source>(lowest(Dest)), static_cast<Source>(max(Dest)))\n"
           "as printed by g++ 12 and clang++ 14 (compile-time and run-time evaluation agree). -/\n"
           "namespace Au.Generated\n\n"
           "def castConsts : List (Nat × Nat × Bool × Nat × Nat × Int × Int) := [\n  "
           + ",\n  ".join(enc(*r) for r in rows) + "\n]\n\nend Au.Generated\n")
    path = os.path.join(LEAN, "Generated", "CastConsts.lean")
    old = open(path).read() if os.path.exists(path) else None
    if old != txt:
        tmp = path + ".tmp"
        open(tmp, "w").write(txt)
        os.replace(tmp, path)
    return path


# ------------------------------------------------------------------------------------------------
# Entry points
# ------------------------------------------------------------------------------------------------

def main(tier, seed):
    t0 = time.time()
    wd = workdir(PROP)
    rows, problems = extract_cast_consts(wd)
    if rows:
        write_cast_consts(rows)
    proof = prove(PROP)
    cov, viol = explore(tier, seed, rng_for(PROP, seed), wd)
    for pr in problems:
        viol.append({"what": "extraction of the cast constants: " + pr, "class": "extraction", "no_input": True,
                     "broken": "extraction: Generated/CastConsts.lean", "rec": {"kind": "extraction"}})
    cov["cast_constants_extracted"] = len(rows or [])
    return finish(PROP, tier, seed, t0, proof, cov, viol, ASSUME)


def _parse_x(s, txt):
    txt = str(txt)
    if txt == "-0x0p0":
        return NEG_ZERO
    return int(txt) if is_int(s) else parse_hex(txt)


def replay(path):
    """Re-run one recorded case against the current tree: implementation, model and oracle."""
    rec = json.load(open(path))
    r = rec.get("rec", {})
    print(json.dumps({k: v for k, v in r.items() if k not in ("tu",)}, indent=1, default=str))
    if "S" not in r or "T" not in r:
        print("replay: the record names a broken obligation / build, not an input:", rec.get("broken") or rec.get("what"))
        return 1
    s, t = r["S"], r["T"]
    wd = workdir(PROP + "_replay")
    cfg = r.get("config", "g++ -std=c++14")
    n, d = nd_parse(r.get("N", 1)), nd_parse(r.get("D", 1))
    x = r.get("x")
    ins = {"id": 0, "S": s, "T": t, "C": common(s, t), "N": n, "D": d, "pf": pf_text(n, d)}
    casts = None
    if r.get("kind") == "cast":
        casts = {(s, t): [_parse_x(s, x)]}
        ins["xs"] = []
    elif x not in (None, "-", "None"):
        ins["xs"] = [_parse_x(s, x)]
    # without a recorded value (digest mismatch): the whole sweep of an 8/16-bit source is repeated
    comp = cfg.split()[0]
    std = cfg.split()[1].replace("-std=", "")
    global _REPLAY_CONFIG
    _REPLAY_CONFIG = (comp, std, "rp")
    try:
        cov, viol = explore("quick", 0, rng_for(PROP, 0), wd, only=[ins], only_casts=casts)
    finally:
        _REPLAY_CONFIG = None
    allv = viol
    for v in allv:
        print("  -", v["what"])
        for k in ("impl", "model"):
            if k in v.get("rec", {}):
                print(f"      {k}: {v['rec'][k]}")
    ob = cov["distribution"]["observations"]["checker_ub"]
    if ob["count"]:
        print("  observation (outside the statement of C05):", ob["what"], "-", json.dumps(ob["example"], default=str))
    from vlib import classify
    known, allv = classify(PROP, allv)
    for f, vs in known:
        print(f"KNOWN-FINDING: property={PROP} {f['key']}: {f['what']} ({len(vs)} matching case(s))")
    if allv:
        concrete = [v for v in allv if not v.get("no_input")]
        print(f"VIOLATION property={PROP} replay={path}" + ("" if concrete else " no-failing-input-found"))
        return 1
    print("replay: property holds on this case (model and implementation agree, oracle satisfied)")
    return 0


_REPLAY_CONFIG = None

"""C06 — the implicit-conversion safety surface is total and as documented."""
import json
import os
import re
import time
from fractions import Fraction

import aulib
from p_c11 import cxx_mag
from vlib import (AU_INC, UBSAN_ENV, Driver, cxx, finish, kv, pmap, prove, rng_for, run, workdir, ty_hi, ty_lo)

PROP = "C06"
ASSUME = [
    "C06_formula assumes well-formed prime bases (2 <= p < 2^64, Mag.PrimesOK: what Prime<N>'s static_assert guarantees); the former "
    "float-pipeline hypothesis DoubleLeOneOnlyForOne is now a theorem (magAsDoubleLeOne_false: every rounding step of the long-double "
    "pipeline keeps a value >= 2 at least 2), about the Flt/rne model that C11 ties bit-exactly to the compilers",
    "arithmetic reps only (no complex / user-defined reps)",
]
INTS = ["i8", "u8", "i16", "u16", "i32", "u32", "i64", "u64"]
FLTS = ["f32", "f64", "f80"]
CT = {"i8": "int8_t", "u8": "uint8_t", "i16": "int16_t", "u16": "uint16_t", "i32": "int32_t", "u32": "uint32_t",
      "i64": "int64_t", "u64": "uint64_t", "f32": "float", "f64": "double", "f80": "long double"}
THRESH = 2147


def is_int(r):
    return r in INTS


def common_rep(a, b):
    """std::common_type_t on arithmetic types (LP64)."""
    if a == b:
        return a
    if not is_int(a) or not is_int(b):
        fl = [x for x in (a, b) if not is_int(x)]
        return max(fl, key=lambda f: FLTS.index(f))

    def prom(t):
        return "i32" if int(t[1:]) < 32 else t
    a, b = prom(a), prom(b)
    if a == b:
        return a
    sa, sb = a[0] == "i", b[0] == "i"
    ba, bb = int(a[1:]), int(b[1:])
    if sa == sb:
        return a if ba >= bb else b
    s, u = (a, b) if sa else (b, a)
    return u if int(s[1:]) <= int(u[1:]) else s


def int_mag(v):
    return {f"p{p}": Fraction(e) for p, e in aulib.factor(v).items()}


def gen_ratios(rng, tier):
    """List of magnitude dicts (source unit / target unit)."""
    out = []

    def addk(k):
        m = int_mag(k)
        out.append(m)
        out.append({b: -e for b, e in m.items()})
    for t in INTS:
        hi = ty_hi(t)
        for k in {hi // THRESH, hi // THRESH + 1, max(1, hi // THRESH - 1), hi, hi + 1}:
            if k >= 1:
                addk(k)
    for k in (1, 2, 3, 10, 60, 1000, 1024, 10 ** 6, 2 ** 31, 10 ** 9, 10 ** 12):
        addk(k)
    out.append({"p2": Fraction(30), "p5": Fraction(30)})          # 10^30: beyond every integer type
    out.append({"p2": Fraction(400), "p5": Fraction(400)})        # 10^400: beyond double
    out.append({"p2": Fraction(-30), "p5": Fraction(-30)})
    for (a, b) in ((3, 2), (5, 9), (9, 5), (254, 100), (1, 3)):
        out.append(uadd(int_mag(a), int_mag(b), -1))
    out.append({"pi": Fraction(1)})
    out.append({"pi": Fraction(1), "p2": Fraction(2), "p3": Fraction(-2), "p5": Fraction(-1)})
    out.append({"p2": Fraction(1, 2)})
    extra = 10 if tier == "quick" else 80
    for _ in range(extra):
        t = rng.choice(INTS)
        hi = ty_hi(t)
        k = max(1, hi // THRESH + rng.randrange(-3, 4) * rng.choice([1, 1, 10, 1000]))
        addk(k)
    seen, res = set(), []
    for m in out:
        key = tuple(sorted(m.items()))
        if key not in seen:
            seen.add(key)
            res.append(m)
    return res


def uadd(p, q, k=1):
    o = dict(p)
    for b, e in q.items():
        o[b] = o.get(b, 0) + Fraction(e) * k
        if o[b] == 0:
            del o[b]
    return o


def formula(r2, r1, m):
    """The documented predicate (same dimension assumed)."""
    if not is_int(r2):
        return True
    is_integer = all(b != "pi" and Fraction(e).denominator == 1 and e >= 1 for b, e in m.items())
    if is_int(r1) and is_integer:
        k = 1
        for b, e in m.items():
            k *= int(b[1:]) ** int(e)
        if THRESH * k <= ty_hi(r2):
            return True
    if not m and is_int(r1) and is_int(r2):
        return True
    return False


PRELUDE = '''#include <cstdint>
#include <cstdio>
#include <type_traits>
#include "au/au.hh"
struct VBase : au::UnitImpl<au::Length> {};
struct VOther : au::UnitImpl<au::Time> {};
template <typename M> using Scaled = decltype(VBase{} * M{});
// the question asked by overload resolution: candidate 1 takes the target quantity, candidate 2 a quantity of another dimension,
// candidate 3 anything at all (an ellipsis loses to every real conversion).  Resolution must succeed and pick 1 exactly when the
// conversion is permitted, 3 otherwise.
template <typename Q2, typename Qd> struct Pick {
    static char (&f(Q2))[1];
    static char (&f(Qd))[2];
    static char (&f(...))[3];
};
'''


def main(tier, seed):
    t0 = time.time()
    wd = workdir(PROP)
    rng = rng_for(PROP, seed)
    proof = prove(PROP)
    violations = []
    # --- the documented constant
    src = open(os.path.join(AU_INC, "au", "conversion_policy.hh")).read()
    mt = re.search(r"OVERFLOW_THRESHOLD\s*=\s*([0-9']+)", src)
    thr_src = int(mt.group(1).replace("'", "")) if mt else None
    if thr_src != THRESH:
        violations.append({"what": f"OVERFLOW_THRESHOLD in the source is {thr_src}, the documented value is {THRESH}", "class": "threshold",
                           "no_input": True, "broken": "Generated constant overflowThreshold = 2147", "rec": {"kind": "const", "value": thr_src}})
    ratios = gen_ratios(rng, tier)
    reps = INTS + FLTS
    # --- trait questions, one TU per chunk of ratios (must compile: totality)
    cells = [(ri, r2, r1) for ri in range(len(ratios)) for r2 in reps for r1 in reps]
    nchunks = 16
    configs = [("g++", "c++14"), ("clang++-14", ["c++14", "c++17", "c++20"][seed % 3])]
    results = {}
    stats = {"ratios": len(ratios), "rep_pairs": len(reps) ** 2, "trait_questions": 0, "configs": [], "permitted": 0, "refused": 0,
             "value_cases": 0, "values_checked": 0, "call_site_probes": 0, "tu_failures": 0}

    def tu_text(ids):
        lines = [PRELUDE]
        for ri in sorted({ri for ri, _, _ in ids}):
            lines.append(f"using M{ri} = decltype({cxx_mag(ratios[ri])});")
        lines.append("int main() {")
        for (ri, r2, r1) in ids:
            lines.append(f'  printf("Q {ri} {r2} {r1} conv=%d ctor=%d diffdim=%d ovl=%d\\n", '
                         f"int(std::is_convertible<au::Quantity<Scaled<M{ri}>, {CT[r1]}>, au::Quantity<VBase, {CT[r2]}>>::value), "
                         f"int(std::is_constructible<au::Quantity<VBase, {CT[r2]}>, au::Quantity<Scaled<M{ri}>, {CT[r1]}>>::value), "
                         f"int(std::is_convertible<au::Quantity<VOther, {CT[r1]}>, au::Quantity<VBase, {CT[r2]}>>::value), "
                         f"int(sizeof(Pick<au::Quantity<VBase, {CT[r2]}>, au::Quantity<VOther, {CT[r2]}>>::f("
                         f"std::declval<au::Quantity<Scaled<M{ri}>, {CT[r1]}>>()))));")
        lines.append("  return 0;\n}")
        return "\n".join(lines)
    for ci, (compiler, std) in enumerate(configs):
        cfg = f"{compiler} -std={std}"
        stats["configs"].append(cfg)
        sel = cells if ci == 0 or tier == "thorough" else rng.sample(cells, min(len(cells), 900))

        def build(k):
            ids = [c for j, c in enumerate(sel) if j % nchunks == k]
            if not ids:
                return ids, 0, "", ""
            src_p = os.path.join(wd, f"q{ci}_{k}.cc")
            open(src_p, "w").write(tu_text(ids))
            exe = os.path.join(wd, f"q{ci}_{k}")
            rc, out = cxx(src_p, exe, compiler=compiler, std=std, san=False, opt="-O0", extra=["-fconstexpr-ops-limit=1000000000"] if compiler == "g++" else [])
            if rc != 0:
                return ids, rc, out, ""
            return ids, 0, "", run([exe])[1]
        for ids, rc, out, o in pmap(build, range(nchunks)):
            if rc != 0:
                stats["tu_failures"] += 1
                # totality violation: find one failing question
                culprit = None
                for (ri, r2, r1) in ids[:400]:
                    p1 = os.path.join(wd, f"one_{ri}_{r2}_{r1}.cc")
                    open(p1, "w").write(tu_text([(ri, r2, r1)]))
                    rc1, out1 = cxx(p1, None, compiler=compiler, std=std, san=False, syntax_only=True)
                    if rc1 != 0:
                        culprit = (ri, r2, r1, out1)
                        break
                if culprit:
                    ri, r2, r1, out1 = culprit
                    ms = aulib.pack_str(ratios[ri], "mag")
                    violations.append({"what": f"asking whether Quantity<U*({ms}), {CT[r1]}> converts to Quantity<U, {CT[r2]}> (std::is_convertible, "
                                               f"is_constructible, or overload resolution among f(Quantity<U,{CT[r2]}>), f(Quantity<OtherDim,{CT[r2]}>), "
                                               f"f(...)) is a hard error under {cfg} (the policy predicate is not total)", "class": "totality",
                                       "rec": {"kind": "totality", "ratio": ms, "R1": r1, "R2": r2, "config": cfg,
                                               "errors": [l for l in out1.split("\n") if "error" in l][:3]}})
                else:
                    violations.append({"what": f"trait TU does not compile under {cfg}", "class": "tu-build", "no_input": True,
                                       "broken": "harness", "rec": {"kind": "build", "out": out[-2000:]}})
                continue
            for line in o.split("\n"):
                if line.startswith("Q "):
                    f = line.split()
                    results.setdefault((int(f[1]), f[2], f[3]), {})[cfg] = kv(line)
    # the same questions with other C++ types of the same width and signedness (long long for int64_t = long, plain char /
    # signed char for int8_t, ...): the answer may depend on width and signedness only
    ALT = {"i64": ["long long"], "u64": ["unsigned long long"], "i8": ["char", "signed char"], "u8": ["unsigned char"], "i16": ["short"],
           "u16": ["unsigned short"], "i32": ["int"], "u32": ["unsigned"]}
    altc = [k for k in results if k[1] in ALT and k[2] in ALT and "g++ -std=c++14" in results[k]]
    rng.shuffle(altc)
    altc = altc[: (160 if tier == "quick" else 1500)]
    if altc:
        lines = [PRELUDE]
        for ri in sorted({ri for ri, _, _ in altc}):
            lines.append(f"using M{ri} = decltype({cxx_mag(ratios[ri])});")
        lines.append("int main() {")
        alt_pick = {}
        for j, (ri, r2, r1) in enumerate(altc):
            a2, a1 = rng.choice(ALT[r2] + [CT[r2]]), rng.choice(ALT[r1])
            alt_pick[j] = (a2, a1)
            lines.append(f'  printf("A {j} conv=%d ctor=%d\\n", '
                         f"int(std::is_convertible<au::Quantity<Scaled<M{ri}>, {a1}>, au::Quantity<VBase, {a2}>>::value), "
                         f"int(std::is_constructible<au::Quantity<VBase, {a2}>, au::Quantity<Scaled<M{ri}>, {a1}>>::value));")
        lines.append("  return 0;\n}")
        ap = os.path.join(wd, "alt_types.cc")
        open(ap, "w").write("\n".join(lines))
        rc, out = cxx(ap, os.path.join(wd, "alt_types"), san=False, opt="-O0", extra=["-fconstexpr-ops-limit=1000000000"])
        if rc != 0:
            violations.append({"what": "trait questions with long long / char / short operands do not compile (the policy predicate is not total for "
                                       "these arithmetic types)", "class": "totality-alt", "no_input": True, "broken": "harness / totality",
                               "rec": {"kind": "build", "errors": [l for l in out.split("\n") if "error" in l][:3]}})
        else:
            stats["alt_type_questions"] = 0
            for line in run([os.path.join(wd, "alt_types")])[1].split("\n"):
                if line.startswith("A "):
                    j = int(line.split()[1])
                    r = kv(line)
                    ri, r2, r1 = altc[j]
                    ref = results[(ri, r2, r1)]["g++ -std=c++14"]
                    stats["alt_type_questions"] += 1
                    if r["conv"] != ref["conv"] or r["ctor"] != ref["ctor"]:
                        a2, a1 = alt_pick[j]
                        ms = aulib.pack_str(ratios[ri], "mag")
                        violations.append({"what": f"is_convertible<Quantity<U*({ms}), {a1}>, Quantity<U, {a2}>> = {r['conv']} but the same question with "
                                                   f"{CT[r1]} / {CT[r2]} (same width and signedness) answers {ref['conv']}", "class": "alt-type",
                                           "rec": {"kind": "alt-type", "ratio": ms, "R1": r1, "R2": r2, "alt1": a1, "alt2": a2, "impl": r, "ref": ref}})
    drv = Driver()
    keys = sorted(results)
    ans = drv.ask([f"policy {r2} {r1} 1 {aulib.pack_str(ratios[ri], 'mag')}" for (ri, r2, r1) in keys])
    samples = []
    permitted_int = []
    for (ri, r2, r1), a in zip(keys, ans):
        m = kv(a)
        ms = aulib.pack_str(ratios[ri], "mag")
        want = formula(r2, r1, ratios[ri])
        for cfg, r in results[(ri, r2, r1)].items():
            stats["trait_questions"] += 1
            base = {"ratio": ms, "R1": r1, "R2": r2, "config": cfg}
            got = r["conv"] == "1"
            stats["permitted" if got else "refused"] += 1
            if got != want:
                violations.append({"what": f"is_convertible<Quantity<U*({ms}), {CT[r1]}>, Quantity<U, {CT[r2]}>> = {got}, the documented formula says {want}",
                                   "class": "formula", "rec": dict(base, kind="formula", impl=got, formula=want)})
            if got != (m["permit"] == "1"):
                violations.append({"what": f"model and implementation differ on the policy for ({ms}, {r1} -> {r2})", "class": "corr", "no_input": True,
                                   "broken": "correspondence: permitImplicitFrom", "rec": dict(base, kind="corr", model=a, impl=r)})
            if r.get("ovl") != ("1" if want else "3"):
                violations.append({"what": f"overload resolution among f(Quantity<U,{CT[r2]}>), f(Quantity<OtherDim,{CT[r2]}>), f(...) for an argument "
                                           f"Quantity<U*({ms}), {CT[r1]}> picks candidate {r.get('ovl')}; the policy says {'1' if want else '3 (the fallback)'}",
                                   "class": "overload", "rec": dict(base, kind="overload", impl=r, formula=want)})
            if r["diffdim"] != "0":
                violations.append({"what": "is_convertible is true across different dimensions", "class": "diffdim", "rec": dict(base, kind="diffdim")})
            # explicit construction is deleted: constructible iff implicitly convertible
            if r["ctor"] != r["conv"]:
                violations.append({"what": f"is_constructible differs from is_convertible for ({ms}, {r1} -> {r2})", "class": "ctor",
                                   "rec": dict(base, kind="ctor", impl=r)})
        if want and is_int(r2) and is_int(r1) and len(samples) < 5 and ratios[ri]:
            samples.append({"ratio": ms, "R1": r1, "R2": r2, "model": a, "impl": results[(ri, r2, r1)]})
        if want and is_int(r2) and is_int(r1):
            permitted_int.append((ri, r2, r1))
    # --- values: every permitted integral conversion is exact for all |x| <= 2147 that both reps hold
    rng.shuffle(permitted_int)
    vcases = permitted_int[: (60 if tier == "quick" else 400)]
    if vcases:
        lines = [PRELUDE, "static volatile long g_ub = 0;\nextern \"C\" void __ubsan_on_report(void) { g_ub = g_ub + 1; }"]
        for ri in sorted({c[0] for c in vcases}):
            lines.append(f"using M{ri} = decltype({cxx_mag(ratios[ri])});")
        lines.append("int main() {")
        for j, (ri, r2, r1) in enumerate(vcases):
            k = 1
            for b, e in ratios[ri].items():
                k *= int(b[1:]) ** int(e)
            lo = max(-THRESH, ty_lo(r1), ty_lo(r2))
            hi = min(THRESH, ty_hi(r1), ty_hi(r2))
            lines.append(f"  {{ long bad = 0, n = 0, first = 0; long ub0 = g_ub; for (long x = {lo}; x <= {hi}; ++x) {{ ++n; "
                         f"au::Quantity<VBase, {CT[r2]}> q = au::make_quantity<Scaled<M{ri}>>(static_cast<{CT[r1]}>(x)); "
                         f"__int128 got = q.in(VBase{{}}); if (got != (__int128)x * (__int128){k}ull) {{ if (!bad) first = x; ++bad; }} }} "
                         f'printf("V {j} n=%ld bad=%ld first=%ld ub=%ld\\n", n, bad, first, g_ub - ub0); }}')
        lines.append("  return 0;\n}")
        vp = os.path.join(wd, "values.cc")
        open(vp, "w").write("\n".join(lines))
        exe = os.path.join(wd, "values")
        rc, out = cxx(vp, exe, std="c++14", san="exact", opt="-O1")  # exact-count UBSan handlers: every offending x is counted
        if rc != 0:
            violations.append({"what": "value harness for permitted conversions does not compile", "class": "values-build", "no_input": True,
                               "broken": "harness / policy says permitted but conversion ill-formed", "rec": {"kind": "build", "out": out[-2000:]}})
        else:
            rc, o, e = run([exe], env=UBSAN_ENV)
            for line in o.split("\n"):
                if line.startswith("V "):
                    r = kv(line)
                    j = int(line.split()[1])
                    ri, r2, r1 = vcases[j]
                    stats["value_cases"] += 1
                    stats["values_checked"] += int(r["n"])
                    if r["bad"] != "0" or r["ub"] != "0":
                        violations.append({"what": f"permitted implicit conversion ({aulib.pack_str(ratios[ri], 'mag')}, {r1} -> {r2}) is not exact / executes UB at x={r['first']}",
                                           "class": "value", "rec": {"kind": "value", "ratio": aulib.pack_str(ratios[ri], "mag"), "R1": r1, "R2": r2,
                                                                     "x": int(r["first"]), "ub": r["ub"]}})
    # --- call-site consequences: unit-only .as(u), mixed ==, +, common_type compile iff the policy permits
    import math

    def unrepresentable_in_float(mag, rep):
        """The factor's exact value lies outside the finite positive range of the floating rep (F21's region)."""
        if rep not in FLTS:
            return False
        lg = sum(float(Fraction(e)) * (math.log2(math.pi) if b == "pi" else math.log2(int(b[1:]))) for b, e in mag.items())
        hi, lo = {"f32": (128, -149), "f64": (1024, -1074), "f80": (16384, -16445)}[rep]
        return lg >= hi - 1e-9 or lg < lo - 1e-9
    probes = []
    cand = [(ri, r2, r1) for (ri, r2, r1) in keys if is_int(r1) or rng.random() < 0.1]
    # the factors beyond every floating range are always among the probed ones (known finding F21 lives there)
    huge = [(ri, r2, r1) for (ri, r2, r1) in keys if unrepresentable_in_float(ratios[ri], "f64")]
    rng.shuffle(huge)
    rng.shuffle(cand)
    for (ri, r2, r1) in cand[: (40 if tier == "quick" else 300)] + huge[:6]:
        ms = aulib.pack_str(ratios[ri], "mag")
        # q.as(VBase{}) on Quantity<Scaled<M>, R1>: gate = ImplicitRepPermitted<R1, M>
        a = kv(drv.ask([f"policy {r1} {r1} 1 {ms}"])[0])
        un1 = unrepresentable_in_float(ratios[ri], r1)
        probes.append(("as", ri, r1, r1, a["core"] == "1",
                       f"auto r = au::make_quantity<Scaled<M{ri}>>(static_cast<{CT[r1]}>(1)).as(VBase{{}}); (void)r;", un1))
        probes.append(("in", ri, r1, r1, a["core"] == "1",
                       f"auto r = au::make_quantity<Scaled<M{ri}>>(static_cast<{CT[r1]}>(1)).in(VBase{{}}); (void)r;", un1))
        # q1 == q2 with common rep C: both operands must convert implicitly to Quantity<CommonUnit, C>
        c = common_rep(r1, r2)
        mags = [ratios[ri], {}]
        bases = set(ratios[ri])
        g = {b: min(Fraction(ratios[ri].get(b, 0)), Fraction(0)) for b in bases}
        g = {b: e for b, e in g.items() if e != 0}
        ok = True
        un2 = False
        for mm in mags:
            rel = uadd(mm, g, -1)
            a2 = kv(drv.ask([f"policy {c} {c} 1 {aulib.pack_str(rel, 'mag')}"])[0])
            ok = ok and a2["core"] == "1"
            un2 = un2 or unrepresentable_in_float(rel, c)
        qa = f"au::make_quantity<Scaled<M{ri}>>(static_cast<{CT[r1]}>(1))"
        qb = f"au::make_quantity<VBase>(static_cast<{CT[r2]}>(1))"
        probes.append(("eq", ri, r2, r1, ok, f"bool b = ({qa} == {qb}); (void)b;", un2))
        # the other mixed-unit operations go through the same two implicit conversions; operand order must not matter
        kind2, code2 = rng.choice([("lt", f"bool b = ({qb} < {qa}); (void)b;"), ("add", f"auto s = {qa} + {qb}; (void)s;"),
                                   ("sub", f"auto s = {qb} - {qa}; (void)s;"), ("ge", f"bool b = ({qa} >= {qb}); (void)b;"),
                                   ("ne", f"bool b = ({qb} != {qa}); (void)b;")])
        probes.append((kind2, ri, r2, r1, ok, code2, un2))

    def probe(pr):
        kind, ri, r2, r1, expect, code, _un = pr
        p1 = os.path.join(wd, f"probe_{kind}_{ri}_{r2}_{r1}.cc")
        open(p1, "w").write(PRELUDE + f"using M{ri} = decltype({cxx_mag(ratios[ri])});\nint main() {{ {code} return 0; }}\n")
        rc, out = cxx(p1, None, san=False, syntax_only=True)
        return pr, rc, out
    for pr, rc, out in pmap(probe, probes):
        kind, ri, r2, r1, expect, code, unrep = pr
        stats["call_site_probes"] += 1
        ms = aulib.pack_str(ratios[ri], "mag")
        if (rc == 0) != expect:
            violations.append({"what": f"call site `{kind}` for ({ms}, {r1}, {r2}) {'compiles' if rc == 0 else 'is rejected'} but the policy "
                                       f"{'refuses' if not expect else 'permits'} it", "class": "callsite-" + kind,
                               "rec": {"kind": "callsite", "site": kind, "ratio": ms, "R1": r1, "R2": r2, "expected_compiles": expect,
                                       "float_factor_unrepresentable": unrep, "rejected_by_get_value": "outside range of destination type" in out,
                                       "errors": [l for l in out.split("\n") if "error" in l][:2]}})
        elif rc != 0 and not any(s in out for s in ("Dangerous conversion", "static assertion failed", "static_assert failed", "no match", "invalid operands",
                                                    "no type named", "deleted")):
            violations.append({"what": "call-site probe rejected for an unexpected reason", "class": "callsite-diag", "no_input": True,
                               "broken": "probe allow-list", "rec": {"kind": "probe", "out": out[-800:]}})
    coverage = {"evaluations": stats["trait_questions"] + stats["values_checked"] + stats["call_site_probes"],
                "distinct_nontrivial": len(keys),
                "rule": "case = (ratio U1/U2, R1, R2): ratios k, 1/k straddling 2147*k = max(R2) and k = max(R2) for every integral rep, "
                        "p/q, pi, roots, 10^30, 10^400; 11x11 reps; every permitted integral case converts every |x| <= 2147; "
                        "distinct_nontrivial = distinct (ratio, R1, R2) trait questions answered",
                "samples": samples, "distribution": stats}
    return finish(PROP, tier, seed, t0, proof, coverage, violations, ASSUME)


def replay(path):
    rec = json.load(open(path))
    print(json.dumps(rec.get("rec"), indent=1))
    return 1

"""C07 — the common unit is the greatest common divisor unit, symmetric in its inputs."""
import itertools
import json
import math
import os
import time
from fractions import Fraction

import aulib
import uexpr
from intconv import _cheap
from vlib import CONFIGS, Driver, cxx, finish, kv, pmap, prove, rng_for, run, workdir

PROP = "C07"
ASSUME = [
    "lists containing two distinct named units of identical dimension, magnitude and origin are excluded (documented limitation)",
    "which of several quantity-equivalent inputs is returned depends on the library's unit order; model and implementation are "
    "compared on the result's dimension/magnitude, on whether the result is one of the inputs, and on the ratios — not on which input",
    "C07_perm is proved for every strict total order on unit types; that the library's order is one on the sampled units is the "
    "per-run order-table obligation of C02",
]


def mag_value(m):
    """Fraction value of an exponent dict with integer exponents and no pi, else None."""
    v = Fraction(1)
    for b, e in m.items():
        e = Fraction(e)
        if b == "pi" or e.denominator != 1:
            return None
        v *= Fraction(int(b[1:])) ** int(e)
    return v


def factor_small(n):
    return aulib.factor(n)


def frac_to_mag(fr):
    m = {}
    for p, e in factor_small(fr.numerator).items():
        m[f"p{p}"] = Fraction(e)
    for p, e in factor_small(fr.denominator).items():
        m[f"p{p}"] = m.get(f"p{p}", 0) - Fraction(e)
    return {b: e for b, e in m.items() if e != 0}


def rand_scale(rng):
    """(mag dict, C++ magnitude expression) for a random positive scale factor."""
    r = rng.random()
    if r < 0.55:
        # rational with cheap factorisation, numerator/denominator up to 2^40
        def pick():
            for _ in range(200):
                k = rng.choice([3, 6, 10, 16, 24, 32, 40])
                v = rng.randrange(1, 1 << k)
                if _cheap(v):
                    return v
            return 7
        a, b = pick(), pick()
        g = math.gcd(a, b)
        a, b = a // g, b // g
        m = frac_to_mag(Fraction(a, b))
        return m, f"(au::mag<{a}ull>() / au::mag<{b}ull>())"
    if r < 0.8:
        a = rng.choice([2, 3, 5, 10, 12, 60, 1000, 1024, 254, 9, 25])
        b = rng.choice([1, 1, 3, 7, 100, 127, 360])
        g = math.gcd(a, b)
        a, b = a // g, b // g
        return frac_to_mag(Fraction(a, b)), f"(au::mag<{a}>() / au::mag<{b}>())"
    if r < 0.9:
        k = rng.choice([1, -1, 2])
        a = rng.choice([1, 2, 180, 3])
        m = uexpr.add(frac_to_mag(Fraction(a)), {"pi": Fraction(k)})
        return m, f"(au::pow<{k}>(au::Magnitude<au::Pi>{{}}) * au::mag<{a}>())"
    a = rng.choice([2, 3, 5, 8])
    n = rng.choice([2, 3])
    m = {b: e / n for b, e in frac_to_mag(Fraction(a)).items()}
    return m, f"au::root<{n}>(au::mag<{a}>())"


def gen_lists(rng, A, count):
    # group atoms by dimension
    groups = {}
    for k, a in A.atoms.items():
        groups.setdefault(tuple(sorted(a["dim"].items())), []).append(k)
    dims = [d for d, ks in groups.items() if len(ks) >= 2]
    lists = []
    gen_named = []          # generated named structs: (name, base key, mag dict, cxx mag expr)
    for i in range(count):
        d = rng.choice(dims)
        n = rng.choice([2, 2, 3, 3, 4])
        items = []
        sigs = set()
        base_sigs = []
        prev_scales = []
        tries = 0
        while len(items) < n and tries < 50:
            tries += 1
            r = rng.random()
            base = rng.choice(groups[d])
            if r < 0.4:
                it = {"kind": "atom", "key": base, "mag": dict(A.atoms[base]["mag"]), "named": True,
                      "cxx": A.atoms[base]["cxx_type"], "origin": A.atoms[base]["has_origin"]}
            else:
                # now and then the SAME scale factor as an earlier item of this list (Celsius*2 next to Kelvins*2: equal
                # dimension, magnitude and scale, different origin — every ordering key up to the origin ties)
                sm, sc = rng.choice(prev_scales) if prev_scales and rng.random() < 0.35 else rand_scale(rng)
                prev_scales.append((sm, sc))
                mag = uexpr.add(A.atoms[base]["mag"], sm)
                if r < 0.8:
                    it = {"kind": "scaled", "key": base, "smag": sm, "mag": mag, "named": False,
                          "cxx": f"decltype({A.atoms[base]['cxx_unit']} * {sc})", "origin": A.atoms[base]["has_origin"]}
                else:
                    name = f"VGen{len(gen_named)}"
                    gen_named.append((name, f"decltype({A.atoms[base]['cxx_unit']} * {sc})"))
                    it = {"kind": "gen", "key": base, "gid": 5000 + len(gen_named), "mag": mag, "named": True,
                          "cxx": name, "origin": A.atoms[base]["has_origin"]}
            sig = (tuple(sorted(it["mag"].items())), it["origin"])
            if it["named"] and sig in sigs:
                continue            # documented exclusion: two named units of identical dim/mag/origin
            # ... including the named units *inside* scaled units (they meet in DistinctUnscaledUnits)
            # the unit that reaches DistinctUnscaledUnits: the base of an anonymous ScaledUnit, the unit itself when it is named (a
            # generated struct derived from a ScaledUnit is its own unscaled unit, with the scaled magnitude)
            if it["kind"] == "gen":
                ident, bsig = it["cxx"], (tuple(sorted(it["mag"].items())), it["origin"])
            else:
                ident, bsig = base, (tuple(sorted(A.atoms[base]["mag"].items())), A.atoms[base]["has_origin"])
            if any(b2 != ident and s2 == bsig for b2, s2 in base_sigs):
                continue
            base_sigs.append((ident, bsig))
            if it["named"]:
                sigs.add(sig)
            items.append(it)
        if len(items) >= 2:
            lists.append({"dim": dict(d), "items": items})
    # directed: two DISTINCT base units of equal dimension and magnitude but different origin (Celsius / Kelvins,
    # Fahrenheit / Rankines, prefixed forms) carrying the SAME scale factor: every ordering key before the origin ties
    pairs = []
    for d, ks in groups.items():
        for a in ks:
            for b in ks:
                if a < b and A.atoms[a]["mag"] == A.atoms[b]["mag"] and A.atoms[a]["has_origin"] != A.atoms[b]["has_origin"]:
                    pairs.append((d, a, b))
    rng.shuffle(pairs)
    for d, a, b in pairs[:6]:
        sm, sc = rand_scale(rng)
        def sc_item(base):
            return {"kind": "scaled", "key": base, "smag": sm, "mag": uexpr.add(A.atoms[base]["mag"], sm), "named": False,
                    "cxx": f"decltype({A.atoms[base]['cxx_unit']} * {sc})", "origin": A.atoms[base]["has_origin"]}
        def at_item(base):
            return {"kind": "atom", "key": base, "mag": dict(A.atoms[base]["mag"]), "named": True, "cxx": A.atoms[base]["cxx_type"],
                    "origin": A.atoms[base]["has_origin"]}
        lists.append({"dim": dict(d), "items": [sc_item(a), sc_item(b)]})
        lists.append({"dim": dict(d), "items": [sc_item(b), at_item(a), sc_item(a)]})
    # directed: distinct anonymous COMPOUND units (UnitProducts: a*b, a/b, 1/a) of identical dimension and magnitude (Hertz*Meters
    # vs Meters/Seconds) — every ordering key up to the last one (OrderAsUnitProduct) ties; and compounds next to named units
    plain = [k for k, a in A.atoms.items() if not a["has_origin"]]
    some = rng.sample(plain, min(len(plain), 36))
    by_sig = {}
    def hsig(dm):
        return (tuple(sorted((b, Fraction(e)) for b, e in dm[0].items())), tuple(sorted((b, Fraction(e)) for b, e in dm[1].items())))
    for k in plain:
        by_sig.setdefault(hsig(uexpr.sem(("atom", k), A)), []).append(("atom", k))
    for a in some:
        by_sig.setdefault(hsig(uexpr.sem(("pow", ("atom", a), Fraction(-1)), A)), []).append(("pow", ("atom", a), Fraction(-1)))
        for b in some:
            if a != b:
                for t in (("mul", ("atom", a), ("atom", b)), ("div", ("atom", a), ("atom", b))):
                    by_sig.setdefault(hsig(uexpr.sem(t, A)), []).append(t)
    cands = []
    for sg, ts in by_sig.items():
        comp = [t for t in ts if t[0] != "atom"]
        for t1 in comp[:6]:
            for t2 in ts:
                if t2 == t1 or (t1[0] == "mul" and t2[0] == "mul" and set(map(str, t1[1:])) == set(map(str, t2[1:]))):
                    continue
                ks = uexpr.atoms_of(t1) + uexpr.atoms_of(t2)
                sigs_ = {}
                ok = True
                for k in ks:                 # no two DISTINCT named units of identical dimension and magnitude (documented exclusion)
                    if sigs_.setdefault(A.sig(k), k) != k:
                        ok = False
                if ok and sg[0]:             # dimensioned only (two different spellings of the unitless unit collapse)
                    cands.append((sg, t1, t2))
    rng.shuffle(cands)
    def tree_item(t):
        d_, m_ = uexpr.sem(t, A)
        if t[0] == "atom":
            return at_item_any(t[1])
        return {"kind": "tree", "tree": t, "mag": {b: Fraction(e) for b, e in m_.items()}, "named": False,
                "cxx": f"UT({uexpr.cxx(t, A, 'unit')})", "origin": False}
    def at_item_any(base):
        return {"kind": "atom", "key": base, "mag": dict(A.atoms[base]["mag"]), "named": True, "cxx": A.atoms[base]["cxx_type"],
                "origin": A.atoms[base]["has_origin"]}
    for sg, t1, t2 in cands[:8]:
        d_ = {b: e for b, e in uexpr.sem(t1, A)[0].items()}
        lists.append({"dim": d_, "items": [tree_item(t1), tree_item(t2)]})
        sm, sc = rand_scale(rng)
        k0 = uexpr.atoms_of(t1)[0]
        lists.append({"dim": d_, "items": [tree_item(t2), tree_item(t1), {"kind": "tree", "tree": ("scale", t1, (sm, sc)),
                      "mag": uexpr.add({b: Fraction(e) for b, e in uexpr.sem(t1, A)[1].items()}, sm), "named": False,
                      "cxx": f"decltype(UT({uexpr.cxx(t1, A, 'unit')}){{}} * {sc})", "origin": False}]})
    return lists, gen_named


def item_sexpr(it, A, dim):
    ds = aulib.pack_str(dim, "dim")
    if it["kind"] == "atom":
        a = A.atoms[it["key"]]
        return f"( n {a['id']} {ds} {aulib.pack_str(a['mag'], 'mag')} )"
    if it["kind"] == "gen":
        return f"( n {it['gid']} {ds} {aulib.pack_str(it['mag'], 'mag')} )"
    if it["kind"] == "tree":
        return uexpr.sexpr(it["tree"], A)
    a = A.atoms[it["key"]]
    return f"( scale ( n {a['id']} {ds} {aulib.pack_str(a['mag'], 'mag')} ) {aulib.pack_str(it['smag'], 'mag')} )"


PRELUDE = '''#include <cstdio>
#include <string>
#include <type_traits>
#include "au/au.hh"
#include "au/prefix.hh"
%s
#include "%s"
using au::pow; using au::root;
#define UT(...) au::AssociatedUnitT<std::decay_t<decltype(__VA_ARGS__)>>
'''


def block(i, L):
    us = [it["cxx"] for it in L["items"]]
    n = len(us)
    lines = ["  {", f"    using C = au::CommonUnitT<{', '.join(us)}>;", "    std::string perm, inp, ratios;"]
    for p in itertools.permutations(range(n)):
        lines.append(f"    perm += std::is_same<C, au::CommonUnitT<{', '.join(us[j] for j in p)}>>::value ? '1' : '0';")
    lines.append(f"    perm += std::is_same<C, au::CommonUnitT<{', '.join([us[0]] + us)}>>::value ? '1' : '0';")
    lines.append(f"    perm += std::is_same<C, au::CommonUnitT<{', '.join(us + [us[-1], us[0]])}>>::value ? '1' : '0';")
    for u in us:
        lines.append(f"    inp += std::is_same<C, {u}>::value ? '1' : '0';")
        lines.append(f"    ratios += vser::magnitude_str(au::unit_ratio({u}{{}}, C{{}})) + \";\";")
    if n >= 3:
        lines.append(f"    int nest = au::are_units_quantity_equivalent(au::CommonUnitT<au::CommonUnitT<{us[0]}, {us[1]}>, "
                     f"{', '.join(us[2:])}>{{}}, C{{}}) && au::are_units_quantity_equivalent(au::CommonUnitT<{us[0]}, "
                     f"au::CommonUnitT<{', '.join(us[1:])}>>{{}}, C{{}});")
    else:
        lines.append(f"    int nest = std::is_same<typename std::common_type_t<au::Quantity<{us[0]}, int>, au::Quantity<{us[1]}, long>>::Unit, C>::value"
                     f" && std::is_same<typename std::common_type_t<au::Quantity<{us[1]}, double>, au::Quantity<{us[0]}, float>>::Unit, C>::value;")
    lines.append(f'    printf("L {i} dim=%s mag=%s perm=%s input=%s nest=%d ratios=%s\\n", vser::dim_str<C>().c_str(), '
                 'vser::mag_str<C>().c_str(), perm.c_str(), inp.c_str(), nest, ratios.c_str());')
    lines.append("  }")
    return "\n".join(lines)


def write_tu(path, blocks, A, gen_named):
    inc = "\n".join(f'#include "{h}"' for h in A.headers())
    with open(path, "w") as f:
        f.write(PRELUDE % (inc, os.path.join(aulib.HARNESS_INC, "serialize.hh")))
        for name, ty in gen_named:
            f.write(f"struct {name} : {ty} {{}};\n")
        f.write("int main() {\n" + "\n".join(blocks) + "\n  return 0;\n}\n")


def main(tier, seed):
    t0 = time.time()
    wd = workdir(PROP)
    rng = rng_for(PROP, seed)
    proof = prove(PROP)
    A = uexpr.Atoms(wd, rng, n_prefixed=30)
    nlists = 260 if tier == "quick" else 1600
    lists, gen_named = gen_lists(rng, A, nlists)
    blocks = [block(i, L) for i, L in enumerate(lists)]
    violations = []
    configs = [("g++", "c++14")]
    if tier == "thorough":
        configs = [("g++", "c++14"), ("clang++-14", "c++17")]
    else:
        configs.append(("clang++-14", ["c++14", "c++17", "c++20"][seed % 3]))
    nchunks = max(16, len(lists) // 16)      # at most ~16 lists (with all their permutations) per translation unit
    results = {}
    stats = {"lists": len(lists), "sizes": {}, "kinds": {}, "irrational_lists": 0, "is_input_lists": 0, "configs": [],
             "compile_failures": 0, "permutations_checked": 0}
    for L in lists:
        stats["sizes"][str(len(L["items"]))] = stats["sizes"].get(str(len(L["items"])), 0) + 1
        for it in L["items"]:
            stats["kinds"][it["kind"]] = stats["kinds"].get(it["kind"], 0) + 1
    for ci, (compiler, std) in enumerate(configs):
        cfg = f"{compiler} -std={std}"
        stats["configs"].append(cfg)
        ids_all = list(range(len(lists))) if ci == 0 or tier == "thorough" else sorted(rng.sample(range(len(lists)), min(60, len(lists))))

        def build(k):
            ids = [i for i in ids_all if i % nchunks == k]
            if not ids:
                return ids, 0, "", ""
            src = os.path.join(wd, f"l{ci}_{k}.cc")
            write_tu(src, [blocks[i] for i in ids], A, gen_named)
            exe = os.path.join(wd, f"l{ci}_{k}")
            rc, out = cxx(src, exe, compiler=compiler, std=std, san=False, opt="-O0")
            if rc != 0:
                return ids, rc, out, ""
            return ids, 0, "", run([exe])[1]
        for ids, rc, out, o in pmap(build, range(nchunks)):
            if rc != 0:
                def one(i):
                    src = os.path.join(wd, f"single{ci}_{i}.cc")
                    write_tu(src, [blocks[i]], A, gen_named)
                    exe = os.path.join(wd, f"single{ci}_{i}")
                    rc1, out1 = cxx(src, exe, compiler=compiler, std=std, san=False, opt="-O0")
                    return i, rc1, out1, (run([exe])[1] if rc1 == 0 else "")
                for i, rc1, out1, o1 in pmap(one, ids):
                    if rc1 != 0:
                        stats["compile_failures"] += 1
                        diag = "broken-ordering" if "Broken strict total ordering" in out1 else "other"
                        violations.append({"what": f"common unit of {[it['cxx'] for it in lists[i]['items']]} does not compile under {cfg} [{diag}]",
                                           "class": "compile-" + diag,
                                           "rec": {"kind": "compile", "diag": diag, "config": cfg, "units": [it["cxx"] for it in lists[i]["items"]],
                                                   "errors": [l for l in out1.split("\n") if "error" in l][:3]}})
                    o += o1
            for line in o.split("\n"):
                if line.startswith("L "):
                    results.setdefault(int(line.split()[1]), {})[cfg] = kv(line)
    # --- directed probes: quantity-equivalent but distinct powers / scalings of *non-twin* units (finding F10)
    probes = [
        ("F10-pow", "au::CommonUnitT<au::UnitPowerT<au::Feet, 2>, au::UnitPowerT<decltype(au::Inches{} * au::mag<12>()), 2>>"),
        ("F10-quantity-eq", "std::integral_constant<bool, (au::squared(au::feet)(1) == au::squared(au::inches * au::mag<12>())(1))>"),
        ("pow-distinct-ok", "au::CommonUnitT<au::UnitPowerT<au::Feet, 2>, au::UnitPowerT<au::Inches, 2>>"),
    ]

    def probe(pr):
        name, ty = pr
        src = os.path.join(wd, f"probe_{name}.cc")
        inc = "\n".join(f'#include "{h}"' for h in A.headers())
        open(src, "w").write(PRELUDE % (inc, os.path.join(aulib.HARNESS_INC, "serialize.hh")) + f"using T = {ty};\nT* p = nullptr;\nint main() {{ return 0; }}\n")
        rc, out = cxx(src, None, san=False, syntax_only=True)
        return name, ty, rc, out
    stats["directed_probes"] = len(probes)
    for name, ty, rc, out in pmap(probe, probes):
        if rc != 0:
            diag = "broken-ordering" if "Broken strict total ordering" in out else "other"
            violations.append({"what": f"common unit of quantity-equivalent, non-twin units does not compile: {ty} [{diag}]",
                               "class": "probe-" + name, "rec": {"kind": "compile", "diag": diag, "probe": name, "type": ty}})
    drv = Driver()
    ans = drv.ask(["common " + " ; ".join(item_sexpr(it, A, L["dim"]) for it in L["items"]) for L in lists])
    samples = []
    evaluations = 0
    distinct = 0
    for i, L in enumerate(lists):
        m = kv(ans[i])
        mags = [it["mag"] for it in L["items"]]
        names = [it["cxx"] for it in L["items"]]
        # exponent-level gcd (what a symmetric answer must be for rational ratios)
        bases = set().union(*[set(x) for x in mags])
        gmin = {b: min(Fraction(x.get(b, 0)) for x in mags) for b in bases}
        gmin = {b: e for b, e in gmin.items() if e != 0}
        ratios_exp = [uexpr.add(x, gmin, -1) for x in mags]
        rational = all(mag_value(r) is not None for r in ratios_exp)
        if not rational:
            stats["irrational_lists"] += 1
        for cfg, r in results.get(i, {}).items():
            evaluations += 1
            stats["permutations_checked"] += len(r["perm"])
            base = {"config": cfg, "units": names}
            if len(samples) < 4:
                samples.append({"units": names, "impl": r, "model": ans[i]})
            if "0" in r["perm"]:
                violations.append({"what": f"CommonUnitT is not the identical type under permutation/repetition of {names}",
                                   "class": "perm", "rec": dict(base, kind="perm", bits=r["perm"])})
            if r["nest"] != "1":
                violations.append({"what": f"nested / std::common_type common unit of {names} is not quantity-equivalent to the flat one",
                                   "class": "nest", "rec": dict(base, kind="nest")})
            if r["dim"] != aulib.pack_str(L["dim"], "dim"):
                violations.append({"what": f"common unit of {names} has the wrong dimension", "class": "dim", "rec": dict(base, kind="dim")})
            impl_ratios = [aulib.parse_pack(x) for x in r["ratios"].split(";") if x != ""]
            if rational:
                # number-level oracle: gcd of the scale factors relative to the first unit
                rel = [mag_value(uexpr.add(x, mags[0], -1)) for x in mags]
                den = 1
                for v in rel:
                    den = den * v.denominator // math.gcd(den, v.denominator)
                ints = [int(v * den) for v in rel]
                g = 0
                for a in ints:
                    g = math.gcd(g, a)
                want = [Fraction(a, g) for a in ints]
                got = [mag_value(x) for x in impl_ratios]
                if got != want:
                    violations.append({"what": f"unit_ratio(input, common) of {names} = {got}, exact gcd ratios are {want}",
                                       "class": "gcd", "rec": dict(base, kind="gcd", got=[str(x) for x in got], want=[str(x) for x in want])})
                else:
                    gg = 0
                    for w in want:
                        gg = math.gcd(gg, int(w))
                    if any(w.denominator != 1 or w <= 0 for w in want) or gg != 1:
                        violations.append({"what": "oracle self-check failed", "class": "oracle", "no_input": True, "broken": "oracle",
                                           "rec": dict(base, kind="oracle")})
                is_gcd_input = any(w == 1 for w in want)
                if is_gcd_input:
                    stats["is_input_lists"] += 1
                if ("1" in r["input"]) != is_gcd_input:
                    violations.append({"what": f"common unit of {names}: 'is one of the inputs' = {'1' in r['input']}, but an input "
                                               f"{'is' if is_gcd_input else 'is not'} already the gcd unit", "class": "is-input",
                                       "rec": dict(base, kind="is_input", bits=r["input"])})
            # model correspondence (property-level observables)
            if m.get("mag") != r["mag"] or m.get("dim") != r["dim"] or (m.get("input") == "1") != ("1" in r["input"]):
                violations.append({"what": f"model and implementation differ on the common unit of {names}", "class": "corr", "no_input": True,
                                   "broken": "correspondence: commonUnit vs CommonUnitT", "rec": dict(base, kind="corr", model=ans[i], impl=r)})
        if i in results:
            distinct += 1
    coverage = {"evaluations": evaluations, "distinct_nontrivial": distinct,
                "rule": "case = list of 2-4 same-dimension units (library units, prefixed units, anonymous scaled units, generated named "
                        "scaled units; scale factors rational up to 2^40, pi powers, roots), all permutations + two repetitions; "
                        "distinct_nontrivial = lists compiled and compared", "samples": samples, "distribution": stats}
    return finish(PROP, tier, seed, t0, proof, coverage, violations, ASSUME)


def replay(path):
    rec = json.load(open(path))
    print(json.dumps(rec.get("rec"), indent=1))
    print("replay: re-run `VERIF_SEED=%s ./check C07` to regenerate this case" % rec.get("seed"))
    return 1

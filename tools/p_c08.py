"""C08 — mixed-unit comparison, addition, subtraction and modulo are exact."""
import json
import time

import mixedops
from vlib import finish, prove, rng_for, workdir

PROP = "C08"
ASSUME = [
    "units of one dimension are modelled as positive rationals (scale relative to a base unit); that CommonUnitT of two such "
    "units has the rational-gcd scale is property C07 and is re-checked here on every unit pair used (unit_ratio printed by the harness)",
    "integral reps: the 8 fixed-width types; same-width distinct types (long vs long long) are identified",
    "literal statement is false on the code for %, <=> with different reps (PENDING finding F11) and for +/-/% whose exact "
    "result is not representable / not defined in the result rep; the theorems carry these as explicit hypotheses "
    "(C08_*_full + _counterexample + _partial)",
    "floating-point reps: checked by correspondence only (tolerance 3 units of roundoff of the operands; order may collapse to a "
    "tie within 2 units of roundoff but never invert); no Lean theorem",
    "C++20 rewritten-candidate behaviour of ==/</<=> is observed through the compilers (g++ 12, clang++ 14), not modelled",
]


def main(tier, seed):
    t0 = time.time()
    wd = workdir(PROP)
    proof = prove(PROP)
    cov, viol, pending = mixedops.explore(PROP, tier, seed, rng_for(PROP, seed), wd)
    if pending:
        keys = sorted({p["rec"]["op"] for p in pending})
        print(f"PENDING-FINDING: property={PROP} F11: {mixedops.PENDING_FINDINGS[0]['what']} "
              f"({len(pending)} matching case(s) this run, ops {keys}); e.g. {json.dumps(pending[0]['rec'], default=str)[:300]}")
    return finish(PROP, tier, seed, t0, proof, cov, viol, ASSUME)


def replay(path):
    rec = json.load(open(path))
    rec["_path"] = path
    print(json.dumps(rec.get("rec"), indent=1))
    return mixedops.replay(PROP, rec)

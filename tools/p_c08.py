"""C08 — mixed-unit comparison, addition, subtraction and modulo are exact."""
import json
import time

import mixedops
from vlib import finish, prove, rng_for, workdir

PROP = "C08"
ASSUME = [
    "units of one dimension are modelled as positive rationals (scale relative to a base unit); that CommonUnitT of two such "
    "units has the rational-gcd scale is property C07 and is re-checked here on every unit pair used (unit_ratio printed by the harness)",
    "integral reps: the 8 fixed-width types; same-width distinct types (long vs long long) are identified",
    "+, -: the exact sum/difference must be representable in the result rep (raw-operator behaviour, outside the statement): "
    "explicit hypothesis of C08_add_exact_partial / C08_sub_exact_partial, such cases are skipped (never executed) by the check; "
    "%: non-zero divisor and not min % -1",
    "% and <=> are proved and checked at full strength (scope = scalings fit the common rep) since the fix of F11/F17; "
    "regression guards C08_F11_fixed_mod / C08_F11_fixed_spaceship",
    "floating-point reps: checked by correspondence only (tolerance 3 units of roundoff of the operands; order may collapse to a "
    "tie within 2 units of roundoff but never invert); no Lean theorem",
    "C++20 rewritten-candidate behaviour of ==/</<=> is observed through the compilers (g++ 12, clang++ 14), not modelled",
]


def main(tier, seed):
    t0 = time.time()
    wd = workdir(PROP)
    proof = prove(PROP)
    cov, viol = mixedops.explore(PROP, tier, seed, rng_for(PROP, seed), wd)
    return finish(PROP, tier, seed, t0, proof, cov, viol, ASSUME)


def replay(path):
    rec = json.load(open(path))
    rec["_path"] = path
    print(json.dumps(rec.get("rec"), indent=1))
    return mixedops.replay(PROP, rec)

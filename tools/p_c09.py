"""C09 — QuantityPoint affine semantics."""
import json
import time

import pointops
from vlib import finish, prove, rng_for, workdir

PROP = "C09"
ASSUME = [
    "point units are modelled as (rational scale, origin = int count x rational unit); units without an origin() member "
    "(origin Zero) are not modelled (they reduce to Quantity conversions, C03-C05)",
    "integral reps only; floating-point reps are not covered by this check",
    "proved in Lean: the explicit-rep conversion in<NewRep>(unit) (both the equal-origin and the displaced-origin branch) "
    "equals trunc((v*u + o - o')/u') when every intermediate of the documented algorithm is representable; ordering and "
    "point - point are proved only under the premise that using_common_point_unit delivered exact counts (the exactness of the "
    "implicit conversion into the common point unit and the min-origin/integrality of CommonPointUnitT are C10 and are "
    "checked here by correspondence + Fraction oracle only)",
    "point +/- quantity and the forbidden operations are checked by compile probes / not modelled in Lean",
    "operator<=> on points converts through the common rep since the fix of F11/F17 (C09_spaceship, regression guard C09_F11_fixed_spaceship)",
]


def main(tier, seed):
    t0 = time.time()
    wd = workdir(PROP)
    proof = prove(PROP)
    cov, viol = pointops.explore(PROP, tier, seed, rng_for(PROP, seed), wd)
    return finish(PROP, tier, seed, t0, proof, cov, viol, ASSUME)


def replay(path):
    rec = json.load(open(path))
    rec["_path"] = path
    print(json.dumps(rec.get("rec"), indent=1))
    return pointops.replay(PROP, rec)

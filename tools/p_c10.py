"""C10 — the common point unit keeps every input integral and non-negative."""
import itertools
import json
import math
import os
import re
import time
from fractions import Fraction

import aulib
from p_c07 import frac_to_mag, mag_value
from vlib import AU_INC, Driver, cxx, finish, kv, pmap, prove, rng_for, run, workdir

PROP = "C10"
ASSUME = [
    "rational scales and rational origin offsets (the property's domain); origins are integer counts of a scaled unit",
    "C10_affine_full is a theorem about the model function commonPointAssembly (common origin, displacement units, Mag); that the "
    "library's CommonPointUnit IS that function is the correspondence (magnitude of the result and measured affine map of every "
    "input, every run); the symmetry of the type is proved for every strict total unit order (C10_perm)",
]

PRELUDE = '''#include <cstdio>
#include <string>
#include <type_traits>
#include "au/au.hh"
#include "au/prefix.hh"
#include "au/units/kelvins.hh"
#include "au/units/celsius.hh"
#include "au/units/fahrenheit.hh"
#include "au/units/meters.hh"
#include "au/units/seconds.hh"
#include "%s"
'''


def library_point_units():
    """(name, C++ type, unit mag, origin count, origin unit mag) for the library's temperature units, parsed from the headers."""
    res = []
    res.append(("Kelvins", "au::Kelvins", {}, None))
    units_dir = os.path.join(AU_INC, "au", "units")
    cel = open(os.path.join(units_dir, "celsius.hh")).read()
    fah = open(os.path.join(units_dir, "fahrenheit.hh")).read()
    m = re.search(r"origin\(\)\s*\{\s*return\s+centi\(kelvins\)\(([\d']+)\);", cel)
    if not m:
        raise RuntimeError("cannot parse Celsius::origin()")
    c_count = int(m.group(1).replace("'", ""))
    centi = {"p2": Fraction(-2), "p5": Fraction(-2)}
    res.append(("Celsius", "au::Celsius", {}, (c_count, centi)))
    m = re.search(r"origin\(\)\s*\{\s*return\s+centi\(rankines\)\(([\d']+)\);", fah)
    if not m:
        raise RuntimeError("cannot parse Fahrenheit::origin()")
    f_count = int(m.group(1).replace("'", ""))
    rank = {"p3": Fraction(-2), "p5": Fraction(1)}
    crank = {"p3": Fraction(-2), "p5": Fraction(-1), "p2": Fraction(-2)}
    res.append(("Rankines", "au::Rankines", rank, None))
    res.append(("Fahrenheit", "au::Fahrenheit", rank, (f_count, crank)))
    out = list(res)
    for pname, pm in (("Milli", {"p2": Fraction(-3), "p5": Fraction(-3)}), ("Kilo", {"p2": Fraction(3), "p5": Fraction(3)}),
                      ("Centi", centi), ("Deci", {"p2": Fraction(-1), "p5": Fraction(-1)})):
        for (n, ty, um, org) in res:
            out.append((f"{pname}<{n}>", f"au::{pname}<{ty}>", madd(um, pm), org))
    return out


def madd(p, q, k=1):
    o = dict(p)
    for b, e in q.items():
        o[b] = o.get(b, 0) + Fraction(e) * k
        if o[b] == 0:
            del o[b]
    return o


def rand_frac(rng, lim=1000):
    a, b = rng.randrange(1, lim + 1), rng.randrange(1, lim + 1)
    g = math.gcd(a, b)
    return Fraction(a // g, b // g)


def main(tier, seed):
    t0 = time.time()
    wd = workdir(PROP)
    rng = rng_for(PROP, seed)
    proof = prove(PROP)
    lib = library_point_units()
    gen_defs = []
    units = [{"name": n, "cxx": ty, "mag": um, "origin": org} for (n, ty, um, org) in lib]
    ngen = 40 if tier == "quick" else 300
    for k in range(ngen):
        s = rand_frac(rng)
        ou = rand_frac(rng, 200)
        cnt = rng.choice([0, 0, rng.randrange(1, 100000), -rng.randrange(1, 100000), rng.randrange(1, 50)])
        name = f"PG{k}"
        decl = f"struct {name} : decltype(au::Kelvins{{}} * (au::mag<{s.numerator}>() / au::mag<{s.denominator}>())) {{"
        org = None
        if cnt != 0 or rng.random() < 0.3:
            gen_defs.append(f"using OU{k} = decltype(au::Kelvins{{}} * (au::mag<{ou.numerator}>() / au::mag<{ou.denominator}>()));")
            decl += f" static constexpr auto origin() {{ return au::make_quantity<OU{k}>({cnt}LL); }}"
            org = (cnt, frac_to_mag(ou))
        decl += " };"
        gen_defs.append(decl)
        units.append({"name": name, "cxx": name, "mag": frac_to_mag(s), "origin": org})
    # directed families: point units of ONE scale whose distinct origins are written with the SAME number in different units
    # (5 x K/3 against 5 x K/11), and with different numbers whose order is opposite to the order of the origins themselves
    # (5 x K/11 < 4 x K/3): the library has to order origins as quantities, not as bare numbers
    fam_lists = []
    for k in range(4 if tier == "quick" else 16):
        sc = rand_frac(rng)
        ouA, ouB = rand_frac(rng, 60), rand_frac(rng, 60)
        while ouB == ouA:
            ouB = rand_frac(rng, 60)
        if ouA < ouB:
            ouA, ouB = ouB, ouA                       # ouA is the larger origin unit
        cnt = rng.choice([1, -1]) * rng.randrange(1, 5000)
        cnt2 = cnt + (1 if cnt > 0 else -1)             # |cnt2| > |cnt| yet cnt2 x ouB may lie on the other side of cnt x ouA
        fam = []
        for tag, (c, ou) in (("a", (cnt, ouA)), ("b", (cnt, ouB)), ("c", (cnt2, ouB))):
            name = f"PD{k}{tag}"
            gen_defs.append(f"using OUD{k}{tag} = decltype(au::Kelvins{{}} * (au::mag<{ou.numerator}>() / au::mag<{ou.denominator}>()));")
            gen_defs.append(f"struct {name} : decltype(au::Kelvins{{}} * (au::mag<{sc.numerator}>() / au::mag<{sc.denominator}>())) {{"
                            f" static constexpr auto origin() {{ return au::make_quantity<OUD{k}{tag}>({c}LL); }} }};")
            fam.append(len(units))
            units.append({"name": name, "cxx": name, "mag": frac_to_mag(sc), "origin": (c, frac_to_mag(ou))})
        fam_lists += [[fam[0], fam[1]], [fam[0], fam[2]], [fam[1], fam[2], fam[0]]]
    # anonymous COMPOUND point units of the temperature dimension (UnitProducts; origin ZERO): distinct types of identical
    # dimension, magnitude and origin that the library orders by its last tiebreaker, plus ones of other magnitudes
    comp = [("KkMpKm", "decltype(au::Kilo<au::Kelvins>{} * au::Meters{} / au::Kilo<au::Meters>{})", {}),
            ("mKMpmM", "decltype(au::Milli<au::Kelvins>{} * au::Meters{} / au::Milli<au::Meters>{})", {}),
            ("KSpS", "decltype(au::Kelvins{} * au::Kilo<au::Seconds>{} / (au::Seconds{} * au::mag<1000>()))", {}),
            ("KkMpM", "decltype(au::Kelvins{} * au::Kilo<au::Meters>{} / au::Meters{})", frac_to_mag(Fraction(1000))),
            ("mKMpM", "decltype(au::Milli<au::Kelvins>{} * au::Meters{} / au::Meters{})", None)]
    comp_ids = []
    for nm, ty, mg in comp:
        if mg is None:
            continue          # collapses to Milli<Kelvins> itself (the exponents of Meters cancel): not a compound
        comp_ids.append(len(units))
        units.append({"name": nm, "cxx": ty, "mag": mg, "origin": None})
    nlists = 160 if tier == "quick" else 2500
    lists = []
    named_ids = [i for i in range(len(units)) if i not in comp_ids]
    for (a, b) in ((0, 1), (1, 2), (0, 2), (0, 3)):
        lists.append([comp_ids[a], comp_ids[b]])
        lists.append([comp_ids[b], rng.choice(named_ids), comp_ids[a]])
    for fl in fam_lists:
        lists.append(fl)
        lists.append(fl + [rng.choice(named_ids[:len(lib)])])
    for _ in range(nlists):
        n = rng.choice([2, 2, 3, 3])
        ids = rng.sample(named_ids, n)
        # documented exclusion: two distinct units of identical magnitude and origin
        sig = set()
        ok = True
        for i in ids:
            u = units[i]
            o = Fraction(0) if u["origin"] is None else u["origin"][0] * mag_value(u["origin"][1])
            key = (tuple(sorted(u["mag"].items())), o)
            if key in sig:
                ok = False
            sig.add(key)
        if ok:
            lists.append(ids)
    blocks = []
    for li, ids in enumerate(lists):
        us = [units[i]["cxx"] for i in ids]
        n = len(us)
        b = ["  {", f"    using C = au::CommonPointUnitT<{', '.join(us)}>;", "    std::string perm, inp;"]
        for p in itertools.permutations(range(n)):
            b.append(f"    perm += std::is_same<C, au::CommonPointUnitT<{', '.join(us[j] for j in p)}>>::value ? '1' : '0';")
        b.append(f"    perm += std::is_same<C, au::CommonPointUnitT<{', '.join([us[-1]] + us)}>>::value ? '1' : '0';")
        for u in us:
            b.append(f"    inp += std::is_same<C, {u}>::value ? '1' : '0';")
        b.append(f'    printf("L {li} mag=%s perm=%s input=%s", vser::mag_str<C>().c_str(), perm.c_str(), inp.c_str());')
        for j, u in enumerate(us):
            b.append(f'    printf(" f{j}=%lld,%lld,%lld", (long long)au::make_quantity_point<{u}>(0LL).coerce_in(C{{}}), '
                     f"(long long)au::make_quantity_point<{u}>(1LL).coerce_in(C{{}}), (long long)au::make_quantity_point<{u}>(7LL).coerce_in(C{{}}));")
        b.append('    printf("\\n");\n  }')
        blocks.append("\n".join(b))
    violations = []
    configs = [("g++", "c++14"), ("clang++-14", ["c++14", "c++17", "c++20"][seed % 3])]
    nchunks = max(16, -(-len(blocks) // 10))      # bounded translation units: ~10 lists per TU in every tier
    results = {}
    stats = {"lists": len(lists), "units": len(units), "configs": [], "with_origin": sum(1 for u in units if u["origin"]),
             "is_input_lists": 0, "compile_failures": 0}
    def unit_tok(u):
        if u["origin"] is None:
            return f"{aulib.pack_str(u['mag'], 'mag')}|0|none"
        return f"{aulib.pack_str(u['mag'], 'mag')}|{u['origin'][0]}|{aulib.pack_str(u['origin'][1], 'mag')}"
    for ci, (compiler, std) in enumerate(configs):
        cfg = f"{compiler} -std={std}"
        stats["configs"].append(cfg)
        ids_all = list(range(len(lists))) if ci == 0 or tier == "thorough" else sorted(rng.sample(range(len(lists)), min(50, len(lists))))

        def build(k):
            ids = [i for i in ids_all if i % nchunks == k]
            if not ids:
                return ids, 0, "", ""
            src = os.path.join(wd, f"p{ci}_{k}.cc")
            with open(src, "w") as f:
                f.write(PRELUDE % os.path.join(aulib.HARNESS_INC, "serialize.hh"))
                f.write("\n".join(gen_defs) + "\nint main() {\n" + "\n".join(blocks[i] for i in ids) + "\n  return 0;\n}\n")
            exe = os.path.join(wd, f"p{ci}_{k}")
            rc, out = cxx(src, exe, compiler=compiler, std=std, san=True, opt="-O0")
            if rc != 0:
                return ids, rc, out, ""
            return ids, 0, "", run([exe])[1]
        for ids, rc, out, o in pmap(build, range(nchunks)):
            if rc != 0:
                stats["compile_failures"] += 1
                # which list is it?  compile each block of the chunk on its own
                culprit = None
                for i in ids:
                    p1 = os.path.join(wd, f"one{ci}_{i}.cc")
                    with open(p1, "w") as f:
                        f.write(PRELUDE % os.path.join(aulib.HARNESS_INC, "serialize.hh"))
                        f.write("\n".join(gen_defs) + "\nint main() {\n" + blocks[i] + "\n  return 0;\n}\n")
                    rc1, out1 = cxx(p1, None, compiler=compiler, std=std, san=False, syntax_only=True)
                    if rc1 != 0:
                        culprit = (i, out1)
                        break
                if culprit:
                    i, out1 = culprit
                    names = [units[j]["name"] for j in lists[i]]
                    violations.append({"what": f"CommonPointUnitT<{', '.join(names)}> (in some order) is a hard error under {cfg}: the common point unit "
                                               "of these same-dimension units does not exist", "class": "no-common-point-unit",
                                       "rec": {"kind": "hard-error", "units": [unit_tok(units[j]) for j in lists[i]], "names": names, "config": cfg,
                                               "errors": [l for l in out1.split("\n") if "error" in l][:3]}})
                else:
                    violations.append({"what": f"common-point-unit harness chunk does not compile under {cfg}", "class": "build", "no_input": True,
                                       "broken": "harness: CommonPointUnitT on generated units", "rec": {"kind": "build", "out": out[-2500:]}})
                continue
            for line in o.split("\n"):
                if line.startswith("L "):
                    results.setdefault(int(line.split()[1]), {})[cfg] = kv(line)
    drv = Driver()

    ans = drv.ask(["commonpoint " + " ; ".join(unit_tok(units[i]) for i in ids) for ids in lists])
    # Which of several *equal* minimal origins (e.g. ZERO and a declared origin of 0 counts) becomes the common origin depends on
    # the library's unit order (the fold runs over the sorted list); the model is therefore asked in every input order and the
    # implementation must agree with one of them.
    perm_req, perm_idx = [], []
    for li, ids in enumerate(lists):
        for p in itertools.permutations(ids):
            perm_req.append("commonpoint " + " ; ".join(unit_tok(units[i]) for i in p))
            perm_idx.append(li)
    perm_ans = drv.ask(perm_req)
    model_mags = {}
    for li, a in zip(perm_idx, perm_ans):
        model_mags.setdefault(li, set()).add(kv(a).get("mag"))
    stats["order_dependent_lists"] = sum(1 for v in model_mags.values() if len(v) > 1)
    samples = []
    evaluations = 0
    for li, ids in enumerate(lists):
        m = kv(ans[li])
        us = [units[i] for i in ids]
        s = [mag_value(u["mag"]) for u in us]
        o = [Fraction(0) if u["origin"] is None else u["origin"][0] * mag_value(u["origin"][1]) for u in us]
        omin = min(o)
        names = [u["name"] for u in us]
        for cfg, r in results.get(li, {}).items():
            evaluations += 1
            base = {"config": cfg, "units": names}
            if len(samples) < 4:
                samples.append({"units": names, "impl": r, "model": ans[li]})
            g = mag_value(aulib.parse_pack(r["mag"]))
            if "0" in r["perm"]:
                violations.append({"what": f"CommonPointUnitT of {names} is not the identical type under permutation/repetition", "class": "perm",
                                   "rec": dict(base, kind="perm", bits=r["perm"])})
            if g is None:
                violations.append({"what": f"common point unit of {names} has an irrational magnitude", "class": "irr", "rec": dict(base, kind="irr")})
                continue
            for j, u in enumerate(us):
                a = s[j] / g
                b = (o[j] - omin) / g
                f0, f1, f7 = [int(x) for x in r[f"f{j}"].split(",")]
                rec = dict(base, kind="affine", unit=u["name"], a=str(a), b=str(b), measured=[f0, f1, f7])
                if a.denominator != 1 or a <= 0 or b.denominator != 1 or b < 0:
                    violations.append({"what": f"converting {u['name']} to the common point unit of {names} is x -> {a}*x + {b}: not a positive "
                                               "integer scale and a non-negative integer offset", "class": "affine-int", "rec": rec})
                elif 7 * a + b >= 2 ** 56:
                    # the measurement runs in long long: beyond this size the library's own intermediate products may overflow
                    # (outside the statement: "for every input that does not overflow"); the integrality clauses above still apply
                    stats["affine_not_measured_too_large"] = stats.get("affine_not_measured_too_large", 0) + 1
                elif (f0, f1, f7) != (int(b), int(a + b), int(7 * a + b)):
                    violations.append({"what": f"measured conversion of {u['name']} to the common point unit of {names} is not x -> {a}*x + {b}",
                                       "class": "affine-measured", "rec": rec})
            has = any(s[j] == g and o[j] == omin for j in range(len(us)))
            if has:
                stats["is_input_lists"] += 1
            if has and "1" not in r["input"]:
                violations.append({"what": f"an input of {names} already has the common scale and origin but the result is a fresh CommonPointUnit",
                                   "class": "is-input", "rec": dict(base, kind="is_input")})
            if r["mag"] not in model_mags[li]:
                violations.append({"what": f"model and implementation differ on the common point unit of {names}", "class": "corr", "no_input": True,
                                   "broken": "correspondence: commonPointMag", "rec": dict(base, kind="corr", model=ans[li], impl=r["mag"])})
    coverage = {"evaluations": evaluations, "distinct_nontrivial": len(results),
                "rule": "case = list of 2-3 point units (Kelvins/Celsius/Fahrenheit/Rankines, prefixed forms, generated units with random rational "
                        "scale num,den<=1000 and origin = integer count (positive/zero/negative) of a random scaled unit), all permutations + a "
                        "repetition; for every input the affine map is measured at x=0,1,7", "samples": samples, "distribution": stats}
    return finish(PROP, tier, seed, t0, proof, coverage, violations, ASSUME)


def replay(path):
    rec = json.load(open(path))
    print(json.dumps(rec.get("rec"), indent=1))
    return 1

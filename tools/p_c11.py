"""C11 — magnitude evaluation and classification are exact."""
import json
import sys
sys.set_int_max_str_digits(0)
import os
import time
from decimal import Decimal, getcontext
from fractions import Fraction

import aulib
from vlib import Driver, cxx, finish, kv, pmap, prove, rng_for, run, workdir, ty_hi

PROP = "C11"
ASSUME = [
    "floating-point accuracy of get_value<float|double|long double> ('within a few ulps') is checked against an 100-digit "
    "evaluation, not proved; the Lean float model (rational + round-to-nearest-even at p=64, then one rounding to T) is compared "
    "bit-for-bit with the compilers' constant evaluation",
    "pi is the library's literal constant",
]
getcontext().prec = 120
PI = Decimal("3.14159265358979323846264338327950288419716939937510582097494459230781640628620899862803482534211706798214808651")

INT_T = ["i8", "u8", "i16", "u16", "i32", "u32", "i64", "u64"]
FLT_T = ["f32", "f64", "f80"]
CT = {"i8": "int8_t", "u8": "uint8_t", "i16": "int16_t", "u16": "uint16_t", "i32": "int32_t", "u32": "uint32_t",
      "i64": "int64_t", "u64": "uint64_t", "f32": "float", "f64": "double", "f80": "long double"}
FMAX = {"f32": Fraction((2 ** 24 - 1) * 2 ** 104), "f64": Fraction((2 ** 53 - 1) * 2 ** 971),
        "f80": Fraction((2 ** 64 - 1) * 2 ** (16384 - 64))}
FPREC = {"f32": 24, "f64": 53, "f80": 64}
FEMIN = {"f32": -126, "f64": -1022, "f80": -16382}
BIG_PRIMES = [18446744073709551557, 18446744073709551533, 9223372036854775837, 9223372036854775783, 4294967311, 4294967291,
              2147483647, 65537, 65521, 257, 251, 131, 127]
SMALL = [2, 3, 5, 7, 11, 13]
RATS = [Fraction(1, 2), Fraction(1, 3), Fraction(2, 3), Fraction(3, 2), Fraction(-1, 2), Fraction(-1, 3), Fraction(5, 2)]


def gen_mags(rng, n):
    mags = []

    def P(p, e):
        return {f"p{p}": Fraction(e)}

    def merge(*ds):
        out = {}
        for d in ds:
            for b, e in d.items():
                out[b] = out.get(b, 0) + e
        return {b: e for b, e in out.items() if e != 0}
    # straddlers of every arithmetic type's limits
    for k in (6, 7, 8, 14, 15, 16, 30, 31, 32, 62, 63, 64, 65, 126, 127, 128, 1022, 1023, 1024, 16382, 16383, 16384):
        mags.append(P(2, k))
        mags.append(merge(P(2, k - 2), P(3, 1)))
        mags.append(P(2, -k))
    for v in (127, 255, 32767, 65535, 2147483647, 4294967295, 9223372036854775807, 18446744073709551615):
        for w in (v, v + 1, v - 1):
            mags.append(int_mag(w))
    for k in (2, 4, 9, 18, 19, 20, 38, 39, 45, 50, 308, 309, 4931, 4932, 4933):
        mags.append(merge(P(2, k), P(5, k)))
        mags.append(merge(P(2, -k), P(5, -k)))
    for p in BIG_PRIMES:
        mags.append(P(p, 1))
        mags.append(merge(P(p, 1), P(2, rng.choice([1, -1, 2]))))
        mags.append(P(p, rng.choice([2, -1, Fraction(1, 2)])))
    # huge factors that cancel: every intermediate base power is beyond FLT_MAX (resp. DBL_MAX) but below LDBL_MAX, while the
    # exact value sits comfortably inside float's range — the arithmetic must be carried out in Widen<T> = long double
    import math
    for lo_e, hi_e in ((130, 1000), (1030, 12000)):
        for _ in range(3):
            a = rng.randrange(lo_e, hi_e)
            q = rng.choice([3, 5, 7])
            b = round(a / math.log2(q))
            mags.append(merge(P(2, a), P(q, -b)))
            mags.append(merge(P(2, -a), P(q, b)))
        a = rng.randrange(lo_e, min(hi_e, 4000))     # sqrt of 2^(2a+1): the bisection squares about 2^(2a), which must stay below LDBL_MAX
        mags.append(merge(P(2, Fraction(2 * a + 1, 2)), P(5, -round((a + 0.5) / math.log2(5)))))
    mags.append({"pi": Fraction(1)})
    mags.append({"pi": Fraction(2)})
    mags.append({"pi": Fraction(-1), "p2": Fraction(1)})
    mags.append({"pi": Fraction(1, 2)})
    mags.append({})
    # random products
    while len(mags) < n:
        m = {}
        for _ in range(rng.randrange(1, 4)):
            r = rng.random()
            if r < 0.6:
                p = rng.choice(SMALL)
                e = rng.choice([1, 2, 3, 5, 10, -1, -2, 20, 40] + RATS)
            elif r < 0.85:
                p = rng.choice(BIG_PRIMES)
                e = rng.choice([1, 1, 2, -1] + RATS[:3])
            else:
                p = None
                e = rng.choice([1, 2, -1, Fraction(1, 2), 3])
            m = merge(m, {"pi": Fraction(e)} if p is None else P(p, e))
        mags.append(m)
    # dedupe
    seen, out = set(), []
    for m in mags:
        k = tuple(sorted(m.items()))
        if k not in seen:
            seen.add(k)
            out.append(m)
    return out


def int_mag(v):
    from p_c07 import factor_small
    return {f"p{p}": Fraction(e) for p, e in factor_small(v).items()}


def cxx_mag(m):
    """C++ expression for an exponent dict."""
    if not m:
        return "au::ONE"
    parts = []
    for b, e in sorted(m.items()):
        base = "au::Magnitude<au::Pi>{}" if b == "pi" else f"au::mag<{b[1:]}ull>()"
        e = Fraction(e)
        if e == 1:
            parts.append(base)
        elif e.denominator == 1:
            parts.append(f"au::pow<{e.numerator}>({base})")
        elif e.numerator == 1:
            parts.append(f"au::root<{e.denominator}>({base})")
        else:
            parts.append(f"au::root<{e.denominator}>(au::pow<{e.numerator}>({base}))")
    return "(" + " * ".join(parts) + ")"


def exact_info(m):
    """(is_integer, is_rational, exact Fraction or None, Decimal approximation of ln(value))."""
    is_rat = all(b != "pi" and Fraction(e).denominator == 1 for b, e in m.items())
    is_int = is_rat and all(Fraction(e) >= 1 for e in m.values())
    ln = Decimal(0)
    for b, e in m.items():
        base = PI if b == "pi" else Decimal(int(b[1:]))
        ln += base.ln() * Decimal(Fraction(e).numerator) / Decimal(Fraction(e).denominator)
    val = None
    if is_rat and abs(ln) < 40000:
        val = Fraction(1)
        for b, e in m.items():
            val *= Fraction(int(b[1:])) ** int(e)
    return is_int, is_rat, val, ln


def intermediate_overflow(m):
    """Some single base power of the magnitude (or its reciprocal, for negative exponents) exceeds LDBL_MAX, so the library's
    long-double evaluation overflows on the way even if the final value is representable."""
    lnmax = Decimal(FMAX["f80"].numerator).ln()
    ln2 = Decimal(2).ln()
    for b, e in m.items():
        base = PI if b == "pi" else Decimal(int(b[1:]))
        e = Fraction(e)
        if abs(base.ln() * Decimal(e.numerator) / Decimal(e.denominator)) > lnmax:
            return True
        if abs(base.ln() * Decimal(e.numerator)) > lnmax:
            return True             # the integer power taken before the root
        if e.denominator > 1:
            # root(x, D) bisects on [1, x] and raises the first midpoint (about x/2) to the D-th power with the checked power:
            # that overflows long double when D * ln(x/2) > ln(LDBL_MAX), although the root itself is small
            lnx = abs(base.ln() * Decimal(e.numerator))
            if e.denominator * (lnx - ln2) > lnmax:
                return True
    return False


def parse_hexfloat(s):
    """'0x1.8p+3' / 'inf' / 'nan' → Fraction or str."""
    s = s.strip()
    if "inf" in s or "nan" in s:
        return s
    neg = s.startswith("-")
    s = s.lstrip("+-")
    assert s.startswith("0x"), s
    mant, exp = s[2:].split("p")
    if "." in mant:
        ip, fp = mant.split(".")
    else:
        ip, fp = mant, ""
    v = Fraction(int(ip + fp, 16), 16 ** len(fp)) * Fraction(2) ** int(exp)
    return -v if neg else v


PRELUDE = '''#include <cstdint>
#include <cstdio>
#include <string>
#include "au/magnitude.hh"
#include "%s"
template <typename T, bool Ok> struct Val { template <typename M> static void print(M) { printf("-"); } };
template <typename T> struct IntVal { template <typename M> static void print(M m) {
    auto v = au::get_value<T>(m); if (v < 0) printf("%%lld", (long long)v); else printf("%%llu", (unsigned long long)v); } };
template <> struct Val<int8_t, true> : IntVal<int8_t> {}; template <> struct Val<uint8_t, true> : IntVal<uint8_t> {};
template <> struct Val<int16_t, true> : IntVal<int16_t> {}; template <> struct Val<uint16_t, true> : IntVal<uint16_t> {};
template <> struct Val<int32_t, true> : IntVal<int32_t> {}; template <> struct Val<uint32_t, true> : IntVal<uint32_t> {};
template <> struct Val<int64_t, true> : IntVal<int64_t> {}; template <> struct Val<uint64_t, true> : IntVal<uint64_t> {};
template <> struct Val<float, true> { template <typename M> static void print(M m) { printf("%%a", (double)au::get_value<float>(m)); } };
template <> struct Val<double, true> { template <typename M> static void print(M m) { printf("%%a", au::get_value<double>(m)); } };
template <> struct Val<long double, true> { template <typename M> static void print(M m) { printf("%%La", au::get_value<long double>(m)); } };
template <typename T, typename M> void one(const char* tn, M m) {
    constexpr bool ok = au::representable_in<T>(M{});
    printf(" %%s=%%d:", tn, int(ok)); Val<T, ok>::print(m);
}
template <typename M> void row(int i, M m) {
    printf("M %%d isint=%%d israt=%%d num=%%s den=%%s ipart=%%s eq=%%d%%d", i, int(au::is_integer(m)), int(au::is_rational(m)),
           vser::magnitude_str(au::numerator(m)).c_str(), vser::magnitude_str(au::denominator(m)).c_str(),
           vser::magnitude_str(au::integer_part(m)).c_str(), int(m == m * au::ONE), int(m != m * au::mag<2>()));
    one<int8_t>("i8", m); one<uint8_t>("u8", m); one<int16_t>("i16", m); one<uint16_t>("u16", m);
    one<int32_t>("i32", m); one<uint32_t>("u32", m); one<int64_t>("i64", m); one<uint64_t>("u64", m);
    one<float>("f32", m); one<double>("f64", m); one<long double>("f80", m);
    printf("\\n");
}
'''


def ulp_ok(impl, ln_exact, t, tol_ulps=8):
    """|impl - exact| <= tol ulps(T) using a 120-digit evaluation of the exact value."""
    if isinstance(impl, str):
        return False
    if impl <= 0:
        return False
    ex = ln_exact.exp()
    imp = Decimal(impl.numerator) / Decimal(impl.denominator)
    # ulp at exact value
    e2 = int((ex.ln() / Decimal(2).ln()).to_integral_value(rounding="ROUND_FLOOR"))
    e2 = max(e2, FEMIN[t])
    ulp = Decimal(2) ** (e2 - (FPREC[t] - 1))
    return abs(imp - ex) <= tol_ulps * ulp


def main(tier, seed):
    t0 = time.time()
    wd = workdir(PROP)
    rng = rng_for(PROP, seed)
    proof = prove(PROP)
    mags = gen_mags(rng, 300 if tier == "quick" else 2500)
    violations = []
    configs = [("g++", "c++14"), ("clang++-14", ["c++14", "c++17", "c++20"][seed % 3])]
    nchunks = max(16, -(-len(mags) // 18))      # bounded translation units: ~18 cases per TU in every tier
    stats = {"magnitudes": len(mags), "configs": [], "ok_cells": 0, "nofit_cells": 0, "nonint_cells": 0, "neg_probes": 0,
             "float_cells_checked": 0, "irrational": 0, "integers": 0}
    results = {}
    for ci, (compiler, std) in enumerate(configs):
        cfg = f"{compiler} -std={std}"
        stats["configs"].append(cfg)
        ids_all = list(range(len(mags))) if ci == 0 or tier == "thorough" else sorted(rng.sample(range(len(mags)), min(len(mags), 100)))

        def build(k):
            ids = [i for i in ids_all if i % nchunks == k]
            if not ids:
                return ids, 0, "", ""
            src = os.path.join(wd, f"m{ci}_{k}.cc")
            with open(src, "w") as f:
                f.write(PRELUDE % os.path.join(aulib.HARNESS_INC, "serialize.hh"))
                f.write("int main() {\n")
                for i in ids:
                    f.write(f"  row({i}, {cxx_mag(mags[i])});\n")
                f.write("  return 0;\n}\n")
            exe = os.path.join(wd, f"m{ci}_{k}")
            extra = ["-fconstexpr-ops-limit=1000000000", "-fconstexpr-loop-limit=10000000"] if compiler == "g++" else ["-fconstexpr-steps=1000000000"]
            rc, out = cxx(src, exe, compiler=compiler, std=std, san=False, opt="-O0", extra=extra)
            if rc != 0:
                return ids, rc, out, ""
            return ids, 0, "", run([exe])[1]
        for ids, rc, out, o in pmap(build, range(nchunks)):
            if rc != 0:
                violations.append({"what": f"magnitude harness chunk does not compile under {cfg}", "class": "harness-build", "no_input": True,
                                   "broken": "correspondence harness (get_value / representable_in)", "rec": {"kind": "build", "config": cfg, "out": out[-2500:]}})
                continue
            for line in o.split("\n"):
                if line.startswith("M "):
                    results.setdefault(int(line.split()[1]), {})[cfg] = kv(line)
    drv = Driver()
    req = []
    for m in mags:
        ms = aulib.pack_str(m, "mag")
        req.append(f"classify {ms}")
        for t in INT_T + FLT_T:
            req.append(f"getvalue {t} {ms}")
    ans = drv.ask(req)
    samples = []
    evaluations = 0
    distinct = set()
    neg_candidates = []
    for i, m in enumerate(mags):
        blk = ans[i * 12:(i + 1) * 12]
        mc = kv(blk[0])
        mv = {t: kv(blk[1 + j]) for j, t in enumerate(INT_T + FLT_T)}
        is_int, is_rat, val, ln = exact_info(m)
        stats["integers"] += is_int
        stats["irrational"] += (not is_rat)
        ms = aulib.pack_str(m, "mag")
        num = {b: e for b, e in m.items() if e > 0}
        den = {b: -e for b, e in m.items() if e < 0}
        ipart = {b: Fraction(int(e)) for b, e in m.items() if b != "pi" and e >= 1}
        for cfg, r in results.get(i, {}).items():
            base = {"config": cfg, "mag": ms}
            # classification oracle
            want = {"isint": str(int(is_int)), "israt": str(int(is_rat)), "num": aulib.pack_str(num, "mag"),
                    "den": aulib.pack_str(den, "mag"), "ipart": aulib.pack_str(ipart, "mag"), "eq": "11"}
            for k, w in want.items():
                if r[k] != w:
                    violations.append({"what": f"classification of magnitude {ms}: {k} = {r[k]}, exact answer {w}", "class": "classify-" + k,
                                       "rec": dict(base, kind="classify", field=k, impl=r[k], exact=w)})
                if k != "eq" and mc.get(k) != r[k]:
                    violations.append({"what": f"model and implementation classify {ms} differently ({k})", "class": "corr-classify", "no_input": True,
                                       "broken": "correspondence: classify", "rec": dict(base, kind="corr", field=k, model=mc.get(k), impl=r[k])})
            for t in INT_T + FLT_T:
                evaluations += 1
                distinct.add((ms, t))
                cell = r[t]
                rep, valtxt = cell.split(":")
                mo = mv[t]
                rec = dict(base, T=t, impl=cell, model=blk[1 + (INT_T + FLT_T).index(t)])
                if rep == "1":
                    stats["ok_cells"] += 1
                elif mo["outcome"] == "nonint":
                    stats["nonint_cells"] += 1
                else:
                    stats["nofit_cells"] += 1
                    neg_candidates.append((i, t))
                # --- correspondence
                same = (rep == "1") == (mo["outcome"] == "ok")
                if same and rep == "1":
                    if t in INT_T:
                        same = valtxt == mo["val"]
                    else:
                        iv = parse_hexfloat(valtxt)
                        n, d = mo["val"].split("/") if "/" in mo["val"] else (mo["val"], "1")
                        same = (not isinstance(iv, str)) and iv == Fraction(int(n), int(d))
                if not same:
                    violations.append({"what": f"model and implementation differ on get_value<{CT[t]}>({ms})", "class": "corr-value", "no_input": True,
                                       "broken": "correspondence: getValueResult", "rec": dict(rec, kind="corr")})
                # --- oracle
                if t in INT_T:
                    fits = is_int and val is not None and val <= ty_hi(t)
                    if (rep == "1") != fits:
                        violations.append({"what": f"representable_in<{CT[t]}>({ms}) = {rep} but the exact value "
                                                   f"{'fits' if fits else 'does not fit / is not an integer'}", "class": f"rep-int-{t}",
                                           "rec": dict(rec, kind="oracle", observable="representable", signed=t.startswith('i'),
                                                       max_prime=max([int(b[1:]) for b in m if b != 'pi'] or [0]))})
                    elif rep == "1" and int(valtxt) != val:
                        violations.append({"what": f"get_value<{CT[t]}>({ms}) = {valtxt}, exact value {val}", "class": f"val-int-{t}",
                                           "rec": dict(rec, kind="oracle", observable="value", signed=t.startswith('i'),
                                                       max_prime=max([int(b[1:]) for b in m if b != 'pi'] or [0]))})
                else:
                    lnmax = Decimal(FMAX[t].numerator).ln() - Decimal(FMAX[t].denominator).ln()
                    margin = Decimal("1e-12")
                    # range of positive values of T: (denorm_min / 2, max]  (below that the value rounds to zero)
                    lnlow = Decimal(2).ln() * (FEMIN[t] - FPREC[t] + 1 - 1)
                    if lnlow + margin < ln < lnmax - margin:
                        fits = True
                    elif ln > lnmax + margin or ln < lnlow - margin:
                        fits = False
                    else:
                        fits = None
                    if fits is not None and (rep == "1") != fits:
                        violations.append({"what": f"representable_in<{CT[t]}>({ms}) = {rep} but the exact value is "
                                                   f"{'within' if fits else 'beyond'} the type's range", "class": f"rep-flt-{t}",
                                           "rec": dict(rec, kind="oracle", observable="representable", inverse_overflows=bool(-ln > lnmax), intermediate_overflow=intermediate_overflow(m))})
                    elif rep == "1":
                        stats["float_cells_checked"] += 1
                        iv = parse_hexfloat(valtxt)
                        if isinstance(iv, str) or iv <= 0 or not ulp_ok(iv, ln, t):
                            lnmin = Decimal(2).ln() * (FEMIN[t] - FPREC[t] + 1)
                            violations.append({"what": f"get_value<{CT[t]}>({ms}) = {valtxt}: not a strictly positive value within a few ulps of the exact real",
                                               "class": f"val-flt-{t}", "rec": dict(rec, kind="oracle", observable="value", underflow=bool(ln < lnmin),
                                                                                     maxexp=max([abs(int(Fraction(e))) for e in m.values()] or [0]),
                                                                                     zero=(not isinstance(iv, str) and iv == 0))})
            if len(samples) < 6 and len(m) >= 2:
                samples.append({"mag": ms, "impl": r, "model_f32": blk[9], "model_i64": blk[7]})
    # --- negative probes: get_value<T> must be a compile error where representable_in is false
    rng.shuffle(neg_candidates)
    neg = neg_candidates[: (16 if tier == "quick" else 80)]

    def probe(it):
        i, t = it
        src = os.path.join(wd, f"neg_{i}_{t}.cc")
        open(src, "w").write(f'#include <cstdint>\n#include "au/magnitude.hh"\nint main() {{ auto v = au::get_value<{CT[t]}>({cxx_mag(mags[i])}); return int(v); }}\n')
        rc, out = cxx(src, None, san=False, syntax_only=True, extra=["-fconstexpr-ops-limit=1000000000"])
        return i, t, rc, out
    for i, t, rc, out in pmap(probe, neg):
        stats["neg_probes"] += 1
        if rc == 0:
            violations.append({"what": f"get_value<{CT[t]}>({aulib.pack_str(mags[i], 'mag')}) compiles although representable_in is false",
                               "class": "neg-probe", "rec": {"kind": "oracle", "observable": "compile", "T": t, "mag": aulib.pack_str(mags[i], "mag")}})
        elif "static assertion failed" not in out and "static_assert failed" not in out:
            violations.append({"what": "negative probe rejected for an unexpected reason", "class": "neg-probe-diag", "no_input": True,
                               "broken": "probe allow-list", "rec": {"kind": "probe", "out": out[-800:]}})
    coverage = {"evaluations": evaluations, "distinct_nontrivial": len(distinct),
                "rule": "case = (magnitude, arithmetic type); magnitudes = straddlers of every type's limits (2^k, 10^k, max±1, primes up to "
                        "2^64-59, pi powers, roots) + seeded random products; 8 integer + 3 floating types; distinct = distinct (magnitude, type) cells",
                "samples": samples, "distribution": stats}
    return finish(PROP, tier, seed, t0, proof, coverage, violations, ASSUME)


def replay(path):
    rec = json.load(open(path))
    print(json.dumps(rec.get("rec"), indent=1))
    return 1

"""C12 — factorisation, primality and the modular helpers are exact on all 64-bit inputs.

Lean side: AuModel.{Mod,Primes,Factoring} (every uint64_t operation an explicit wrapping op that
records wrap / division by zero / fuel exhaustion) + AuProofs.C12.  This check
  1. re-extracts detail::FirstPrimes::values from the header into lean/Generated/FirstPrimes.lean
     (the theorem `C12_firstPrimes_are_the_first_100_primes` is re-checked against it),
  2. builds + audits the theorems,
  3. builds a harness that calls the real au::detail functions at run time under ASan/UBSan
     (clang: + unsigned-integer-overflow, so a wrap inside a modular helper is seen) and
       - sweeps is_prime / find_prime_factor exhaustively against an in-process sieve,
       - runs bulk guard-boundary + random operand triples of the modular helpers vs __int128,
       - answers single requests, which are compared line by line with the Lean driver and with
         the independent oracles below (big-int arithmetic, deterministic 12-base Miller-Rabin,
         an independent strong-Lucas test, Legendre/Euler Jacobi symbol, trial-division/rho
         factorisation),
  4. compiles static_assert(mag<a>()*mag<b>() == mag<a*b>()) probes and Prime<composite> negative
     probes.
"""
import json
import math
import os
import time

import vlib
from vlib import (UBSAN_ENV, Driver, cxx, finish, kv, pmap, prove, rng_for, run, workdir)

PROP = "C12"
M64 = 1 << 64
MAXU = M64 - 1

ASSUME = [
    "is_prime(n) <-> n prime for all 64-bit n is NOT proved (Baillie-PSW has no known 64-bit counterexample; that rests "
    "on a published exhaustive computation): it is covered by the sieve sweep and the adversarial sets of this run only",
    "modular helpers: proved for operands satisfying the documented preconditions (a < n, b < n; n odd for half_mod_odd; "
    "1 < n for pow_mod: pow_mod(b, 0, 1) returns 1, recorded as an observation, the library never calls it)",
    "termination of Pollard's rho with a proper factor is not proved; the model carries fuel and the correspondence "
    "requires the model never to run out of it on the explored inputs",
    "std::uintmax_t / std::size_t are 64-bit (LP64)",
    "finding F19 (is_perfect_square's `curr * curr` wrapped; is_prime rejected the prime 10785637507345693793) is fixed in "
    "/repo; the 18 odd former false positives found by an exploration outside this check are replayed on every run as "
    "regression inputs (class is_perfect_square_false_positives)",
]

# Genuine defects of /repo awaiting a decision by the coordinator (narrow structural match).
# Regression inputs of finding F19 (fixed in /repo): odd 64-bit non-squares for which the former `curr * curr == n`
# test of is_perfect_square wrapped to a false "true" (a Newton iterate curr >= 2^32 with curr^2 = n mod 2^64);
# strong_lucas then answered COMPOSITE whatever n was.  The first entry is PRIME (Au.C12_isPrime_regression_F19):
# is_prime rejected it and mag<n>() did not compile.  Every run requires all of them to be classified correctly.
SQUARE_FALSE_POSITIVES = [10785637507345693793, 10685528935143053617, 15405458870843798969, 3705102001104354505,
                          12673371479969681361, 9425997995154109105, 11837406317022473153, 10479697266598077369,
                          6889858086595868265, 18364858902909781353, 17480118059326553593, 4454208207196073833,
                          14852596459453078769, 14672545851565818025, 10969573557020164425, 3074454413583988969,
                          4419674699631115401, 10501764065474018401]

# ----------------------------------------------------------------------------------------------
# Independent oracles (Python big integers; none of this goes through the Lean model)
# ----------------------------------------------------------------------------------------------

MR_BASES = (2, 3, 5, 7, 11, 13, 17, 19, 23, 29, 31, 37)


def sprp(n, a):
    """n odd > 2, is n a strong probable prime to base a (mathematical definition)."""
    d, s = n - 1, 0
    while d % 2 == 0:
        d //= 2
        s += 1
    x = pow(a, d, n)
    if x == 1 or x == n - 1:
        return True
    for _ in range(s - 1):
        x = x * x % n
        if x == n - 1:
            return True
    return False


def is_prime_det(n):
    """Deterministic for n < 3.3e24 (first 12 prime bases)."""
    if n < 2:
        return False
    for p in MR_BASES:
        if n % p == 0:
            return n == p
    return all(sprp(n, a) for a in MR_BASES)


def jacobi_ref(a, n):
    """Jacobi symbol (a/n), n odd positive — textbook algorithm on Python ints."""
    assert n > 0 and n % 2 == 1
    a %= n
    res = 1
    while a:
        while a % 2 == 0:
            a //= 2
            if n % 8 in (3, 5):
                res = -res
        a, n = n, a
        if a % 4 == 3 and n % 4 == 3:
            res = -res
        a %= n
    return res if n == 1 else 0


def jacobi_euler(a, n):
    """Jacobi symbol through the definition: product of Legendre symbols (Euler's criterion) over the
    prime factorisation of n by trial division.  Only for small n."""
    res = 1
    m = n
    p = 3
    while m > 1:
        if p * p > m:
            p = m
        if m % p == 0:
            e = pow(a % p, (p - 1) // 2, p)
            leg = 0 if a % p == 0 else (1 if e == 1 else -1)
            while m % p == 0:
                m //= p
                res *= leg
        p += 2
    return res


def selfridge_d(n):
    d = 5
    while True:
        if jacobi_ref(d, n) == -1:
            return d
        d = -d - 2 if d > 0 else -d + 2


def slprp(n):
    """Strong Lucas probable prime, Selfridge parameters P=1, Q=(1-D)/4 — via the general Lucas
    sequences U_k(P,Q), V_k(P,Q) and Q^k (not the D-only recurrences the library uses).
    n odd, >= 3, not a perfect square."""
    D = selfridge_d(n)
    P, Q = 1, (1 - D) // 4
    d, s = n + 1, 0
    while d % 2 == 0:
        d //= 2
        s += 1
    inv2 = (n + 1) // 2
    U, V, Qk = 1, P, Q % n
    for bit in bin(d)[3:]:
        U, V = U * V % n, (V * V - 2 * Qk) % n
        Qk = Qk * Qk % n
        if bit == "1":
            U, V = (P * U + V) * inv2 % n, (D * U + P * V) * inv2 % n
            Qk = Qk * Q % n
    if U == 0 or V == 0:
        return True
    for _ in range(s - 1):
        V = (V * V - 2 * Qk) % n
        Qk = Qk * Qk % n
        if V == 0:
            return True
    return False


def isqrt_exact(n):
    r = math.isqrt(n)
    return r * r == n


def small_primes(limit):
    sieve = bytearray([1]) * (limit + 1)
    sieve[0:2] = b"\0\0"
    for i in range(2, int(limit ** 0.5) + 1):
        if sieve[i]:
            sieve[i * i::i] = bytearray(len(sieve[i * i::i]))
    return [i for i in range(limit + 1) if sieve[i]]


_SP = small_primes(1 << 16)


def factorize(n):
    """Independent factorisation: trial division by primes < 2^16, then Pollard rho (Floyd) with
    is_prime_det.  Returns sorted list of (p, e)."""
    f = {}
    for p in _SP:
        if p * p > n:
            break
        while n % p == 0:
            f[p] = f.get(p, 0) + 1
            n //= p
    stack = [n] if n > 1 else []
    while stack:
        m = stack.pop()
        if m == 1:
            continue
        if is_prime_det(m):
            f[m] = f.get(m, 0) + 1
            continue
        r = math.isqrt(m)
        if r * r == m:
            stack += [r, r]
            continue
        c = 1
        while True:
            x = y = 2
            g = 1
            while g == 1:
                x = (x * x + c) % m
                y = (y * y + c) % m
                y = (y * y + c) % m
                g = math.gcd(abs(x - y), m)
            if g != m:
                stack += [g, m // g]
                break
            c += 1
    return sorted(f.items())


def next_prime(n):
    n += 1
    while not is_prime_det(n):
        n += 1
    return n


def prev_prime(n):
    n -= 1
    while not is_prime_det(n):
        n -= 1
    return n


# ----------------------------------------------------------------------------------------------
# Input generation
# ----------------------------------------------------------------------------------------------

# Composites that are strong pseudoprimes to several of the first prime bases (literature values:
# Pomerance-Selfridge-Wagstaff, Jaeschke; all re-verified by `classify` below on every run).
KNOWN_SPSP = [2047, 3277, 4033, 4681, 8321, 15841, 29341, 42799, 49141, 52633, 65281, 74665, 80581, 85489, 88357,
              90751, 1373653, 25326001, 3215031751, 2152302898747, 3474749660383, 341550071728321,
              3825123056546413051, 1194649, 12327121, 3280593611, 4759123141, 1122004669633, 21652684502221]
# Strong Lucas pseudoprimes (Selfridge), OEIS A217255 — re-verified on every run.
KNOWN_SLPSP = [5459, 5777, 10877, 16109, 18971, 22499, 24569, 25199, 40309, 58519, 75077, 97439, 100127, 113573,
               115639, 130139, 155819, 158399, 161027, 162133, 176399, 176471, 189419, 192509, 197801, 224369,
               230691, 231703, 243629, 253259, 268349, 288919, 313499, 324899]
CARMICHAEL_SMALL = [561, 1105, 1729, 2465, 2821, 6601, 8911, 10585, 15841, 29341, 41041, 46657, 52633, 62745, 63973,
                    75361, 101101, 115921, 126217, 162401, 172081, 188461, 252601, 278545, 294409, 314821, 334153,
                    340561, 399001, 410041, 449065, 488881, 512461]


# 64-bit strong pseudoprimes to base 2 of the form p (2p - 1), strong Lucas pseudoprimes (Selfridge) of the form p (p + 2), and
# for every Selfridge parameter D = 5, -7, -11, 13, ... a 64-bit prime and an odd non-square composite whose FIRST D with Jacobi
# symbol -1 is that D (so the D search, as_int(D), the sign flip and the add_mod / sub_mod branch of the Lucas steps are all
# taken in every run).  Computed once by the oracles of this file; every run re-verifies the class of each number.
SPSP2_LARGE = [12181843815811593661, 14811761568772207621, 9269310106578494701, 5011124664954566161, 6328524484308871153,
               759823906339510741, 354007588690161253, 11814414004620541]
SLPSP_LARGE = [16999815898738889999, 8116790629643312399, 17031658112554702499, 4048669310000691599, 647582293436000399,
               46938500743702499, 4136213419559999, 190106462168099]
SELFRIDGE_D_CASES = {5: [9343011604681400473, 6109266425478011647], -7: [13620027594328823069, 10440117543739112099],
                     -11: [14387255950864620511, 13525877483307780021], 13: [13145588558752952681, 5087871929258161219],
                     -15: [10753363897583239241, 13294663436952109199], 17: [7021141555674586201, 11651727857047569201],
                     -19: [10772281499581988299, 15129848408265170671], 21: [None, 5349133289750120495],
                     -23: [8217178344535151209, 15911587260944214711], -27: [None, 7829091977568844115],
                     29: [7147053013668183001, 13892592856209732505], -31: [8738455344246012961, 10005443827795974541]}


# Chernick Carmichael numbers (6k+1)(12k+1)(18k+1) — permanent (the seeded search adds more)
CHERNICK_FIXED = [1729, 294409, 56052361, 118901521, 172947529, 216821881, 1307351018993397769, 1307898589087370881,
                  18178322015949081769, 18230155044646434121, 18265521244069461529, 18308657203978189969, 18326840011945274449,
                  18349357898532971521]
# Products of primes > 541 for which the FIRST divisor returned by find_pollard_rho_factor is COMPOSITE (found by emulating the
# library's rho in Python; the class of seeded mutants C12-1 .. C12-5), with 3, 4 and 5 prime factors, and numbers for which the
# divisor of that divisor is composite again (the refinement loop must iterate at least twice).
FIRST_RHO_COMPOSITE = [208489597, 212301107, 214588013, 216874919, 217524943, 217637221, 714139277, 720410533, 723795977, 728249603,
                       734520859, 741352219, 139839906181, 160431711227, 178488058337, 180433162363, 182115107501, 183710750261,
                       183767470879, 184096314151, 103755698477471, 126073634279009, 129954945504847, 139059135794963,
                       139761675637723, 141548885783351, 145987226045723, 147278370484411]
RHO_COMPOSITE_TWICE = [1522159653893243, 585783760753141, 790895071331999, 1352684244701837, 1367637728271301, 246288631938224413,
                       565307917090778047, 587747506848853859, 2259637553542113449]
# p^k * q with p > 541 (p^2, p^3, p^4 times a small, a medium and the largest possible prime q)
PRIME_POWER_TIMES_Q = [168454667, 174670187, 573179603, 19609858651, 20333409211, 66724010659, 92144702849, 97291294159, 299209897627,
                       310249930747, 578338219427, 1018084054243, 2418140381747, 10726592682097, 11325708930527, 50403152458403,
                       54191250846563, 67324526754931, 163667814001969, 172809211426079, 281496452005891, 583543263401843,
                       1027246810731187, 4295111254295107, 5867446197107059, 6308419874303539, 67930447495725379, 89526294259077043,
                       96254730764326003, 158477666198553139, 1036492032027767683, 18446707410961652983, 18446743466343431633,
                       18446743678769110631, 18446743944856862693, 18446744046582004039, 18446744070482622361, 18446744070588681893,
                       18446744073683320259, 18446744073696266567, 18446744073706109471]


def permanent_domain_points():
    """Both ends of the domain and every 'round' neighbourhood, judged by every P-line observable in EVERY run: 0..3, 2^k and
    2^k +- 1 for the word-size k, the ten largest 64-bit primes and the primes around 2^32 / 2^63, squares of the top 32-bit primes,
    every product of two primes next to 2^32 (and 2^16, 2^31), 10^k - 1, 10^k, 10^k + 1."""
    pts = [0, 1, 2, 3, 4, (1 << 16) - 1, 1 << 16, (1 << 16) + 1, (1 << 31) - 1, 1 << 31, (1 << 31) + 1, (1 << 32) - 1, 1 << 32, (1 << 32) + 1,
           (1 << 63) - 1, 1 << 63, (1 << 63) + 1, MAXU - 2, MAXU - 1, MAXU]
    q = M64
    for _ in range(10):
        q = prev_prime(q)
        pts.append(q)
    for c in (1 << 16, 1 << 31, 1 << 32, 1 << 63):
        lo1 = prev_prime(c); lo2 = prev_prime(lo1); hi1 = next_prime(c); hi2 = next_prime(hi1)
        pts += [lo1, lo2, hi1, hi2]
        if c <= (1 << 32):
            near = [lo2, lo1, hi1, hi2]
            for i, a in enumerate(near):
                for b in near[i:]:
                    if a * b < M64:
                        pts.append(a * b)                      # squares of the top primes and all p * q next to 2^16 / 2^31 / 2^32
    for k in range(1, 20):
        for v in (10 ** k - 1, 10 ** k, 10 ** k + 1):
            if v < M64:
                pts.append(v)
    pts.append(9999999999999999999 // 9 * 9)                   # 9999999999999999999 = 10^19 - 1
    return sorted(set(pts))


def prime_powers_below_2_64():
    """p^k < 2^64 for every k >= 1 (k up to 63 for p = 2): primes inside the trial-division table, at its end (523, 541), just
    beyond it (547, 557: Pollard's rho must split a prime power), and at 2^16, 2^21, 2^32."""
    out = []
    for p in (2, 3, 5, 7, 11, 13, 523, 541, 547, 557, 65521, 65537, 2097143, 4294967291):
        assert is_prime_det(p)
        v = p
        while v < M64:
            out.append(v)
            v *= p
    return sorted(set(out))


def gen_adversarial(rng, tier):
    """dict class → list of n (all < 2^64)."""
    k = 1 if tier == "quick" else 4
    adv = {}
    adv["known_spsp"] = [n for n in KNOWN_SPSP if 2 < n < M64]
    adv["known_slpsp"] = list(KNOWN_SLPSP)
    adv["carmichael_small"] = list(CARMICHAEL_SMALL)
    # Chernick Carmichael numbers (6k+1)(12k+1)(18k+1)
    ch = []
    tries = 0
    while len(ch) < 40 * k and tries < 400000:
        tries += 1
        kk = rng.randrange(1, 242000)
        a, b, c = 6 * kk + 1, 12 * kk + 1, 18 * kk + 1
        if a * b * c < M64 and is_prime_det(a) and is_prime_det(b) and is_prime_det(c):
            ch.append(a * b * c)
    adv["carmichael_chernick"] = ch + [7 * 13 * 19, 37 * 73 * 109]
    # n = p (2p - 1): frequent strong pseudoprimes to base 2; keep those that really are
    sp = []
    tries = 0
    while len(sp) < 30 * k and tries < 200000:
        tries += 1
        bits = rng.choice([12, 16, 20, 24, 28, 30, 31, 32])
        p = rng.randrange(1 << (bits - 1), 1 << bits) | 1
        q = 2 * p - 1
        if p * q < M64 and is_prime_det(p) and is_prime_det(q) and sprp(p * q, 2):
            sp.append(p * q)
    adv["spsp2_p_2p_minus_1"] = sp
    # twin-prime products p (p + 2): frequent (strong) Lucas pseudoprimes; keep the strong ones
    lp = []
    tries = 0
    while len(lp) < 12 * k and tries < 300000:
        tries += 1
        bits = rng.choice([10, 14, 18, 22, 26, 30, 32])
        p = rng.randrange(1 << (bits - 1), 1 << bits) | 1
        if p % 3 == 0 or p % 5 == 0 or (p + 2) % 3 == 0 or (p + 2) % 5 == 0 or (p + 2) % 7 == 0 or p % 7 == 0:
            continue
        if p * (p + 2) < M64 and is_prime_det(p) and is_prime_det(p + 2) and slprp(p * (p + 2)):
            lp.append(p * (p + 2))
    adv["slpsp_twin_products"] = lp
    # prime squares
    ps = []
    for bits in (2, 4, 8, 9, 10, 12, 16, 17, 20, 24, 28, 31, 32):
        for _ in range(2 * k):
            p = next_prime(rng.randrange(1 << (bits - 1), 1 << bits))
            if p * p < M64:
                ps.append(p * p)
    ps += [prev_prime(1 << 32) ** 2, prev_prime(1 << 16) ** 2, next_prime(1 << 16) ** 2, next_prime(1 << 31) ** 2, 541 ** 2, 547 ** 2,
           523 ** 2]
    adv["prime_squares"] = sorted(set(ps))
    # semiprimes with factors near 2^16, 2^31, 2^32
    sm = []
    for c in (1 << 16, 1 << 31, 1 << 32):
        near = [prev_prime(c), next_prime(c), prev_prime(prev_prime(c)), next_prime(next_prime(c))]
        for _ in range(3 * k):
            near.append(next_prime(c + rng.randrange(-c // 64, c // 64)))
        for _ in range(6 * k):
            p, q = rng.choice(near), rng.choice(near)
            if p * q < M64:
                sm.append(p * q)
    adv["semiprimes_near_2^16_2^31_2^32"] = sorted(set(sm))
    # primes (and their neighbours) adjacent to powers of two
    pk = []
    for e in range(2, 65):
        c = 1 << e
        for v in (prev_prime(c), c - 1, c + 1):
            if 1 < v < M64:
                pk.append(v)
        if e < 64:
            pk.append(next_prime(c))
    adv["adjacent_to_2^k"] = sorted(set(pk))
    # the FirstPrimes / trial-division boundary (541^2) and the 32-bit boundary of is_perfect_square's product
    edge = [541 * 541 - 2, 541 * 541, 541 * 541 + 2, 541 * 547, 547 * 547, 547 * 557, 292693, 292679, 523 * 541, 2, 3, 4, 5, 7, 9, 25, 49,
            (1 << 34) + 4, (1 << 34) + 3, (1 << 34) + 5, MAXU, MAXU - 1, MAXU - 2, MAXU - 58, (1 << 63) - 25, (1 << 63) + 29,
            (1 << 32) - 5, (1 << 32) + 15, ((1 << 32) - 5) * ((1 << 32) - 17), 0, 1]
    adv["edges"] = edge
    # three or more prime factors, all above the trial-division table (541): Pollard's rho may return a composite divisor, which
    # find_prime_factor must keep splitting (small ones only: the model's rho runs on Nat)
    small = [q for q in range(547, 1400) if all(q % d for d in range(2, int(q ** 0.5) + 1))]
    r3 = [208489597, 217524943, 547 ** 3, 547 * 547 * 557, 547 * 557 * 563]
    for _ in range(8 * k):
        a, b, c = rng.choice(small), rng.choice(small), rng.choice(small)
        r3.append(a * b * c)
    for _ in range(2 * k):
        r3.append(rng.choice(small[:40]) * rng.choice(small[:40]) * rng.choice(small[:40]) * rng.choice(small[:40]))
    adv["rough_3plus_factors"] = sorted(set(r3))
    adv["is_perfect_square_false_positives"] = list(SQUARE_FALSE_POSITIVES)
    adv["domain_points"] = permanent_domain_points()
    adv["carmichael_chernick_fixed"] = list(CHERNICK_FIXED)
    adv["first_rho_divisor_composite"] = list(FIRST_RHO_COMPOSITE) + list(RHO_COMPOSITE_TWICE)
    adv["prime_power_times_q"] = list(PRIME_POWER_TIMES_Q)
    adv["spsp2_large_fixed"] = list(SPSP2_LARGE)
    adv["slpsp_large_fixed"] = list(SLPSP_LARGE)
    adv["selfridge_D_classes"] = [v for pair in SELFRIDGE_D_CASES.values() for v in pair if v is not None]
    adv["prime_powers"] = prime_powers_below_2_64()
    # p tiny (inside / at the end of / just beyond the table), q huge
    th = []
    for p in (2, 3, 5, 7, 523, 541, 547, 557, 1009, 65537):
        q = prev_prime(MAXU // p + 1)
        th += [p * q, p * prev_prime(q)]
        q2 = next_prime(rng.randrange(1 << 30, MAXU // (p * p) - (1 << 12)))
        th += [p * q2, p * p * q2]
    adv["tiny_times_huge"] = sorted(set(v for v in th if v < M64))
    # unbalanced semiprimes beyond the table: p ~ 2^10 .. 2^24, q = the rest
    ub = [1021 * prev_prime(1 << 53), 65537 * prev_prime(1 << 47), 1048583 * prev_prime(1 << 43), 16777259 * prev_prime(1 << 39)]
    for bits in (10, 12, 14, 16, 18, 20, 22, 24):
        p = next_prime(rng.randrange(1 << (bits - 1), 1 << bits))
        q = next_prime(rng.randrange(1 << (62 - bits), 1 << (63 - bits)))
        ub.append(p * q)
    adv["unbalanced_semiprimes"] = sorted(set(ub))
    # large even numbers, powers of two times a prime, perfect powers of composites
    adv["even_and_composite_powers"] = [1 << 63, MAXU - 1, 2 * prev_prime(1 << 63), 6 * prev_prime((1 << 61)), (1 << 32) * prev_prime(1 << 32),
                                        (1 << 62) + 2, 6 ** 24, 10 ** 19, 15 ** 16, (547 * 557) ** 3, (65521 * 65537) ** 2, 2 ** 62, 4 ** 31,
                                        (3 * 5 * 7 * 11 * 13) ** 4, 3 ** 40 * 1, 2 * 3 ** 39]
    return adv


def gen_mod_cases(rng, tier):
    """Request lines `A op a b n` for the modular helpers: guard-boundary operands read off the
    model's guards (a >= n - b; a >= b; a < max / b; the recursion a -> n % a; parity) + random.
    Returns list of (op, a, b, n, valid)."""
    cnt = 400 if tier == "quick" else 3000
    out = []

    def moduli():
        r = rng.random()
        if r < 0.15:
            return rng.randrange(2, 1 << 8)
        if r < 0.3:
            return MAXU - rng.randrange(0, 64)
        if r < 0.45:
            return (1 << 63) + rng.randrange(-64, 64)
        if r < 0.6:
            return rng.randrange(1 << 63, M64)
        if r < 0.7:
            e = rng.randrange(2, 64)
            return max(2, (1 << e) + rng.randrange(-3, 4))
        if r < 0.8:
            return rng.randrange(1 << 31, 1 << 33)
        return rng.randrange(2, 1 << rng.randrange(2, 65))

    def operand(n):
        r = rng.random()
        if r < 0.2:
            return rng.randrange(0, min(n, 8))
        if r < 0.45:
            return n - 1 - rng.randrange(0, min(n, 8))
        if r < 0.55:
            return min(n - 1, n // 2 + rng.randrange(-2, 3)) if n > 4 else rng.randrange(0, n)
        return rng.randrange(0, n)

    for _ in range(cnt):
        n = moduli()
        a, b = operand(n), operand(n)
        # add_mod: a + b = n + {-1, 0, 1}
        for dl in (-1, 0, 1):
            bb = n - a + dl
            if 0 <= bb < n:
                out.append(("addmod", a, bb, n, True))
        out.append(("addmod", a, b, n, True))
        # sub_mod: a - b in {-1, 0, 1}
        for dl in (-1, 0, 1):
            bb = a + dl
            if 0 <= bb < n:
                out.append(("submod", a, bb, n, True))
        out.append(("submod", a, b, n, True))
        # mul_mod: a = max / b + {-1, 0, 1}
        out.append(("mulmod", a, b, n, True))
        if b > 0:
            for dl in (-1, 0, 1):
                aa = MAXU // b + dl
                if 0 <= aa < n:
                    out.append(("mulmod", aa, b, n, True))
        if a > 0:
            for dl in (-1, 0, 1):
                bb = MAXU // a + dl
                if 0 <= bb < n:
                    out.append(("mulmod", a, bb, n, True))
        # recursion-directed: n % a small / a just above n / 2 / chunk boundary b = k * (n / a) + {-1, 0, 1}
        if n > (1 << 33):
            aa = rng.choice([n // 2 + 1, n // 2 + 2, n // 3 + 1, n - 1, n - 2, rng.randrange(1 << 32, n)])
            cs = n // aa
            kq = rng.randrange(1, 1 << 20)
            for dl in (-1, 0, 1):
                bb = kq * cs + dl
                if 0 <= bb < n:
                    out.append(("mulmod", aa, bb, n, True))
            out.append(("mulmod", aa, n - 1, n, True))
            out.append(("mulmod", n - 1, n - 1, n, True))
            # chunk result n - 0: negative_chunk * num_chunks = 0 mod n, e.g. a | n
            for dv in (2, 3, 4, 5, 7):
                if n % dv == 0 and n // dv > (1 << 32):
                    out.append(("mulmod", n // dv, rng.randrange(1 << 32, n), n, True))
        # half_mod_odd
        no = n | 1
        if no < M64:
            for aa in (a % no, no - 1, no - 2, 0, 1):
                if 0 <= aa < no:
                    out.append(("halfmod", aa, 0, no, True))
        # pow_mod
        e = rng.choice([0, 1, 2, 3, rng.randrange(0, 1 << 8), rng.randrange(0, M64), MAXU, n - 1, (n - 1) // 2])
        base = rng.choice([a, b, rng.randrange(0, M64), n, n + 1 if n < MAXU else 0, MAXU])
        out.append(("powmod", base, e, n, True))
    # fixed corners
    out += [("addmod", 0, 0, 1, True), ("submod", 0, 0, 1, True), ("mulmod", 0, 0, 1, True),
            ("mulmod", MAXU - 1, MAXU - 1, MAXU, True), ("mulmod", MAXU - 1, 1, MAXU, True),
            ("mulmod", 1, MAXU - 1, MAXU, True), ("mulmod", 4294967295, 4294967297, MAXU, True),
            ("mulmod", 4294967296, 4294967296, MAXU, True), ("mulmod", 4294967296, 4294967295, MAXU, True),
            ("addmod", MAXU - 1, MAXU - 1, MAXU, True), ("submod", 0, MAXU - 1, MAXU, True),
            ("halfmod", MAXU - 1, 0, MAXU, True), ("halfmod", MAXU - 2, 0, MAXU, True),
            ("powmod", MAXU, MAXU, MAXU, True), ("powmod", 2, 64, MAXU, True), ("powmod", 0, 0, 7, True),
            ("powmod", 5, 0, 1, False), ("powmod", 5, 3, 1, True)]
    out += fixed_mod_cases()
    # a small stream outside the documented preconditions: model vs implementation only
    for _ in range(cnt // 10):
        n = moduli()
        a = rng.randrange(n, M64) if n < MAXU else n
        b = rng.randrange(0, M64)
        out.append(("addmod", a % M64, b % n, n, False))
        out.append(("submod", a % M64, b, n, False))
        out.append(("halfmod", rng.randrange(0, n), 0, n & ~1 or 2, False))
    seen, res = set(), []
    for c in out:
        if c[:4] not in seen:
            seen.add(c[:4])
            res.append(c)
    return res


def fixed_misc_cases():
    """Permanent directed inputs for gcd, decompose, jacobi_symbol and miller_rabin(a, n) — judged in EVERY run."""
    out = []
    fib = [1, 2]
    while fib[-1] + fib[-2] < M64:
        fib.append(fib[-1] + fib[-2])
    big = [0, 1, 2, 3, (1 << 32) - 1, 1 << 32, (1 << 32) + 1, (1 << 63) - 1, 1 << 63, (1 << 63) + 1, MAXU - 58, MAXU - 1, MAXU, fib[-1], fib[-2],
           10 ** 19, 10 ** 19 - 1, 4294967291 * 4294967279, 6 ** 24, 3 ** 40]
    # gcd: both operand orders, equal operands, zero on either side, worst case (consecutive Fibonacci), large common factor
    for i, a in enumerate(big):
        for b in big[i:]:
            out += [("G", a, b), ("G", b, a)]
    out += [("G", 4294967291 * 3, 4294967291 * 5), ("G", (1 << 62) * 3, (1 << 61) * 2), ("G", 3 ** 40, 3 ** 20 * 2 ** 30)]
    # decompose: every power of two, 2^k * 3, 2^k * (odd near 2^(63-k)), odd numbers, both ends
    for k in range(0, 64):
        out.append(("D", 1 << k, 0))
        if 3 << k < M64:
            out.append(("D", 3 << k, 0))
        out.append(("D", (((1 << (63 - k)) + 1) | 1) << k if k < 63 else 1 << 63, 0))
    out += [("D", v, 0) for v in (1, 3, MAXU, MAXU - 1, MAXU - 58, (1 << 63) - 1, (1 << 63) + 1, 10 ** 19, 10 ** 19 - 1, fib[-1])]
    # jacobi_symbol: n in every class mod 8, squares, top of the range; a zero, +-1, +-2, n-1, n, n+1, -n, multiples, int64 extremes,
    # the Selfridge sequence 5, -7, 9, -11, ...
    i63 = (1 << 63) - 1
    ns = [1, 3, 5, 7, 9, 15, 17, 21, 25, 27, 33, 35, 39, 45, 49, 561, 65535, 65537, (1 << 32) - 1, (1 << 32) + 1, 4294967291, 4294967311,
          (1 << 63) - 1, (1 << 63) + 1, (1 << 63) - 25, (1 << 63) + 29, MAXU, MAXU - 2, MAXU - 58, MAXU - 82, 4294967291 ** 2, 10 ** 19 - 1, 10 ** 19 + 1,
          3 ** 40, 10785637507345693793]
    seq, dv = [], 5
    for _ in range(16):
        seq.append(dv)
        dv = -dv - 2 if dv > 0 else -dv + 2
    for n in ns:
        avals = [0, 1, -1, 2, -2, 3, -3, 4, 8, -8, i63, -i63, i63 - 1, 1 << 62, -(1 << 62), 6, 10, 12] + seq
        for dl in (-1, 0, 1):
            for sgn in (1, -1):
                v = sgn * (n + dl)
                if -i63 <= v <= i63:
                    avals.append(v)
        if n * 2 <= i63:
            avals += [2 * n, -2 * n, 2 * n + 1]
        for a in avals:
            out.append(("J", a, n))
    # miller_rabin(a, n): the precondition boundary n = a + 1 / a + 2 / a + 3, bases 0, 1, 2, n - 2, n - 3, even n, pseudoprimes, top primes
    for n in (3, 4, 5, 7, 9, 15, 25, 49, 561, 2047, 3277, 1373653, 25326001, 3215031751, 4294967291, 4294967297, 3825123056546413051,
              (1 << 63) - 25, (1 << 63) + 29, (1 << 63) + 1, MAXU - 58, MAXU - 82, MAXU, MAXU - 1, 1 << 63, 10 ** 19 - 1, 10785637507345693793,
              4294967291 ** 2, SPSP2_LARGE[0], SLPSP_LARGE[0], CHERNICK_FIXED[-1]):
        for a in (0, 1, 2, 3, 5, 7, 61, 325, 9375, n - 3, n - 2, n - 1, n, n + 1, (1 << 32) + 1, (1 << 63) + 1):
            if 0 <= a < M64 - 2:
                out.append(("R", a, n))
    return out


def fixed_mod_cases():
    """Directed cases judged in EVERY run: every guard of mod.hh at, just below and just above its boundary, for the moduli
    1, 2, 3, 2^32 +- 1, 2^63 - 1, 2^63, 2^63 + 1, 2^64 - 2, 2^64 - 1; deep mul_mod recursion (consecutive Fibonacci numbers: the
    recursion goes several levels deep with chunk sizes 1 and 2); chunk_result = n - 0 (a | n); a * b = 2^64 - 1, 2^64, 2^64 + 1 exactly."""
    out = []
    mods = [1, 2, 3, 4, 5, 255, 256, 257, (1 << 32) - 1, 1 << 32, (1 << 32) + 1, (1 << 63) - 1, 1 << 63, (1 << 63) + 1, MAXU - 1, MAXU,
            12200160415121876738, 7540113804746346429, (1 << 64) - (1 << 32), 18446744073709551557,
            # more modulus classes: 2^k, 2^k +- 1 at other k, even and odd moduli above 2^63, decimal round numbers, top primes / squares
            (1 << 16) - 1, 1 << 16, (1 << 16) + 1, (1 << 48) - 1, 1 << 48, (1 << 48) + 1, (1 << 62) - 1, 1 << 62, (1 << 62) + 1, 3 << 62, (3 << 62) + 1,
            (1 << 63) + (1 << 62) - 1, 10 ** 19, 10 ** 19 - 1, 10 ** 19 + 1, 999999999, 10 ** 9, 4294967291, 4294967291 ** 2, 4294967291 * 4294967279,
            9223372036854775783, 18446744073709551533]
    for n in mods:
        ops = sorted({v for v in (0, 1, 2, n // 2 - 1, n // 2, n // 2 + 1, n - 3, n - 2, n - 1) if 0 <= v < n})
        for a in ops:
            for b in ops:
                out.append(("addmod", a, b, n, True))
                out.append(("submod", a, b, n, True))
                out.append(("mulmod", a, b, n, True))
            if n % 2 == 1:
                out.append(("halfmod", a, 0, n, True))
            for e in (0, 1, 2, 3, 63, 64, 65, n - 1, n, MAXU):
                if n > 1:
                    out.append(("powmod", a, e % M64, n, True))
        if n > 1:
            for base in (n, n + 1, MAXU, MAXU - 1):
                if base < M64:
                    out.append(("powmod", base, 5, n, True))
    # the overflow guard of mul_mod: a * b in {2^64 - 2, 2^64 - 1, 2^64, 2^64 + 1} and a = max / b + {-1, 0, 1}
    for (a, b) in [(1 << 32, 1 << 32), ((1 << 32) - 1, (1 << 32) + 1), ((1 << 32) + 1, (1 << 32) - 1), (MAXU // 3, 3), (3, MAXU // 3),
                   (MAXU // 5, 5), (MAXU // 17, 17), (MAXU // 3 + 1, 3), (MAXU // 3 - 1, 3), (1 << 63, 2), (2, 1 << 63), ((1 << 63) - 1, 2),
                   (1 << 62, 4), ((1 << 62) + 1, 4), (6700417, MAXU // 6700417), (6700417, MAXU // 6700417 + 1), (MAXU // 2, 2), (MAXU // 2 + 1, 2)]:
        for n in (MAXU, MAXU - 1, 18446744073709551557, (1 << 63) + 1, max(a, b) + 1):
            if a < n and b < n:
                out.append(("mulmod", a, b, n, True))
    # deep recursion: n = F(93), a = F(92), F(91), ... (n % a is the previous Fibonacci number at every level)
    fib = [1, 2]
    while fib[-1] + fib[-2] < M64:
        fib.append(fib[-1] + fib[-2])
    n = fib[-1]
    for a in (fib[-2], fib[-3], fib[-4], fib[-10], fib[-2] + 1, fib[-2] - 1):
        for b in (n - 1, n - 2, fib[-2], fib[-3], n // 2, 1 << 63 if (1 << 63) < n else n - 3):
            out.append(("mulmod", a, b, n, True))
    n2 = fib[-2]
    out += [("mulmod", fib[-3], n2 - 1, n2, True), ("mulmod", fib[-4], fib[-3], n2, True)]
    # chunk_result = n - 0: n % a == 0 or negative_chunk * num_chunks = 0 (mod n)
    n = (1 << 64) - (1 << 32)
    for a in (1 << 32, 1 << 33, (1 << 32) - 1, n // 3, n // 5, n // 2):
        for b in (n - 1, n - 2, (1 << 63) + 12345, 1 << 63, n // 2 + 1):
            if a < n and b < n:
                out.append(("mulmod", a, b, n, True))
    return out


def mul_mod_depth(a, b, n):
    """Recursion depth of mul_mod on (a, b, n) (0 = fast path) — for the coverage statistics only."""
    d = 0
    while not (b == 0 or a < MAXU // b):
        cs = n // a
        a, b = n - a * cs, b // cs
        d += 1
    return d


def mod_oracle(op, a, b, n):
    """Exact residue; for halfmod the unique r < n with 2 r = a (mod n)."""
    if op == "addmod":
        return (a + b) % n
    if op == "submod":
        return (a - b) % n
    if op == "mulmod":
        return (a * b) % n
    if op == "powmod":
        return pow(a, b, n)
    if op == "halfmod":
        return (a * ((n + 1) // 2)) % n
    raise ValueError(op)


# ----------------------------------------------------------------------------------------------
# C++ harness
# ----------------------------------------------------------------------------------------------

DUMP_SRC = r'''
#include <cstdio>
#include "au/utility/factoring.hh"
int main() {
    const auto &v = au::detail::FirstPrimes::values;
    for (std::size_t i = 0; i < v.size(); ++i) printf("%s%llu", i ? " " : "", (unsigned long long)v[i]);
    printf("\n");
    return 0;
}
'''

HARNESS = r'''
#include <cstdint>
#include <cstdio>
#include <cstdlib>
#include <cstring>
#include <string>
#include <vector>
#include "au/utility/factoring.hh"
#include "au/utility/mod.hh"
#include "au/utility/probable_primes.hh"
typedef unsigned __int128 u128;
typedef unsigned long long ull;
namespace d = au::detail;
#ifdef __clang__
#define NOWRAPCHECK __attribute__((no_sanitize("unsigned-integer-overflow")))
#else
#define NOWRAPCHECK
#endif
// g_ub: in the WRAPCOUNT build (clang -fsanitize=unsigned-integer-overflow -fsanitize-minimal-runtime with the handlers
// below instead of a runtime) it counts EVERY unsigned wrap-around executed; in the ASan/UBSan builds it counts UBSan
// reports (de-duplicated per source location by the runtime, so only "zero / non-zero" is meaningful there).
static volatile long g_ub = 0;
#ifdef WRAPCOUNT
extern "C" {
NOWRAPCHECK void __ubsan_handle_add_overflow_minimal() { g_ub = g_ub + 1; }
NOWRAPCHECK void __ubsan_handle_sub_overflow_minimal() { g_ub = g_ub + 1; }
NOWRAPCHECK void __ubsan_handle_mul_overflow_minimal() { g_ub = g_ub + 1; }
NOWRAPCHECK void __ubsan_handle_negate_overflow_minimal() { g_ub = g_ub + 1; }
}
#else
extern "C" void __ubsan_on_report(void) { g_ub = g_ub + 1; }
#endif
// watchdog: a request that does not finish within its budget reports the input it was working on and exits
#include <csignal>
#include <unistd.h>
#include <sys/time.h>
static volatile unsigned long long g_cur = 0;
static const char* volatile g_what = "-";
static char g_partial[160] = "-";      // results already obtained for the current request (no spaces)
static void on_alarm(int) {
    char buf[400];
    int k = snprintf(buf, sizeof buf, "TIMEOUT what=%s current=%llu partial=%s\n", g_what, (unsigned long long)g_cur, g_partial);
    if (write(1, buf, k) < 0) {}
    _exit(3);
}
// traps (SIGFPE from a division by zero, SIGSEGV from runaway recursion, ...): the request answers `TRAP ...` naming the
// input it was working on, and the harness goes on with the next request
#include <csetjmp>
static sigjmp_buf g_jmp;
static volatile sig_atomic_t g_sig = 0;
static void on_trap(int sig) { g_sig = sig; siglongjmp(g_jmp, 1); }
static const char* prn(d::PrimeResult r) {
    return r == d::PrimeResult::COMPOSITE ? "COMPOSITE" : r == d::PrimeResult::PROBABLY_PRIME ? "PROBABLY_PRIME" : "BAD_INPUT";
}
struct Rng {
    uint64_t s;
    NOWRAPCHECK uint64_t next() { s += 0x9E3779B97F4A7C15ull; uint64_t z = s; z = (z ^ (z >> 30)) * 0xBF58476D1CE4E5B9ull;
                      z = (z ^ (z >> 27)) * 0x94D049BB133111EBull; return z ^ (z >> 31); }
    uint64_t below(uint64_t n) { return n ? (uint64_t)(((u128)next() * n) >> 64) : 0; }
};
static uint64_t ref_pow(uint64_t b, uint64_t e, uint64_t n) {
    u128 r = 1 % n, x = b % n;
    while (e) { if (e & 1) r = r * x % n; x = x * x % n; e >>= 1; }
    return (uint64_t)r;
}
static bool trial_prime(uint64_t f, const std::vector<uint32_t>& sp) {
    if (f < 2) return false;
    for (uint32_t p : sp) { if ((uint64_t)p * p > f) break; if (f % p == 0) return f == p; }
    return true;
}
int main() {
    static char line[4096];
    // the budget is CPU time of this process (ITIMER_PROF), so a saturated machine cannot make a finite request look like a hang
    signal(SIGPROF, on_alarm);
    {
        static char altstack[1 << 16];
        stack_t ss; ss.ss_sp = altstack; ss.ss_size = sizeof altstack; ss.ss_flags = 0; sigaltstack(&ss, nullptr);
        struct sigaction sa; memset(&sa, 0, sizeof sa); sa.sa_handler = on_trap; sa.sa_flags = SA_ONSTACK | SA_NODEFER; sigemptyset(&sa.sa_mask);
        sigaction(SIGFPE, &sa, nullptr); sigaction(SIGSEGV, &sa, nullptr); sigaction(SIGBUS, &sa, nullptr); sigaction(SIGILL, &sa, nullptr);
    }
    const char* budget = getenv("C12_LINE_BUDGET");
    unsigned budget_s = budget ? (unsigned)atoi(budget) : 300u;
    while (fgets(line, sizeof line, stdin)) {
        { struct itimerval tv; tv.it_interval.tv_sec = 0; tv.it_interval.tv_usec = 0; tv.it_value.tv_sec = budget_s; tv.it_value.tv_usec = 0;
          setitimer(ITIMER_PROF, &tv, nullptr); }
        g_what = "-"; g_cur = 0; strcpy(g_partial, "-");
        if (sigsetjmp(g_jmp, 1)) {
            printf("TRAP sig=%d what=%s current=%llu partial=%s\n", (int)g_sig, g_what, (unsigned long long)g_cur, g_partial);
            fflush(stdout);
            continue;
        }
        char cmd[16] = {0}; char op[16] = {0}; ull a = 0, b = 0, c = 0, e = 0;
        if (sscanf(line, "%15s", cmd) != 1) { puts("bad"); continue; }
        if (!strcmp(cmd, "P") || !strcmp(cmd, "PQ")) {
            // PQ: without find_prime_factor (which does not terminate on a prime that is_prime rejects)
            if (sscanf(line, "%*s %llu", &a) != 1) { puts("bad"); continue; }
            uint64_t n = a;
            g_what = "P"; g_cur = n;
            long u0 = g_ub; bool sq = d::is_perfect_square(n); long wsq = g_ub - u0;
            u0 = g_ub; d::PrimeResult mr = d::miller_rabin(2u, n); long wmr = g_ub - u0;
            const char* lucas = "skipped"; long wl = 0;
            if (n != UINT64_MAX) { u0 = g_ub; lucas = prn(d::strong_lucas(n)); wl = g_ub - u0; }
            bool ip = d::is_prime(n);
            snprintf(g_partial, sizeof g_partial, "is_prime:%d,is_perfect_square:%d,mr2:%s,lucas:%s,then_find_prime_factor_hangs", (int)ip,
                     (int)sq, prn(mr), lucas);
            uint64_t f = (n > 1 && !cmd[1]) ? d::find_prime_factor(n) : 0;
            printf("prime=%d sq=%d mr2=%s lucas=%s factor=%llu wmr=%ld wlucas=%ld wsq=%ld\n", (int)ip, (int)sq, prn(mr), lucas,
                   (ull)f, wmr, wl, wsq);
        } else if (!strcmp(cmd, "A")) {
            if (sscanf(line, "%*s %15s %llu %llu %llu", op, &a, &b, &c) != 4) { puts("bad"); continue; }
            long u0 = g_ub; uint64_t r = 0;
            g_what = "A";
            if (!strcmp(op, "addmod")) r = d::add_mod(a, b, c);
            else if (!strcmp(op, "submod")) r = d::sub_mod(a, b, c);
            else if (!strcmp(op, "mulmod")) r = d::mul_mod(a, b, c);
            else if (!strcmp(op, "powmod")) r = d::pow_mod(a, b, c);
            else if (!strcmp(op, "halfmod")) r = d::half_mod_odd(a, c);
            else { puts("bad"); continue; }
            printf("val=%llu wraps=%ld\n", (ull)r, g_ub - u0);
        } else if (!strcmp(cmd, "G")) {
            if (sscanf(line, "%*s %llu %llu", &a, &b) != 2) { puts("bad"); continue; }
            printf("val=%llu\n", (ull)d::gcd(a, b));
        } else if (!strcmp(cmd, "D")) {
            if (sscanf(line, "%*s %llu", &a) != 1 || a == 0) { puts("bad"); continue; }
            auto r = d::decompose(a);
            printf("s=%llu d=%llu\n", (ull)r.power_of_two, (ull)r.odd_remainder);
        } else if (!strcmp(cmd, "J")) {
            long long ja;
            if (sscanf(line, "%*s %lld %llu", &ja, &b) != 2) { puts("bad"); continue; }
            printf("val=%d\n", d::jacobi_symbol(ja, b));
        } else if (!strcmp(cmd, "R")) {
            if (sscanf(line, "%*s %llu %llu", &a, &b) != 2) { puts("bad"); continue; }
            long u0 = g_ub; d::PrimeResult r = d::miller_rabin(a, b);
            printf("val=%s wraps=%ld\n", prn(r), g_ub - u0);
        } else if (!strcmp(cmd, "RHO")) {
            if (sscanf(line, "%*s %llu", &a) != 1) { puts("bad"); continue; }
            printf("val=%llu\n", (ull)d::find_pollard_rho_factor(a));
        } else if (!strcmp(cmd, "SWEEP")) {
            // SWEEP lo hi fhi : is_prime on [lo, hi), find_prime_factor on [lo, min(hi, fhi)) vs a sieve
            if (sscanf(line, "%*s %llu %llu %llu", &a, &b, &c) != 3 || b <= a) { puts("bad"); continue; }
            uint64_t lo = a, hi = b, fhi = c;
            std::vector<uint32_t> sp; {
                uint64_t lim = 1; while (lim * lim < hi) ++lim; lim += 2;
                std::vector<char> s(lim + 1, 1);
                for (uint64_t i = 2; i <= lim; ++i) if (s[i]) { sp.push_back((uint32_t)i); for (uint64_t j = i * i; j <= lim; j += i) s[j] = 0; }
            }
            std::vector<char> comp(hi - lo, 0);
            for (uint32_t p : sp) {
                uint64_t st = (uint64_t)p * p; if (st >= hi) break;
                if (st < lo) st = (lo + p - 1) / p * p;
                for (uint64_t j = st; j < hi; j += p) comp[j - lo] = 1;
            }
            ull n = 0, bad = 0, first = 0, primes = 0, fn = 0, fbad = 0, ffirst = 0, fgot = 0, rho = 0;
            long u0 = g_ub;
            g_what = "SWEEP";
            for (uint64_t x = lo; x < hi; ++x) {
                g_cur = x;
                bool truth = x >= 2 && !comp[x - lo];
                bool got = d::is_prime(x);
                ++n; primes += truth;
                if (got != truth) { if (!bad++) first = x; }
                if (x > 1 && x < fhi) {
                    uint64_t f = d::find_prime_factor(x);
                    ++fn;
                    if (f != x && f > 541) ++rho;
                    bool ok = f > 1 && x % f == 0 && (f == x ? truth : trial_prime(f, sp));
                    if (!ok) { if (!fbad++) { ffirst = x; fgot = f; } }
                }
            }
            printf("n=%llu prime_bad=%llu first=%llu primes=%llu fn=%llu factor_bad=%llu ffirst=%llu fgot=%llu nontrivial_factor=%llu ub=%ld\n",
                   n, bad, first, primes, fn, fbad, ffirst, fgot, rho, g_ub - u0);
        } else if (!strcmp(cmd, "ROUGH")) {
            // ROUGH lo hi k : every multiset of k (3, 4 or 5) primes p1 <= ... <= pk in [lo, hi): find_prime_factor(p1*...*pk) must be one of them
            // (numbers with three or more prime factors beyond the trial-division table are where Pollard's rho can return a COMPOSITE divisor)
            ull i0 = 0, i1 = ~0ull;      // optional: range of the index of the smallest prime (to shard a window over requests)
            if (sscanf(line, "%*s %llu %llu %llu %llu %llu", &a, &b, &c, &i0, &i1) < 3 || b <= a || c < 3 || c > 5) { puts("bad"); continue; }
            std::vector<uint64_t> ps;
            for (uint64_t x = a | 1; x < b; x += 2) { bool pr = x > 2; for (uint64_t q = 3; q * q <= x && pr; q += 2) if (x % q == 0) pr = false; if (pr) ps.push_back(x); }
            ull n = 0, bad = 0, first = 0, fgot = 0, skipped = 0; long u0 = g_ub;
            g_what = "ROUGH";
            size_t m = ps.size();
            for (size_t i = (size_t)i0; i < m && i < i1; ++i) for (size_t j = i; j < m; ++j) for (size_t k = j; k < m; ++k)
                for (size_t l = (c >= 4 ? k : m - 1); l < m; ++l) for (size_t o = (c == 5 ? l : m - 1); o < m; ++o) {
                    u128 prod = (u128)ps[i] * ps[j] * ps[k]; if (prod >> 64) { ++skipped; continue; }
                    if (c >= 4) { prod *= ps[l]; if (prod >> 64) { ++skipped; continue; } }
                    if (c == 5) { prod *= ps[o]; if (prod >> 64) { ++skipped; continue; } }
                    uint64_t x = (uint64_t)prod; g_cur = x;
                    uint64_t f = d::find_prime_factor(x); ++n;
                    bool ok = f == ps[i] || f == ps[j] || f == ps[k] || (c >= 4 && f == ps[l]) || (c == 5 && f == ps[o]);
                    if (!ok) { if (!bad++) { first = x; fgot = f; } }
                }
            printf("n=%llu factor_bad=%llu ffirst=%llu fgot=%llu primes=%llu skipped=%llu ub=%ld\n", n, bad, first, fgot, (ull)m, skipped, g_ub - u0);
        } else if (!strcmp(cmd, "RAND")) {
            // RAND seed count : structured + random operand triples of the modular helpers vs unsigned __int128
            if (sscanf(line, "%*s %llu %llu", &a, &b) != 2) { puts("bad"); continue; }
            Rng g{a};
            ull n_eval = 0, bad = 0, slow = 0, big = 0; long wraps = 0; char first[200] = "-";
            g_what = "RAND";
            for (ull i = 0; i < b; ++i) {
                g_cur = i;
                uint64_t n; uint64_t k = g.below(10);
                if (k == 0) n = 2 + g.below(254);
                else if (k == 1) n = UINT64_MAX - g.below(64);
                else if (k == 2) n = (1ull << 63) - 64 + g.below(128);
                else if (k <= 4) n = (1ull << 63) + g.below(1ull << 63);
                else if (k == 5) { uint64_t e2 = 2 + g.below(62); n = (1ull << e2) - 3 + g.below(7); if (n < 2) n = 2; }
                else if (k == 6) n = (1ull << 31) + g.below(3ull << 31);
                else { uint64_t e2 = 2 + g.below(63); n = e2 == 64 ? g.next() : g.below(1ull << e2); if (n < 2) n = 2; }
                auto operand = [&](uint64_t m) -> uint64_t {
                    uint64_t q = g.below(10);
                    if (q < 2) return g.below(m < 8 ? m : 8);
                    if (q < 4) return m - 1 - g.below(m < 8 ? m : 8);
                    if (q == 4 && m > 8) return m / 2 - 2 + g.below(5);
                    return g.below(m);
                };
                uint64_t x = operand(n), y = operand(n);
                uint64_t q = g.below(8);
                auto nudge = [&](uint64_t t) -> u128 { u128 tt = (u128)t + g.below(3); return tt >= 1 ? tt - 1 : tt; };
                if (q == 0 && y > 0) { u128 t = nudge(UINT64_MAX / y); if (t < n) x = (uint64_t)t; }   // a = max / b + {-1, 0, 1}
                if (q == 1) { u128 t = nudge(n - x); if (t < n) y = (uint64_t)t; }                        // a + b = n + {-1, 0, 1}
                if (q == 2) { u128 t = nudge(x); if (t < n) y = (uint64_t)t; }                            // a - b in {-1, 0, 1}
                if (n > (1ull << 63)) ++big;
                if (!(y == 0 || x < UINT64_MAX / y)) ++slow;
                uint64_t ex = (i % 4 == 0) ? g.next() : g.below(64);
                uint64_t bs = g.next();
                snprintf(g_partial, sizeof g_partial, "operands:a=%llu,b=%llu,n=%llu,base=%llu,exp=%llu", (ull)x, (ull)y, (ull)n, (ull)bs, (ull)ex);
                long u0 = g_ub;
                uint64_t r1 = d::add_mod(x, y, n), r2 = d::sub_mod(x, y, n), r3 = d::mul_mod(x, y, n);
                uint64_t no = n | 1, xo = x % no;
                uint64_t r4 = d::half_mod_odd(xo, no);
                uint64_t r5 = d::pow_mod(bs, ex, n);
                wraps += g_ub - u0;
                n_eval += 5;
                const char* w = nullptr;
                if (r1 != (uint64_t)(((u128)x + y) % n)) w = "addmod";
                else if (r2 != (uint64_t)(((u128)x + n - y) % n)) w = "submod";
                else if (r3 != (uint64_t)(((u128)x * y) % n)) w = "mulmod";
                else if (!(r4 < no && (uint64_t)(((u128)r4 * 2) % no) == xo)) w = "halfmod";
                else if (r5 != ref_pow(bs, ex, n)) w = "powmod";
                if (w) { if (!bad++) snprintf(first, sizeof first, "%s:%llu:%llu:%llu:%llu:%llu", w, (ull)x, (ull)y, (ull)n, (ull)bs, (ull)ex); }
            }
            printf("n=%llu bad=%llu first=%s wraps=%ld slow_path=%llu big_modulus=%llu\n", n_eval, bad, first, wraps, slow, big);
        } else { puts("bad"); }
        fflush(stdout);
    }
    return 0;
}
'''

MAG_SER = r'''
#include <cstdint>
#include <cstdio>
#include "au/magnitude.hh"
template <class BP> static void ser_bp() {
    printf("%llu^%lld", (unsigned long long)au::BaseT<BP>::value(), (long long)au::ExpT<BP>::num);
    if (au::ExpT<BP>::den != 1) printf("/%lld", (long long)au::ExpT<BP>::den);
}
static void ser_all(bool) {}
template <class BP, class... R> static void ser_all(bool first, BP*, R*... r) { if (!first) printf("*"); ser_bp<BP>(); ser_all(false, r...); }
template <class... BPs> static void ser(au::Magnitude<BPs...>) {
    if (sizeof...(BPs) == 0) { printf("1\n"); return; }
    ser_all(true, static_cast<BPs*>(nullptr)...); printf("\n");
}
'''


def extract_first_primes(wd, violations):
    """Dump detail::FirstPrimes::values from the header into lean/Generated/FirstPrimes.lean."""
    src = os.path.join(wd, "dump_first_primes.cc")
    exe = os.path.join(wd, "dump_first_primes")
    open(src, "w").write(DUMP_SRC)
    rc, out = cxx(src, exe, san=False, opt="-O0")
    vals = None
    if rc == 0:
        rc2, o, e = run([exe])
        if rc2 == 0:
            try:
                vals = [int(x) for x in o.split()]
            except ValueError:
                vals = None
    if vals is None:
        violations.append({"what": "cannot extract detail::FirstPrimes::values from factoring.hh", "class": "extract",
                           "no_input": True, "broken": "extraction: Generated.FirstPrimes",
                           "rec": {"kind": "extract", "output": out[-1500:]}})
        return None
    text = ("/-\n  Generated.FirstPrimes — `au::detail::FirstPrimes::values`, printed by a dumper TU that includes\n"
            "  au/utility/factoring.hh.  Regenerated by tools/p_c12.py on every run; do not edit.\n-/\n"
            "namespace Au.Generated\n\ndef firstPrimes : List Nat := [" + ", ".join(str(v) for v in vals) + "]\n\n"
            "end Au.Generated\n")
    path = os.path.join(vlib.LEAN, "Generated", "FirstPrimes.lean")
    old = open(path).read() if os.path.exists(path) else None
    if old != text:
        tmp = path + ".tmp%d" % os.getpid()
        open(tmp, "w").write(text)
        os.replace(tmp, path)
    return vals


def build_harness(wd, compiler, std, tag, wrapcount=False):
    """wrapcount=False: ASan + UBSan build (vlib.cxx san=True).  wrapcount=True: clang build whose every unsigned
    + - * is instrumented and counted by handlers defined in the harness itself (exact wrap counts per call)."""
    src = os.path.join(wd, "harness.cc")
    if not os.path.exists(src):
        open(src, "w").write(HARNESS)
    exe = os.path.join(wd, f"harness_{tag}")
    if not wrapcount:
        rc, out = cxx(src, exe, compiler=compiler, std=std)
        return (exe if rc == 0 else None), out
    obj = exe + ".o"
    rc, out = cxx(src, obj, compiler=compiler, std=std, san=False,
                  extra=["-c", "-g", "-DWRAPCOUNT", "-fsanitize=unsigned-integer-overflow", "-fsanitize-minimal-runtime",
                         "-fsanitize-recover=unsigned-integer-overflow"])
    if rc != 0:
        return None, out
    rc, o, e = run([compiler, obj, "-o", exe])
    return (exe if rc == 0 else None), out + o + e


def check_stderr(errs, cfg, wrapcount, phase, violations):
    """UBSan reports are undefined behaviour — or, for `unsigned integer overflow`, a wrap-around; those inside the
    library headers are reported too (the harness's own code is excluded by file name)."""
    if wrapcount:
        return
    bad = [l for e in errs for l in e.split("\n") if "runtime error" in l and
           ("unsigned integer overflow" not in l or "/au/" in l.split(": runtime error")[0])]
    if bad:
        violations.append({"what": f"UBSan report (undefined behaviour, or unsigned wrap-around inside a library header) during {phase}: "
                                   f"{bad[0][:300]}", "class": "oracle-ub",
                           "rec": {"kind": "ub", "config": cfg, "phase": phase, "reports": bad[:10]}})


class HarnessFailure(Exception):
    def __init__(self, info):
        Exception.__init__(self, info.get("what", "harness failure"))
        self.info = info


def run_sharded(exe, lines, shards=16, heavy=lambda l: False, budget=300):
    """Answers in request order; stderr of all shards.  A shard whose process hits the per-request watchdog
    (`TIMEOUT what=.. current=..`) or dies raises HarnessFailure naming the request it was working on."""
    if not lines:
        return [], []
    order = sorted(range(len(lines)), key=lambda i: 0 if heavy(lines[i]) else 1)
    buckets = [[] for _ in range(shards)]
    for k, i in enumerate(order):
        buckets[k % shards].append(i)

    def work(idx):
        if not idx:
            return [], "", None
        env = dict(UBSAN_ENV)
        env["C12_LINE_BUDGET"] = str(budget)
        try:
            rc, out, err = run([exe], inp="\n".join(lines[i] for i in idx) + "\n", env=env, timeout=min(budget * len(idx) + 600, 14400))
        except Exception as ex:       # subprocess.TimeoutExpired
            return [], "", {"what": f"harness process did not finish: {ex}", "request": lines[idx[0]]}
        res = [l for l in out.split("\n") if l]
        fail = None
        if res and res[-1].startswith("TIMEOUT"):
            r = kv(res[-1])
            fail = {"what": f"request `{lines[idx[len(res) - 1]]}` did not finish within {budget} s of CPU time (working on {r.get('what')} "
                            f"input {r.get('current')}; results so far: {r.get('partial')})", "request": lines[idx[len(res) - 1]], "current": r.get("current"),
                    "phase": r.get("what")}
            res = res[:-1]
        elif len(res) != len(idx):
            fail = {"what": f"harness exited with rc={rc} after {len(res)} of {len(idx)} requests", "request": lines[idx[min(len(res), len(idx) - 1)]],
                    "stderr": err[-3000:]}
        return res, err, fail
    outs = pmap(work, buckets, workers=shards)
    answers = [None] * len(lines)
    errs = []
    fails = []
    for idx, (res, err, fail) in zip(buckets, outs):
        errs.append(err)
        if fail:
            fails.append(fail)
        for i, r in zip(idx, res):
            answers[i] = r
    for i, a in enumerate(answers):
        if a is not None and a.startswith("TRAP"):
            r = kv(a)
            fails.insert(0, {"what": f"request `{lines[i]}` trapped with signal {r.get('sig')} (8 = SIGFPE, 11 = SIGSEGV) while working on "
                                     f"{r.get('what')} input {r.get('current')} ({r.get('partial')})", "request": lines[i],
                             "current": r.get("current"), "phase": r.get("what"), "partial": r.get("partial")})
            break
    if fails:
        raise HarnessFailure(dict(fails[0], n_failures=len(fails), exe=os.path.basename(exe)))
    return answers, errs


def ask_model(lines, shards=16):
    """The Lean driver, sharded over processes (Pollard rho on Nat is slow)."""
    if not lines:
        return []
    drv = Driver()          # private copy of the binary (a concurrent lake build relinks the shared one)
    buckets = [list(range(k, len(lines), shards)) for k in range(shards)]

    def work(idx):
        if not idx:
            return []
        rc, out, err = run([drv.exe], inp="\n".join(lines[i] for i in idx) + "\n", timeout=7200)
        res = out.split("\n")
        if res and res[-1] == "":
            res.pop()
        if rc != 0 or len(res) != len(idx):
            raise RuntimeError(f"audriver: rc={rc}, {len(res)} answers for {len(idx)} requests\n{err[-2000:]}")
        return res
    outs = pmap(work, buckets, workers=shards)
    answers = [None] * len(lines)
    for idx, res in zip(buckets, outs):
        for i, r in zip(idx, res):
            answers[i] = r
    return answers


# ----------------------------------------------------------------------------------------------
# Judging single requests
# ----------------------------------------------------------------------------------------------

def judge_P(n, cls, impl, model, cfg, wrapdet, violations, stats):
    """One `P n` line: correspondence with the model + statement-level oracle."""
    r, m = kv(impl), kv(model)
    base = {"kind": "P", "n": n, "class": cls, "config": cfg, "impl": impl, "model": model}
    # correspondence (what the property constrains: prime verdict, MR/Lucas verdicts, factor validity;
    # the exact factor returned and is_perfect_square are compared as well: the model mirrors the code)
    for k in ("prime", "sq", "mr2", "lucas", "factor"):
        if r.get(k) != m.get(k):
            violations.append({"what": f"model and implementation differ on {k} at n={n}", "class": f"corr-P-{k}", "no_input": True,
                               "broken": f"correspondence: c12 P ({k})", "rec": dict(base, observable=k)})
    if m.get("modelbad") != "0":
        violations.append({"what": f"model ran out of fuel / flagged UB or a wrap in miller_rabin at n={n}", "class": "corr-P-modelbad",
                           "no_input": True, "broken": "correspondence: model flags", "rec": dict(base, observable="modelbad")})
    # oracle
    truth = is_prime_det(n)
    stats["P_prime" if truth else "P_composite"] += 1
    if (r["prime"] == "1") != truth:
        violations.append({"what": f"is_prime({n}) = {r['prime']} but n is {'prime' if truth else 'composite'}",
                           "class": f"oracle-isprime-{n}", "rec": dict(base, observable="is_prime", want=int(truth))})
    if n > 1:
        f = int(r["factor"])
        if not (1 < f <= n and n % f == 0 and is_prime_det(f)):
            violations.append({"what": f"find_prime_factor({n}) = {f} is not a prime divisor", "class": f"oracle-factor-{n}",
                               "rec": dict(base, observable="find_prime_factor")})
        if f not in (n,) and f > 541:
            stats["P_rho"] += 1
    # Miller-Rabin base 2: exact characterisation
    if n >= 4 and n % 2 == 1:
        want = "PROBABLY_PRIME" if sprp(n, 2) else "COMPOSITE"
    else:
        want = "BAD_INPUT"
    if r["mr2"] != want:
        violations.append({"what": f"miller_rabin(2, {n}) = {r['mr2']}, the strong-probable-prime definition gives {want}",
                           "class": f"oracle-mr2-{n}", "rec": dict(base, observable="miller_rabin", want=want)})
    if want == "PROBABLY_PRIME" and not truth:
        stats["P_spsp2"] += 1
    # strong Lucas: exact characterisation (perfect squares are rejected up front)
    if r["lucas"] != "skipped":
        if n < 2 or n % 2 == 0:
            wl = "BAD_INPUT"
        elif isqrt_exact(n):
            wl = "COMPOSITE"
        else:
            wl = "PROBABLY_PRIME" if slprp(n) else "COMPOSITE"
        if wl == "PROBABLY_PRIME" and not truth:
            stats["P_slpsp"] += 1
        if r["lucas"] != wl:
            # a prime wrongly rejected, or a composite wrongly accepted by this half alone, is a failing input of
            # the statement only if is_prime is wrong too; otherwise it is reported as a broken relation
            violations.append({"what": f"strong_lucas({n}) = {r['lucas']}, the strong-Lucas-probable-prime definition gives {wl}",
                               "class": f"oracle-lucas-{n}", "no_input": (r["prime"] == "1") == truth,
                               "broken": "relation: strong_lucas = strong Lucas probable prime (Selfridge)",
                               "rec": dict(base, observable="strong_lucas", want=wl)})
    if wrapdet and (r.get("wmr", "0") != "0" or r.get("wlucas", "0") != "0" or r.get("wsq", "0") != "0"):
        violations.append({"what": f"unsigned wrap-around inside miller_rabin / strong_lucas / is_perfect_square at n={n}",
                           "class": "oracle-wrap-P", "rec": dict(base, observable="wrap")})
    if (r["sq"] == "1") != isqrt_exact(n):
        stats["is_perfect_square_wrong"] += 1
        violations.append({"what": f"is_perfect_square({n}) = {r['sq']} but n is {'a' if isqrt_exact(n) else 'not a'} perfect square",
                           "class": f"oracle-sq-{n}", "no_input": (r["prime"] == "1") == truth,
                           "broken": "relation: is_perfect_square = exact square test (C12_isPerfectSquare_spec)",
                           "rec": dict(base, observable="is_perfect_square")})


def judge_A(case, impl, model, cfg, has_wrap_detect, violations, stats):
    op, a, b, n, valid = case
    r, m = kv(impl), kv(model)
    base = {"kind": "A", "op": op, "a": a, "b": b, "n": n, "valid": valid, "config": cfg, "impl": impl, "model": model}
    if r["val"] != m["val"]:
        violations.append({"what": f"model and implementation differ: {op}({a}, {b}, {n})", "class": f"corr-A-{op}", "no_input": True,
                           "broken": f"correspondence: c12 {op}", "rec": dict(base)})
    if has_wrap_detect and (r["wraps"] != "0") != (m["wrapped"] == "1"):
        violations.append({"what": f"model and implementation differ on wrap-around: {op}({a}, {b}, {n})", "class": f"corr-A-wrap-{op}",
                           "no_input": True, "broken": f"correspondence: c12 {op} (wrapped flag)", "rec": dict(base)})
    if m["divz"] != "0" or m["stuck"] != "0":
        violations.append({"what": f"model flags UB / fuel exhaustion: {op}({a}, {b}, {n})", "class": f"corr-A-flags-{op}", "no_input": True,
                           "broken": f"correspondence: c12 {op} (flags)", "rec": dict(base)})
    if valid:
        want = mod_oracle(op, a, b, n)
        stats["A_valid"] += 1
        if int(r["val"]) != want:
            violations.append({"what": f"{op}({a}, {b}, {n}) = {r['val']}, exact residue is {want}", "class": f"oracle-A-{op}",
                               "rec": dict(base, want=want)})
        if has_wrap_detect and r["wraps"] != "0":
            violations.append({"what": f"{op}({a}, {b}, {n}) wraps around in an intermediate ({r['wraps']} sanitizer report(s))",
                               "class": f"oracle-A-wrap-{op}", "rec": dict(base, observable="wrap")})


# ----------------------------------------------------------------------------------------------
# mag<N>() probes
# ----------------------------------------------------------------------------------------------

def gen_mag_cases(rng, tier):
    """(a, b) with a*b < 2^64 and factorisations cheap enough for constant evaluation."""
    k = 14 if tier == "quick" else 60
    small = _SP[:200]
    big_primes = [prev_prime(1 << 64), prev_prime(1 << 63), next_prime(1 << 32), prev_prime(1 << 32), prev_prime(1 << 31),
                  2305843009213693951, 1000000007, 998244353, next_prime(1 << 40), 65537, 65521]
    cases = [(12, 18), (1, 1), (1, 97), (2, 2), (1000, 1000), (541, 541), (547, 547), (541, 547), (65521, 65537),
             (1000003, 1000033), (4294967296, 4294967295), (3, 6148914691236517205), (1 << 32, 1 << 31)]
    # directed, in every run: many prime factors (primorial), N = 2^64 - 1 and the largest 64-bit prime, prime powers 2^63, 3^40,
    # 7^22, 547^6 (rho on a prime power), three and four rough factors, p tiny x q huge, p at the end of / just beyond the table,
    # a * b = 2^63 with every split, the former F19 prime
    cases += [(2 * 3 * 5 * 7 * 11 * 13 * 17 * 19, 23 * 29 * 31 * 37 * 41 * 43 * 47), (MAXU, 1), (3 * 5 * 17 * 257, 641 * 65537 * 6700417),
              (18446744073709551557, 1), (1 << 62, 2), (1 << 1, 1 << 62), (1 << 31, 1 << 32), (3 ** 20, 3 ** 20), (3 ** 39, 3), (7 ** 11, 7 ** 11),
              (547 ** 3, 547 ** 3), (547 * 557, 563), (547, 557 * 563 * 569), (547 * 557, 563 * 569), (2, prev_prime(1 << 63)),
              (3, prev_prime(MAXU // 3)), (541, prev_prime(MAXU // 541)), (547, prev_prime(MAXU // 547)), (523 * 541, 547 * 557),
              (10785637507345693793, 1), (65537 ** 2, 65537), (2097143, 2097143 ** 2), (1 << 32, (1 << 32) - 5), (5 ** 13, 5 ** 14),
              (6 ** 12, 6 ** 12), (10 ** 9, 10 ** 10),
              # 9999..., a prime fourth power beyond the table, inputs whose first rho divisor is composite (3, 4, 5 rough factors and
              # 'composite twice'), p^k * q with p > 541
              (10 ** 9 - 1, 10 ** 9 + 1), (99999, 100001), (65521 ** 2, 65521 ** 2), (217524943, 1), (208489597, 1),
              (139839906181, 1), (103755698477471, 1), (1522159653893243, 1), (547 ** 2, 563), (557 ** 3, 65539), (1009 ** 4, 1000003)]
    k += len(cases) - 13
    while len(cases) < k + 13:
        def one():
            r = rng.random()
            if r < 0.45:
                v = 1
                for _ in range(rng.randrange(1, 7)):
                    v *= rng.choice(small) ** rng.randrange(1, 4)
                return v
            if r < 0.6:
                return rng.choice(big_primes)
            if r < 0.8:
                return rng.randrange(1, 1 << rng.randrange(1, 33))
            return next_prime(rng.randrange(1 << 10, 1 << 24)) * next_prime(rng.randrange(1 << 10, 1 << 24))
        a, b = one(), one()
        if 0 < a * b < M64:
            cases.append((a, b))
    return cases


CONSTEXPR_MOD_CASES = [
    ("addmod", MAXU - 1, MAXU - 1, MAXU, True), ("addmod", (1 << 63), (1 << 63), (1 << 63) + 1, True), ("addmod", 5, 2, 7, True),
    ("submod", 0, MAXU - 1, MAXU, True), ("submod", 3, 3, 7, True), ("submod", 2, 3, (1 << 63) + 1, True),
    ("mulmod", MAXU - 1, MAXU - 1, MAXU, True), ("mulmod", 1 << 32, 1 << 32, MAXU, True), ("mulmod", (1 << 32) - 1, (1 << 32) + 1, MAXU, True),
    ("mulmod", 7540113804746346429, 12200160415121876737, 12200160415121876738, True), ("mulmod", 1 << 32, (1 << 63) + 12345, (1 << 64) - (1 << 32), True),
    ("mulmod", MAXU // 3, 3, MAXU, True), ("mulmod", 0, 5, 7, True), ("mulmod", 5, 0, 7, True),
    ("halfmod", MAXU - 1, 0, MAXU, True), ("halfmod", MAXU - 2, 0, MAXU, True), ("halfmod", 0, 0, 1, True), ("halfmod", 1, 0, 3, True),
    ("powmod", MAXU, MAXU, 18446744073709551557, True), ("powmod", 2, 64, MAXU, True), ("powmod", 0, 0, 7, True), ("powmod", 3, 1 << 63, (1 << 63) + 1, True),
]
CONSTEXPR_PRIME_CASES = [0, 1, 2, 3, 4, 9, 541, 547, 541 * 541, 541 * 547, 2047, 5459, 561, 3215031751, 4294967291, (1 << 61) - 1,
                         18446744073709551557, MAXU, 10785637507345693793, 10685528935143053617, 547 * 557 * 563, 2 * 9223372036854775783,
                         11814414004620541, 190106462168099, 1 << 63, 547 ** 4]


def mag_str(f):
    return "*".join(f"{p}^{e}" for p, e in f) if f else "1"


def mag_probe(wd, cases, compiler, std, tag):
    """Compile + run one TU: static_assert(mag<a>()*mag<b>() == mag<a*b>()) for every case and print the three
    factorisations.  Returns (rc, output lines)."""
    src = os.path.join(wd, f"mag_{tag}.cc")
    exe = os.path.join(wd, f"mag_{tag}")
    body = [MAG_SER, "int main() {"]
    for (a, b) in cases:
        body.append(f"  static_assert(au::mag<{a}ull>() * au::mag<{b}ull>() == au::mag<{a * b}ull>(), \"C12 product\");")
        body.append(f"  static_assert(std::is_same<decltype(au::mag<{a}ull>() * au::mag<{b}ull>()), decltype(au::mag<{a * b}ull>())>::value, \"C12 type\");")
        body.append(f"  static_assert(std::is_same<decltype(au::mag<{b}ull>() * au::mag<{a}ull>()), decltype(au::mag<{a * b}ull>())>::value, \"C12 type (b * a)\");")
        body.append(f"  static_assert(au::mag<{b}ull>() * au::mag<{a}ull>() == au::mag<{a * b}ull>(), \"C12 product (b * a)\");")
        # regrouping through the smallest prime factor of a: (a / p) * (p * b)
        pa = factorize(a)[0][0] if a > 1 else 1
        if pa > 1 and pa * b < M64:
            body.append(f"  static_assert(std::is_same<decltype(au::mag<{a // pa}ull>() * au::mag<{pa * b}ull>()), decltype(au::mag<{a * b}ull>())>::value, \"C12 type (regrouped)\");")
        body.append(f"  ser(au::mag<{a}ull>()); ser(au::mag<{b}ull>()); ser(au::mag<{a * b}ull>());")
    # the helpers in constant evaluation (both compilers reject UB and would show a different value than the run-time calls)
    body.append("  namespace dd = au::detail;")
    for (op, a, b, n, valid) in CONSTEXPR_MOD_CASES:
        call = {"addmod": f"dd::add_mod({a}ull, {b}ull, {n}ull)", "submod": f"dd::sub_mod({a}ull, {b}ull, {n}ull)",
                "mulmod": f"dd::mul_mod({a}ull, {b}ull, {n}ull)", "powmod": f"dd::pow_mod({a}ull, {b}ull, {n}ull)",
                "halfmod": f"dd::half_mod_odd({a}ull, {n}ull)"}[op]
        body.append(f"  static_assert({call} == {mod_oracle(op, a, b, n)}ull, \"C12 constexpr {op}({a},{b},{n})\");")
    for n in CONSTEXPR_PRIME_CASES:
        body.append(f"  static_assert(dd::is_prime({n}ull) == {'true' if is_prime_det(n) else 'false'}, \"C12 constexpr is_prime({n})\");")
        if n > 1:
            f = factorize(n)
            body.append("  static_assert(" + " || ".join(f"dd::find_prime_factor({n}ull) == {p}ull" for p, _ in f) +
                        f", \"C12 constexpr find_prime_factor({n})\");")
    body.append("  return 0;\n}")
    open(src, "w").write("\n".join(body))
    extra = ["-fconstexpr-ops-limit=400000000", "-fconstexpr-loop-limit=50000000"] if compiler == "g++" else \
            ["-fconstexpr-steps=400000000"]
    try:
        rc, out = cxx(src, exe, compiler=compiler, std=std, san=False, extra=extra, timeout=2400)
    except Exception as ex:       # subprocess.TimeoutExpired: constant evaluation does not end
        return 124, f"compilation did not finish: {ex}"
    if rc != 0:
        return rc, out
    rc, o, e = run([exe])
    return rc, o


NEG_PRIME_PROBE = r'''
#include "au/magnitude.hh"
int main() { return sizeof(au::Prime<%dull>) > 100; }
'''


# ----------------------------------------------------------------------------------------------
# main
# ----------------------------------------------------------------------------------------------

def harness_failure_violation(ex, cfg, phase, violations):
    """A harness shard hit the watchdog or died: non-termination / crash of the implementation on an input."""
    info = ex.info
    cur = info.get("current")
    req = (info.get("request") or "").split()
    rec = None
    if info.get("phase") in ("SWEEP", "P", "ROUGH") and cur is not None:
        rec = {"kind": "P", "n": int(cur), "config": cfg, "observable": "termination", "request": info.get("request")}
    elif len(req) == 5 and req[0] == "A":
        rec = {"kind": "A", "op": req[1], "a": int(req[2]), "b": int(req[3]), "n": int(req[4]), "valid": True, "config": cfg,
               "observable": "termination"}
    elif len(req) == 3 and req[0] in ("G", "J", "R"):
        rec = {"kind": req[0], "x": int(req[1]), "y": int(req[2]), "config": cfg, "observable": "termination"}
    elif info.get("phase") == "RAND" and str(info.get("partial", "")).startswith("operands:"):
        ops = dict(t.split("=") for t in info["partial"][len("operands:"):].split(","))
        rec = {"kind": "A", "op": "mulmod", "a": int(ops["a"]), "b": int(ops["b"]), "n": int(ops["n"]), "valid": True, "config": cfg,
               "observable": "termination", "also": {"base": int(ops["base"]), "exp": int(ops["exp"]),
                                                     "note": "one of add/sub/mul/half(a % (n|1), n|1)/pow_mod(base, exp, n) on these operands"}}
    concrete = rec is not None
    if rec is None:
        rec = {"kind": "hang", "config": cfg, "phase": phase, "info": {k: str(v)[:1500] for k, v in info.items()}}
    violations.append({"what": f"implementation did not answer during {phase} under {cfg}: {info.get('what')}",
                       "class": "oracle-termination", "no_input": not concrete,
                       "broken": "harness request did not finish / trapped / harness died", "rec": rec})


def explore(tier, seed, rng, wd, violations):
    t0 = time.time()
    stats = {k: 0 for k in ("P_prime", "P_composite", "P_rho", "P_spsp2", "P_slpsp", "A_valid", "is_perfect_square_wrong")}
    samples = []
    budget = 60 if tier == "quick" else 600      # seconds per harness request before the watchdog fires
    std2 = ["c++14", "c++17", "c++20"][seed % 3]
    configs = [("clang++-14", std2, "c" + std2[-2:]), ("g++", "c++14", "g14")]
    if tier == "thorough":
        configs += [("g++", "c++20", "g20"), ("clang++-14", ["c++14", "c++17", "c++20"][(seed + 1) % 3], "cB")]
    exes = []
    configs = [c + (False,) for c in configs] + [("clang++-14", "c++14", "wrap", True)]

    def do_build(c):
        return c, build_harness(wd, c[0], c[1], c[2], wrapcount=c[3])
    for (compiler, std, tag, wc), (exe, out) in pmap(do_build, configs):
        if exe is None:
            violations.append({"what": f"harness does not compile under {compiler} -std={std} (the au::detail API changed?)",
                               "class": "harness-build", "no_input": True, "broken": "correspondence: harness build",
                               "rec": {"kind": "build", "config": f"{compiler} {std}", "output": out[-3000:]}})
        else:
            exes.append((exe, f"{compiler} -std={std}" + (" [wrap-count build]" if wc else " [ASan+UBSan]"), wc))
    stats["t_build"] = round(time.time() - t0, 1)
    if not any(not w for _, _, w in exes) or not any(w for _, _, w in exes):
        return {"evaluations": 0, "distinct_nontrivial": 0, "rule": "harness did not build", "samples": []}, stats
    stats["configs"] = [c for _, c, _ in exes]

    # ---- 1. exhaustive sweep vs sieve (first configuration; the second sweeps a seed-chosen window) ----
    plimit = 1 << (26 if tier == "quick" else 30)
    flimit = 1 << (24 if tier == "quick" else 28)
    seg = 1 << 20
    sweep_lines = [f"SWEEP {lo} {min(lo + seg, plimit)} {flimit}" for lo in range(0, plimit, seg)]
    # a few windows above the exhaustive range (sieve works on any window below 2^40 cheaply)
    for _ in range(4 if tier == "quick" else 32):
        e = rng.randrange(27, 40)
        lo = rng.randrange(1 << e, (1 << (e + 1)) - (1 << 16))
        sweep_lines.append(f"SWEEP {lo} {lo + (1 << 16)} {lo + (1 << 12)}")
    sweep_total = {"n": 0, "primes": 0, "fn": 0, "nontrivial_factor": 0}
    for ci, (exe, cfg, wc) in enumerate(exes):
        lines = sweep_lines if ci == 0 else rng.sample(sweep_lines, max(4, len(sweep_lines) // 16))
        try:
            ans, errs = run_sharded(exe, lines, heavy=lambda l: True, budget=budget)
        except HarnessFailure as ex:
            harness_failure_violation(ex, cfg, "sweep", violations)
            continue
        check_stderr(errs, cfg, wc, "sweep", violations)
        for l, a in zip(lines, ans):
            r = kv(a)
            for k in sweep_total:
                sweep_total[k] += int(r[k])
            if len(samples) < 2:
                samples.append({"request": l, "harness": a, "config": cfg})
            lo = int(l.split()[1])
            if int(r["prime_bad"]):
                n = int(r["first"])
                violations.append({"what": f"is_prime({n}) disagrees with the sieve ({r['prime_bad']} value(s) in this segment)",
                                   "class": f"oracle-isprime-{n}", "rec": {"kind": "P", "n": n, "config": cfg, "observable": "is_prime",
                                                                          "segment": l}})
            if int(r["factor_bad"]):
                n = int(r["ffirst"])
                violations.append({"what": f"find_prime_factor({n}) = {r['fgot']} is not a prime divisor ({r['factor_bad']} in this segment)",
                                   "class": f"oracle-factor-{n}", "rec": {"kind": "P", "n": n, "config": cfg,
                                                                         "observable": "find_prime_factor", "segment": l}})
            if wc and int(r["ub"]):
                violations.append({"what": f"unsigned wrap-around inside is_prime / find_prime_factor for some n in {l} "
                                           f"({r['ub']} wrapping operation(s); nothing in these functions may wrap)",
                                   "class": "oracle-wrap-sweep", "rec": {"kind": "sweep", "segment": l, "config": cfg}})
    # ---- 1b. numbers with >= 3 prime factors, all beyond the trial-division table (rho may find a composite divisor) ----
    c3 = 2642245                                   # floor(cbrt(2^64))
    # (window sizes keep every request far below the harness watchdog even on a saturated machine: rho on n ~ 2^60 under
    # sanitizers costs ~0.1 ms per product)
    rough_lines = ["ROUGH 542 1000 3", "ROUGH 1000 1300 3", "ROUGH 542 760 4", "ROUGH 65300 65800 3", "ROUGH 65350 65536 4",
                   f"ROUGH {c3 - 250} {c3} 3", "ROUGH 1048400 1048700 3"]
    for _ in range(6 if tier == "quick" else 120):
        lo = rng.randrange(1300, c3 - 2000)
        rough_lines.append(f"ROUGH {lo} {lo + (200 if tier == 'quick' else 400)} 3")
    # every product of FOUR primes from the first window beyond the table (a composite rho divisor that is split only once
    # still has two prime factors): ~6.5 M products below 1300 (quick), ~80 M below 2000 (thorough), sharded by the smallest prime
    hi4 = 1300 if tier == "quick" else 2000
    n4 = sum(1 for q in range(543, hi4, 2) if all(q % d for d in range(3, int(q ** 0.5) + 1, 2)))
    step = 2 if tier == "quick" else 1
    rough4 = [f"ROUGH 542 {hi4} 4 {i} {min(i + step, n4)}" for i in range(0, n4, step)]
    # every product of FIVE primes from a window just beyond the table, sharded by the smallest prime
    hi5 = 660 if tier == "quick" else 800
    n5 = sum(1 for q in range(543, hi5, 2) if all(q % d for d in range(3, int(q ** 0.5) + 1, 2)))
    rough5 = [f"ROUGH 542 {hi5} 5 {i} {min(i + 2, n5)}" for i in range(0, n5, 2)]
    rough_lines += rough5
    rough_total = {"n": 0, "factor_bad": 0}
    for ci, (exe, cfg, wc) in enumerate(exes):
        lines = rough_lines + rough4 if ci == 0 else rough_lines[:3] + rng.sample(rough4, 4)
        try:
            ans, errs = run_sharded(exe, lines, heavy=lambda l: True, budget=budget)
        except HarnessFailure as ex:
            harness_failure_violation(ex, cfg, "rough", violations)
            continue
        check_stderr(errs, cfg, wc, "rough", violations)
        for l, a in zip(lines, ans):
            r = kv(a)
            rough_total["n"] += int(r["n"])
            rough_total["factor_bad"] += int(r["factor_bad"])
            if int(r["factor_bad"]):
                n = int(r["ffirst"])
                violations.append({"what": f"find_prime_factor({n}) = {r['fgot']} is not a prime divisor ({r['factor_bad']} product(s) of "
                                           f"{l.split()[3]} primes in [{l.split()[1]}, {l.split()[2]}))",
                                   "class": f"oracle-factor-{n}", "rec": {"kind": "P", "n": n, "config": cfg,
                                                                         "observable": "find_prime_factor", "segment": l}})
            if wc and int(r["ub"]):
                violations.append({"what": f"unsigned wrap-around inside find_prime_factor during {l}", "class": "oracle-wrap-rough",
                                   "rec": {"kind": "sweep", "segment": l, "config": cfg}})
    stats["rough_products"] = dict(rough_total, windows=len(rough_lines), four_prime_requests=len(rough4), four_prime_window=[542, hi4])
    stats["t_sweep"] = round(time.time() - t0, 1)
    stats["sweep"] = dict(sweep_total, is_prime_below=plimit, find_prime_factor_below=flimit, windows_above=len(sweep_lines) - plimit // seg)

    # ---- 2. bulk modular-helper triples vs __int128 (in-process) ----
    per = 60000 if tier == "quick" else 1500000
    rand_lines = [f"RAND {rng.randrange(1, 1 << 62)} {per}" for _ in range(16)]
    rand_total = {"n": 0, "slow_path": 0, "big_modulus": 0}
    for (exe, cfg, wrapdet) in exes:
        try:
            ans, errs = run_sharded(exe, rand_lines, heavy=lambda l: True, budget=budget)
        except HarnessFailure as ex:
            harness_failure_violation(ex, cfg, "bulk modular helpers", violations)
            continue
        check_stderr(errs, cfg, wrapdet, "bulk modular helpers", violations)
        for l, a in zip(rand_lines, ans):
            r = kv(a)
            for k in rand_total:
                rand_total[k] += int(r[k])
            if int(r["bad"]):
                op, x, y, n, bs, ex = r["first"].split(":")
                rec = {"kind": "A", "op": op, "a": int(x), "b": int(y), "n": int(n), "valid": True, "config": cfg, "bulk": l}
                if op == "powmod":
                    rec.update(a=int(bs), b=int(ex))
                if op == "halfmod":
                    rec.update(n=int(n) | 1, a=int(x) % (int(n) | 1), b=0)
                violations.append({"what": f"{op} differs from exact 128-bit arithmetic ({r['bad']} case(s)); first: {r['first']}",
                                   "class": f"oracle-A-{op}", "rec": rec})
            if wrapdet and int(r["wraps"]):
                violations.append({"what": f"unsigned wrap-around inside a modular helper during {l} ({r['wraps']} report(s))",
                                   "class": "oracle-A-wrap-bulk", "rec": {"kind": "bulk", "line": l, "config": cfg}})
        if len(samples) < 4:
            samples.append({"request": rand_lines[0], "harness": ans[0], "config": cfg})
    stats["bulk_mod"] = rand_total
    stats["t_bulk"] = round(time.time() - t0, 1)

    # ---- 3. single requests: model vs implementation vs oracle ----
    adv = gen_adversarial(rng, tier)
    stats["adversarial"] = {k: len(v) for k, v in adv.items()}
    plist = []
    for cls, vs in adv.items():
        for n in vs:
            plist.append((n, cls))
    nr = 1500 if tier == "quick" else 12000
    plist += [(n, "small") for n in range(0, 600)]
    plist += [(rng.randrange(0, 1 << 26), "random26") for _ in range(nr // 3)]     # (the sweep covers this range exhaustively)
    plist += [(rng.randrange(1 << 26, 1 << 40) | 1, "random40") for _ in range(nr // 3)]
    plist += [(rng.randrange(1 << 40, M64) | 1, "random64") for _ in range(nr // 3)]
    plist += [(rng.randrange(1 << 63, M64), "random64hi") for _ in range(nr // 6)]
    # primes only (random composites starve the PROBABLY_PRIME paths)
    for _ in range(nr // 6):
        plist.append((next_prime(rng.randrange(1 << 20, M64 - (1 << 20))), "random_prime"))
    seen = set()
    plist = [x for x in plist if not (x[0] in seen or seen.add(x[0]))]
    # the model's Pollard rho is slow on Nat: cap the number of rho-heavy requests (two large prime factors)
    heavy_cls = {"semiprimes_near_2^16_2^31_2^32", "prime_squares", "slpsp_twin_products", "spsp2_p_2p_minus_1", "carmichael_chernick"}
    heavy_cap = 40 if tier == "quick" else 160
    heavy_seen = 0
    pl2 = []
    for n, cls in plist:
        if cls in heavy_cls and n > (1 << 50):
            heavy_seen += 1
            if heavy_seen > heavy_cap:
                continue
        pl2.append((n, cls))
    plist = pl2
    def pcmd(cls):
        return "P"
    p_lines = [f"{pcmd(cls)} {n}" for n, cls in plist]
    model_P = ask_model([f"c12 {pcmd(cls)} {n}" for n, cls in plist])

    acases = gen_mod_cases(rng, tier)
    a_lines = [f"A {op} {a} {b} {n}" for (op, a, b, n, _) in acases]
    model_A = ask_model([f"c12 {op} {a} {b} {n}" if op != "halfmod" else f"c12 halfmod {a} {n}" for (op, a, b, n, _) in acases])
    # never execute in C++ what the model says is a division by zero (it would trap)
    keepA_all = [i for i, m in enumerate(model_A) if kv(m).get("divz") == "0" or acases[i][4]]
    keepA = keepA_all

    # small functions: gcd, decompose, jacobi, miller_rabin with other bases
    misc = []
    for _ in range(300 if tier == "quick" else 3000):
        e1, e2 = rng.randrange(1, 65), rng.randrange(1, 65)
        x, y = rng.randrange(0, 1 << e1), rng.randrange(0, 1 << e2)
        g = rng.choice([1, 1, rng.randrange(1, 1 << 16)])
        if x * g < M64 and y * g < M64:
            x, y = x * g, y * g
        misc.append(("G", x, y))
        v = rng.randrange(1, 1 << e1)
        misc.append(("D", v << rng.randrange(0, 65 - e1), 0))
        nn = rng.randrange(1, 1 << e2) | 1
        aa = rng.choice([rng.randrange(-(1 << 31), 1 << 31), rng.randrange(-20, 20), rng.choice([5, -7, 9, -11, 13, -15, 17]),
                         rng.randrange(-(1 << 63) + 1, 1 << 63)])
        misc.append(("J", aa, nn))
        base = rng.choice([2, 3, 5, 7, 11, 13, 0, 1, rng.randrange(2, 1 << 16), rng.randrange(2, M64 - 2)])
        nm = rng.choice([nn, next_prime(nn), rng.choice(adv["known_spsp"]), rng.choice(adv["carmichael_small"]), nn + 1, base + 1, base + 2,
                         base + 3])
        if nm < M64:
            misc.append(("R", base, nm))
    misc += [("G", 0, 0), ("G", 0, 5), ("G", 5, 0), ("G", MAXU, MAXU - 1), ("D", 1 << 63, 0), ("D", MAXU, 0), ("D", 1, 0),
             ("J", 0, 1), ("J", 5, 1), ("J", 0, 3), ("J", -1, 3), ("J", -1, 5), ("J", 2, 15), ("R", 2, 3), ("R", 2, 4), ("R", 2, 5),
             ("R", MAXU - 3, MAXU), ("R", 2, 2047), ("R", 3, 2047), ("R", 2, MAXU)]
    for n in range(1, 200, 2):
        for a in (-7, -3, -1, 2, 3, 5, 9, -11, 13):
            misc.append(("J", a, n))
    misc += fixed_misc_cases()
    misc = list(dict.fromkeys(misc))
    mnames = {"G": "gcd", "D": "decompose", "J": "jacobi", "R": "mr"}
    m_lines = [f"{k} {x} {y}" if k != "D" else f"D {x}" for (k, x, y) in misc]
    model_M = ask_model([f"c12 {mnames[k]} {x} {y}" if k != "D" else f"c12 decompose {x}" for (k, x, y) in misc])
    stats["misc"] = {k: sum(1 for c in misc if c[0] == k) for k in mnames}

    distinct = set()
    for (exe, cfg, wrapdet) in exes:
        # requests outside the documented preconditions wrap legitimately: only the wrap-count build runs them
        keepA = keepA_all if wrapdet else [i for i in keepA_all if acases[i][4]]
        lines = p_lines + [a_lines[i] for i in keepA] + m_lines
        try:
            ans, errs = run_sharded(exe, lines, heavy=lambda l: l[0] == "P", budget=budget)
        except HarnessFailure as ex:
            harness_failure_violation(ex, cfg, "single requests", violations)
            continue
        check_stderr(errs, cfg, wrapdet, "single requests", violations)
        with open(os.path.join(wd, "stderr_" + os.path.basename(exe) + ".txt"), "w") as ef:
            ef.write("\n".join(errs)[-2000000:])
        pa = ans[:len(p_lines)]
        aa = ans[len(p_lines):len(p_lines) + len(keepA)]
        ma = ans[len(p_lines) + len(keepA):]
        for (n, cls), a, m in zip(plist, pa, model_P):
            judge_P(n, cls, a, m, cfg, wrapdet, violations, stats)
            distinct.add(("P", n))
        for i, a in zip(keepA, aa):
            judge_A(acases[i], a, model_A[i], cfg, wrapdet, violations, stats)
            distinct.add(("A",) + acases[i][:4])
        for (k, x, y), a, m in zip(misc, ma, model_M):
            r, mm = kv(a), kv(m)
            base = {"kind": k, "x": x, "y": y, "config": cfg, "impl": a, "model": m}
            distinct.add((k, x, y))
            if k == "D":
                same = r["s"] == mm["s"] and r["d"] == mm["d"]
                s = (x & -x).bit_length() - 1
                okv = int(r["s"]) == s and int(r["d"]) == x >> s
            elif k == "G":
                same = r["val"] == mm["val"]
                okv = int(r["val"]) == math.gcd(x, y)
            elif k == "J":
                same = r["val"] == mm["val"]
                want = jacobi_ref(x, y)
                if y < (1 << 20):
                    assert want == jacobi_euler(x, y), (x, y)
                okv = int(r["val"]) == want
            else:
                same = r["val"] == mm["val"]
                if x < 2 or y < x + 2 or y % 2 == 0:
                    want = "BAD_INPUT"
                else:
                    want = "PROBABLY_PRIME" if sprp(y, x) else "COMPOSITE"
                # a >= 2^64 - 2: `a + 2u` wraps in the precondition test itself (observation; model compared only)
                corner = x + 2 >= M64
                okv = corner or r["val"] == want
                if wrapdet and r["wraps"] != "0" and want != "BAD_INPUT" and not corner:
                    violations.append({"what": f"unsigned wrap-around inside miller_rabin({x}, {y})", "class": "oracle-wrap-R", "rec": base})
            if not same or any(mm.get(f) not in (None, "0") for f in ("divz", "stuck")):
                violations.append({"what": f"model and implementation differ: {mnames[k]}({x}, {y})", "class": f"corr-{k}", "no_input": True,
                                   "broken": f"correspondence: c12 {mnames[k]}", "rec": base})
            if not okv:
                violations.append({"what": f"{mnames[k]}({x}, {y}) is not the exact mathematical value: {a}", "class": f"oracle-{k}",
                                   "rec": base})
        for idx in (0, len(p_lines) // 2, len(p_lines) - 1):
            if len(samples) < 10:
                samples.append({"request": p_lines[idx], "harness": pa[idx], "model": model_P[idx], "config": cfg})
        if aa and len(samples) < 14:
            samples.append({"request": a_lines[keepA[len(keepA) // 2]], "harness": aa[len(aa) // 2], "model": model_A[keepA[len(keepA) // 2]],
                            "config": cfg})
    stats["single_requests"] = {"P": len(p_lines), "A": len(keepA), "misc": len(m_lines), "configs": len(exes)}
    stats["A_ops"] = {op: sum(1 for c in acases if c[0] == op) for op in ("addmod", "submod", "mulmod", "halfmod", "powmod")}
    stats["A_slow_path_mulmod"] = sum(1 for c in acases if c[0] == "mulmod" and not (c[2] == 0 or c[1] < MAXU // c[2]))
    stats["A_modulus_above_2^63"] = sum(1 for c in acases if c[3] > (1 << 63))
    depth = {}
    for c in acases:
        if c[0] == "mulmod" and c[4]:
            dd = mul_mod_depth(c[1], c[2], c[3])
            depth[dd] = depth.get(dd, 0) + 1
    stats["A_mulmod_recursion_depth"] = {str(k): v for k, v in sorted(depth.items())}
    # coverage guards: the directed classes must really have been judged in this run (a starved generator is a broken check)
    guards = {
        "strong base-2 pseudoprimes judged (composite, miller_rabin(2) = PROBABLY_PRIME)": (stats["P_spsp2"], 40 * len(exes)),
        "strong Lucas pseudoprimes judged (composite, strong_lucas = PROBABLY_PRIME)": (stats["P_slpsp"], 30 * len(exes)),
        "Pollard-rho exits of find_prime_factor judged": (stats["P_rho"], 100 * len(exes)),
        "mul_mod slow-path cases": (stats["A_slow_path_mulmod"], 500),
        "mul_mod cases with recursion depth >= 3": (sum(v for k, v in depth.items() if k >= 3), 10),
        "moduli above 2^63": (stats["A_modulus_above_2^63"], 500),
        "prime powers p^k": (len(adv["prime_powers"]), 200),
    }
    for cls in adv:
        guards[f"adversarial class {cls} non-empty"] = (len(adv[cls]), 1)
    for what, (have, need) in guards.items():
        if have < need and not any(v.get("class") in ("harness-build", "oracle-termination") for v in violations):
            violations.append({"what": f"coverage guard: {what}: {have} < {need}", "class": "coverage-guard", "no_input": True,
                               "broken": "generator coverage", "rec": {"kind": "coverage", "what": what, "have": have, "need": need}})
    stats["coverage_guards"] = {k: v[0] for k, v in guards.items()}

    stats["t_single"] = round(time.time() - t0, 1)
    # ---- 4. mag<N>() probes ----
    mcases = gen_mag_cases(rng, tier)
    model_mag = ask_model([f"c12 magmul {a} {b}" for a, b in mcases])
    mag_cfgs = [("g++", "c++14", "g14"), ("clang++-14", std2, "c")] if tier == "quick" else \
               [("g++", "c++14", "g14"), ("g++", "c++20", "g20"), ("clang++-14", "c++14", "c14"), ("clang++-14", "c++20", "c20")]

    def do_mag(cfg):
        return cfg, mag_probe(wd, mcases, *cfg)
    for cfg, (rc, out) in pmap(do_mag, mag_cfgs):
        cname = f"{cfg[0]} -std={cfg[1]}"
        if rc != 0:
            # find the failing case, if a static_assert fired
            conc = "static assertion failed" in out or "static_assert failed" in out or "C12 product" in out or "C12 type" in out
            violations.append({"what": f"mag<a>()*mag<b>() == mag<a*b>() probe does not compile under {cname}",
                               "class": "oracle-mag-build", "no_input": not conc, "broken": "probe: mag product",
                               "rec": {"kind": "mag", "config": cname, "output": out[-3000:], "cases": mcases}})
            continue
        lines = [l for l in out.split("\n") if l]
        if len(lines) != 3 * len(mcases):
            violations.append({"what": "mag probe printed an unexpected number of lines", "class": "mag-lines", "no_input": True,
                               "broken": "probe: mag serializer", "rec": {"kind": "mag", "config": cname, "output": out[-2000:]}})
            continue
        for i, (a, b) in enumerate(mcases):
            ga, gb, gp = lines[3 * i:3 * i + 3]
            wa, wb, wp = mag_str(factorize(a)), mag_str(factorize(b)), mag_str(factorize(a * b))
            distinct.add(("mag", a, b))
            rec = {"kind": "mag", "a": a, "b": b, "config": cname, "impl": [ga, gb, gp], "want": [wa, wb, wp], "model": model_mag[i]}
            if (ga, gb, gp) != (wa, wb, wp):
                violations.append({"what": f"mag<{a}>, mag<{b}> or mag<{a * b}> is not the canonical prime factorisation",
                                   "class": f"oracle-mag-{a}-{b}", "rec": rec})
            mm = kv(model_mag[i])
            if mm.get("prodmag") != gp or mm.get("same") != "1" or mm.get("stuck") != "0":
                violations.append({"what": f"model and implementation differ on mag<{a * b}>", "class": "corr-mag", "no_input": True,
                                   "broken": "correspondence: c12 magmul", "rec": rec})
    stats["mag_cases"] = len(mcases)
    # Prime<N> static_assert: composites (incl. pseudoprimes) rejected, primes accepted
    # rejection for every pseudoprime / composite class, acceptance for primes at every boundary — on both compilers
    negs = [0, 1, 4, 9, 2047, 561, 5459, 3215031751, 4294967291 * 4294967279, 1 << 63, MAXU, 541 * 541, 547 * 547, 547 * 557 * 563,
            SPSP2_LARGE[0], SLPSP_LARGE[0], SQUARE_FALSE_POSITIVES[1], 4294967291 ** 2, 3825123056546413051, 341550071728321,
            SELFRIDGE_D_CASES[-31][1], SELFRIDGE_D_CASES[21][1], 2 * prev_prime(1 << 63),
            rng.choice(adv["carmichael_chernick"]), rng.choice(adv["spsp2_p_2p_minus_1"] or SPSP2_LARGE),
            rng.choice(adv["slpsp_twin_products"] or SLPSP_LARGE)]
    poss = [2, 3, 5, 541, 547, 65537, 4294967291, 4294967311, prev_prime(1 << 63), next_prime(1 << 63), prev_prime(1 << 64),
            2305843009213693951, 10785637507345693793, SELFRIDGE_D_CASES[-31][0], SELFRIDGE_D_CASES[29][0], SELFRIDGE_D_CASES[5][0]]

    def prime_probe(arg):
        n, should, comp = arg
        p = os.path.join(wd, f"primeprobe_{n}_{comp[:2]}.cc")
        open(p, "w").write(NEG_PRIME_PROBE % n)
        extra = ["-fconstexpr-ops-limit=400000000", "-fconstexpr-loop-limit=50000000"] if comp == "g++" else ["-fconstexpr-steps=400000000"]
        try:
            rc, out = cxx(p, None, compiler=comp, std="c++14" if comp == "g++" else std2, san=False, syntax_only=True, extra=extra, timeout=300)
        except Exception as ex:
            rc, out = 124, f"compilation did not finish: {ex}"
        return n, should, comp, rc, out
    pp_args = [(n, False, c) for n in negs for c in ("g++", "clang++-14")] + [(n, True, c) for n in poss for c in ("g++", "clang++-14")]
    # mag<0>() must be rejected ("Can only factor positive integers"): probed through the same template with a different body
    for n, should, comp, rc, out in pmap(prime_probe, pp_args):
        distinct.add(("Prime", n))
        rec = {"kind": "primeprobe", "n": n, "should_compile": should, "compiler": comp, "output": out[-800:]}
        if should and rc != 0:
            violations.append({"what": f"Prime<{n}> is rejected although {n} is prime", "class": f"oracle-Prime-{n}", "rec": rec})
        if not should and rc == 0:
            violations.append({"what": f"Prime<{n}> compiles although {n} is not prime", "class": f"oracle-Prime-{n}", "rec": rec})
        if not should and rc != 0 and "requires that N is prime" not in out:
            violations.append({"what": f"Prime<{n}> rejected for an unexpected reason", "class": "probe-allowlist", "no_input": True,
                               "broken": "probe allow-list", "rec": rec})
    stats["prime_probes"] = len(pp_args)
    # mag<0>() is rejected ("Can only factor positive integers"), mag<1>() is the empty magnitude
    for comp in ("g++", "clang++-14"):
        p0 = os.path.join(wd, f"mag0_{comp[:2]}.cc")
        open(p0, "w").write('#include "au/magnitude.hh"\nint main() { return sizeof(au::mag<0>()); }\n')
        rc, out = cxx(p0, None, compiler=comp, san=False, syntax_only=True)
        p1 = os.path.join(wd, f"mag1_{comp[:2]}.cc")
        open(p1, "w").write('#include "au/magnitude.hh"\nstatic_assert(std::is_same<decltype(au::mag<1>()), au::Magnitude<>>::value, "mag<1>");\n'
                            'int main() { return 0; }\n')
        rc1, out1 = cxx(p1, None, compiler=comp, san=False, syntax_only=True)
        distinct.add(("mag01", comp))
        if rc == 0 or "Can only factor positive integers" not in out:
            violations.append({"what": f"mag<0>() is not rejected with the library's static_assert under {comp}", "class": "oracle-mag0",
                               "rec": {"kind": "mag0", "compiler": comp, "output": out[-800:]}})
        if rc1 != 0:
            violations.append({"what": f"mag<1>() is not Magnitude<> under {comp}", "class": "oracle-mag1",
                               "rec": {"kind": "mag0", "compiler": comp, "output": out1[-800:]}})
    stats["t_probes"] = round(time.time() - t0, 1)

    evaluations = (sweep_total["n"] + sweep_total["fn"] + rand_total["n"] +
                   len(exes) * (len(p_lines) + len(keepA) + len(m_lines)) + len(mag_cfgs) * len(mcases) + stats["prime_probes"])
    coverage = {
        "evaluations": evaluations,
        "distinct_nontrivial": len(distinct),
        "rule": "evaluations = is_prime/find_prime_factor calls of the exhaustive sieve sweep (all n below the stated limits, plus "
                "windows above) + in-process modular-helper calls vs __int128 (guard-boundary directed + random, moduli above 2^63 "
                "included) + single requests compared three ways (implementation, Lean model, independent oracle) per compiler "
                "configuration + mag product probes + Prime<N> probes. distinct_nontrivial = distinct single-request cases "
                "(P n / A op a b n / gcd / decompose / jacobi / miller_rabin(a,n) / mag pair / Prime<n>)",
        "samples": samples,
        "exhaustive": False,
        "distribution": stats,
        "explore_s": round(time.time() - t0, 2),
    }
    return coverage, stats


def main(tier, seed):
    t0 = time.time()
    wd = workdir(PROP)
    violations = []
    extract_first_primes(wd, violations)
    proof = prove(PROP)
    rng = rng_for(PROP, seed)
    cov, _ = explore(tier, seed, rng, wd, violations)
    return finish(PROP, tier, seed, t0, proof, cov, violations, ASSUME)


def replay(path):
    rec = json.load(open(path))
    r = rec.get("rec", {})
    print(json.dumps(r, indent=1)[:3000])
    kind = r.get("kind")
    wd = workdir(PROP + "_replay")
    cfgs = r.get("config", "clang++-14 -std=c++14")
    wc = "wrap-count" in cfgs
    cfg = cfgs.split()[:2]
    if kind in ("P", "A", "G", "D", "J", "R"):
        exe, out = build_harness(wd, cfg[0], cfg[1].replace("-std=", ""), "rp", wrapcount=wc)
        if exe is None:
            print("replay: harness does not build:", out[-1500:])
            return 1
        viol, stats = [], {k: 0 for k in ("P_prime", "P_composite", "P_rho", "P_spsp2", "P_slpsp", "A_valid", "is_perfect_square_wrong")}
        if kind == "P":
            n = int(r["n"])
            try:
                pq = "P"
                a, _ = run_sharded(exe, [f"{pq} {n}"], shards=1, budget=60)
            except HarnessFailure as ex:
                print("impl  :", ex.info.get("what"))
                print(f"VIOLATION property={PROP} replay={path}")
                return 1
            m = ask_model([f"c12 {pq} {n}"], shards=1)
            print("impl  :", a[0]); print("model :", m[0]); print("oracle: prime =", is_prime_det(n), "factorisation =", factorize(n) if n > 1 else None)
            judge_P(n, r.get("class", "replay"), a[0], m[0], " ".join(cfg), wc, viol, stats)
        elif kind == "A":
            case = (r["op"], int(r["a"]), int(r["b"]), int(r["n"]), bool(r.get("valid", True)))
            a, _ = run_sharded(exe, [f"A {case[0]} {case[1]} {case[2]} {case[3]}"], shards=1)
            m = ask_model([f"c12 {case[0]} {case[1]} {case[2]} {case[3]}" if case[0] != "halfmod" else f"c12 halfmod {case[1]} {case[3]}"], shards=1)
            print("impl  :", a[0]); print("model :", m[0]); print("oracle:", mod_oracle(*case[:4]) if case[4] else "(outside preconditions)")
            judge_A(case, a[0], m[0], " ".join(cfg), wc, viol, stats)
        else:
            names = {"G": "gcd", "D": "decompose", "J": "jacobi", "R": "mr"}
            x, y = int(r["x"]), int(r["y"])
            a, _ = run_sharded(exe, [f"{kind} {x} {y}" if kind != "D" else f"D {x}"], shards=1)
            m = ask_model([f"c12 {names[kind]} {x} {y}" if kind != "D" else f"c12 decompose {x}"], shards=1)
            print("impl  :", a[0]); print("model :", m[0])
            if kv(a[0]).get("val", kv(a[0]).get("s")) != kv(m[0]).get("val", kv(m[0]).get("s")):
                viol.append({"what": "model and implementation differ", "no_input": True})
        if viol:
            for v in viol:
                print("  ", v["what"])
            conc = any(not v.get("no_input") for v in viol)
            print(f"VIOLATION property={PROP} replay={path}" + ("" if conc else " no-failing-input-found"))
            return 1
        print("replay: property holds on this case")
        return 0
    if kind == "mag":
        cases = [(int(r["a"]), int(r["b"]))] if "a" in r else [tuple(c) for c in r.get("cases", [])]
        rc, out = mag_probe(wd, cases, cfg[0], cfg[1].replace("-std=", ""), "rp")
        print(out[-3000:])
        want = []
        for a, b in cases:
            want += [mag_str(factorize(a)), mag_str(factorize(b)), mag_str(factorize(a * b))]
        if rc != 0 or [l for l in out.split("\n") if l] != want:
            print(f"VIOLATION property={PROP} replay={path}")
            return 1
        print("replay: property holds on this case")
        return 0
    if kind == "primeprobe":
        n = int(r["n"])
        p = os.path.join(wd, "pp.cc")
        open(p, "w").write(NEG_PRIME_PROBE % n)
        rc, out = cxx(p, None, san=False, syntax_only=True)
        ok = (rc == 0) == is_prime_det(n)
        print("compiles:", rc == 0, "prime:", is_prime_det(n))
        if not ok:
            print(f"VIOLATION property={PROP} replay={path}")
            return 1
        print("replay: property holds on this case")
        return 0
    print("replay: record names a broken obligation / relation rather than an input:", rec.get("broken"))
    print("re-running the whole check at the recorded tier and seed")
    return main(rec.get("tier", "quick"), int(rec.get("seed", 0)))
